/-
Model of `urllib.parse.urlsplit` / `urlunsplit` (CPython 3.12.1, str input, default arguments) and of
the `SplitResult` attributes werkzeug reads (`username`, `password`, `hostname`, `port`), so that
`iri_to_uri` / `uri_to_iri` / `get_current_url` can be modelled on whole URL text (C15).

Opaque parameters (`UrlOpaque`): `_check_bracketed_host` (the `ipaddress` module), the NFKC test of
`_checknetloc` for non-ASCII netlocs, and the host conversions - `hostname.lower()` (Unicode case
mapping) followed by the IDNA codec resp. `_decode_idna`. Validated by stream `urlsplit-kernel`.
Core Lean only.
-/
import WzVerif.Model.Url
namespace Wz.Url

structure UrlOpaque where
  /-- `_check_bracketed_host(h)` returns (does not raise ValueError) -/
  bracketOk : Str → Bool
  /-- `_checknetloc(n)` returns for a non-ASCII netloc `n` (NFKC normalisation test) -/
  nfkcOk : Str → Bool
  /-- `SplitResult.hostname` of the raw host text followed by `.encode("idna").decode("ascii")`;
  `none` = UnicodeError -/
  hostToAscii : Str → Option Str
  /-- `SplitResult.hostname` of the raw host text followed by `werkzeug.urls._decode_idna` -/
  hostToUnicode : Str → Option Str

def isC0OrSpace (c : Char) : Bool := c.toNat ≤ 0x20
def isTabCrLf (c : Char) : Bool := c == '\t' || c == '\r' || c == '\n'
def isAsciiAlpha (c : Char) : Bool := ('a' ≤ c && c ≤ 'z') || ('A' ≤ c && c ≤ 'Z')
def isAsciiDigit (c : Char) : Bool := '0' ≤ c && c ≤ '9'
/-- `urllib.parse.scheme_chars` -/
def isSchemeChar (c : Char) : Bool := isAsciiAlpha c || isAsciiDigit c || c == '+' || c == '-' || c == '.'
def asciiLower (c : Char) : Char := if 'A' ≤ c && c ≤ 'Z' then Char.ofNat (c.toNat + 32) else c

/-- `s.partition(d)` for a single character: `(before, some after)` at the first `d`, else `(s, none)` -/
def partitionChar (d : Char) : Str → Str × Option Str
  | [] => ([], none)
  | c :: t =>
    if c = d then ([], some t)
    else
      let r := partitionChar d t
      (c :: r.1, r.2)

/-- `s.rpartition(d)`: `(some before, after)` at the last `d`, else `(none, s)` -/
def rpartitionChar (d : Char) (s : Str) : Option Str × Str :=
  match partitionChar d s.reverse with
  | (a, some b) => (some b.reverse, a.reverse)
  | (_, none) => (none, s)

def isNetlocDelim (c : Char) : Bool := c == '/' || c == '?' || c == '#'

def allAscii (s : Str) : Bool := s.all fun c => c.toNat < 128

/-- `url.lstrip(C0 control or space)` and removal of TAB / CR / LF -/
def cleanUrl (url : Str) : Str := (url.dropWhile isC0OrSpace).filter fun c => !isTabCrLf c

/-- the scheme test: non-empty, starts with an ASCII letter, only `scheme_chars` -/
def validScheme (pre : Str) : Bool :=
  !pre.isEmpty && (pre.head?.map isAsciiAlpha).getD false && pre.all isSchemeChar

/-- `(scheme, rest)` -/
def splitScheme (url : Str) : Str × Str :=
  match partitionChar ':' url with
  | (pre, some post) => if validScheme pre then (pre.map asciiLower, post) else ([], url)
  | (_, none) => ([], url)

/-- `_splitnetloc(url, 2)` when `url[:2] == "//"`: `(netloc, rest)`, else `([], url)` -/
def splitNetloc (url : Str) : Str × Str :=
  if (['/', '/'] : Str).isPrefixOf url then
    ((url.drop 2).takeWhile (fun c => !isNetlocDelim c), (url.drop 2).dropWhile (fun c => !isNetlocDelim c))
  else ([], url)

/-- the bracket checks of `urlsplit` on a netloc: `false` = ValueError -/
def bracketsOk (o : UrlOpaque) (netloc : Str) : Bool :=
  let lb := netloc.contains '['
  let rb := netloc.contains ']'
  if lb != rb then false
  else if lb then o.bracketOk (partitionChar ']' ((partitionChar '[' netloc).2.getD [])).1
  else true

/-- `_checknetloc` -/
def netlocOk (o : UrlOpaque) (netloc : Str) : Bool :=
  netloc.isEmpty || allAscii netloc || o.nfkcOk netloc

/-- `s.split(d, 1)` when `d in s`, else `(s, "")` -/
def splitFirst (d : Char) (s : Str) : Str × Str :=
  match partitionChar d s with
  | (a, some b) => (a, b)
  | (a, none) => (a, [])

/-- `urlsplit(url)`; `.error` carries the exception class -/
def urlsplit (o : UrlOpaque) (url : Str) : Except String Split :=
  let s := splitScheme (cleanUrl url)
  let n := splitNetloc s.2
  if !bracketsOk o n.1 then .error "ValueError"
  else
    let f := splitFirst '#' n.2
    let q := splitFirst '?' f.1
    if !netlocOk o n.1 then .error "ValueError"
    else .ok { scheme := s.1, netloc := n.1, path := q.1, query := q.2, fragment := f.2 }

/-- `urllib.parse.uses_netloc` (with `itms-services`, which werkzeug.urls appends when missing) -/
def usesNetloc : List String :=
  ["", "ftp", "http", "gopher", "nntp", "telnet", "imap", "wais", "file", "mms", "https", "shttp",
   "snews", "prospero", "rtsp", "rtsps", "rtspu", "rsync", "svn", "svn+ssh", "sftp", "nfs", "git",
   "git+ssh", "ws", "wss", "itms-services"]

/-- `urlunsplit((scheme, netloc, path, query, fragment))` -/
def urlunsplit (t : Split) : Str :=
  let url := t.path
  let url :=
    if !t.netloc.isEmpty ||
        (!t.scheme.isEmpty && usesNetloc.contains (String.ofList t.scheme) && !(['/', '/'] : Str).isPrefixOf url)
    then
      let url := if !url.isEmpty && url.head? != some '/' then '/' :: url else url
      '/' :: '/' :: t.netloc ++ url
    else url
  let url := if !t.scheme.isEmpty then t.scheme ++ ':' :: url else url
  let url := if !t.query.isEmpty then url ++ '?' :: t.query else url
  if !t.fragment.isEmpty then url ++ '#' :: t.fragment else url

/-! ### SplitResult attributes -/

/-- `(username, password)` -/
def userinfo (netloc : Str) : Option Str × Option Str :=
  match rpartitionChar '@' netloc with
  | (some ui, _) =>
    match partitionChar ':' ui with
    | (u, some p) => (some u, some p)
    | (u, none) => (some u, none)
  | (none, _) => (none, none)

/-- the host / port split of `_hostinfo` on the text after the last `@` -/
def hostPortOf (hi : Str) : Str × Str :=
  match partitionChar '[' hi with
  | (_, some bracketed) =>
    let r := partitionChar ']' bracketed
    (r.1, ((partitionChar ':' (r.2.getD [])).2).getD [])
  | (_, none) =>
    let r := partitionChar ':' hi
    (r.1, r.2.getD [])

/-- `_hostinfo`: (raw hostname, port text or none) -/
def hostinfo (netloc : Str) : Str × Option Str :=
  let hp := hostPortOf (rpartitionChar '@' netloc).2
  (hp.1, if hp.2.isEmpty then none else some hp.2)

/-- `int(port)` for ASCII digits -/
def digitsToNat (ds : Str) : Nat := Nat.ofDigitChars 10 ds 0

/-- `SplitResult.port`; `.error "ValueError"` for a non-numeric or out-of-range port -/
def portOf (netloc : Str) : Except String (Option Nat) :=
  match (hostinfo netloc).2 with
  | none => .ok none
  | some p =>
    if p.all isAsciiDigit then
      let n := digitsToNat p
      if n ≤ 65535 then .ok (some n) else .error "ValueError"
    else .error "ValueError"

/-- the components `iri_to_uri` / `uri_to_iri` read, in their order of evaluation (hostname
conversion before the port); `conv` is the opaque host conversion of the direction -/
def partsOf (conv : Str → Option Str) (sp : Split) : Except String Parts :=
  let raw := (hostinfo sp.netloc).1
  let host : Except String Str :=
    if raw.isEmpty then .ok [] else
      match conv raw with
      | some h => .ok h
      | none => .error "UnicodeError"
  match host with
  | .error e => .error e
  | .ok h =>
    match portOf sp.netloc with
    | .error e => .error e
    | .ok port =>
      let ui := userinfo sp.netloc
      .ok { scheme := sp.scheme, username := ui.1, password := ui.2, host := h, port := port,
            path := sp.path, query := sp.query, fragment := sp.fragment }

/-- `werkzeug.urls.iri_to_uri(url)` on URL text -/
def iriToUriText (o : UrlOpaque) (url : Str) : Except String Str :=
  match urlsplit o url with
  | .error e => .error e
  | .ok sp =>
    match partsOf o.hostToAscii sp with
    | .error e => .error e
    | .ok p => .ok (urlunsplit (iriToUri p))

/-- `werkzeug.urls.uri_to_iri(url)` on URL text -/
def uriToIriText (o : UrlOpaque) (url : Str) : Except String Str :=
  match urlsplit o url with
  | .error e => .error e
  | .ok sp =>
    match partsOf o.hostToUnicode sp with
    | .error e => .error e
    | .ok p => .ok (urlunsplit (uriToIri p))

end Wz.Url
