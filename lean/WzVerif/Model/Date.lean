/-
Civil-date model for `werkzeug.http.http_date` / `parse_date` (property C06).

Instants are whole seconds since 0001-01-01T00:00:00 UTC (`t = (ordinal - 1) * 86400 + second of day`,
`ordinal` as in Python's `date.toordinal()`). `http_date` formats the proleptic Gregorian civil
fields of the instant as IMF-fixdate; `parseDate` is the restriction of
`email.utils.parsedate_to_datetime` to exactly that layout (the general RFC 2822 parser is
Python's: wherever this model answers `some t` the real parser must answer the same instant —
checked by the correspondence stream; it answers `none` on every other layout, where the real
parser may accept more).
-/
import WzVerif.Util.Bytes
import WzVerif.Gen.Http
namespace Wz.Date

abbrev Str := List Char

def isLeap (y : Nat) : Bool := y % 4 == 0 && (y % 100 != 0 || y % 400 == 0)

/-- days before January 1st of year `y` (`datetime._days_before_year`), `y ≥ 1` -/
def daysBeforeYear (y : Nat) : Nat :=
  let p := y - 1
  p * 365 + p / 4 - p / 100 + p / 400

def daysInMonth (leap : Bool) (m : Nat) : Nat :=
  match m with
  | 1 => 31 | 2 => if leap then 29 else 28 | 3 => 31 | 4 => 30 | 5 => 31 | 6 => 30
  | 7 => 31 | 8 => 31 | 9 => 30 | 10 => 31 | 11 => 30 | 12 => 31 | _ => 0

/-- days before the first of month `m` (1-based) -/
def daysBeforeMonth (leap : Bool) (m : Nat) : Nat :=
  match m with
  | 1 => 0 | 2 => 31
  | 3 => 59 + leap.toNat | 4 => 90 + leap.toNat | 5 => 120 + leap.toNat | 6 => 151 + leap.toNat
  | 7 => 181 + leap.toNat | 8 => 212 + leap.toNat | 9 => 243 + leap.toNat | 10 => 273 + leap.toNat
  | 11 => 304 + leap.toNat | 12 => 334 + leap.toNat | _ => 0

/-- `date(y, m, d).toordinal()` -/
def ymd2ord (y m d : Nat) : Nat := daysBeforeYear y + daysBeforeMonth (isLeap y) m + d

/-- month and day from the 0-based day of the year -/
def monthDay (leap : Bool) (yday : Nat) : Nat × Nat :=
  let l := leap.toNat
  if yday < 31 then (1, yday + 1)
  else if yday < 59 + l then (2, yday - 31 + 1)
  else if yday < 90 + l then (3, yday - (59 + l) + 1)
  else if yday < 120 + l then (4, yday - (90 + l) + 1)
  else if yday < 151 + l then (5, yday - (120 + l) + 1)
  else if yday < 181 + l then (6, yday - (151 + l) + 1)
  else if yday < 212 + l then (7, yday - (181 + l) + 1)
  else if yday < 243 + l then (8, yday - (212 + l) + 1)
  else if yday < 273 + l then (9, yday - (243 + l) + 1)
  else if yday < 304 + l then (10, yday - (273 + l) + 1)
  else if yday < 334 + l then (11, yday - (304 + l) + 1)
  else (12, yday - (334 + l) + 1)

/-- `date.fromordinal(n)` as (year, month, day), `n ≥ 1` (the 400/100/4/1-year cycle
decomposition of `datetime._ord2ymd`) -/
def ord2ymd (n : Nat) : Nat × Nat × Nat :=
  let n0 := n - 1
  let n400 := n0 / 146097
  let r1 := n0 % 146097
  let n100 := r1 / 36524
  let r2 := r1 % 36524
  let n4 := r2 / 1461
  let r3 := r2 % 1461
  let n1 := r3 / 365
  let r4 := r3 % 365
  let year := n400 * 400 + n100 * 100 + n4 * 4 + n1 + 1
  if n1 == 4 || n100 == 4 then (year - 1, 12, 31)
  else
    let (m, d) := monthDay (isLeap year) r4
    (year, m, d)

structure Civil where
  y : Nat
  mo : Nat
  d : Nat
  hh : Nat
  mi : Nat
  ss : Nat
  deriving DecidableEq, Repr

def civilOfSeconds (t : Nat) : Civil :=
  let (y, m, d) := ord2ymd (t / 86400 + 1)
  let s := t % 86400
  ⟨y, m, d, s / 3600, s % 3600 / 60, s % 60⟩

def secondsOfCivil (c : Civil) : Nat :=
  (ymd2ord c.y c.mo c.d - 1) * 86400 + c.hh * 3600 + c.mi * 60 + c.ss

/-- what `datetime(y, mo, d, hh, mi, ss)` accepts -/
def Civil.valid (c : Civil) : Bool :=
  1 ≤ c.y && c.y ≤ 9999 && 1 ≤ c.mo && c.mo ≤ 12 && 1 ≤ c.d && c.d ≤ daysInMonth (isLeap c.y) c.mo
    && c.hh < 24 && c.mi < 60 && c.ss < 60

/-- `date.weekday()`: Monday = 0 -/
def weekday (ordinal : Nat) : Nat := (ordinal + 6) % 7

def dayNames : List Str := Gen.Http.dayNames.map String.toList
def monthNames : List Str := Gen.Http.monthNames.map String.toList

/-- `%02d` -/
def pad2 (n : Nat) : Str := if n < 10 then '0' :: Nat.toDigits 10 n else Nat.toDigits 10 n
/-- `%04d` -/
def pad4 (n : Nat) : Str :=
  let ds := Nat.toDigits 10 n
  List.replicate (4 - ds.length) '0' ++ ds

/-- `email.utils.format_datetime(dt, usegmt=True)` over the civil fields -/
def formatCivil (c : Civil) : Str :=
  dayNames.getD (weekday (ymd2ord c.y c.mo c.d)) [] ++ ", ".toList ++ pad2 c.d ++ ' ' ::
    monthNames.getD (c.mo - 1) [] ++ ' ' :: pad4 c.y ++ ' ' :: pad2 c.hh ++ ':' :: pad2 c.mi ++ ':' ::
    pad2 c.ss ++ " GMT".toList

/-- `http_date(dt)` for the UTC instant `t` -/
def httpDate (t : Nat) : Str := formatCivil (civilOfSeconds t)

def num? (ds : Str) : Option Nat :=
  if !ds.isEmpty && ds.all Char.isDigit then some (Nat.ofDigitChars 10 ds 0) else none

def monthIndex? (name : Str) : Option Nat :=
  let rec go : List Str → Nat → Option Nat
    | [], _ => none
    | n :: t, i => if n == name then some i else go t (i + 1)
  go monthNames 1

/-- strict IMF-fixdate recogniser: `Day, DD Mon YYYY HH:MM:SS GMT` (the day name is not checked
against the date, as in `email.utils`; two-digit years get email.utils' century fix-up) -/
def parseImfFixdate (s : Str) : Option Civil :=
  match s with
  | [w1, w2, w3, ',', ' ', d1, d2, ' ', m1, m2, m3, ' ', y1, y2, y3, y4, ' ', h1, h2, ':', i1, i2, ':', s1, s2,
      ' ', 'G', 'M', 'T'] => do
    -- any three-letter word is dropped as the day name
    if !(w1.isAlpha && w2.isAlpha && w3.isAlpha) then none
    let d ← num? [d1, d2]
    let mo ← monthIndex? [m1, m2, m3]
    let y ← num? [y1, y2, y3, y4]
    let y := if y < 100 then (if y > 68 then y + 1900 else y + 2000) else y
    let hh ← num? [h1, h2]
    let mi ← num? [i1, i2]
    let ss ← num? [s1, s2]
    let c : Civil := ⟨y, mo, d, hh, mi, ss⟩
    if c.valid then some c else none
  | _ => none

/-- `parse_date(value)` restricted to the IMF-fixdate layout: the UTC instant -/
def parseDate (s : Str) : Option Nat := (parseImfFixdate s).map secondsOfCivil

/-- `http_date(dt)` for a datetime with civil fields `c` and UTC offset `off` seconds
(`None` offset = naive = UTC): the instant is normalised to UTC first (`_dt_as_utc`) -/
def httpDateAware (c : Civil) (off : Int) : Option Str :=
  let t : Int := (secondsOfCivil c : Int) - off
  -- `astimezone(utc)` raises OverflowError outside years 1..9999
  if t < 0 || t ≥ (ymd2ord 9999 12 31 : Int) * 86400 then none else some (httpDate t.toNat)

end Wz.Date
