/-
Model of `werkzeug.http.dump_cookie` (value + attribute assembly) and
`werkzeug.sansio.http.parse_cookie` / `werkzeug.http.parse_cookie`.

Tables (`Gen.Cookie.*`) are regenerated from the live regexes / dict on every run.
Hand-modelled: the control flow of `dump_cookie`, the `_cookie_re.findall` scanner
(for header strings without LF: `.` does not match LF and werkzeug's cookie strings come
from header lines), the unslash substitution. Validated by stream `C13.cookie`.
-/
import WzVerif.Util.Bytes
import WzVerif.Util.Py
import WzVerif.Gen.Cookie
namespace Wz.Cookie
open Wz

def tbl (t : List Bool) (n : Nat) : Bool := t.getD n false

def noQuoteChar (c : Char) : Bool :=
  if c.toNat < 256 then tbl Gen.Cookie.noQuote c.toNat else Gen.Cookie.noQuoteHigh

def inSlashSet (b : UInt8) : Bool := tbl Gen.Cookie.slashSet b.toNat

def slashEntry (b : UInt8) : Option Bytes := Gen.Cookie.slashMap.getD b.toNat none

/-- `_cookie_slash_re.sub(lambda m: _cookie_slash_map[m.group()], bs)`; `none` = KeyError. -/
def escapeBytes : Bytes → Option Bytes
  | [] => some []
  | b :: t =>
    match escapeBytes t with
    | none => none
    | some r => if inSlashSet b then (slashEntry b).map (· ++ r) else some (b :: r)

/-- `bytes.decode("ascii")`; `none` = UnicodeDecodeError. -/
def asciiDec : Bytes → Option (List Char)
  | [] => some []
  | b :: t => if b < 0x80 then (asciiDec t).map (Char.ofNat b.toNat :: ·) else none

/-- The value part of `dump_cookie`; `.error` carries the Python exception class that escapes. -/
def dumpValue (v : List Char) : Except String (List Char) :=
  if v.all noQuoteChar then .ok v
  else
    match escapeBytes (utf8Enc v) with
    | none => .error "KeyError"
    | some e =>
      match asciiDec e with
      | none => .error "UnicodeDecodeError"
      | some s => .ok ('"' :: s ++ ['"'])

/-! ### attribute assembly -/

inductive AttrVal where
  | none | flag (b : Bool) | text (s : List Char)

/-- `str.title()` restricted to ASCII letters (SameSite values). -/
def titleAscii (s : List Char) : List Char :=
  let rec go : List Char → Bool → List Char
    | [], _ => []
    | c :: t, prevCased =>
      if c.isAlpha then (if prevCased then c.toLower else c.toUpper) :: go t true
      else c :: go t false
  go s false

structure Attrs where
  domain : Option (List Char) := none      -- already IDNA-encoded text (IDNA is opaque)
  expires : Option (List Char) := none     -- already formatted date text (http_date is opaque here)
  maxAge : Option Int := none
  secure : Bool := false
  httponly : Bool := false
  path : Option (List Char) := some ['/']  -- already quoted path text (urllib.quote: see C15 model)
  samesite : Option (List Char) := none
  partitioned : Bool := false

def intText (i : Int) : List Char := (toString i).toList

/-- SameSite canonicalisation: `samesite.title()` must be one of the three words; `.error` = ValueError -/
def canonSameSite (ss : Option (List Char)) : Except String (Option (List Char)) :=
  match ss with
  | none => .ok none
  | some s =>
    let t := titleAscii s
    if t == "Strict".toList || t == "Lax".toList || t == "None".toList then .ok (some t)
    else .error "ValueError"

def kvPart (k : String) (v : Option (List Char)) : List (List Char) :=
  match v with | none => [] | some x => [k.toList ++ '=' :: x]

def flagPart (k : String) (b : Bool) : List (List Char) := if b then [k.toList] else []

/-- the attribute parts in `dump_cookie`'s fixed order (Partitioned implies Secure) -/
def attrParts (a : Attrs) (ss : Option (List Char)) : List (List Char) :=
  kvPart "Domain" a.domain ++ kvPart "Expires" a.expires ++ kvPart "Max-Age" (a.maxAge.map intText)
    ++ flagPart "Secure" (a.secure || a.partitioned) ++ flagPart "HttpOnly" a.httponly
    ++ kvPart "Path" a.path ++ kvPart "SameSite" ss ++ flagPart "Partitioned" a.partitioned

/-- `dump_cookie` after the opaque sub-steps; `.error` = the exception class that escapes
(`ValueError` for a bad SameSite, or an escape failure). -/
def dumpCookie (key : List Char) (value : List Char) (a : Attrs) : Except String (List Char) :=
  match canonSameSite a.samesite with
  | .error e => .error e
  | .ok ss =>
    match dumpValue value with
    | .error e => .error e
    | .ok hv =>
      .ok (List.intercalate "; ".toList
        ((Py.latin1Dec (utf8Enc key) ++ '=' :: hv) :: attrParts a ss))

/-! ### parsing -/

/-- body of a quoted string after the opening quote: `(?:[^\\"]|\\.)*"`;
returns (body, rest after the closing quote). -/
def quotedBody : List Char → Option (List Char × List Char)
  | [] => none
  | '"' :: rest => some ([], rest)
  | '\\' :: c :: rest =>
    if c == '\n' then none else
    match quotedBody rest with
    | some (b, r) => some ('\\' :: c :: b, r)
    | none => none
  | '\\' :: [] => none
  | c :: rest =>
    match quotedBody rest with
    | some (b, r) => some (c :: b, r)
    | none => none

def isSep (c : Char) : Bool := c == '=' || c == ';'

/-- second alternative of the value group: lazy `.*?` up to the first `;` -/
def alt2 (key r1 : List Char) : Option (List Char × List Char × List Char) :=
  match r1.dropWhile (· != ';') with
  | [] => none
  | _ :: rest =>
    some (key, Py.rstripBy Py.isReSpaceA (r1.takeWhile (· != ';')), rest.dropWhile Py.isReSpaceA)

/-- the value group after `=` and optional white space -/
def matchValue (key r1 : List Char) : Option (List Char × List Char × List Char) :=
  match r1 with
  | '"' :: q =>
    match quotedBody q with
    | some (b, after) =>
      match after.dropWhile Py.isReSpaceA with
      | ';' :: rest => some (key, '"' :: b ++ ['"'], rest.dropWhile Py.isReSpaceA)
      | _ => alt2 key r1
    | none => alt2 key r1
  | _ => alt2 key r1

/-- what follows the key: `;` (no value group) or `=` value -/
def matchRest (key r : List Char) : Option (List Char × List Char × List Char) :=
  match r with
  | [] => none
  | ';' :: rest => some (key, [], rest.dropWhile Py.isReSpaceA)
  | _ :: rest0 => matchValue key (rest0.dropWhile Py.isReSpaceA)

/-- one match of `_cookie_re` at the start of `s` (which contains a `;` and no LF):
returns (key, value, rest). -/
def matchOne (s : List Char) : Option (List Char × List Char × List Char) :=
  matchRest (s.takeWhile (fun c => !isSep c)) (s.dropWhile (fun c => !isSep c))

/-- `_cookie_re.findall` -/
def findAll : Nat → List Char → List (List Char × List Char)
  | 0, _ => []
  | _, [] => []
  | fuel + 1, s =>
    match matchOne s with
    | some (k, v, rest) =>
      -- an empty match cannot happen (the pattern consumes a `;`)
      (k, v) :: findAll fuel rest
    | none => findAll fuel s.tail

def byteTbl (t : List Bool) (b : UInt8) : Bool := tbl t b.toNat

/-- `_cookie_unslash_re.sub(_cookie_unslash_replace, bs)` -/
def unslash : Bytes → Bytes
  | [] => []
  | 0x5C :: a :: b :: c :: t2 =>
    if byteTbl Gen.Cookie.unslashOct1 a && byteTbl Gen.Cookie.unslashOct23 b
        && byteTbl Gen.Cookie.unslashOct23 c then
      UInt8.ofNat ((a.toNat - 48) * 64 + (b.toNat - 48) * 8 + (c.toNat - 48)) :: unslash t2
    else if byteTbl Gen.Cookie.unslashDot a then a :: unslash (b :: c :: t2)
    else 0x5C :: unslash (a :: b :: c :: t2)
  | 0x5C :: a :: t =>
    if byteTbl Gen.Cookie.unslashDot a then a :: unslash t
    else 0x5C :: unslash (a :: t)
  | b :: t => b :: unslash t
termination_by l => l.length

def unquoteValue (cv : List Char) : List Char :=
  match cv with
  | '"' :: rest =>
    match rest.reverse with
    | '"' :: midRev => Py.decodeReplace (unslash (utf8Enc midRev.reverse))
    | _ => cv
  | _ => cv

/-- the loop body of `parse_cookie`: strip, drop pairs with an empty name, unquote -/
def postProcess (l : List (List Char × List Char)) : List (List Char × List Char) :=
  l.filterMap fun p =>
    if (Py.strip p.1).isEmpty then none else some (Py.strip p.1, unquoteValue (Py.strip p.2))

/-- `sansio.http.parse_cookie` as a list of pairs in order. -/
def parseCookie (cookie : List Char) : List (List Char × List Char) :=
  if cookie.isEmpty then [] else
  postProcess (findAll ((cookie ++ [';']).length + 1) (cookie ++ [';']))

/-- `werkzeug.http.parse_cookie(str)`: latin-1 → UTF-8 (replace) dance first; `none` = UnicodeEncodeError
(only for text that cannot come from a WSGI environ). -/
def parseCookieEnviron (cookie : List Char) : Option (List (List Char × List Char)) :=
  if cookie.isEmpty then some [] else
  (Py.latin1Enc cookie).map fun bs => parseCookie (Py.decodeReplace bs)

/-- the `Cookie:` request header a client sends for a jar: pairs joined by `; ` -/
def jarText : List (List Char × List Char) → List Char
  | [] => []
  | [(k, hv)] => k ++ '=' :: hv
  | (k, hv) :: p :: t => k ++ '=' :: hv ++ ';' :: ' ' :: jarText (p :: t)

end Wz.Cookie
