/-
Instruction set for the bodies of `werkzeug.local.Local` / `LocalStack` methods.
`tools/gen/c18.py` translates the Python AST of those methods into lists of these primitive
effects (`Gen/LocalOps.lean`); `Model/Local.lean` gives them a heap semantics.
Core Lean only.
-/
namespace Wz.Local

/-- a local variable of the method body that holds a dict / list object -/
abbrev Reg := Nat

/-- primitive effects. `isList` distinguishes `[]` from `{}` literals. -/
inductive Op where
  /-- `dst = self.<storage>.get(<empty literal>)`: the object bound in the current context (shared
  with every context that holds the same reference) or a fresh empty default -/
  | load (dst : Reg) (isList : Bool)
  /-- `dst = src.copy()` (fresh object) -/
  | copy (dst src : Reg)
  /-- `dst = {}` / `dst = []` (fresh object) -/
  | fresh (dst : Reg) (isList : Bool)
  /-- `dst = src[:-1]` (fresh object) -/
  | sliceInit (dst src : Reg)
  /-- `r[name] = value` (in place) -/
  | setItem (r : Reg)
  /-- `del r[name]` (in place) -/
  | delItem (r : Reg)
  /-- `r.append(obj)` (in place) -/
  | append (r : Reg)
  /-- `self.<storage>.set(r)` -/
  | store (r : Reg)
  /-- branch condition `(name in r) == b` -/
  | assumeContains (r : Reg) (b : Bool)
  /-- branch condition `(len(r) == 0) == b` -/
  | assumeEmpty (r : Reg) (b : Bool)
  /-- `rv = r[-1]` -/
  | peekLast (r : Reg)
  /-- `return rv` -/
  | retAcc
  | retNone
  /-- `return r[name]` -/
  | retItem (r : Reg)
  /-- `return iter(r.items())` -/
  | retItems (r : Reg)
  /-- `return r[-1]` -/
  | retLast (r : Reg)
  /-- `return r` (the list object itself) -/
  | retReg (r : Reg)
  /-- `raise AttributeError(name)` -/
  | raiseAttr
deriving DecidableEq, Repr

/-- the test with which the `LocalStack` branch of `LocalProxy.__init__` decides that nothing is
bound (`if <test>: raise RuntimeError(unbound_message)` on `obj = local.top`) -/
inductive ProxyTest where
  /-- `obj is None` -/
  | isNone
  /-- `not obj`: would also reject every falsy bound object -/
  | falsy
deriving DecidableEq, Repr

/-- how `Local.__init__` / `LocalStack.__init__` obtain the `ContextVar` that stores the payload when
the caller passes none (`if context_var is None: context_var = <expr>`), read from the AST -/
inductive CtorKind where
  /-- `<expr>` is a direct call `ContextVar(...)` of the class imported from `contextvars`: every
  instance gets a var that nothing else holds -/
  | direct
  /-- `<expr>` goes through some other callable (`fn`): the var may be shared, cached or looked up -/
  | indirect (fn : String)
deriving DecidableEq, Repr

/-- which var a constructor call ends up with (the semantics `Model/LocalLife.lean` gives the kinds) -/
inductive VarPolicy where
  /-- a new var nobody else has -/
  | ownFresh
  /-- looked up in a table keyed by the var's *name*; the name is built from `id(self)`, and CPython
  hands the address of a freed object to the next allocation of the same size -/
  | memoByName
deriving DecidableEq, Repr

/-- the worst case the extracted fact admits -/
def CtorKind.policy : CtorKind → VarPolicy
  | .direct => .ownFresh
  | .indirect _ => .memoByName

/-- one `_ProxyLookup` attribute of `LocalProxy` (a forwarded special method / attribute) -/
structure LookupEntry where
  name : String
  /-- a `_ProxyIOp`: the in-place operator is applied to the bound object and the *proxy* is returned -/
  iop : Bool
  /-- the call is re-done on the object through a function (`repr`, `operator.add`, ...) rather
  than by `getattr(obj, name)` -/
  hasF : Bool
  hasFallback : Bool
  /-- the name is an attribute, not a method: the fallback is called at once -/
  isAttr : Bool
  /-- canonical text of the fallback's value on an unbound proxy ("" without fallback) -/
  fallback : String
deriving DecidableEq, Repr

/-- one control-flow path through a method body (branch conditions appear as `assume…`) -/
abbrev Path := List Op

/-- a method body: its control-flow paths in source order (exclusive and exhaustive) -/
abbrev Prog := List Path

end Wz.Local
