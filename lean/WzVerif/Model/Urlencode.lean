/-
Model of the URL-encoded form path:
* `urllib.parse.quote_from_bytes / quote_plus / urlencode` as used by `werkzeug.urls._urlencode`
  (stdlib: modelled and validated by stream `urlencode-kernels`, not verified);
* `urllib.parse.unquote / parse_qsl(keep_blank_values=…)` with the `werkzeug.url_quote` codec
  error handler (`werkzeug.urls._codec_error_url_quote`);
* `FormDataParser._parse_urlencoded`: the declared-length check and the bounded read of at most
  `max_form_memory_size + 1` bytes (as repaired by ad90b07) over a short-reading stream.
Generated: the `safe=` literal of `_urlencode` and urllib's always-safe byte table (Gen/Urlencode).
-/
import WzVerif.Util.Bytes
import WzVerif.Util.Py
import WzVerif.Gen.Urlencode
namespace Wz.Urlencode
open Wz

abbrev Str := List Char

/-! ### quoting -/

/-- urllib's `_ALWAYS_SAFE` (generated table) -/
def alwaysSafe (b : UInt8) : Bool := Gen.Urlencode.alwaysSafe.getD b.toNat false

/-- is byte `b` left alone by `quote_from_bytes(…, safe)`? (non-ASCII `safe` bytes are ignored) -/
def kept (safe : Bytes) (b : UInt8) : Bool := alwaysSafe b || (b < 128 && safe.contains b)

def hexUpper (n : Nat) : UInt8 := if n < 10 then UInt8.ofNat (48 + n) else UInt8.ofNat (55 + n)

/-- `%XX` -/
def pct (b : UInt8) : Bytes := [37, hexUpper (b.toNat / 16), hexUpper (b.toNat % 16)]

/-- `quote_from_bytes(bs, safe)` (ASCII output, as bytes) -/
def quoteFromBytes (safe : Bytes) (bs : Bytes) : Bytes :=
  bs.flatMap fun b => if kept safe b then [b] else pct b

/-- `quote_plus(bs, safe)`: with a space present, quote with `safe + ' '` and turn spaces into `+` -/
def quotePlus (safe : Bytes) (bs : Bytes) : Bytes :=
  if bs.contains 32 then (quoteFromBytes (safe ++ [32]) bs).map fun b => if b == 32 then 43 else b
  else quoteFromBytes safe bs

/-- `quote_plus(s, safe)` for `str` (UTF-8) -/
def quotePlusStr (safe : Bytes) (s : Str) : Bytes := quotePlus safe (utf8Enc s)

def joinWith (sep : UInt8) : List Bytes → Bytes
  | [] => []
  | [x] => x
  | x :: y :: t => x ++ sep :: joinWith sep (y :: t)

/-- `urlencode(items, safe=safe)` for `(str, str)` items (ASCII output, as bytes) -/
def urlencode (safe : Bytes) (items : List (Str × Str)) : Bytes :=
  joinWith 38 (items.map fun (k, v) => quotePlusStr safe k ++ 61 :: quotePlusStr safe v)

/-- `werkzeug.urls._urlencode` -/
def wzUrlencode (items : List (Str × Str)) : Bytes := urlencode Gen.Urlencode.urlencodeSafe items

/-! ### unquoting -/

def hexVal? (c : UInt8) : Option Nat :=
  if 48 ≤ c && c ≤ 57 then some (c.toNat - 48)
  else if 65 ≤ c && c ≤ 70 then some (c.toNat - 55)
  else if 97 ≤ c && c ≤ 102 then some (c.toNat - 87)
  else none

/-- `_unquote_impl` on bytes -/
def unquoteBytes : Bytes → Bytes
  | [] => []
  | [c] => [c]
  | [c, a] => [c, a]
  | c :: a :: b :: t =>
    if c == 37 then
      match hexVal? a, hexVal? b with
      | some x, some y => UInt8.ofNat (16 * x + y) :: unquoteBytes t
      | _, _ => 37 :: unquoteBytes (a :: b :: t)
    else c :: unquoteBytes (a :: b :: t)

@[inline] def inRange (b lo hi : UInt8) : Bool := lo ≤ b && b ≤ hi

def pctChars (b : UInt8) : Str := (pct b).map fun x => Char.ofNat x.toNat

/-- `bytes.decode("utf-8", "werkzeug.url_quote")` on invalid input: every maximal invalid subpart is
re-quoted byte by byte -/
def decodeQuoteFuel : Nat → Bytes → Str
  | 0, _ => []
  | _, [] => []
  | fuel + 1, b0 :: t =>
    let bad (seg : Bytes) (rest : Bytes) : Str := seg.flatMap pctChars ++ decodeQuoteFuel fuel rest
    if b0 < 0x80 then Char.ofNat b0.toNat :: decodeQuoteFuel fuel t
    else if inRange b0 0xC2 0xDF then
      match t with
      | b1 :: t1 =>
        if inRange b1 0x80 0xBF then
          Char.ofNat ((b0.toNat - 0xC0) * 64 + (b1.toNat - 0x80)) :: decodeQuoteFuel fuel t1
        else bad [b0] t
      | [] => bad [b0] t
    else if inRange b0 0xE0 0xEF then
      let lo : UInt8 := if b0 == 0xE0 then 0xA0 else 0x80
      let hi : UInt8 := if b0 == 0xED then 0x9F else 0xBF
      match t with
      | b1 :: t1 =>
        if inRange b1 lo hi then
          match t1 with
          | b2 :: t2 =>
            if inRange b2 0x80 0xBF then
              Char.ofNat ((b0.toNat - 0xE0) * 4096 + (b1.toNat - 0x80) * 64 + (b2.toNat - 0x80))
                :: decodeQuoteFuel fuel t2
            else bad [b0, b1] t1
          | [] => bad [b0, b1] t1
        else bad [b0] t
      | [] => bad [b0] t
    else if inRange b0 0xF0 0xF4 then
      let lo : UInt8 := if b0 == 0xF0 then 0x90 else 0x80
      let hi : UInt8 := if b0 == 0xF4 then 0x8F else 0xBF
      match t with
      | b1 :: t1 =>
        if inRange b1 lo hi then
          match t1 with
          | b2 :: t2 =>
            if inRange b2 0x80 0xBF then
              match t2 with
              | b3 :: t3 =>
                if inRange b3 0x80 0xBF then
                  Char.ofNat ((b0.toNat - 0xF0) * 262144 + (b1.toNat - 0x80) * 4096 +
                    (b2.toNat - 0x80) * 64 + (b3.toNat - 0x80)) :: decodeQuoteFuel fuel t3
                else bad [b0, b1, b2] t2
              | [] => bad [b0, b1, b2] t2
            else bad [b0, b1] t1
          | [] => bad [b0, b1] t1
        else bad [b0] t
      | [] => bad [b0] t
    else bad [b0] t

/-- `bytes.decode("utf-8", errors="werkzeug.url_quote")`: strict decoding on valid input (Lean
core's decoder), re-quoting scanner otherwise -/
def decodeUrlQuote (bs : Bytes) : Str :=
  match utf8Dec? bs with
  | some s => s
  | none => decodeQuoteFuel (bs.length + 1) bs

/-- one maximal ASCII run (collected in reverse): percent-decode, then decode -/
def flushRun (acc : Bytes) : Str :=
  if acc.isEmpty then [] else decodeUrlQuote (unquoteBytes acc.reverse)

def unquoteGo : Bytes → Str → Str
  | acc, [] => flushRun acc
  | acc, c :: t =>
    if c.toNat < 128 then unquoteGo (UInt8.ofNat c.toNat :: acc) t
    else flushRun acc ++ c :: unquoteGo [] t

/-- `unquote(s, "utf-8", "werkzeug.url_quote")` for `str`: maximal ASCII runs are percent-decoded
and decoded, other characters pass through -/
def unquote (s : Str) : Str := unquoteGo [] s

/-- `str.split(sep)` -/
def splitOn (sep : Char) : Str → List Str
  | [] => [[]]
  | c :: t =>
    if c == sep then [] :: splitOn sep t
    else
      match splitOn sep t with
      | h :: r => (c :: h) :: r
      | [] => [[c]]

def plusToSpace (s : Str) : Str := s.map fun c => if c == '+' then ' ' else c

/-- one `name=value` piece of `parse_qsl` (`none` = skipped) -/
def parsePair (keepBlank : Bool) (nv : Str) : Option (Str × Str) :=
  if nv.isEmpty then none
  else
    match nv.dropWhile (· != '=') with
    | [] => if keepBlank then some (unquote (plusToSpace (nv.takeWhile (· != '='))), []) else none
    | _ :: value =>
      if !value.isEmpty || keepBlank then
        some (unquote (plusToSpace (nv.takeWhile (· != '='))), unquote (plusToSpace value))
      else none

/-- `parse_qsl(qs, keep_blank_values=keepBlank, errors="werkzeug.url_quote")` for `str` -/
def parseQsl (keepBlank : Bool) (qs : Str) : List (Str × Str) :=
  if qs.isEmpty then [] else (splitOn '&' qs).filterMap (parsePair keepBlank)

/-- ASCII bytes as text -/
def asciiStr (bs : Bytes) : Str := bs.map fun b => Char.ofNat b.toNat

/-! ### `_parse_urlencoded`: declared length and bounded read -/

/-- `stream.read(n)` on a raw stream that returns at most `sched.head` (at least one) bytes:
(chunk, remaining schedule, remaining body) -/
def streamRead (n : Nat) (sched : List Nat) (body : Bytes) : Bytes × List Nat × Bytes :=
  let k := match sched with
    | [] => n
    | s :: _ => min n (max 1 s)
  (body.take k, sched.tail, body.drop k)

/-- the `while remaining > 0 and (chunk := stream.read(remaining))` loop; `held` is what is kept in
memory so far. Result: the data (or `.error "RequestEntityTooLarge"` when `remaining` reaches 0)
and the number of bytes held in memory when the loop ends (= bytes taken from the stream). -/
def boundedLoop : Nat → Nat → List Nat → Bytes → Bytes → Except String Bytes × Nat
  | 0, _, _, _, held => (.error "RequestEntityTooLarge", held.length)
  | fuel + 1, remaining, sched, body, held =>
    if remaining == 0 then (.error "RequestEntityTooLarge", held.length)
    else
      let (chunk, sched', body') := streamRead remaining sched body
      if chunk.isEmpty then (.ok held, held.length)
      else boundedLoop fuel (remaining - chunk.length) sched' body' (held ++ chunk)

/-- `content_length is not None and content_length > max_form_memory_size` -/
def declaredTooLarge (m : Nat) : Option Nat → Bool
  | some n => decide (n > m)
  | none => false

/-- the bytes `_parse_urlencoded` hands to `parse_qsl`, and how many bytes it took from the stream -/
def urlencodedRead (maxMem : Option Nat) (contentLength : Option Nat) (sched : List Nat) (body : Bytes) :
    Except String Bytes × Nat :=
  match maxMem with
  | none => (.ok body, body.length)
  | some m =>
    if declaredTooLarge m contentLength then (.error "RequestEntityTooLarge", 0)
    else boundedLoop (m + 2) (m + 1) sched body []

/-- `FormDataParser(max_form_memory_size=maxMem, silent=False)._parse_urlencoded` -/
def parseUrlencoded (maxMem : Option Nat) (contentLength : Option Nat) (sched : List Nat) (body : Bytes) :
    Except String (List (Str × Str)) :=
  match (urlencodedRead maxMem contentLength sched body).1 with
  | .error e => .error e
  | .ok data =>
    match utf8Dec? data with
    | none => .error "UnicodeDecodeError"
    | some s => .ok (parseQsl true s)

end Wz.Urlencode
