/-
Wire format helpers shared by the drivers of C08 / C16 / C05 (parsing of request fields, canonical
printing of Python values). Not part of any theorem.

Text atoms travel as hex of their UTF-8 (`-` = empty string), `~` = None.
  list of atoms      `[]` | a+b+c
  pair list          `[]` | k=v+k=v
  mapping entries    `[]` | k=v (scalar) | k:v1/v2 (list value, `k:` = empty list), joined by `+`
Printed values: text = hex, list `[a,b]`, tuple `(a,b)`, None `~`, bool `t`/`f`, int decimal,
exception `!ClassName`.
-/
import WzVerif.Util.Bytes
import WzVerif.Model.Headers
namespace Wz.Wire
open Wz Wz.Hdr

def pAtom (s : String) : Option Str := unhexStr s

def pOptAtom (s : String) : Option (Option Str) :=
  if s == "~" then some none else (pAtom s).map some

def pAtomsSep (sep : String) (s : String) : Option (List Str) :=
  if s == "[]" then some [] else (s.splitOn sep).mapM pAtom

def pAtoms (s : String) : Option (List Str) := pAtomsSep "+" s

def pPair (e : String) : Option Pair :=
  match e.splitOn "=" with
  | [k, v] => do
    let k ← pAtom k
    let v ← pAtom v
    pure (k, v)
  | _ => none

def pPairs (s : String) : Option (List Pair) :=
  if s == "[]" then some [] else (s.splitOn "+").mapM pPair

def pMapEntry (e : String) : Option (Str × MVal) :=
  match e.splitOn "=" with
  | [k, v] => do
    let k ← pAtom k
    let v ← pAtom v
    pure (k, .one v)
  | _ =>
    match e.splitOn ":" with
    | [k, vs] => do
      let k ← pAtom k
      let vs ← if vs == "" then some [] else (vs.splitOn "/").mapM pAtom
      pure (k, .many vs)
    | _ => none

def pMap (s : String) : Option MapArg :=
  if s == "[]" then some [] else (s.splitOn "+").mapM pMapEntry

def manyOnly : MapArg → Option (List (Str × List Str))
  | [] => some []
  | (k, .many vs) :: t => (manyOnly t).map ((k, vs) :: ·)
  | (_, .one _) :: _ => none

/-- `N` | `P,<pairs>` | `D,<map>` | `M,<lists>` | `H,<pairs>` given as tag and body -/
def pArg (tag body : String) : Option (Option Arg) :=
  if tag == "N" then some none
  else if tag == "P" then (pPairs body).map (fun l => some (.pairs l))
  else if tag == "D" then (pMap body).map (fun m => some (.mapping m))
  else if tag == "M" then ((pMap body).bind manyOnly).map (fun m => some (.multi m))
  else if tag == "H" then (pPairs body).map (fun l => some (.headers l))
  else none

def pInt (s : String) : Option Int := s.toInt?

def pOptInt (s : String) : Option (Option Int) :=
  if s == "~" then some none else (pInt s).map some

/-! printing -/

def oS (s : Str) : String := hexStr s
def oExc (e : String) : String := "!" ++ e
def oList (f : α → String) (l : List α) : String := "[" ++ ",".intercalate (l.map f) ++ "]"
def oPair (p : Pair) : String := "(" ++ oS p.1 ++ "," ++ oS p.2 ++ ")"
def oPairs (l : List Pair) : String := oList oPair l
def oStrs (l : List Str) : String := oList oS l
def oBool (b : Bool) : String := if b then "t" else "f"
def oInt (i : Int) : String := toString i
def oNat (n : Nat) : String := toString n
def oOpt (f : α → String) : Option α → String
  | none => "~"
  | some a => f a
def oExcept (f : α → String) : Except String α → String
  | .ok a => f a
  | .error e => oExc e
def oKList (l : List (Str × List Str)) : String :=
  oList (fun e => "(" ++ oS e.1 ++ "," ++ oStrs e.2 ++ ")") l

/-- Python `int(text)` restricted to an optional sign and ASCII digits (what the streams use) -/
def pyInt (s : Str) : Option Int :=
  let digits (d : List Char) : Option Nat :=
    if d.isEmpty || !d.all Char.isDigit then none
    else some (d.foldl (fun n c => n * 10 + (c.toNat - 48)) 0)
  match s with
  | '-' :: d => (digits d).map (fun n => -(n : Int))
  | '+' :: d => (digits d).map (fun n => (n : Int))
  | d => (digits d).map (fun n => (n : Int))

/-- insertion sort on the printed form (canonical order for Python sets) -/
def sortStrs (l : List String) : List String :=
  l.foldl (fun acc x =>
    let (a, b) := acc.span (fun y => y < x)
    a ++ x :: b) []

/-! Headers mutators on the wire (shared by the C08 / C16 / C05 drivers) -/

def pSlice (a b : String) : Option Slice := do
  let a ← pOptInt a
  let b ← pOptInt b
  pure ⟨a, b⟩

def pHdrOp (s : String) : Option Hdr.Op :=
  match s.splitOn "," with
  | ["add", k, v] => do pure (.add (← pAtom k) (← pAtom v))
  | ["set", k, v] => do pure (.set (← pAtom k) (← pAtom v))
  | ["setlist", k, vs] => do pure (.setlist (← pAtom k) (← pAtoms vs))
  | ["setdefault", k, v] => do pure (.setdefault (← pAtom k) (← pAtom v))
  | ["setlistdefault", k, vs] => do pure (.setlistdefault (← pAtom k) (← pAtoms vs))
  | ["extend", tag, body, kw] => do pure (.extend (← pArg tag body) (← pMap kw))
  | ["update", tag, body, kw] => do pure (.update (← pArg tag body) (← pMap kw))
  | ["setitem", k, v] => do pure (.setitemKey (← pAtom k) (← pAtom v))
  | ["setidx", i, k, v] => do pure (.setitemIdx (← pInt i) (← pAtom k, ← pAtom v))
  | ["setslice", a, b, ps] => do pure (.setitemSlice (← pSlice a b) (← pPairs ps))
  | ["delitem", k] => do pure (.delitemKey (← pAtom k))
  | ["delidx", i] => do pure (.delitemIdx (← pInt i))
  | ["delslice", a, b] => do pure (.delitemSlice (← pSlice a b))
  | ["remove", k] => do pure (.remove (← pAtom k))
  | ["pop"] => some .popLast
  | ["popkey", k, d] => do pure (.popKey (← pAtom k) (← pOptAtom d))
  | ["popidx", i] => do pure (.popIdx (← pInt i))
  | ["popitem"] => some .popitem
  | ["clear"] => some .clear
  | ["ior", tag, body] => do
    match ← pArg tag body with
    | some a => pure (.ior a)
    | none => none
  | _ => none

def oHdrRet : Hdr.Ret → String
  | .none => "~"
  | .str s => oS s
  | .pair p => oPair p
  | .strs l => oStrs l

end Wz.Wire
