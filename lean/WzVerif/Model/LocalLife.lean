/-
Object lifecycle on top of the heap / context model of `werkzeug.local` (C18).

`Model/Local.lean` speaks about *vars* (storage cells: one `ContextVar` each). This file adds the
`Local` / `LocalStack` *instances* that own them and their life cycle:

* `create pol addr isStack` - `Local()` / `LocalStack()` without `context_var`, allocated by CPython
  at address `addr` (`id(self)`); which var the instance ends up with is decided by the constructor's
  `VarPolicy` (read from the AST of `__init__` into `Gen/LocalOps.lean` on every run):
  `ownFresh` = a direct `ContextVar(...)` call, `memoByName` = a factory that remembers vars by
  name (the name contains `id(self)`);
* `createSharing h addr` - `Local(context_var = <the var of instance h>)`: a deliberately shared cell;
* `drop h` - the last reference to instance `h` goes away; its address may be handed out again;
  the values the contexts hold for its var stay where they are (a `Context` keeps var and value
  alive) - with or without `release_local` before;
* `gc` - `gc.collect()`: nothing observable;
* `call c h p a` - context `c` runs method body `p` on instance `h` (no-op for dropped / unknown
  handles: there is no reference to call through);
* `copyCtx`, `freshCtx` as before (they also copy / clear the values of bare application
  `ContextVar`s, `cv`); `cvSet c j x` - `var_j.set(x)` in context `c`.

Handles are creation indices and are never reused; addresses are. Core Lean only.
-/
import WzVerif.Model.Local
namespace Wz.Local

structure Inst where
  /-- the storage cell (`ContextVar`) this instance reads and writes -/
  var : Nat
  /-- `id(self)` -/
  addr : Nat
  isStack : Bool
  /-- created without an explicit `context_var` -/
  own : Bool
deriving DecidableEq, Repr

structure LWorld where
  w : World
  /-- number of `ContextVar`s created so far: every var in use is below it -/
  nvar : Nat
  /-- instance handle ↦ instance (append only) -/
  insts : List Inst
  /-- handles whose last reference is gone -/
  dead : List Nat
  /-- the table of a name-keyed factory: (address, class) ↦ var -/
  memo : List ((Nat × Bool) × Nat)
  /-- bare `ContextVar`s of the application (not wrapped in a `Local`): context ↦ var ↦ the value
  token `ContextVar.get` returns there (`none` = LookupError) -/
  cv : Nat → Nat → Option Nat := fun _ _ => none

def LWorld.init : LWorld := { w := World.init, nvar := 0, insts := [], dead := [], memo := [] }

inductive LEvent where
  | create (pol : VarPolicy) (addr : Nat) (isStack : Bool)
  | createSharing (h : Nat) (addr : Nat)
  | drop (h : Nat)
  | gc
  | call (c h : Nat) (p : Prog) (a : Args)
  | copyCtx (parent : Nat)
  | freshCtx
  /-- `var_j.set(x)` on a bare application `ContextVar` in context `c` -/
  | cvSet (c j x : Nat)

def memoLookup (memo : List ((Nat × Bool) × Nat)) (k : Nat × Bool) : Option Nat :=
  (memo.find? fun p => p.1 == k).map (·.2)

/-- the live instance behind a handle -/
def LWorld.inst? (lw : LWorld) (h : Nat) : Option Inst :=
  if lw.dead.contains h then none else lw.insts[h]?

def lstep (lw : LWorld) : LEvent → LWorld
  | .create .ownFresh addr st =>
    { lw with nvar := lw.nvar + 1, insts := lw.insts ++ [{ var := lw.nvar, addr, isStack := st, own := true }] }
  | .create .memoByName addr st =>
    match memoLookup lw.memo (addr, st) with
    | some v => { lw with insts := lw.insts ++ [{ var := v, addr, isStack := st, own := true }] }
    | none =>
      { lw with nvar := lw.nvar + 1,
                insts := lw.insts ++ [{ var := lw.nvar, addr, isStack := st, own := true }],
                memo := ((addr, st), lw.nvar) :: lw.memo }
  | .createSharing h addr =>
    match lw.inst? h with
    | some i => { lw with insts := lw.insts ++ [{ var := i.var, addr, isStack := i.isStack, own := false }] }
    | none => lw
  | .drop h => { lw with dead := h :: lw.dead }
  | .gc => lw
  | .call c h p a =>
    match lw.inst? h with
    | some i => { lw with w := stepEvent lw.w (.call c i.var p a) }
    | none => lw
  | .copyCtx parent =>
    { lw with w := stepEvent lw.w (.copyCtx parent),
              cv := fun c j => if c = lw.w.nctx then (if parent < lw.w.nctx then lw.cv parent j else none)
                               else lw.cv c j }
  | .freshCtx =>
    { lw with w := stepEvent lw.w .freshCtx,
              cv := fun c j => if c = lw.w.nctx then none else lw.cv c j }
  | .cvSet c j x =>
    if c < lw.w.nctx then { lw with cv := fun c' j' => if c' = c ∧ j' = j then some x else lw.cv c' j' }
    else lw

def lrun (lw : LWorld) (es : List LEvent) : LWorld := es.foldl lstep lw

/-- the instance created last -/
def LWorld.newest (lw : LWorld) : Option Inst := lw.insts.getLast?

/-- copy-on-write discipline of the method bodies that run (as `Event.cbw`) -/
def LEvent.cbw : LEvent → Prop
  | .call _ _ p _ => CopyBeforeWrite p
  | _ => True

/-- every constructor call without `context_var` makes its own var -/
def LEvent.ownVar : LEvent → Prop
  | .create pol _ _ => pol = .ownFresh
  | _ => True

/-- ... as the constructors extracted from the current source do: the event carries the policy of
the `CtorKind` read from `Local.__init__` / `LocalStack.__init__` -/
def LEvent.asExtracted : LEvent → Prop
  | .create pol _ st => pol = (if st then Gen.LocalOps.stackCtor else Gen.LocalOps.localCtor).policy
  | _ => True

/-- does event `e`, executed in `lw`, run in context `c'` on storage cell `v'`? -/
def LEvent.touches (lw : LWorld) (e : LEvent) (c' v' : Nat) : Prop :=
  match e with
  | .call c h _ _ => c = c' ∧ ∃ i, lw.inst? h = some i ∧ i.var = v'
  | _ => False

/-- no event of the history runs in context `c'` on cell `v'` -/
def NoTouch (c' v' : Nat) : LWorld → List LEvent → Prop
  | _, [] => True
  | lw, e :: t => ¬ e.touches lw c' v' ∧ NoTouch c' v' (lstep lw e) t

/-! ### `LocalManager` -/

/-- `release_local(local)` for the instance behind handle `h`, in context `c` -/
def releaseEvent (lw : LWorld) (c h : Nat) : LEvent :=
  .call c h (match lw.inst? h with
    | some i => if i.isStack then Gen.LocalOps.stackRelease else Gen.LocalOps.localRelease
    | none => Gen.LocalOps.localRelease) {}

/-- `LocalManager.cleanup`: `for local in self.locals: release_local(local)` in context `c`, for a
manager whose `.locals` are the instances `hs` -/
def cleanupRun (lw : LWorld) (c : Nat) : List Nat → LWorld
  | [] => lw
  | h :: t => cleanupRun (lstep lw (releaseEvent lw c h)) c t

end Wz.Local
