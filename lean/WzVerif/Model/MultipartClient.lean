/-
Model of the test-client side of multipart encoding: `werkzeug.test.stream_encode_multipart`
(and `encode_multipart`, `EnvironBuilder` with files, which call it) — the *event sequence* it sends
through `MultipartEncoder` for a mapping of text values and `FileStorage` values:

  Preamble(b""); per (key, value) of `_iter_data(data)`:
    text value   → Field(name=key, headers=Headers()), Data(value.encode(), more_data=False)
    file value   → content_type = value.content_type, else guessed from the file name, else
                   application/octet-stream; headers = value.headers with Content-Type set to it;
                   File(name=key, filename, headers) (Field when there is no file name);
                   Data(chunk, more_data=True) per 16 KiB read, then Data(b"", more_data=False)
  Epilogue(b"")

`mimetypes.guess_type` is an opaque parameter (`guess`). `Headers.set` is modelled by `hdrSet`
(validated by stream `client-roundtrip` through the content types that come back).
-/
import WzVerif.Model.Multipart
namespace Wz.Multipart
open Wz

/-- `Headers.set(key, value)`: replace the first entry with that name (case-insensitive) and drop the
later ones, or append -/
def hdrSet (key value : Str) : Headers → Headers
  | [] => [(key, value)]
  | (k, v) :: t =>
    if lowerAscii k == lowerAscii key then
      (key, value) :: t.filter (fun kv => lowerAscii kv.1 != lowerAscii key)
    else (k, v) :: hdrSet key value t

/-- a value of the `data` mapping as `stream_encode_multipart` sees it -/
inductive ClientValue where
  /-- a `str` (anything without `.read` is turned into one) -/
  | text (v : Str)
  /-- a `FileStorage`: stream content, `.filename`, `.headers` (its `.content_type` is the
  Content-Type header) -/
  | file (content : Bytes) (filename : Option Str) (headers : Headers)
  deriving Repr, DecidableEq

def octetStream : Str := "application/octet-stream".toList

/-- the content type written for a file value -/
def clientContentType (guess : Str → Option Str) (filename : Option Str) (headers : Headers) : Str :=
  match headerGet "content-type".toList headers with
  | some ct => ct
  | none =>
    match filename with
    | none => octetStream
    | some f =>
      if f.isEmpty then octetStream
      else match guess f with
        | some g => if g.isEmpty then octetStream else g
        | none => octetStream

/-- `reader(16384)` until it returns `b""` -/
def clientChunkSize : Nat := 16384

/-- the part a (key, value) pair is sent as: the Field / File event, and the pieces its payload is
sent in (`more_data=True` pieces, then the last piece) -/
def clientPart (guess : Str → Option Str) (key : Str) : ClientValue → Part × List Bytes × Bytes
  | .text v => (⟨false, some key, none, [], utf8Enc v⟩, [], utf8Enc v)
  | .file content fn headers =>
    (⟨fn.isSome, some key, fn,
      hdrSet "Content-Type".toList (clientContentType guess fn headers) headers, content⟩,
     readChunks clientChunkSize content.length [] content, [])

/-- the events of one pair -/
def clientPartEvents (guess : Str → Option Str) (key : Str) (v : ClientValue) : List Event :=
  let c := clientPart guess key v
  partHeadEvent c.1 :: (c.2.1.map (fun x => Event.data x true) ++ [.data c.2.2 false])

/-- every event `stream_encode_multipart` sends, in order -/
def clientEvents (guess : Str → Option Str) (items : List (Str × ClientValue)) : List Event :=
  .preamble [] :: (items.flatMap (fun kv => clientPartEvents guess kv.1 kv.2) ++ [.epilogue []])

/-- `stream_encode_multipart(data, boundary=bnd)`: the bytes written -/
def clientEncode (guess : Str → Option Str) (bnd : Bytes) (items : List (Str × ClientValue)) :
    Except String Bytes :=
  encodeEvents bnd .preamble (clientEvents guess items)

end Wz.Multipart
