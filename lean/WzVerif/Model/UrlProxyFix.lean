/-
Model of `werkzeug.middleware.proxy_fix.ProxyFix.__call__` (C15: middleware in front of the request
must not disturb PATH_INFO; what it does to the host, scheme and SCRIPT_NAME the URL is rebuilt from).
`parse_list_header` (C06) is not modelled here: the model receives each `X-Forwarded-*` header as the
list of values `parse_list_header` yields (`none` = header absent or empty). Core Lean only.
-/
import WzVerif.Model.UrlSplit
namespace Wz.Url

/-- the `x_for`, `x_proto`, `x_host`, `x_port`, `x_prefix` trust counts -/
structure PFConfig where
  xFor : Nat
  xProto : Nat
  xHost : Nat
  xPort : Nat
  xPrefix : Nat

/-- the environ keys `ProxyFix` reads or writes, and PATH_INFO -/
structure PFEnviron where
  remoteAddr : Option Str
  urlScheme : Str
  httpHost : Option Str
  serverName : Str
  serverPort : Str
  scriptName : Str
  pathInfo : Str
deriving DecidableEq

/-- `parse_list_header(environ["HTTP_X_FORWARDED_*"])`; `none` = absent or empty -/
structure PFHeaders where
  xfor : Option (List Str)
  proto : Option (List Str)
  host : Option (List Str)
  port : Option (List Str)
  pfx : Option (List Str)

/-- `_get_real_value(trusted, value)`: the `trusted`-th value from the right, `None` when there are
fewer values or nothing is trusted -/
def realValue (trusted : Nat) (vals : Option (List Str)) : Option Str :=
  match vals with
  | none => none
  | some vs =>
    if trusted = 0 then none
    else if trusted ≤ vs.length then vs[vs.length - trusted]? else none

/-- `if x:` on an optional string -/
def truthyV (o : Option Str) : Option Str :=
  match o with
  | some [] => none
  | o => o

def endsBracket (s : Str) : Bool := s.getLast? == some ']'

/-- `":" in host and not host.endswith("]")`: a port is attached -/
def hasPort (s : Str) : Bool := s.contains ':' && !endsBracket s

/-- `host.rsplit(":", 1)[0]` when a port is attached, else the host -/
def stripPort (s : Str) : Str :=
  if hasPort s then ((rpartitionChar ':' s).1).getD s else s

def applyFor (c : PFConfig) (h : PFHeaders) (e : PFEnviron) : PFEnviron :=
  match truthyV (realValue c.xFor h.xfor) with
  | some v => { e with remoteAddr := some v }
  | none => e

def applyProto (c : PFConfig) (h : PFHeaders) (e : PFEnviron) : PFEnviron :=
  match truthyV (realValue c.xProto h.proto) with
  | some v => { e with urlScheme := v }
  | none => e

def applyHost (c : PFConfig) (h : PFHeaders) (e : PFEnviron) : PFEnviron :=
  match truthyV (realValue c.xHost h.host) with
  | some v =>
    if hasPort v then
      -- environ["SERVER_NAME"], environ["SERVER_PORT"] = x_host.rsplit(":", 1)
      { e with httpHost := some v, serverName := ((rpartitionChar ':' v).1).getD v,
               serverPort := (rpartitionChar ':' v).2 }
    else { e with httpHost := some v, serverName := v }
  | none => e

def applyPort (c : PFConfig) (h : PFHeaders) (e : PFEnviron) : PFEnviron :=
  match truthyV (realValue c.xPort h.port) with
  | some v =>
    match truthyV e.httpHost with
    | some host => { e with httpHost := some (stripPort host ++ ':' :: v), serverPort := v }
    | none => { e with serverPort := v }
  | none => e

def applyPrefix (c : PFConfig) (h : PFHeaders) (e : PFEnviron) : PFEnviron :=
  match truthyV (realValue c.xPrefix h.pfx) with
  | some v => { e with scriptName := v }
  | none => e

/-- `ProxyFix.__call__` up to the call of the wrapped app -/
def proxyFix (c : PFConfig) (h : PFHeaders) (e : PFEnviron) : PFEnviron :=
  applyPrefix c h (applyPort c h (applyHost c h (applyProto c h (applyFor c h e))))

end Wz.Url
