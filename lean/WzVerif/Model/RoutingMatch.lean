/-
Routing, part 2: rule compilation (`Rule._parse_rule`, `Rule.compile`, `Rule.bind`) and the state
machine matcher (`StateMachineMatcher.add / update / match`).

A rule string is given structurally as a token list (`Tok`): `/`, literal text, `<conv:name>`.
Supported: at most one converter per part (the property's grammar); a part with two converters
makes `parseRule` return `none` (the general case needs full regex semantics).

`Part` equality stands for `RulePart.__eq__` (content, final, static, suffixed, weight): the regex
text of a dynamic part is determined by (pre, kind, post, final, suffixed).
-/
import WzVerif.Model.RoutingConv
namespace Wz.Routing

inductive Tok where
  | slash
  | lit (s : Str)
  | var (conv : Conv) (name : Str)
deriving DecidableEq, Repr

/-- `rules.Weighting` -/
structure Weighting where
  nStatic : Int
  statics : List (Int × Int)
  nArgs : Int
  args : List Int
deriving DecidableEq, Repr

def pairLt (a b : Int × Int) : Bool := a.1 < b.1 || (a.1 == b.1 && a.2 < b.2)

/-- Python list comparison `a < b` -/
def listLt (lt : α → α → Bool) : List α → List α → Bool
  | [], [] => false
  | [], _ :: _ => true
  | _ :: _, [] => false
  | a :: as, b :: bs => lt a b || (!lt b a && listLt lt as bs)

def intLt (a b : Int) : Bool := a < b

/-- tuple comparison `a < b` of two `Weighting`s -/
def Weighting.lt (a b : Weighting) : Bool :=
  a.nStatic < b.nStatic || (a.nStatic == b.nStatic &&
    (listLt pairLt a.statics b.statics || (!listLt pairLt b.statics a.statics &&
      (a.nArgs < b.nArgs || (a.nArgs == b.nArgs && listLt intLt a.args b.args)))))

/-- `RulePart` -/
inductive Part where
  | static (content : Str)
  | dyn (pre : Str) (kind : RKind) (post : Str) (final suffixed : Bool) (weight : Weighting)
deriving DecidableEq, Repr

def Part.isFinal : Part → Bool
  | .dyn _ _ _ f _ _ => f
  | _ => false

def Part.weight : Part → Weighting
  | .dyn _ _ _ _ _ w => w
  | .static _ => ⟨0, [], 0, []⟩

/-- `pre (?P<g>regex) post \Z` against `t`: the literal prefix / suffix and the anchor leave exactly
one candidate for the group -/
def matchCore (pre : Str) (kind : RKind) (post : Str) (t : Str) : Option Str :=
  match stripPrefix? pre t with
  | none => none
  | some t1 =>
    match stripSuffix? post t1 with
    | none => none
    | some v => if kind.accepts v then some v else none

/-- `re.compile(part.content).match(target)` for a dynamic part: the converter group and whether the
slash suffix group of a `suffixed` part captured `/`. Literal prefix/suffix and the `\Z` anchor leave
exactly one decomposition. -/
def matchDyn (pre : Str) (kind : RKind) (post : Str) (suffixed : Bool) (target : Str) : Option (Str × Bool) :=
  let sl := suffixed && endsWithChar target '/'
  let t := if sl then target.dropLast else target
  -- `(?<!/)` in front of the optional slash
  if suffixed && endsWithChar t '/' then none
  else (matchCore pre kind post t).map (·, sl)

/-- one transition of `_match` seen from the part: what the part consumes of the remaining path
segments `parts` (`target`, `remaining`, the `suffixed` slash handling) and the converter groups it
yields. Static parts are dictionary keys: they consume exactly one equal segment. -/
def step : Part → List Str → Option (List Str × List Str)
  | _, [] => none
  | .static c, x :: xs => if c == x then some ([], xs) else none
  | .dyn pre kind post final suffixed _, x :: xs =>
    let target := if final then joinWith '/' (x :: xs) else x
    let remaining := if final then [] else xs
    match matchDyn pre kind post suffixed target with
    | some (v, sl) => some ([v], if suffixed && sl then [[]] else remaining)
    | none => none

/-! ### `_parse_rule` -/

/-- accumulator of `_parse_rule` between two part boundaries -/
structure PState where
  pre : Str := []
  conv : Option (Conv × Str) := none
  post : Str := []
  staticWeights : List (Int × Int) := []
  argWeights : List Int := []
  final : Bool := false
deriving Repr

def PState.weight (p : PState) : Weighting :=
  ⟨-(p.staticWeights.length : Int), p.staticWeights, -(p.argWeights.length : Int), p.argWeights⟩

/-- the part yielded at a boundary (`suffixed` decided by the caller) -/
def PState.emit (p : PState) (suffixed : Bool) : Part :=
  match p.conv with
  | none => .static p.pre
  | some (c, _) => .dyn p.pre c.kind p.post p.final suffixed p.weight

/-- `_parse_rule(rule)`: parts and the converters in order of appearance; `none` = outside the model
(two converters in one part). -/
def parseToks : List Tok → PState → Option (List Part × List (Str × Conv))
  | [], p =>
    let suffixed := p.final && endsWithChar p.post '/'
    let p' := if suffixed then { p with post := p.post.dropLast } else p
    let last := p'.emit suffixed
    let convs := match p.conv with | some (c, n) => [(n, c)] | none => []
    some (if suffixed then [last, .static []] else [last], convs)
  | .lit s :: t, p =>
    let sw := p.staticWeights ++ [((p.staticWeights.length : Int), -(s.length : Int))]
    match p.conv with
    | none => parseToks t { p with pre := p.pre ++ s, staticWeights := sw }
    | some _ => parseToks t { p with post := p.post ++ s, staticWeights := sw }
  | .var c n :: t, p =>
    match p.conv with
    | some _ => none
    | none =>
      parseToks t { p with conv := some (c, n), final := p.final || !c.partIsolating,
                           argWeights := p.argWeights ++ [(c.weight : Int)] }
  | .slash :: t, p =>
    if p.final then parseToks t { p with post := p.post ++ ['/'] }
    else
      match parseToks t {} with
      | none => none
      | some (parts, convs) =>
        some (p.emit false :: parts, (match p.conv with | some (c, n) => [(n, c)] | none => []) ++ convs)

def parseRule (toks : List Tok) : Option (List Part × List (Str × Conv)) := parseToks toks {}

/-- `re.sub("/{2,}?", "/", rule)` on the token level: non-overlapping pairs of slashes, left to right -/
def mergeSlashToks : List Tok → List Tok
  | .slash :: .slash :: t => .slash :: mergeSlashToks t
  | x :: t => x :: mergeSlashToks t
  | [] => []

/-- `re.sub("/{2,}?", "/", path)` -/
def mergeSlashes : Str → Str
  | '/' :: '/' :: t => '/' :: mergeSlashes t
  | x :: t => x :: mergeSlashes t
  | [] => []

/-! ### rules -/

/-- constructor arguments of `Rule` (as far as modelled) -/
structure RuleSpec where
  toks : List Tok
  /-- `subdomain` (or `host` under host matching) rule text as tokens; `none` = not given -/
  domain : Option (List Tok) := none
  methods : Option (List Str) := none
  strict : Option Bool := none
  merge : Option Bool := none
  endpoint : Str := []
  defaults : List (Str × Value) := []
  alias : Bool := false
  websocket : Bool := false
  buildOnly : Bool := false
deriving Repr, DecidableEq

/-- a bound rule (`Rule.bind` + `compile`) -/
structure Rule where
  /-- position in the map's insertion order (object identity) -/
  idx : Nat
  spec : RuleSpec
  parts : List Part
  /-- `_converters` in order of appearance (domain first) -/
  convs : List (Str × Conv)
  methods : Option (List Str)
  strict : Bool
  merge : Bool
deriving Repr, DecidableEq

def Rule.endpoint (r : Rule) : Str := r.spec.endpoint
def Rule.websocket (r : Rule) : Bool := r.spec.websocket
def Rule.defaults (r : Rule) : List (Str × Value) := r.spec.defaults
def Rule.alias (r : Rule) : Bool := r.spec.alias

/-- `{x.upper() for x in methods}` plus `HEAD` when `GET` is present (kept as a list) -/
def normMethods (ms : List Str) : List Str :=
  let up := ms.map (·.map upperAscii)
  if up.contains "GET".toList && !up.contains "HEAD".toList then up ++ ["HEAD".toList] else up

structure MapCfg where
  strictSlashes : Bool := true
  mergeSlashes : Bool := true
  redirectDefaults : Bool := true
  hostMatching : Bool := false
  /-- `default_subdomain` as rule tokens (`""` = `[]`) -/
  defaultSubdomain : List Tok := []
  sortParameters : Bool := false
deriving Repr

/-- `Rule.bind(map)` + `Rule.compile()` -/
def bindRule (cfg : MapCfg) (idx : Nat) (s : RuleSpec) : Option Rule :=
  let strict := s.strict.getD cfg.strictSlashes
  let merge := s.merge.getD cfg.mergeSlashes
  let domToks := if cfg.hostMatching then s.domain.getD [] else s.domain.getD cfg.defaultSubdomain
  let dom : Option (List Part × List (Str × Conv)) :=
    if domToks.isEmpty then some ([.static []], []) else parseRule domToks
  let toks := if merge then mergeSlashToks s.toks else s.toks
  match dom, parseRule toks with
  | some (dp, dc), some (pp, pc) =>
    some { idx := idx, spec := s, parts := dp ++ pp, convs := dc ++ pc,
           methods := s.methods.map normMethods, strict := strict, merge := merge }
  | _, _ => none

/-! ### the state machine -/

inductive State where
  | node (rules : List Rule) (statics : List (Str × State)) (dynamics : List (Part × State))

namespace State

def empty : State := .node [] [] []

def rules : State → List Rule
  | .node rs _ _ => rs

/-- `d.setdefault(k, State())` followed by the descent into `d[k]`; the same shape serves the scan
of the `dynamic` list for an equal part -/
def updAssoc [BEq κ] (k : κ) (f : State → State) : List (κ × State) → List (κ × State)
  | [] => [(k, f empty)]
  | (k', s) :: t => if k' == k then (k', f s) :: t else (k', s) :: updAssoc k f t

/-- `StateMachineMatcher.add` -/
def add : List Part → Rule → State → State
  | [], r, .node rs ss ds => .node (rs ++ [r]) ss ds
  | .static c :: ps, r, .node rs ss ds => .node rs (updAssoc c (add ps r) ss) ds
  | p :: ps, r, .node rs ss ds => .node rs ss (updAssoc p (add ps r) ds)

/-- stable insertion by weight: `x` goes in front of the first entry that is not lighter -/
def insertDyn (x : Part × State) : List (Part × State) → List (Part × State)
  | [] => [x]
  | y :: t => if y.1.weight.lt x.1.weight then y :: insertDyn x t else x :: y :: t

/-- `list.sort(key=weight)` (stable) -/
def sortDyn : List (Part × State) → List (Part × State)
  | [] => []
  | x :: t => insertDyn x (sortDyn t)

mutual
/-- `StateMachineMatcher.update` -/
def update : State → State
  | .node rs ss ds => .node rs (updateS ss) (sortDyn (updateD ds))
def updateS : List (Str × State) → List (Str × State)
  | [] => []
  | (k, s) :: t => (k, update s) :: updateS t
def updateD : List (Part × State) → List (Part × State)
  | [] => []
  | (p, s) :: t => (p, update s) :: updateD t
end

end State

/-- the request side of `_match` that does not change during the search -/
structure Req where
  method : Str
  websocket : Bool
deriving Repr

def methodOK (q : Req) (r : Rule) : Bool :=
  match r.methods with
  | none => true
  | some ms => ms.contains q.method

def ruleOK (q : Req) (r : Rule) : Bool := methodOK q r && r.websocket == q.websocket

inductive Res where
  | none
  | found (r : Rule) (vals : List Str)
  /-- `raise SlashRequired()` -/
  | slash
deriving Repr

def Res.isNone : Res → Bool
  | .none => true
  | _ => false

/-- result of a (sub)search together with what it added to `have_match_for` / `websocket_mismatch` -/
structure Out where
  res : Res
  ms : List Str := []
  wsm : Bool := false
deriving Repr

/-- the `for rule in state.rules:` loops of `_match` (`skipStrict` = the `parts == [""]` variant) -/
def scanRules (q : Req) (skipStrict : Bool) (vals : List Str) : List Rule → Out
  | [] => ⟨.none, [], false⟩
  | r :: t =>
    if skipStrict && r.strict then scanRules q skipStrict vals t
    else if !methodOK q r then
      let o := scanRules q skipStrict vals t
      { o with ms := (r.methods.getD []) ++ o.ms }
    else if r.websocket != q.websocket then
      let o := scanRules q skipStrict vals t
      { o with wsm := true }
    else ⟨.found r vals, [], false⟩

/-- the `if "" in state.static:` block -/
def slashCheck (q : Req) (vals : List Str) (child : List Rule) : Res :=
  match child.find? (ruleOK q) with
  | some r => if r.strict then .slash else .found r vals
  | none => .none

def lookupStatic (k : Str) : List (Str × State) → Option State
  | [] => none
  | (k', s) :: t => if k' == k then some s else lookupStatic k t

/-- sequencing of two attempts inside `_match`: the second runs only when the first returned `None`;
the bookkeeping sets accumulate -/
def Out.orElse (a : Out) (b : Out) : Out :=
  match a.res with
  | .none => ⟨b.res, a.ms ++ b.ms, a.wsm || b.wsm⟩
  | _ => a

mutual
/-- `_match(state, parts, values)` -/
def dfs (q : Req) : State → List Str → List Str → Out
  | .node rs ss _, [], vals =>
    let o := scanRules q false vals rs
    match o.res with
    | .none =>
      match lookupStatic [] ss with
      | some child => { o with res := slashCheck q vals child.rules }
      | none => o
    | _ => o
  | .node rs ss ds, part :: rest, vals =>
    let o1 := dfsStatic q ss part rest vals
    match o1.res with
    | .none =>
      let o2 := dfsDyn q ds part rest vals
      match o2.res with
      | .none =>
        let o3 : Out := if part :: rest = [[]] then scanRules q true vals rs else ⟨.none, [], false⟩
        ⟨o3.res, o1.ms ++ o2.ms ++ o3.ms, o1.wsm || o2.wsm || o3.wsm⟩
      | _ => ⟨o2.res, o1.ms ++ o2.ms, o1.wsm || o2.wsm⟩
    | _ => o1
/-- `if part in state.static: rv = _match(state.static[part], parts[1:], values)` -/
def dfsStatic (q : Req) : List (Str × State) → Str → List Str → List Str → Out
  | [], _, _, _ => ⟨.none, [], false⟩
  | (k, s) :: t, part, rest, vals =>
    if k == part then dfs q s rest vals else dfsStatic q t part rest vals
/-- `for test_part, new_state in state.dynamic:` -/
def dfsDyn (q : Req) : List (Part × State) → Str → List Str → List Str → Out
  | [], _, _, _ => ⟨.none, [], false⟩
  | (.static _, _) :: t, part, rest, vals => dfsDyn q t part rest vals
  | (.dyn pre kind post final suffixed w, s) :: t, part, rest, vals =>
    match step (.dyn pre kind post final suffixed w) (part :: rest) with
    | some (a, remaining) =>
      let o := dfs q s remaining (vals ++ a)
      match o.res with
      | .none =>
        let o' := dfsDyn q t part rest vals
        ⟨o'.res, o.ms ++ o'.ms, o.wsm || o'.wsm⟩
      | _ => o
    | none => dfsDyn q t part rest vals
end

/-- what `StateMachineMatcher.match` raises or returns -/
inductive SMResult where
  | ok (r : Rule) (vals : List (Str × Value))
  /-- `RequestPath(path_info)` -/
  | requestPath (p : Str)
  /-- `RequestAliasRedirect(matched_values, endpoint)` -/
  | aliasRedirect (r : Rule) (vals : List (Str × Value))
  /-- `NoMatch(have_match_for, websocket_mismatch)` -/
  | noMatch (ms : List Str) (wsm : Bool)
deriving Repr

/-- `result[name] = converter.to_python(value)` over `zip(rule._converters.keys(), values)`;
`none` = `ValidationError` -/
def convertValues : List (Str × Conv) → List Str → Option (List (Str × Value))
  | (n, c) :: cs, v :: vs =>
    match toPython c v with
    | none => none
    | some x => (convertValues cs vs).map ((n, x) :: ·)
  | _, _ => some []

/-- `dict.update`-style assignment in an insertion-ordered dict -/
def dictSet (d : List (Str × Value)) (k : Str) (v : Value) : List (Str × Value) :=
  if d.any (·.1 == k) then d.map (fun e => if e.1 == k then (k, v) else e) else d ++ [(k, v)]

def dictUpdate (d : List (Str × Value)) (u : List (Str × Value)) : List (Str × Value) :=
  u.foldl (fun acc e => dictSet acc e.1 e.2) d

/-- the tail of `StateMachineMatcher.match` after a successful `_match` -/
def finishMatch (redirectDefaults : Bool) (r : Rule) (vals : List Str) (ms : List Str) (wsm : Bool) : SMResult :=
  match convertValues r.convs vals with
  | none => .noMatch ms wsm
  | some res =>
    let res := dictUpdate res r.defaults
    if r.alias && redirectDefaults then .aliasRedirect r res else .ok r res

/-- `StateMachineMatcher.match(domain, path, method, websocket)` on the updated root -/
def matchSM (root : State) (mergeSlashesFlag redirectDefaults : Bool) (q : Req) (domain path : Str) : SMResult :=
  let o1 := dfs q root (domain :: splitOn '/' path) []
  match o1.res with
  | .slash => .requestPath (path ++ ['/'])
  | .found r vals => finishMatch redirectDefaults r vals o1.ms o1.wsm
  | .none =>
    if mergeSlashesFlag then
      let p2 := mergeSlashes path
      let o2 := dfs q root (domain :: splitOn '/' p2) []
      match o2.res with
      | .slash => .requestPath (p2 ++ ['/'])
      | .none => .noMatch (o1.ms ++ o2.ms) (o1.wsm || o2.wsm)
      | .found r _ => if r.merge then .requestPath p2 else .noMatch (o1.ms ++ o2.ms) (o1.wsm || o2.wsm)
    else .noMatch o1.ms o1.wsm

/-- `Map.add` for every rule (skipping `build_only` rules), then `update()` -/
def buildRoot (rules : List Rule) : State :=
  (rules.foldl (fun st r => if r.spec.buildOnly then st else State.add r.parts r st) State.empty).update

def bindRulesFrom (cfg : MapCfg) : Nat → List RuleSpec → Option (List Rule)
  | _, [] => some []
  | i, s :: t =>
    match bindRule cfg i s, bindRulesFrom cfg (i + 1) t with
    | some r, some rs => some (r :: rs)
    | _, _ => none

def bindRules (cfg : MapCfg) (specs : List RuleSpec) : Option (List Rule) := bindRulesFrom cfg 0 specs

end Wz.Routing
