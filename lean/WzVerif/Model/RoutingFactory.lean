/-
Routing: rule factories (`Submount`, `Subdomain`, `EndpointPrefix`, `RuleTemplate`) as expansions of
rule specs — what `Map.add(factory)` inserts (`factory.get_rules(map)`).

Every factory copies the rules it wraps. `Submount`, `Subdomain`, `EndpointPrefix` use `Rule.empty()` =
`Rule(self.rule, **get_empty_kwargs())`, and `get_empty_kwargs` hands on defaults, subdomain, methods,
build_only, endpoint, strict_slashes, redirect_to, alias, host — NOT `merge_slashes` and NOT `websocket`:
the copy has `merge_slashes=None` (map default) and `websocket=False`. `RuleTemplateFactory` builds
`Rule(string, defaults, subdomain, methods, build_only, endpoint, strict_slashes)` and so additionally
drops `alias` and `host`. Modelled as the code does it (the streams compare).
-/
import WzVerif.Model.RoutingMatch
namespace Wz.Routing

/-- `Rule.empty()` -/
def RuleSpec.emptyCopy (s : RuleSpec) : RuleSpec := { s with merge := none, websocket := false }

/-- `path.rstrip("/")` on tokens (`Submount.__init__`); literal tokens are assumed free of `/` -/
def rstripSlashToks (ts : List Tok) : List Tok := (ts.reverse.dropWhile (· == .slash)).reverse

/-! ### `string.Template.substitute` (`$name`, `${name}`, `$$`; ASCII identifiers, case-insensitive) -/

def isIdStart (c : Char) : Bool := c == '_' || ('a' ≤ c && c ≤ 'z') || ('A' ≤ c && c ≤ 'Z')
def isIdChar (c : Char) : Bool := isIdStart c || ('0' ≤ c && c ≤ '9')

def lookupCtx (k : Str) : List (Str × Str) → Option Str
  | [] => none
  | (k', v) :: t => if k' == k then some v else lookupCtx k t

/-- `.error "ValueError"`: ill-formed placeholder; `.error "KeyError"`: name not in the context -/
def templateSubst (ctx : List (Str × Str)) : Nat → Str → Except String Str
  | 0, _ => .error "fuel"
  | _, [] => .ok []
  | fuel + 1, '$' :: rest =>
    match rest with
    | '$' :: t => (templateSubst ctx fuel t).map ('$' :: ·)
    | '{' :: t =>
      let name := t.takeWhile isIdChar
      match t.drop name.length with
      | '}' :: t' =>
        if name.isEmpty || !(name.head?.map isIdStart).getD false then .error "ValueError"
        else match lookupCtx name ctx with
          | none => .error "KeyError"
          | some v => (templateSubst ctx fuel t').map (v ++ ·)
      | _ => .error "ValueError"
    | c :: _ =>
      if isIdStart c then
        let name := rest.takeWhile isIdChar
        match lookupCtx name ctx with
        | none => .error "KeyError"
        | some v => (templateSubst ctx fuel (rest.drop name.length)).map (v ++ ·)
      else .error "ValueError"
    | [] => .error "ValueError"
  | fuel + 1, c :: t => (templateSubst ctx fuel t).map (c :: ·)

def subst (ctx : List (Str × Str)) (s : Str) : Except String Str := templateSubst ctx (s.length + 1) s

def substToks (ctx : List (Str × Str)) : List Tok → Except String (List Tok)
  | [] => .ok []
  | .lit s :: t => do
    let s' ← subst ctx s
    let t' ← substToks ctx t
    pure (.lit s' :: t')
  | x :: t => (substToks ctx t).map (x :: ·)

def substDefaults (ctx : List (Str × Str)) : List (Str × Value) → Except String (List (Str × Value))
  | [] => .ok []
  | (k, .str v) :: t => do
    let v' ← subst ctx v
    let t' ← substDefaults ctx t
    pure ((k, .str v') :: t')
  | x :: t => (substDefaults ctx t).map (x :: ·)

/-- one wrapping factory around a rule -/
inductive Wrap where
  | submount (path : List Tok)
  | subdomain (dom : List Tok)
  | endpointPrefix (p : Str)
  /-- `RuleTemplate([...])(**ctx)` -/
  | template (ctx : List (Str × Str))
deriving Repr, DecidableEq

/-- what a factory yields for one rule of the factory it wraps (`hm` = the map's `host_matching`) -/
def Wrap.apply (hm : Bool) : Wrap → RuleSpec → Except String RuleSpec
  | .submount p, s => .ok { s.emptyCopy with toks := rstripSlashToks p ++ s.toks }
  | .subdomain d, s =>
    -- `rule.subdomain = …`: ignored under host matching, where `host` is compiled
    .ok (if hm then s.emptyCopy else { s.emptyCopy with domain := some d })
  | .endpointPrefix p, s => .ok { s.emptyCopy with endpoint := p ++ s.endpoint }
  | .template ctx, s => do
    let toks ← substToks ctx s.toks
    let defs ← substDefaults ctx s.defaults
    let dom ← match (if hm then none else s.domain) with
      | none => pure none
      | some d => (substToks ctx d).map some
    let ep ← subst ctx s.endpoint
    pure { toks := toks, domain := dom, methods := s.methods, strict := s.strict, merge := none, endpoint := ep,
           defaults := defs, alias := false, websocket := false, buildOnly := s.buildOnly }

/-- a rule inside nested factories, innermost first -/
def applyWraps (hm : Bool) (ws : List Wrap) (s : RuleSpec) : Except String RuleSpec :=
  ws.foldl (fun acc w => acc.bind (w.apply hm)) (.ok s)

/-- rule factories as a tree -/
inductive Factory where
  | rule (s : RuleSpec)
  | wrap (w : Wrap) (fs : List Factory)

def mapM' (f : α → Except String β) : List α → Except String (List β)
  | [] => .ok []
  | a :: t => do
    let b ← f a
    let bs ← mapM' f t
    pure (b :: bs)

mutual
/-- `factory.get_rules(map)` -/
def Factory.expand (hm : Bool) : Factory → Except String (List RuleSpec)
  | .rule s => .ok [s]
  | .wrap w fs => do
    let inner ← Factory.expandAll hm fs
    mapM' (w.apply hm) inner
def Factory.expandAll (hm : Bool) : List Factory → Except String (List RuleSpec)
  | [] => .ok []
  | f :: t => do
    let a ← f.expand hm
    let b ← Factory.expandAll hm t
    pure (a ++ b)
end

end Wz.Routing
