/-
Model of `werkzeug.serving.WSGIRequestHandler.run_wsgi` as an explicit state machine: the closure
variables `status_set`, `headers_set`, `status_sent`, `headers_sent`, `chunk_response`, the closures
`write` / `start_response` / `execute`, the `Expect: 100-continue` interim response and the error path
(`execute(InternalServerError())`), for an application given as the sequence of things it does.

An application run (`AppRun`) is what happens while `app(environ, start_response)` runs (`call`:
`start_response(...)` calls and `write(data)` calls), whether that call raises, what happens while the
returned iterable is consumed (`iter`: every yielded piece is passed to `write`, so a piece and a
`write()` call are the same event `emit`; `start_response` may be called again), whether the iteration
ends by raising, and whether the iterable has `close`. An exception raised *by* `start_response` /
`write` (AssertionError, the re-raised `exc_info`) is assumed to propagate out of the application.

As coded after fix bc55b83 (F19c): `start_response` tests `headers_sent is not None` /
`headers_set is not None` and `execute` tests `headers_sent is None`, so an empty header list is a
header list (before the fix these were truthiness tests and an empty list counted as "nothing set /
sent yet").

Outside the model: `connection_dropped_errors`, `passthrough_errors`, the post-response drain of the
socket, logging; `int(code_str)` is taken on a digit string (`Resp.code`).
-/
import WzVerif.Model.DevServer
namespace Wz.RunWsgi
open Wz Wz.Chunked Wz.DevServer

/-- one thing the application does -/
inductive Ev where
  /-- `start_response(status, headers, exc_info)`; `excInfo` = an exc_info triple was passed -/
  | start (status : Str) (headers : List (Str × Str)) (excInfo : Bool)
  /-- `write(data)` — called directly or by `execute` for a yielded piece -/
  | emit (data : Bytes)
  deriving Repr

/-- the handler's constants for one request -/
structure Conf where
  /-- `handler.protocol_version` -/
  protocol : Str
  /-- `Server` and `Date`, added by `send_response` (opaque values) -/
  serverHeaders : List (Str × Str)
  /-- `environ["REQUEST_METHOD"] == "HEAD"` -/
  isHead : Bool

/-- the closure variables of `run_wsgi` (+ ghost: the data of every successful `write` call) -/
structure HState where
  statusSet : Option Str := none
  headersSet : Option (List (Str × Str)) := none
  statusSent : Option Str := none
  headersSent : Option (List (Str × Str)) := none
  chunk : Bool := false
  wire : Bytes := []
  pieces : List Bytes := []
  /-- ghost: the terminating zero chunk has been written -/
  done : Bool := false

def respOf (c : Conf) (status : Str) (headers : List (Str × Str)) : Resp :=
  ⟨c.protocol, status, c.serverHeaders, headers, c.isHead⟩

/-- the bytes `write(data)` adds after the head -/
def frame (chunked : Bool) (d : Bytes) : Bytes :=
  if d.isEmpty then [] else if chunked then hexOf false d.length ++ crlf ++ d ++ crlf else d

/-- one event; `none` = an exception escapes into (and, by assumption, out of) the application -/
def step (c : Conf) (st : HState) : Ev → Option HState
  | .start status headers exc =>
    if exc then
      if st.headersSent.isSome then none                -- `raise exc_info[1]`
      else some { st with statusSet := some status, headersSet := some headers }
    else if st.headersSet.isSome then none              -- AssertionError("Headers already set")
    else some { st with statusSet := some status, headersSet := some headers }
  | .emit data =>
    match st.statusSet, st.headersSet with
    | some status, some headers =>
      let st1 : HState :=
        if st.statusSent.isSome then st
        else { st with statusSent := some status, headersSent := some headers,
                       chunk := (respOf c status headers).chunked,
                       wire := st.wire ++ (respOf c status headers).head }
      some { st1 with wire := st1.wire ++ frame st1.chunk data, pieces := st1.pieces ++ [data] }
    | _, _ => none                                      -- AssertionError("write() before start_response")

/-- run events until one raises: (state, raised?) -/
def runEvs (c : Conf) (st : HState) : List Ev → HState × Bool
  | [] => (st, false)
  | e :: es =>
    match step c st e with
    | none => (st, true)
    | some st' => runEvs c st' es

structure AppRun where
  call : List Ev
  callRaises : Bool := false
  iter : List Ev := []
  iterRaises : Bool := false
  /-- `hasattr(application_iter, "close")` -/
  closable : Bool := false
  deriving Repr

def zeroChunk : Bytes := [48, 13, 10, 13, 10]

/-- `execute(app)`: (state, number of `application_iter.close()` calls, an exception escaped) -/
def execute (c : Conf) (st : HState) (a : AppRun) : HState × Nat × Bool :=
  let (st1, r1) := runEvs c st a.call
  if r1 || a.callRaises then (st1, 0, true)              -- raised before the `try`: no `finally`
  else
    let (st2, r2) := runEvs c st1 a.iter
    let cl := if a.closable then 1 else 0
    if r2 || a.iterRaises then (st2, cl, true)
    else
      -- `if headers_sent is None: write(b"")`
      match (if st2.headersSent.isSome then some st2 else step c st2 (.emit [])) with
      | none => (st2, cl, true)
      | some st3 =>
        -- `if chunk_response: self.wfile.write(b"0\r\n\r\n")`
        ({ st3 with wire := if st3.chunk then st3.wire ++ zeroChunk else st3.wire, done := st3.chunk }, cl, false)

structure Outcome where
  wire : Bytes
  /-- calls of the application iterable's `close()` -/
  closeCalls : Nat
  /-- an exception escaped from the application or the writer (the server logs it) -/
  failed : Bool
  /-- ghost: the closure variables at the end -/
  final : HState

def continueLine : Bytes := strBytes "HTTP/1.1 100 Continue\r\n\r\n".toList

/-- `self.headers.get("Expect", "").lower().strip() == "100-continue"` (first header of that name) -/
def expectsContinue (hs : List (Str × Str)) : Bool :=
  match hs.find? (fun h => lowerStr h.1 == "expect".toList) with
  | some h => Py.strip (lowerStr h.2) == "100-continue".toList
  | none => false

/-- what is on the wire before the application's response: http.server's own interim response
(`pre`, if any), then werkzeug's `100 Continue` when the request carried `Expect: 100-continue` -/
def startWire (pre : Bytes) (expect : Bool) : Bytes := if expect then pre ++ continueLine else pre

/-- `if status_sent is None: status_set = None; headers_set = None` -/
def rollback (st : HState) : HState :=
  if st.statusSent.isNone then { st with statusSet := none, headersSet := none } else st

/-- the `except Exception` branch of `run_wsgi` after `execute(self.server.app)` returned `r`:
`try: execute(InternalServerError()) except Exception: pass` -/
def finish (c : Conf) (fallback : AppRun) (r : HState × Nat × Bool) : Outcome :=
  if !r.2.2 then ⟨r.1.wire, r.2.1, false, r.1⟩
  else ⟨(execute c (rollback r.1) fallback).1.wire, r.2.1, true, (execute c (rollback r.1) fallback).1⟩

/-- `run_wsgi`: `pre` = what is already on the wire (http.server's own `100 Continue`, if any);
`fallback` = what `InternalServerError()` does as a WSGI application -/
def runHandler (c : Conf) (pre : Bytes) (expect : Bool) (a fallback : AppRun) : Outcome :=
  finish c fallback (execute c { wire := startWire pre expect } a)

end Wz.RunWsgi
