/-
Model of `werkzeug.http.parse_options_header` as far as form parsing needs it
(`Content-Disposition: form-data; name="…"; filename="…"` and `Content-Type: …; charset=…`).

Modelled: the `;` partition and strips, the key regex `([\w!#$%&'*+\-.^`|~]+)=` (re.ASCII), token
values, quoted values with `\\` / `\"` skipping, the loop over `;` sections, removal of the quotes
and the three `str.replace` calls, RFC 2231 numbered continuations (`key*0=`).
Not modelled: the RFC 2231 charset form `key*=utf-8''…` (needs `urllib.parse.unquote` with an
encoding); the model answers `.error "UNMODELLED"` there and the harness never generates it.
Validated by the streams of C01/C02 (every part header goes through it).
-/
import WzVerif.Util.Bytes
import WzVerif.Util.Py
namespace Wz.FormOptions
open Wz

/-- `[\w!#$%&'*+\-.^`|~]` under re.ASCII -/
def isTokenCh (c : Char) : Bool :=
  c.isAlphanum || c == '_' || c == '!' || c == '#' || c == '$' || c == '%' || c == '&' ||
  c == '\'' || c == '*' || c == '+' || c == '-' || c == '.' || c == '^' || c == '`' ||
  c == '|' || c == '~'

/-- `str.lower()` on ASCII text (keys are token characters) -/
def lowerAscii (s : List Char) : List Char := s.map Char.toLower

/-- `str.lstrip()` -/
def lstrip (s : List Char) : List Char := s.dropWhile Py.isSpace

/-- the scan for the closing quote: `s` is the text after the opening quote; returns the quoted
body (without the closing quote) and the text after the closing quote -/
def closeQuote : List Char → Option (List Char × List Char)
  | [] => none
  | c :: t =>
    let plain := (closeQuote t).map fun (b, r) => (c :: b, r)
    if c == '\\' then
      match t with
      | d :: t2 =>
        if d == '\\' || d == '"' then (closeQuote t2).map fun (b, r) => (c :: d :: b, r)
        else plain
      | [] => none
    else if c == '"' then some ([], t)
    else plain

/-- the text after the first `;`, or `none` -/
def afterSemi : List Char → Option (List Char)
  | [] => none
  | c :: t => if c == ';' then some t else afterSemi t

/-- first loop of `parse_options_header`: the raw `(key, value)` parts; quoted values keep their
quotes -/
def collectParts : Nat → List Char → List (List Char × List Char)
  | 0, _ => []
  | fuel + 1, rest =>
    let key := rest.takeWhile isTokenCh
    let afterKey := rest.dropWhile isTokenCh
    let (found, rest') : List (List Char × List Char) × List Char :=
      match key, afterKey with
      | _ :: _, '=' :: r =>
        let pk := lowerAscii key
        let tok := r.takeWhile isTokenCh
        if !tok.isEmpty then ([(pk, tok)], r)
        else
          match r with
          | '"' :: q =>
            match closeQuote q with
            | some (b, after) => ([(pk, '"' :: b ++ ['"'])], after)
            | none => ([], r)
          | _ => ([], r)
      | _, _ => ([], rest)
    match afterSemi rest' with
    | none => found
    | some r => found ++ collectParts fuel (lstrip r)

/-- `str.replace(pat, rep)` for a non-empty pattern -/
def replaceAll (pat rep : List Char) : Nat → List Char → List Char
  | 0, s => s
  | _, [] => []
  | fuel + 1, c :: t =>
    if pat.isPrefixOf (c :: t) then rep ++ replaceAll pat rep fuel ((c :: t).drop pat.length)
    else c :: replaceAll pat rep fuel t

def replace (pat rep s : List Char) : List Char := replaceAll pat rep (s.length + 1) s

/-- `if pv[0] == pv[-1] == '"': pv = pv[1:-1].replace(...)...`: removal of the quotes and of the
three escape forms -/
def unquoteValue (pv : List Char) : List Char :=
  if pv.head? == some '"' && pv.getLast? == some '"' then
    replace ['%', '2', '2'] ['"'] (replace ['\\', '"'] ['"'] (replace ['\\', '\\'] ['\\'] (pv.drop 1).dropLast))
  else pv

/-- the three `str.replace(old, new)` steps of the "remove quotes" block, in the order the source
applies them (tied to the source by `Props.C02.options_quoted_value_as_modelled`) -/
def quotedReplaceSteps : List (List Char × List Char) :=
  [(['\\', '\\'], ['\\']), (['\\', '"'], ['"']), (['%', '2', '2'], ['"'])]

/-- `_continuation_re.search(pk)`: `\*(\d+)$` — the key without the `*N` suffix, if it has one -/
def continuationKey (pk : List Char) : Option (List Char) :=
  let digits := (pk.reverse.takeWhile Char.isDigit).length
  let rest := pk.reverse.drop digits
  match rest with
  | '*' :: k => if digits > 0 then some k.reverse else none
  | _ => none

def lookup (k : List Char) : List (List Char × List Char) → Option (List Char)
  | [] => none
  | (k', v) :: t => if k' == k then some v else lookup k t

/-- `dict[k] = v` on an insertion-ordered association list -/
def assign (k v : List Char) : List (List Char × List Char) → List (List Char × List Char)
  | [] => [(k, v)]
  | (k', v') :: t => if k' == k then (k, v) :: t else (k', v') :: assign k v t

def processParts : List (List Char × List Char) → List (List Char × List Char) →
    Except String (List (List Char × List Char))
  | [], opts => .ok opts
  | (pk, pv) :: t, opts =>
    if pk.getLast? == some '*' then .error "UNMODELLED"
    else
      let v := unquoteValue pv
      match continuationKey pk with
      | some k =>
        -- `*0=value` has no key: skipped
        if k.isEmpty then processParts t opts
        else processParts t (assign k ((lookup k opts).getD [] ++ v) opts)
      | none => processParts t (assign pk v opts)

/-- `parse_options_header(value)` for a `str` value -/
def parseOptionsHeader (value : List Char) : Except String (List Char × List (List Char × List Char)) :=
  let v := Py.strip (value.takeWhile (· != ';'))
  let rest := Py.strip ((value.dropWhile (· != ';')).drop 1)
  if v.isEmpty || rest.isEmpty then .ok (v, [])
  else
    match processParts (collectParts (rest.length + 1) rest) [] with
    | .ok o => .ok (v, o)
    | .error e => .error e

end Wz.FormOptions
