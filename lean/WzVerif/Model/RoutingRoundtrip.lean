/-
Routing, part 7 (C04): the build -> match -> build round trip as a server sees it.
`readBuilt` turns a URL produced by `MapAdapter.build` back into (adapter to match with, path_info):
an external URL names the host (hence the subdomain, or the server under host matching), the path
loses the script root and is percent-decoded, the query is dropped (it does not take part in matching).
-/
import WzVerif.Model.RoutingFollow
namespace Wz.Routing

/-- position of the first `//`-introduced authority: `some (host, rest)` for `scheme://host/rest`
or `//host/rest`, `none` for a relative URL -/
def splitAuthority (url : Str) : Option (Str × Str) :=
  let afterScheme : Option Str :=
    match url with
    | '/' :: '/' :: t => some t
    | '/' :: _ => none
    | _ =>
      match url.dropWhile (· != ':') with
      | ':' :: '/' :: '/' :: t => some t
      | _ => none
  afterScheme.map fun t => (t.takeWhile (· != '/'), t.dropWhile (· != '/'))

/-- the adapter a server would bind for this host, and `PATH_INFO` -/
def readBuilt (cfg : MapCfg) (a : Adapter) (url : Str) : Option (Adapter × Str) :=
  let (a2?, pathq) : Option Adapter × Str :=
    match splitAuthority url with
    | none => (some a, url)
    | some (host, rest) =>
      if cfg.hostMatching then (some { a with serverName := host }, rest)
      else if host == a.serverName then (some { a with subdomain := some [] }, rest)
      else
        match stripSuffix? ('.' :: a.serverName) host with
        | some sub => (some { a with subdomain := some sub }, rest)
        | none => (none, rest)
  let path := pathq.takeWhile (fun c => c != '?' && c != '#')
  match a2?, stripPrefix? a.scriptName path with
  | some a2, some p => some (a2, '/' :: unquote p)
  | _, _ => none

/-- build, match what was built, build again from the match -/
def roundtrip (m : RMap) (a : Adapter) (endpoint : Str) (values : List (Str × Value)) (method : Option Str)
    (matchMethod : Option Str) (forceExternal : Bool) : Except String Str × Option Outcome × Option (Except String Str) :=
  match adapterBuild m.cfg a m.rules endpoint values method forceExternal true with
  | .error e => (.error e, none, none)
  | .ok url =>
    match readBuilt m.cfg a url with
    | none => (.ok url, none, none)
    | some (a2, pathInfo) =>
      let o := matchAdapter m a2 pathInfo matchMethod .none none
      match o with
      | .matched r vals =>
        -- extra values travel in the query string; rebuild with them to compare whole URLs
        let extra := values.filter fun (k, _) => !(vals.any (·.1 == k))
        (.ok url, some o, some (adapterBuild m.cfg a m.rules r.endpoint (vals ++ extra) method forceExternal true))
      | _ => (.ok url, some o, none)

end Wz.Routing
