/-
Model of `werkzeug.test.EnvironBuilder`'s URL-related state (C15): `__init__` with every form of the
`path` / `base_url` / `query_string` arguments, the `base_url` / `query_string` / `args` /
`server_name` / `server_port` properties, `get_environ` (SCRIPT_NAME, PATH_INFO, QUERY_STRING,
REQUEST_URI, RAW_URI, SERVER_NAME, SERVER_PORT, HTTP_HOST, wsgi.url_scheme), `from_environ`; and of
the remaining URL attributes of `Request` (`args`, `full_path`, `script_root`, `url_root`).
`_urlencode` / `parse_qsl` are C02's model (Model/Urlencode.lean, imported read-only).
Core Lean only.
-/
import WzVerif.Model.UrlEnviron
import WzVerif.Model.Urlencode
namespace Wz.Url

/-- the `query_string` argument: not given, a `str`, or a mapping / MultiDict / iterable of pairs
(given here as the flat list `iter_multi_items` yields) -/
inductive QueryArg where
  | absent
  | text (s : Str)
  | items (l : List (Str × Str))

/-- `werkzeug.urls._urlencode(items)` as `str` -/
def urlencodeText (l : List (Str × Str)) : Str := Urlencode.asciiStr (Urlencode.wzUrlencode l)

/-- the URL-related attributes of an `EnvironBuilder` -/
structure Builder where
  /-- `self.path`: `iri_to_uri(urlsplit(path).path)` -/
  path : Str
  /-- `self.request_uri`: the `path` argument as given -/
  requestUri : Str
  scriptRoot : Str
  host : Str
  urlScheme : Str
  /-- `_query_string` -/
  queryString : Option Str
  /-- `_args` -/
  args : Option (List (Str × Str))

/-- the `base_url` setter: `(scheme, netloc, script_root)`, `None` = `http://localhost` -/
def baseUrlSetter (o : UrlOpaque) : Option Str → Except String (Str × Str × Str)
  | none => .ok ("http".toList, "localhost".toList, [])
  | some value =>
    match urlsplit o value with
    | .error e => .error e
    | .ok b =>
      if !b.query.isEmpty || !b.fragment.isEmpty then .error "ValueError"
      else .ok (b.scheme, b.netloc, rstripSlash b.path)

/-- `if query_string is None and "?" in path: query_string = request_uri.query` -/
def effectiveQuery (path ruQuery : Str) : QueryArg → QueryArg
  | .absent => if path.contains '?' then .text ruQuery else .absent
  | q => q

/-- the attribute assignments of `__init__` -/
def mkBuilder (selfPath path root netloc scheme : Str) (q : QueryArg) : Builder :=
  { path := selfPath, requestUri := path, scriptRoot := root, host := netloc, urlScheme := scheme,
    queryString := match q with | .text s => some s | _ => none,
    args := match q with | .items l => some l | .absent => some [] | .text _ => none }

def QueryArg.given : QueryArg → Bool
  | .absent => false
  | _ => true

/-- `base_url = iri_to_uri(base_url)` when it is not `None` -/
def baseIri (o : UrlOpaque) : Option Str → Except String (Option Str)
  | none => .ok none
  | some b => (iriToUriText o b).map some

/-- `EnvironBuilder.__init__(path, base_url, query_string)`, in its order of evaluation -/
def builderInit (o : UrlOpaque) (path : Str) (base : Option Str) (q : QueryArg) : Except String Builder :=
  if q.given && path.contains '?' then .error "ValueError" else
  (urlsplit o path).bind fun ru =>
  (iriToUriText o ru.path).bind fun selfPath =>
  (baseIri o base).bind fun base' =>
  (baseUrlSetter o base').bind fun t =>
  .ok (mkBuilder selfPath path t.2.2 t.2.1 t.1 (effectiveQuery path ru.query q))

/-- the `query_string` property -/
def Builder.queryText (b : Builder) : Str :=
  match b.queryString with
  | some s => s
  | none => match b.args with | some l => urlencodeText l | none => []

/-- the `args` property: `AttributeError` once a query string is defined -/
def Builder.argsProp (b : Builder) : Except String (List (Str × Str)) :=
  if b.queryString.isSome then .error "AttributeError" else .ok (b.args.getD [])

/-- `_make_base_url(scheme, host, script_root)` -/
def makeBaseUrl (scheme host scriptRoot : Str) : Str :=
  rstripSlash (urlunsplit { scheme := scheme, netloc := host, path := scriptRoot, query := [], fragment := [] }) ++ ['/']

/-- the `base_url` property -/
def Builder.baseUrl (b : Builder) : Str := makeBaseUrl b.urlScheme b.host b.scriptRoot

/-- `server_name`: `host.split(":", 1)[0]` -/
def Builder.serverName (b : Builder) : Str := (partitionChar ':' b.host).1

/-- the scheme's default port as `EnvironBuilder.server_port` knows it -/
def builderDefaultPort (scheme : Str) : Nat := if scheme == "https".toList then 443 else 80

/-- `server_port`: `int(host.split(":", 1)[1])` when that is a plain run of ASCII digits (the only
form the streams feed; `int()`'s other accepted spellings are outside the model), else the default -/
def Builder.serverPort (b : Builder) : Nat :=
  match (partitionChar ':' b.host).2 with
  | some p => if !p.isEmpty && p.all isAsciiDigit then digitsToNat p else builderDefaultPort b.urlScheme
  | none => builderDefaultPort b.urlScheme

/-- the environ keys of `get_environ` this property is about -/
structure BEnviron extends Environ where
  requestUri : Str
  rawUri : Str
  serverName : Str
  serverPort : Str

/-- `get_environ()` -/
def Builder.environ (b : Builder) : BEnviron :=
  { scriptName := encodingDance (unquoteReplace b.scriptRoot)
    pathInfo := encodingDance (unquoteReplace b.path)
    queryString := encodingDance b.queryText
    httpHost := b.host
    urlScheme := b.urlScheme
    requestUri := encodingDance b.requestUri
    rawUri := encodingDance b.requestUri
    serverName := b.serverName
    serverPort := (toString b.serverPort).toList }

/-- `test._quote_url_syntax` (repair 18c1dce of F15f): `path.replace("%", "%25").replace("?", "%3F")
.replace("#", "%23")` - the three replacements never touch each other's output, so they are one pass -/
def quoteUrlSyntax (s : Str) : Str :=
  s.flatMap fun c =>
    if c = '%' then ['%', '2', '5'] else if c = '?' then ['%', '3', 'F'] else if c = '#' then ['%', '2', '3']
    else [c]

/-- `EnvironBuilder.from_environ(environ)` (the Host header is present): the decoded PATH_INFO and
SCRIPT_NAME are quoted by `_quote_url_syntax` before they are handed to the URL-syntax parameters -/
def fromEnviron (o : UrlOpaque) (e : Environ) : Except String Builder :=
  match decodingDance e.pathInfo, decodingDance e.scriptName, decodingDance e.queryString with
  | some p, some s, some q =>
    builderInit o (quoteUrlSyntax p) (some (makeBaseUrl e.urlScheme e.httpHost (quoteUrlSyntax s))) (.text q)
  | _, _, _ => .error "UnicodeEncodeError"

/-! ### the remaining URL attributes of `Request` -/

/-- `Request.args` (pairs in order): `parse_qsl(query_string.decode(errors="werkzeug.url_quote"),
keep_blank_values=True, errors="werkzeug.url_quote")` -/
def requestArgs (e : Environ) : Option (List (Str × Str)) :=
  (Py.latin1Enc e.queryString).map fun q => Urlencode.parseQsl true (Urlencode.decodeUrlQuote q)

/-- `Request.full_path`: `f"{path}?{query_string.decode(errors='werkzeug.url_quote')}"` - the `?` is
always there -/
def requestFullPath (e : Environ) : Option Str :=
  match decodingDance e.pathInfo, Py.latin1Enc e.queryString with
  | some p, some q => some (('/' :: lstripSlash p) ++ '?' :: decodeQ (q.length + 1) q)
  | _, _ => none

end Wz.Url
