/-
Model of the URL helpers behind C15.

* `urllib.parse.quote(s, safe=…)` over UTF-8 bytes, `unquote(s, "utf-8", "werkzeug.url_quote")`
  (CPython 3.12: maximal ASCII runs are percent-decoded and UTF-8-decoded, undecodable bytes are
  re-quoted by werkzeug's codec error handler), `_unquote_partial` (kept escapes split the text),
* `iri_to_uri` / `uri_to_iri` on ALREADY SPLIT components (urlsplit / urlunsplit and IDNA are
  opaque: the harness splits with urllib and passes components, host after the IDNA step),
* `_wsgi_encoding_dance` / `_wsgi_decoding_dance`,
* `DispatcherMiddleware.__call__`'s mount loop.
Tables (`Gen.UrlTables`): every safe= literal with its call site, the keep-quoted sets evaluated from
the live compiled patterns, urllib's always-safe set. Core Lean only.
-/
import WzVerif.Util.Bytes
import WzVerif.Util.Py
import WzVerif.Gen.UrlTables
namespace Wz.Url
open Wz

abbrev Str := List Char

def tbl (t : List Bool) (n : Nat) : Bool := t.getD n false

/-- uppercase hex digit (`'%{:02X}'.format`) -/
def hexU (n : Nat) : Char := if n < 10 then Char.ofNat (48 + n) else Char.ofNat (55 + n)

/-- is byte `b` left alone by `quote(…, safe)`: ASCII and in `_ALWAYS_SAFE` or in `safe`
(`safe.encode("ascii", "ignore")`: non-ASCII characters of `safe` never match) -/
def isSafe (safe : Str) (b : UInt8) : Bool :=
  b.toNat < 128 && (tbl Gen.UrlTables.alwaysSafe b.toNat || safe.contains (Char.ofNat b.toNat))

def pct (b : UInt8) : Str := ['%', hexU (b.toNat / 16), hexU (b.toNat % 16)]

def quoteByte (safe : Str) (b : UInt8) : Str :=
  if isSafe safe b then [Char.ofNat b.toNat] else pct b

/-- `quote_from_bytes(bs, safe)` -/
def quoteBytes (safe : Str) (bs : Bytes) : Str := bs.flatMap (quoteByte safe)

/-- `quote(s, safe=safe)` for a str of scalar values -/
def quote (safe : Str) (s : Str) : Str := quoteBytes safe (utf8Enc s)

/-! ### unquote -/

/-- `urllib.parse._unquote_impl` on the bytes of an ASCII run -/
def unquoteBytes : Bytes → Bytes
  | [] => []
  | b :: x :: y :: t =>
    if b = 0x25 then
      match hexVal? (Char.ofNat x.toNat), hexVal? (Char.ofNat y.toNat) with
      | some hi, some lo => UInt8.ofNat (16 * hi + lo) :: unquoteBytes t
      | _, _ => b :: unquoteBytes (x :: y :: t)
    else b :: unquoteBytes (x :: y :: t)
  | b :: t => b :: unquoteBytes t

/-- the text werkzeug's codec error handler substitutes for an undecodable span -/
def requote (span : Bytes) : Str := quoteBytes Gen.UrlTables.codecErrorSafe span

/-- for a lead byte: how many continuation bytes follow and the admissible range of the first one
(the ranges that exclude overlong forms, surrogates and code points above U+10FFFF) -/
def leadInfo (b0 : UInt8) : Option (Nat × UInt8 × UInt8) :=
  if Py.inRange b0 0xC2 0xDF then some (1, 0x80, 0xBF)
  else if Py.inRange b0 0xE0 0xEF then
    some (2, if b0 == 0xE0 then 0xA0 else 0x80, if b0 == 0xED then 0x9F else 0xBF)
  else if Py.inRange b0 0xF0 0xF4 then
    some (3, if b0 == 0xF0 then 0x90 else 0x80, if b0 == 0xF4 then 0x8F else 0xBF)
  else none

/-- the longest prefix of `t`, at most `n` bytes, of admissible continuation bytes: the first in
`[lo, hi]`, the others in `[0x80, 0xBF]` -/
def takeCont : Nat → UInt8 → UInt8 → Bytes → Bytes
  | 0, _, _, _ => []
  | _ + 1, _, _, [] => []
  | n + 1, lo, hi, b :: t => if Py.inRange b lo hi then b :: takeCont n 0x80 0xBF t else []

def codePoint (b0 : UInt8) (cs : Bytes) : Nat :=
  cs.foldl (fun acc b => acc * 64 + (b.toNat - 0x80))
    (b0.toNat - (match cs.length with | 1 => 0xC0 | 2 => 0xE0 | _ => 0xF0))

/-- what the UTF-8 decoder makes of the front of its input: a character (with the bytes it came
from) or an undecodable span - CPython's error span, the maximal invalid subpart -/
inductive Item where
  | chr (c : Char) (raw : Bytes)
  | bad (span : Bytes)

def Item.raw : Item → Bytes
  | .chr _ r => r
  | .bad s => s

def firstItem (b0 : UInt8) (t : Bytes) : Item :=
  if b0 < 0x80 then .chr (Char.ofNat b0.toNat) [b0]
  else
    match leadInfo b0 with
    | none => .bad [b0]
    | some (n, lo, hi) =>
      let cs := takeCont n lo hi t
      if cs.length = n then .chr (Char.ofNat (codePoint b0 cs)) (b0 :: cs) else .bad (b0 :: cs)

/-- the decoder's view of a byte string (fuel ≥ length) -/
def items : Nat → Bytes → List Item
  | 0, _ => []
  | _, [] => []
  | fuel + 1, b0 :: t =>
    let it := firstItem b0 t
    it :: items fuel (t.drop (it.raw.length - 1))

def render : Item → Str
  | .chr c _ => [c]
  | .bad span => requote span

/-- `bytes.decode("utf-8", "werkzeug.url_quote")`: valid sequences decode, every maximal invalid
subpart (CPython's error span) is replaced by its percent-quoted bytes. -/
def decodeQ (fuel : Nat) (bs : Bytes) : Str := (items fuel bs).flatMap render

/-- one maximal ASCII run of `unquote`: percent-decode, then decode as UTF-8 with the handler -/
def unquoteRun (run : Bytes) : Str :=
  let bs := unquoteBytes run
  decodeQ (bs.length + 1) bs

/-- `unquote(s, "utf-8", "werkzeug.url_quote")`; `acc` = the current ASCII run, reversed -/
def unquoteAux : Str → Bytes → Str
  | [], acc => unquoteRun acc.reverse
  | c :: t, acc =>
    if c.toNat < 128 then unquoteAux t (UInt8.ofNat c.toNat :: acc)
    else unquoteRun acc.reverse ++ c :: unquoteAux t []

def unquote (s : Str) : Str := unquoteAux s []

/-- does `s` start with an escape `%XY` (any hex case) whose byte is in the keep table? -/
def keptEscape (keep : List Bool) : Str → Bool
  | '%' :: x :: y :: _ =>
    match hexVal? x, hexVal? y with
    | some hi, some lo => tbl keep (16 * hi + lo)
    | _, _ => false
  | _ => false

/-- `_unquote_partial`: the kept escapes are copied, the text between them goes through `unquote`;
`seg` = the current in-between text, reversed. Fuel = length of the input + 1. -/
def unquotePartialAux (keep : List Bool) : Nat → Str → Str → Str
  | 0, _, _ => []
  | _, [], seg => unquote seg.reverse
  | fuel + 1, c :: t, seg =>
    if keptEscape keep (c :: t) then
      unquote seg.reverse ++ (c :: t).take 3 ++ unquotePartialAux keep fuel (t.drop 2) []
    else unquotePartialAux keep fuel t (c :: seg)

def unquotePartial (keep : List Bool) (s : Str) : Str := unquotePartialAux keep (s.length + 1) s []

/-! ### iri_to_uri / uri_to_iri on split components -/

/-- the attributes of `urlsplit(url)` the functions read; `host` is `parts.hostname` AFTER the
opaque IDNA step (`.encode("idna")` resp. `_decode_idna`), `""` when the hostname is falsy -/
structure Parts where
  scheme : Str := []
  username : Option Str := none
  password : Option Str := none
  host : Str := []
  port : Option Nat := none
  path : Str := []
  query : Str := []
  fragment : Str := []

/-- the 5-tuple handed to `urlunsplit` -/
structure Split where
  scheme : Str
  netloc : Str
  path : Str
  query : Str
  fragment : Str
deriving DecidableEq

def truthy (o : Option Str) : Option Str :=
  match o with
  | some [] => none
  | o => o

/-- netloc assembly shared by both directions; `f` converts username / password -/
def netloc (fu fp : Str → Str) (p : Parts) : Str :=
  let n := p.host
  let n := if n.contains ':' then '[' :: n ++ [']'] else n
  let n := match p.port with
    | some 0 => n
    | some k => n ++ ':' :: (toString k).toList
    | none => n
  match truthy p.username with
  | some u =>
    let auth := fu u
    let auth := match truthy p.password with
      | some pw => auth ++ ':' :: fp pw
      | none => auth
    auth ++ '@' :: n
  | none => n

def iriToUri (p : Parts) : Split :=
  { scheme := p.scheme
    netloc := netloc (quote Gen.UrlTables.iriUserSafe) (quote Gen.UrlTables.iriPasswordSafe) p
    path := quote Gen.UrlTables.iriPathSafe p.path
    query := quote Gen.UrlTables.iriQuerySafe p.query
    fragment := quote Gen.UrlTables.iriFragmentSafe p.fragment }

def uriToIri (p : Parts) : Split :=
  { scheme := p.scheme
    netloc := netloc (unquotePartial Gen.UrlTables.keepUser) (unquotePartial Gen.UrlTables.keepUser) p
    path := unquotePartial Gen.UrlTables.keepPath p.path
    query := unquotePartial Gen.UrlTables.keepQuery p.query
    fragment := unquotePartial Gen.UrlTables.keepFragment p.fragment }

/-! ### the latin-1 dances -/

/-- `_wsgi_encoding_dance(s) = s.encode().decode("latin1")` -/
def encodingDance (s : Str) : Str := Py.latin1Dec (utf8Enc s)

/-- `_wsgi_decoding_dance(s) = s.encode("latin1").decode(errors="replace")`; `none` = UnicodeEncodeError -/
def decodingDance (s : Str) : Option Str := (Py.latin1Enc s).map Py.decodeReplace

/-! ### EnvironBuilder → environ → Request.path -/

/-- `bytes.decode("utf-8", "replace")`: one U+FFFD per undecodable span -/
def renderR : Item → Str
  | .chr c _ => [c]
  | .bad _ => [Char.ofNat 0xFFFD]

def unquoteRunR (run : Bytes) : Str :=
  let bs := unquoteBytes run
  (items (bs.length + 1) bs).flatMap renderR

/-- `urllib.parse.unquote(s)` with its default `errors="replace"` -/
def unquoteAuxR : Str → Bytes → Str
  | [], acc => unquoteRunR acc.reverse
  | c :: t, acc =>
    if c.toNat < 128 then unquoteAuxR t (UInt8.ofNat c.toNat :: acc)
    else unquoteRunR acc.reverse ++ c :: unquoteAuxR t []

def unquoteReplace (s : Str) : Str := unquoteAuxR s []

/-- `environ["PATH_INFO"]` as `EnvironBuilder.get_environ` computes it from the path part of its
`path` argument: `_wsgi_encoding_dance(unquote(iri_to_uri(path)))` -/
def environPathInfo (path : Str) : Str :=
  encodingDance (unquoteReplace (quote Gen.UrlTables.iriPathSafe path))

/-- `Request.path`: `"/" + _wsgi_decoding_dance(PATH_INFO).lstrip("/")` -/
def requestPath (pathInfo : Str) : Option Str :=
  (decodingDance pathInfo).map fun p => '/' :: p.dropWhile (· == '/')

/-! ### DispatcherMiddleware -/

structure Dispatch where
  /-- what is appended to SCRIPT_NAME -/
  script : Str
  /-- the new PATH_INFO -/
  pathInfo : Str
  /-- the mount key that was selected; `none` = the default app -/
  mount : Option Str
deriving DecidableEq

/-- the `while "/" in script` loop; `r` is `script` reversed. Fuel = length of PATH_INFO + 1. -/
def dispatchLoop (mounts : List Str) : Nat → Str → Str → Dispatch
  | 0, r, pi => { script := r.reverse, pathInfo := pi, mount := none }
  | fuel + 1, r, pi =>
    if r.contains '/' then
      if mounts.contains r.reverse then { script := r.reverse, pathInfo := pi, mount := some r.reverse }
      else
        -- script, last_item = script.rsplit("/", 1); path_info = f"/{last_item}{path_info}"
        let last := (r.takeWhile (· != '/')).reverse
        let rest := (r.dropWhile (· != '/')).drop 1
        dispatchLoop mounts fuel rest ('/' :: last ++ pi)
    else
      -- while ... else: app = self.mounts.get(script, self.app)
      { script := r.reverse, pathInfo := pi,
        mount := if mounts.contains r.reverse then some r.reverse else none }

/-- `DispatcherMiddleware.__call__` up to the call of the selected app -/
def dispatch (mounts : List Str) (pathInfo : Str) : Dispatch :=
  dispatchLoop mounts (pathInfo.length + 1) pathInfo.reverse []

end Wz.Url
