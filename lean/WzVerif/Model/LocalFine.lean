/-
Fine-grained (preemptive) semantics of `werkzeug.local` method calls (C18).

`Model/Local.lean` runs one method call atomically. Here a call is a *frame* that executes one
primitive effect of its control-flow path per `step`, and the scheduler may interleave the steps of
different contexts arbitrarily (threads preempted between any two bytecode-level effects):

* `begin c v path a` - context `c`, idle, starts a call on cell `v` along `path` (one of the paths
  of a method body; the scheduler may pick any path - a path whose branch condition turns out
  false when it is reached is abandoned, so the real executions are among the modelled ones);
* `step c` - context `c` executes the next primitive effect of its frame (`stepOp`);
* `copyCtx parent` - only `parent` itself can copy its current context (`copy_context()`,
  `create_task`), so this happens only while `parent` is not inside a call; `freshCtx` any time.

At most one frame per context: a `contextvars.Context` cannot be entered twice. Core Lean only.
-/
import WzVerif.Model.Local
namespace Wz.Local

/-- a method call in progress -/
structure Active where
  v : Nat
  a : Args
  /-- the effects still to execute -/
  rest : Path
  rg : Regs
  acc : Option Nat
  /-- registers known (statically, `ownedAfter`) to hold an object allocated by this call -/
  owned : List Reg

structure FWorld where
  w : World
  /-- the call each context is in the middle of -/
  run : Nat → Option Active

def FWorld.init : FWorld := { w := World.init, run := fun _ => none }

inductive FEvent where
  | begin (c v : Nat) (path : Path) (a : Args)
  | step (c : Nat)
  | copyCtx (parent : Nat)
  | freshCtx

def setRun (run : Nat → Option Active) (c : Nat) (f : Option Active) : Nat → Option Active :=
  fun c' => if c' = c then f else run c'

def fstep (fw : FWorld) : FEvent → FWorld
  | .begin c v path a =>
    if c < fw.w.nctx ∧ (fw.run c).isNone then
      { fw with run := setRun fw.run c (some { v, a, rest := path, rg := fun _ => none, acc := none, owned := [] }) }
    else fw
  | .step c =>
    match fw.run c with
    | none => fw
    | some f =>
      match f.rest with
      | [] => { fw with run := setRun fw.run c none }
      | op :: t =>
        match stepOp c f.v f.a { w := fw.w, rg := f.rg, acc := f.acc } op with
        | .cont f' =>
          { w := f'.w,
            run := setRun fw.run c (some { f with rest := t, rg := f'.rg, acc := f'.acc, owned := ownedAfter f.owned op }) }
        | .ret w' _ => { w := w', run := setRun fw.run c none }
        | .skip => { fw with run := setRun fw.run c none }
  | .copyCtx parent =>
    if (fw.run parent).isNone then { fw with w := stepEvent fw.w (.copyCtx parent) } else fw
  | .freshCtx => { fw with w := stepEvent fw.w .freshCtx }

def frun (fw : FWorld) (es : List FEvent) : FWorld := es.foldl fstep fw

/-- every path that is started obeys the copy-on-write discipline -/
def FEvent.cbw : FEvent → Prop
  | .begin _ _ path _ => cbwPath [] path = true
  | _ => True

/-- does the event, executed in `fw`, run in context `c'` inside a call on cell `v'`? -/
def FEvent.touches (fw : FWorld) (e : FEvent) (c' v' : Nat) : Prop :=
  match e with
  | .step c => c = c' ∧ ∃ f, fw.run c = some f ∧ f.v = v'
  | _ => False

def NoTouchF (c' v' : Nat) : FWorld → List FEvent → Prop
  | _, [] => True
  | fw, e :: t => ¬ e.touches fw c' v' ∧ NoTouchF c' v' (fstep fw e) t

/-- `n` consecutive steps of context `c` -/
def stepsOf (c : Nat) : Nat → List FEvent
  | 0 => []
  | n + 1 => .step c :: stepsOf c n

end Wz.Local
