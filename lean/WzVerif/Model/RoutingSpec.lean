/-
Routing: the declarative reading of a rule map (what C03 compares the matcher with).

`walkVia` is a recogniser for ONE rule, independent of every other rule: it consumes the rule's
parts one after the other against the path segments (each part by its own anchored pattern, `step`)
and accepts in one of three ways:
  direct    nothing is left;
  trailing  exactly one empty segment is left (the path has one more final slash than the rule) —
            only a rule with strict_slashes off admits a path this way;
  noslash   the input is exhausted and the only part left is the final empty segment of a branch
            rule (the path lacks the rule's final slash) — a strict rule answers with the
            slash redirect, a non-strict one admits the path.
`admits` adds method / websocket, the conversions and the rule's defaults.
The specificity order `specLt` is the documented priority: at the first part where two rules differ a
literal part beats a variable part and a lighter converter (int/float 50 < string/any/uuid 100 <
path 200, after the literal decoration of the part) beats a heavier one.
-/
import WzVerif.Model.RoutingAdapter
namespace Wz.Routing

inductive Via where
  | direct | trailing | noslash
deriving DecidableEq, Repr

/-- the per-rule recogniser on path segments; returns the converter groups -/
def walkVia (via : Via) : List Part → List Str → Option (List Str)
  | [], input =>
    match via with
    | .direct => if input = [] then some [] else none
    | .trailing => if input = [[]] then some [] else none
    | .noslash => none
  | p :: ps, input =>
    if via = .noslash ∧ ps = [] ∧ p = .static [] ∧ input = [] then some []
    else
      match step p input with
      | some (a, rem) => (walkVia via ps rem).map (a ++ ·)
      | none => none

/-- may rule `r` use this way of admitting a path? -/
def viaAllowed (r : Rule) : Via → Bool
  | .direct => true
  | .trailing => !r.strict
  | .noslash => !r.strict

/-- the path segments the matcher works on -/
def segments (domain path : Str) : List Str := domain :: splitOn '/' path

/-- groups of the (at most one) way `r` admits the segments, ignoring method and websocket -/
def admitsGroups (r : Rule) (input : List Str) : Option (List Str) :=
  match walkVia .direct r.parts input with
  | some vs => some vs
  | none =>
    if r.strict then none
    else
      match walkVia .trailing r.parts input with
      | some vs => some vs
      | none => walkVia .noslash r.parts input

/-- `admits r q domain path`: the values with which rule `r`, taken alone, admits the request -/
def admits (r : Rule) (q : Req) (domain path : Str) : Option (List (Str × Value)) :=
  if ruleOK q r then
    match admitsGroups r (segments domain path) with
    | some vs => (convertValues r.convs vs).map (dictUpdate · r.defaults)
    | none => none
  else none

/-- does the rule's pattern admit the path for some method (what `NotFound` must exclude)? -/
def admitsPath (r : Rule) (domain path : Str) : Bool :=
  (walkVia .direct r.parts (segments domain path)).isSome ||
  (!r.strict && (walkVia .trailing r.parts (segments domain path)).isSome)

/-- a strict branch rule that would admit the path with one more final slash (slash redirect) -/
def wantsSlash (r : Rule) (domain path : Str) : Bool :=
  r.strict && (walkVia .noslash r.parts (segments domain path)).isSome

/-! ### specificity -/

/-- order of two different parts leaving the same state: static transitions are tried first, dynamic
ones by weight -/
def partLt : Part → Part → Bool
  | .static _, .dyn .. => true
  | .dyn _ _ _ _ _ w, .dyn _ _ _ _ _ w' => w.lt w'
  | _, _ => false

/-- `a` is strictly more specific than `b`: at the first position where the part lists differ,
`a`'s part comes first -/
def specLt : List Part → List Part → Bool
  | a :: as, b :: bs => if a = b then specLt as bs else partLt a b
  | _, _ => false

/-! ### domain of the C03 claims -/

/-- every converter of the rule accepts (in `to_python`) all text its regex accepts: no
`fixed_digits`, `min`, `max` (the F03 family is exactly the complement) -/
def Conv.total : Conv → Bool
  | .int fixed _ mn mx => fixed == 0 && mn.isNone && mx.isNone
  | .float _ mn mx => mn.isNone && mx.isNone
  | _ => true

def Rule.convTotal (r : Rule) : Bool := r.convs.all (·.2.total)

/-- a method set, when given, is not empty -/
def Rule.methodsOK (r : Rule) : Bool :=
  match r.methods with
  | some ms => !ms.isEmpty
  | none => true

def countPathVars : List Tok → Nat
  | [] => 0
  | .var .path _ :: t => 1 + countPathVars t
  | _ :: t => countPathVars t

def hasDoubleSlash : List Tok → Bool
  | .slash :: .slash :: _ => true
  | _ :: t => hasDoubleSlash t
  | [] => false

/-- is there a further segment (anything but one final slash) after a path converter? -/
def pathBeforeSegment : List Tok → Bool
  | .var .path _ :: t => !(t.filter (· != .slash)).isEmpty || t.length > 1
  | _ :: t => pathBeforeSegment t
  | [] => false

/-- the property's exclusions for one rule (plus: the model handles one converter per part) -/
def RuleSpec.inDomain (cfg : MapCfg) (s : RuleSpec) : Bool :=
  let strict := s.strict.getD cfg.strictSlashes
  let merge := s.merge.getD cfg.mergeSlashes
  countPathVars s.toks ≤ 1 &&
  (strict || !pathBeforeSegment s.toks) &&
  (merge || !hasDoubleSlash s.toks) &&
  (match s.methods with | some ms => !ms.isEmpty | none => true) &&
  (bindRule cfg 0 s).isSome

def InDomain (cfg : MapCfg) (specs : List RuleSpec) : Bool := specs.all (·.inDomain cfg)


/-! ### outcome tests (for decidable example statements) -/

def Outcome.isMatched : Outcome → Bool
  | .matched .. => true
  | _ => false

def Outcome.isNotFound : Outcome → Bool
  | .notFound => true
  | _ => false

def Outcome.is405 : Outcome → Bool
  | .methodNotAllowed _ => true
  | _ => false

def Outcome.isRedirect : Outcome → Bool
  | .redirect _ => true
  | _ => false

theorem Outcome.eq_notFound {o : Outcome} (h : o.isNotFound = true) : o = .notFound := by
  cases o <;> simp_all [Outcome.isNotFound]

end Wz.Routing
