/-
Heap / context model for `werkzeug.local` (C18).

* objects are dicts (insertion ordered `name ↦ value`) or lists of values; values are opaque
  tokens (`Nat`, in the harness: identities of `Box` objects);
* a world has a heap `id ↦ object`, an allocation counter, and for every context a map
  `var ↦ object id` (one `ContextVar` per `Local` / `LocalStack`) - what `ContextVar.get` would
  return in that context;
* `copyCtx` gives the new context the *same references* as its parent (that is what
  `contextvars.copy_context()` / `asyncio.create_task` do), `freshCtx` starts empty (new thread);
* method calls are the generated effect lists of `Gen/LocalOps.lean` run against this heap.

Out of the model: the guarantees of `contextvars` itself, GIL-level atomicity of one method call,
real preemption. Core Lean only.
-/
import WzVerif.Model.LocalIR
import WzVerif.Gen.LocalOps
namespace Wz.Local

inductive Obj where
  | dict (kv : List (Nat × Nat))
  | list (xs : List Nat)
deriving DecidableEq, Repr

def Obj.empty (isList : Bool) : Obj := if isList then .list [] else .dict []

/-- `d[k] = v` on an insertion-ordered dict -/
def dictSet : List (Nat × Nat) → Nat → Nat → List (Nat × Nat)
  | [], k, v => [(k, v)]
  | (k', v') :: t, k, v => if k' = k then (k, v) :: t else (k', v') :: dictSet t k v

def dictDel (kv : List (Nat × Nat)) (k : Nat) : List (Nat × Nat) := kv.filter fun p => p.1 != k

def dictGet (kv : List (Nat × Nat)) (k : Nat) : Option Nat := (kv.find? fun p => p.1 == k).map (·.2)

structure World where
  heap : Nat → Obj
  /-- allocation counter: every id in use is below it -/
  next : Nat
  /-- context ↦ var ↦ object id bound in that context -/
  ctxs : Nat → Nat → Option Nat
  /-- number of contexts created so far -/
  nctx : Nat

def World.init : World := { heap := fun _ => .dict [], next := 0, ctxs := fun _ _ => none, nctx := 1 }

/-- what context `c` can observe of var `v`: the content of the object bound there -/
def obs (w : World) (c v : Nat) : Option Obj := (w.ctxs c v).map w.heap

structure Args where
  /-- the `name` argument -/
  key : Nat := 0
  /-- the `value` / `obj` argument -/
  val : Nat := 0

abbrev Regs := Nat → Option Nat

def setReg (rg : Regs) (r : Reg) (id : Nat) : Regs := fun i => if i = r then some id else rg i

def alloc (w : World) (o : Obj) : World :=
  { w with heap := fun i => if i = w.next then o else w.heap i, next := w.next + 1 }

def mutate (w : World) (id : Nat) (f : Obj → Obj) : World :=
  { w with heap := fun i => if i = id then f (w.heap i) else w.heap i }

/-- `ContextVar.set` in context `c` -/
def bindVar (w : World) (c v id : Nat) : World :=
  { w with ctxs := fun c' v' => if c' = c ∧ v' = v then some id else w.ctxs c' v' }

inductive Res where
  | none
  | val (n : Nat)
  | items (kv : List (Nat × Nat))
  | list (xs : List Nat)
  | attrError
  /-- ill-formed program (undefined register, wrong object kind, missing return) -/
  | stuck
deriving DecidableEq, Repr

/-- local state of one running call -/
structure Frame where
  w : World
  rg : Regs
  acc : Option Nat := none

inductive Step where
  | cont (f : Frame)
  | ret (w : World) (r : Res)
  /-- a branch condition does not hold: this is not the path taken -/
  | skip

def objContains (o : Obj) (k : Nat) : Bool :=
  match o with
  | .dict kv => (dictGet kv k).isSome
  | .list xs => xs.contains k

def objEmpty (o : Obj) : Bool :=
  match o with
  | .dict kv => kv.isEmpty
  | .list xs => xs.isEmpty

/-- one primitive effect of a call running in context `c` on var `v` with arguments `a` -/
def stepOp (c v : Nat) (a : Args) (f : Frame) : Op → Step
  | .load d isList =>
    match f.w.ctxs c v with
    | some id => .cont { f with rg := setReg f.rg d id }
    | none => .cont { f with w := alloc f.w (Obj.empty isList), rg := setReg f.rg d f.w.next }
  | .copy d s =>
    match f.rg s with
    | some id => .cont { f with w := alloc f.w (f.w.heap id), rg := setReg f.rg d f.w.next }
    | none => .ret f.w .stuck
  | .fresh d isList => .cont { f with w := alloc f.w (Obj.empty isList), rg := setReg f.rg d f.w.next }
  | .sliceInit d s =>
    match f.rg s with
    | some id =>
      match f.w.heap id with
      | .list xs => .cont { f with w := alloc f.w (.list xs.dropLast), rg := setReg f.rg d f.w.next }
      | _ => .ret f.w .stuck
    | none => .ret f.w .stuck
  | .setItem r =>
    match f.rg r with
    | some id => .cont { f with w := mutate f.w id fun o =>
        match o with | .dict kv => .dict (dictSet kv a.key a.val) | o => o }
    | none => .ret f.w .stuck
  | .delItem r =>
    match f.rg r with
    | some id => .cont { f with w := mutate f.w id fun o =>
        match o with | .dict kv => .dict (dictDel kv a.key) | o => o }
    | none => .ret f.w .stuck
  | .append r =>
    match f.rg r with
    | some id => .cont { f with w := mutate f.w id fun o =>
        match o with | .list xs => .list (xs ++ [a.val]) | o => o }
    | none => .ret f.w .stuck
  | .store r =>
    match f.rg r with
    | some id => .cont { f with w := bindVar f.w c v id }
    | none => .ret f.w .stuck
  | .assumeContains r b =>
    match f.rg r with
    | some id => if objContains (f.w.heap id) a.key = b then .cont f else .skip
    | none => .ret f.w .stuck
  | .assumeEmpty r b =>
    match f.rg r with
    | some id => if objEmpty (f.w.heap id) = b then .cont f else .skip
    | none => .ret f.w .stuck
  | .peekLast r =>
    match f.rg r with
    | some id =>
      match f.w.heap id with
      | .list xs => .cont { f with acc := xs.getLast? }
      | _ => .ret f.w .stuck
    | none => .ret f.w .stuck
  | .retAcc => .ret f.w (match f.acc with | some x => .val x | none => .stuck)
  | .retNone => .ret f.w .none
  | .retItem r =>
    match f.rg r with
    | some id =>
      match f.w.heap id with
      | .dict kv => .ret f.w (match dictGet kv a.key with | some x => .val x | none => .stuck)
      | _ => .ret f.w .stuck
    | none => .ret f.w .stuck
  | .retItems r =>
    match f.rg r with
    | some id =>
      match f.w.heap id with
      | .dict kv => .ret f.w (.items kv)
      | _ => .ret f.w .stuck
    | none => .ret f.w .stuck
  | .retLast r =>
    match f.rg r with
    | some id =>
      match f.w.heap id with
      | .list xs => .ret f.w (match xs.getLast? with | some x => .val x | none => .stuck)
      | _ => .ret f.w .stuck
    | none => .ret f.w .stuck
  | .retReg r =>
    match f.rg r with
    | some id =>
      match f.w.heap id with
      | .list xs => .ret f.w (.list xs)
      | .dict kv => .ret f.w (.items kv)
    | none => .ret f.w .stuck
  | .raiseAttr => .ret f.w .attrError

/-- run one control-flow path; `none` = a branch condition failed (not the path taken) -/
def runPath (c v : Nat) (a : Args) : Frame → Path → Option (World × Res)
  | f, [] => some (f.w, .stuck)
  | f, op :: t =>
    match stepOp c v a f op with
    | .cont f' => runPath c v a f' t
    | .ret w r => some (w, r)
    | .skip => none

/-- run a method body: the first path whose branch conditions hold, from the same start state -/
def runProg (w : World) (c v : Nat) (a : Args) : Prog → World × Res
  | [] => (w, .stuck)
  | p :: rest =>
    match runPath c v a { w := w, rg := fun _ => none } p with
    | some r => r
    | none => runProg w c v a rest

/-! ### the copy-on-write discipline (static, decidable) -/

/-- an in-place mutation is allowed only on an owned register -/
def opOk (o : List Reg) : Op → Bool
  | .setItem r => o.contains r
  | .delItem r => o.contains r
  | .append r => o.contains r
  | _ => true

/-- registers known to hold an object allocated in this call: assigned from `copy`, a literal or a
slice, and not re-bound to the (possibly shared) context payload since -/
def ownedAfter (o : List Reg) : Op → List Reg
  | .load d _ => o.filter (· != d)
  | .copy d _ => d :: o
  | .fresh d _ => d :: o
  | .sliceInit d _ => d :: o
  | _ => o

/-- every in-place mutation on the path targets an owned register -/
def cbwPath : List Reg → Path → Bool
  | _, [] => true
  | o, op :: t => opOk o op && cbwPath (ownedAfter o op) t

def cbwProg (p : Prog) : Bool := p.all (cbwPath [])

/-- `CopyBeforeWrite p`: the discipline holds on every path of `p` -/
def CopyBeforeWrite (p : Prog) : Prop := cbwProg p = true

instance (p : Prog) : Decidable (CopyBeforeWrite p) := by unfold CopyBeforeWrite; infer_instance

/-! ### events: method calls interleaved with context creation -/

inductive Event where
  /-- context `c` runs method body `p` of the local bound to var `v` -/
  | call (c v : Nat) (p : Prog) (a : Args)
  /-- `contextvars.copy_context()` / `asyncio.create_task` in context `parent` -/
  | copyCtx (parent : Nat)
  /-- a new thread / `contextvars.Context()` -/
  | freshCtx

def stepEvent (w : World) : Event → World
  | .call c v p a => if c < w.nctx then (runProg w c v a p).1 else w
  | .copyCtx parent =>
    { w with nctx := w.nctx + 1,
             ctxs := fun c v => if c = w.nctx then (if parent < w.nctx then w.ctxs parent v else none)
                                else w.ctxs c v }
  | .freshCtx =>
    { w with nctx := w.nctx + 1, ctxs := fun c v => if c = w.nctx then none else w.ctxs c v }

def run (w : World) (es : List Event) : World := es.foldl stepEvent w

/-- the context an event executes in -/
def Event.actor : Event → Option Nat
  | .call c _ _ _ => some c
  | _ => none

def Event.cbw : Event → Prop
  | .call _ _ p _ => CopyBeforeWrite p
  | _ => True

/-! ### proxies -/

/-- how a `LocalProxy` was constructed -/
inductive Proxy where
  /-- `LocalProxy(local, name)` / `local(name)` -/
  | attr (v : Nat) (name : Nat)
  /-- `LocalProxy(stack)` / `stack()` -/
  | top (v : Nat)

/-- `proxy._get_current_object()` evaluated in context `c`; `none` = RuntimeError (unbound).
This follows the closures in `LocalProxy.__init__`: `getattr(local, name)` (AttributeError →
RuntimeError) and `stack.top` (`None` → RuntimeError). -/
def resolve (w : World) (c : Nat) : Proxy → Option Nat
  | .attr v name =>
    match (runProg w c v { key := name } Gen.LocalOps.localGetattr).2 with
    | .val x => some x
    | _ => none
  | .top v =>
    match (runProg w c v {} Gen.LocalOps.stackTop).2 with
    | .val x => some x
    | _ => none

/-- what the three observable faces of a proxy report: `_get_current_object()`, `bool(proxy)`,
and whether `repr(proxy)` is the fallback `<LocalProxy unbound>` (model of `_ProxyLookup.__get__`
with the `fallback`s declared on `LocalProxy`). -/
structure ProxyView where
  obj : Option Nat        -- none = RuntimeError
  truthy : Bool
  fallbackRepr : Bool
deriving DecidableEq, Repr

def proxyView (w : World) (c : Nat) (p : Proxy) : ProxyView :=
  match resolve w c p with
  | some x => { obj := some x, truthy := true, fallbackRepr := false }
  | none => { obj := none, truthy := false, fallbackRepr := true }

/-- `_get_current_object()` as the *current source* decides it: the `LocalStack` closure applies the
generated unbound test to the top of the stack; `falsy` tells which value tokens are falsy objects
(empty dict / list, 0, "", an object with `__len__() == 0`, ...) -/
def resolveSrc (falsy : Nat → Bool) (w : World) (c : Nat) : Proxy → Option Nat
  | .attr v name => resolve w c (.attr v name)
  | .top v =>
    match resolve w c (.top v) with
    | some x =>
      match Gen.LocalOps.stackProxyTest with
      | .isNone => some x
      | .falsy => if falsy x then none else some x
    | none => none

/-- the three faces of a proxy as the current source computes them; `bool(proxy)` is forwarded to
the bound object -/
def proxyViewSrc (falsy : Nat → Bool) (w : World) (c : Nat) (p : Proxy) : ProxyView :=
  match resolveSrc falsy w c p with
  | some x => { obj := some x, truthy := !falsy x, fallbackRepr := false }
  | none => { obj := none, truthy := false, fallbackRepr := true }

end Wz.Local
