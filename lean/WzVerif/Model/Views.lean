/-
Model of the live header views of `werkzeug.sansio.response.Response` (C16).

A response is its `Headers` list (Model/Headers.lean). Every view is modelled as
  * the state of the view object (what the Python object holds),
  * `load`  : the property getter (parse the header into a fresh view),
  * `write` : the `on_update` closure the getter installs (serialise the view back),
  * the mutators of the view object, each answering (new state, was `on_update` called, result).
The header codecs (`parse_list_header`, `parse_dict_header`, `dump_header`, `parse_csp_header`,
`parse_content_range_header`, `WWWAuthenticate.from_header/to_header`, `parse_options_header`
restricted to parameters without `*`) are transcribed here; they are the subject of C06 and are
validated by the `views` stream.

Out of the model (values computed by the harness with the same library call): dates
(`http_date` / `parse_date`), RFC 2231 `key*=charset''value` parameters.
-/
import WzVerif.Util.Py
import WzVerif.Model.Headers
import WzVerif.Model.Containers
import WzVerif.Gen.Views
namespace Wz.Views
open Wz Hdr PyDict

abbrev ODict := Dict Str (Option Str)

def strip (s : Str) : Str := Py.strip s
def lstrip (s : Str) : Str := s.dropWhile Py.isSpace
def rstripCh (c : Char) (s : Str) : Str := (s.reverse.dropWhile (· == c)).reverse

/-- `s.partition(c)` : (before, found?, after) -/
def partitionCh (c : Char) (s : Str) : Str × Bool × Str :=
  let a := s.takeWhile (· != c)
  match s.dropWhile (· != c) with
  | [] => (a, false, [])
  | _ :: r => (a, true, r)

/-- `s.split(c)` -/
def splitCh (c : Char) (s : Str) : List Str :=
  let rec go : List Char → Str → List Str
    | [], cur => [cur.reverse]
    | x :: t, cur => if x == c then cur.reverse :: go t [] else go t (x :: cur)
  go s []

/-! ### quoting / list and dict headers -/

def isTokenStr (s : Str) : Bool := s.all (fun ch => Gen.Containers.tokenChars.contains ch.toNat)

def escapeQ (s : Str) : Str :=
  s.flatMap (fun ch => if ch == '\\' then ['\\', '\\'] else if ch == '"' then ['\\', '"'] else [ch])

/-- `http.quote_header_value(value, allow_token)` -/
def quoteHeaderValue (s : Str) (allowToken : Bool := true) : Str :=
  if s.isEmpty then ['"', '"']
  else if allowToken && isTokenStr s then s
  else '"' :: escapeQ s ++ ['"']

structure PL where
  res : List Str
  part : Str
  escape : Bool
  quote : Bool

/-- one character of the scanner of `urllib.request.parse_http_list` -/
def plStep (st : PL) (cur : Char) : PL :=
  if st.escape then { st with part := st.part ++ [cur], escape := false }
  else if st.quote then
    if cur == '\\' then { st with escape := true }
    else if cur == '"' then { st with part := st.part ++ [cur], quote := false }
    else { st with part := st.part ++ [cur] }
  else if cur == ',' then { st with res := st.res ++ [st.part], part := [] }
  else if cur == '"' then { st with part := st.part ++ [cur], quote := true }
  else { st with part := st.part ++ [cur] }

/-- `urllib.request.parse_http_list` -/
def parseHttpList (s : Str) : List Str :=
  let st := s.foldl plStep ⟨[], [], false, false⟩
  let res := if st.part.isEmpty then st.res else st.res ++ [st.part]
  res.map strip

/-- remove one pair of surrounding double quotes -/
def unwrapQuotes (item : Str) : Str :=
  if item.length ≥ 2 && item.head? == some '"' && item.getLast? == some '"' then
    (item.drop 1).dropLast
  else item

/-- `http.parse_list_header` -/
def parseListHeader (v : Str) : List Str := (parseHttpList v).map unwrapQuotes

/-- `http.dump_header(iterable of str)` -/
def dumpList (l : List Str) : Str := List.intercalate ", ".toList (l.map (quoteHeaderValue ·))

/-- `http.parse_dict_header` (keys ending in `*` lose the star; charset markers are not modelled) -/
def parseDictHeader (v : Str) : ODict :=
  (parseListHeader v).foldl (fun (result : ODict) item =>
    let (k, has, val) := partitionCh '=' item
    let key := strip k
    if key.isEmpty then result
    else if !has then PyDict.set result key none
    else
      let val := strip val
      let key' := if key.getLast? == some '*' then key.dropLast else key
      if key'.isEmpty then result
      else PyDict.set result key' (some (unwrapQuotes val))) []

/-- one `key[=value]` item of `dump_header(dict)` -/
def dumpDictItem (quote : Str → Str → Str) (e : Str × Option Str) : Str :=
  match e.2 with
  | none => e.1
  | some v => if e.1.getLast? == some '*' then e.1 ++ '=' :: v else e.1 ++ '=' :: quote e.1 v

/-- `http.dump_header(dict)` -/
def dumpDict (d : ODict) : Str :=
  List.intercalate ", ".toList (d.map (dumpDictItem (fun _ v => quoteHeaderValue v)))

/-! ### generic callback dict (`CallbackDict` / `UpdateDictMixin`) -/

structure Out (σ ρ : Type) where
  st : σ
  notified : Bool
  res : Except String ρ

inductive DOp (β : Type) where
  | setitem (k : Str) (v : β)
  | delitem (k : Str)
  | clear
  | popitem
  | update (l : List (Str × β))
  | setdefault (k : Str) (v : β)
  | pop (k : Str) (dflt : Option β)
deriving Repr, DecidableEq

/-- the mutators of `UpdateDictMixin`; the result is the popped / defaulted value when there is one -/
def dstep {β : Type} (d : Dict Str β) : DOp β → Out (Dict Str β) (Option β)
  | .setitem k v => ⟨PyDict.set d k v, true, .ok none⟩
  | .delitem k => if has d k then ⟨erase d k, true, .ok none⟩ else ⟨d, false, .error "KeyError"⟩
  | .clear => ⟨[], true, .ok none⟩
  | .popitem =>
    match PyDict.popitem d with
    | some (e, d') => ⟨d', true, .ok (some e.2)⟩
    | none => ⟨d, false, .error "KeyError"⟩
  | .update l => ⟨l.foldl (fun a e => PyDict.set a e.1 e.2) d, true, .ok none⟩
  | .setdefault k v =>
    match get? d k with
    | some x => ⟨d, false, .ok (some x)⟩
    | none => ⟨PyDict.set d k v, true, .ok (some v)⟩
  | .pop k dflt =>
    match get? d k with
    | some x => ⟨erase d k, true, .ok (some x)⟩
    | none => match dflt with
      | some x => ⟨d, false, .ok (some x)⟩
      | none => ⟨d, false, .error "KeyError"⟩

/-! ### HeaderSet views (Vary / Allow / Content-Language) -/
namespace SetView

/-- `parse_set_header(headers.get(name))` -/
def load (h : HList) (name : Str) : HS.St :=
  match getKey h name with
  | .ok v => if v.isEmpty then HS.construct [] else HS.construct (parseListHeader v)
  | .error _ => HS.construct []

/-- `HeaderSet.to_header` -/
def dump (c : HS.St) : Str := dumpList c.headers

/-- the `on_update` closure of `_set_property.fget` -/
def write (h : HList) (name : Str) (c : HS.St) : HList :=
  if c.set.isEmpty then (if Hdr.contains h name then delKey h name else h)
  else (Hdr.set h name (dump c)).1

end SetView

/-! ### Cache-Control -/
namespace CC

/-- a value assigned to a typed directive attribute -/
inductive Val where
  | none
  | bool (b : Bool)
  | int (i : Int)
  | str (s : Str)
deriving Repr, DecidableEq

inductive Ty where
  | bool | int | str
deriving Repr, DecidableEq

/-- decimal text of a natural number (`str(n)`) -/
def natText (n : Nat) : Str := Nat.toDigits 10 n

/-- `str(i)` for an int -/
def intText : Int → Str
  | .ofNat n => natText n
  | .negSucc n => '-' :: natText (n + 1)

/-- value of a non-empty run of ASCII digits -/
def digitsVal (d : List Char) : Option Nat :=
  if d.isEmpty || !d.all Char.isDigit then none else some (Nat.ofDigitChars 10 d 0)

/-- Python `int(text)` for an optional sign and ASCII digits -/
def pyInt (s : Str) : Option Int :=
  match s with
  | '-' :: d => (digitsVal d).map (fun n => -(n : Int))
  | '+' :: d => (digitsVal d).map (fun n => (n : Int))
  | d => (digitsVal d).map (fun n => (n : Int))

def load (h : HList) : ODict :=
  match getKey h "cache-control".toList with
  | .ok v => if v.isEmpty then [] else parseDictHeader v
  | .error _ => []

def dump (d : ODict) : Str := dumpDict d

/-- the `on_update` closure of `Response.cache_control` -/
def write (h : HList) (d : ODict) : HList :=
  if d.isEmpty then (if Hdr.contains h "cache-control".toList then delKey h "cache-control".toList else h)
  else (Hdr.set h "Cache-Control".toList (dump d)).1

/-- `_set_cache_value(key, value, type)` -/
def setValue (d : ODict) (key : Str) (ty : Ty) (v : Val) : Out ODict Unit :=
  let popIt : Out ODict Unit := if has d key then ⟨erase d key, true, .ok ()⟩ else ⟨d, false, .ok ()⟩
  let setNone : Out ODict Unit := ⟨PyDict.set d key none, true, .ok ()⟩
  let truthy : Bool := match v with
    | .none => false | .bool b => b | .int i => i != 0 | .str s => !s.isEmpty
  if ty == .bool then (if truthy then setNone else popIt)
  else match v with
    | .none => popIt
    | .bool false => popIt
    | .bool true => setNone
    | .int i => ⟨PyDict.set d key (some (intText i)), true, .ok ()⟩
    | .str s =>
      if ty == .int then
        match pyInt s with
        | some i => ⟨PyDict.set d key (some (intText i)), true, .ok ()⟩
        | none => ⟨d, false, .error "ValueError"⟩
      else ⟨PyDict.set d key (some s), true, .ok ()⟩

/-- what a typed attribute read returns -/
inductive Got where
  | none
  | bool (b : Bool)
  | int (i : Int)
  | str (s : Str)
deriving Repr, DecidableEq

/-- `_get_cache_value(key, empty, type)`; `emptyTrue` = the property's `empty` is `True` -/
def getValue (d : ODict) (key : Str) (emptyTrue : Bool) (ty : Ty) : Got :=
  if ty == .bool then .bool (has d key)
  else match get? d key with
    | none => .none
    | some none => if emptyTrue then .bool true else .none
    | some (some v) =>
      if ty == .int then (match pyInt v with | some i => .int i | none => .none) else .str v

/-- `_del_cache_value(key)` -/
def delValue (d : ODict) (key : Str) : Out ODict Unit :=
  if has d key then ⟨erase d key, true, .ok ()⟩ else ⟨d, false, .ok ()⟩

inductive Op where
  /-- `cc.<attr> = value` for the directive `key` of type `ty` -/
  | attr (key : Str) (ty : Ty) (v : Val)
  /-- `del cc.<attr>` -/
  | delattr (key : Str)
  /-- a dict mutator (`CallbackDict`) -/
  | dict (op : DOp (Option Str))
deriving Repr, DecidableEq

def step (d : ODict) : Op → Out ODict (Option (Option Str))
  | .attr key ty v => let r := setValue d key ty v; ⟨r.st, r.notified, r.res.map fun _ => none⟩
  | .delattr key => let r := delValue d key; ⟨r.st, r.notified, r.res.map fun _ => none⟩
  | .dict op => dstep d op

end CC

/-! ### Content-Security-Policy -/
namespace CSP

abbrev St := Dict Str Str

/-- `parse_csp_header(value)` (the header value, not None) -/
def parse (v : Str) : St :=
  (splitCh ';' v).foldl (fun (d : St) policy =>
    let p := strip policy
    if p.contains ' ' then
      let (a, _, b) := partitionCh ' ' p
      PyDict.set d (strip a) (strip b)
    else d) []

def load (h : HList) (name : Str) : St :=
  match getKey h name with
  | .ok v => parse v
  | .error _ => []

/-- `dump_csp_header` -/
def dump (d : St) : Str := List.intercalate "; ".toList (d.map fun e => e.1 ++ ' ' :: e.2)

/-- the `on_update` closure (`writeName` is the spelling it uses when setting) -/
def write (h : HList) (name writeName : Str) (d : St) : HList :=
  if d.isEmpty then delKey h name else (Hdr.set h writeName (dump d)).1

/-- `csp.<attr> = value` -/
def setValue (d : St) (key : Str) (v : Option Str) : Out St Unit :=
  match v with
  | none => if has d key then ⟨erase d key, true, .ok ()⟩ else ⟨d, false, .ok ()⟩
  | some s => ⟨PyDict.set d key s, true, .ok ()⟩

def delValue (d : St) (key : Str) : Out St Unit :=
  if has d key then ⟨erase d key, true, .ok ()⟩ else ⟨d, false, .ok ()⟩

inductive Op where
  | attr (key : Str) (v : Option Str)
  | delattr (key : Str)
  | dict (op : DOp Str)
deriving Repr, DecidableEq

def step (d : St) : Op → Out St (Option Str)
  | .attr key v => let r := setValue d key v; ⟨r.st, r.notified, r.res.map fun _ => none⟩
  | .delattr key => let r := delValue d key; ⟨r.st, r.notified, r.res.map fun _ => none⟩
  | .dict op => dstep d op

end CSP

/-! ### Content-Range -/
namespace CR

structure St where
  units : Option Str
  start : Option Int
  stop : Option Int
  length : Option Int
deriving Repr, DecidableEq

def empty : St := ⟨none, none, none, none⟩

/-- `http.is_byte_range_valid` -/
def valid (start stop length : Option Int) : Bool :=
  match start, stop with
  | none, some _ => false
  | some _, none => false
  | none, none => (match length with | none => true | some l => l ≥ 0)
  | some a, some b =>
    match length with
    | none => 0 ≤ a && a < b
    | some l => if a ≥ b then false else 0 ≤ a && a < l

/-- `_plain_int` : strip, then `-?\d+` -/
def plainInt (s : Str) : Option Int :=
  match strip s with
  | '-' :: d => (CC.digitsVal d).map (fun n => -(n : Int))
  | d => (CC.digitsVal d).map (fun n => (n : Int))

/-- `value.strip().split(None, 1)` when it has two parts -/
def splitWs1 (s : Str) : Option (Str × Str) :=
  let t := strip s
  let a := t.takeWhile (fun c => !Py.isSpace c)
  let r := lstrip (t.dropWhile (fun c => !Py.isSpace c))
  if a.isEmpty || r.isEmpty then none else some (a, r)

/-- `parse_content_range_header(value)` for a present header -/
def parse (v : Str) : Option St :=
  match splitWs1 v with
  | none => none
  | some (units, rangedef) =>
    let (rng, hasSlash, lengthStr) := partitionCh '/' rangedef
    if !hasSlash then none else
    let length? : Option (Option Int) :=
      if lengthStr == ['*'] then some none else (plainInt lengthStr).map some
    match length? with
    | none => none
    | some length =>
      if rng == ['*'] then
        (if valid none none length then some ⟨some units, none, none, length⟩ else none)
      else
        let (a, hasDash, b) := partitionCh '-' rng
        if !hasDash then none else
        match plainInt a, plainInt b with
        | some start, some stop1 =>
          if valid (some start) (some (stop1 + 1)) length then some ⟨some units, some start, some (stop1 + 1), length⟩
          else none
        | _, _ => none

def load (h : HList) : St :=
  match getKey h "content-range".toList with
  | .ok v => (parse v).getD empty
  | .error _ => empty

/-- `ContentRange.to_header`; TypeError when `start` is set without `stop` -/
def toHeader (c : St) : Except String Str :=
  match c.units with
  | none => .ok []
  | some u =>
    let len : Str := match c.length with | none => ['*'] | some l => CC.intText l
    match c.start with
    | none => .ok (u ++ " */".toList ++ len)
    | some a =>
      match c.stop with
      | none => .error "TypeError"
      | some b => .ok (u ++ ' ' :: CC.intText a ++ '-' :: CC.intText (b - 1) ++ '/' :: len)

/-- the `on_update` closure; an exception from `to_header` propagates to the caller of the mutator -/
def write (h : HList) (c : St) : HList × Except String Unit :=
  match c.units with
  | none => (delKey h "content-range".toList, .ok ())
  | some _ =>
    match toHeader c with
    | .ok t => ((Hdr.set h "Content-Range".toList t).1, (Hdr.set h "Content-Range".toList t).2)
    | .error e => (h, .error e)

/-- `Response.content_range` getter: the `ContentRange` constructor calls `set`, which calls the
freshly installed `on_update` - so *reading* the property rewrites the header in normal form (or
deletes an unparsable one) -/
def fetch (h : HList) : St × HList :=
  let c := load h
  (c, (write h c).1)

inductive Op where
  | setUnits (u : Option Str)
  | setStart (i : Option Int)
  | setStop (i : Option Int)
  | setLength (i : Option Int)
  | set (start stop length : Option Int) (units : Option Str)
  | unset
deriving Repr, DecidableEq

/-- view mutators: attribute assignment always notifies; `set` asserts validity first -/
def step (c : St) : Op → Out St Unit
  | .setUnits u => ⟨{ c with units := u }, true, .ok ()⟩
  | .setStart i => ⟨{ c with start := i }, true, .ok ()⟩
  | .setStop i => ⟨{ c with stop := i }, true, .ok ()⟩
  | .setLength i => ⟨{ c with length := i }, true, .ok ()⟩
  | .set a b l u => if valid a b l then ⟨⟨u, a, b, l⟩, true, .ok ()⟩ else ⟨c, false, .error "AssertionError"⟩
  | .unset => ⟨empty, true, .ok ()⟩

end CR

/-! ### WWW-Authenticate -/
namespace Auth

structure St where
  type : Str
  params : ODict
  token : Option Str
deriving Repr, DecidableEq

def default : St := ⟨"basic".toList, [], none⟩

/-- `WWWAuthenticate.from_header(value)` for a non-empty value -/
def fromHeader (v : Str) : St :=
  let (scheme, _, rest) := partitionCh ' ' v
  let scheme := lower scheme
  let rest := strip rest
  if (rstripCh '=' rest).contains '=' then ⟨scheme, parseDictHeader rest, none⟩
  else ⟨scheme, [], some rest⟩

def load (h : HList) : St :=
  match getKey h "WWW-Authenticate".toList with
  | .ok v => if v.isEmpty then default else fromHeader v
  | .error _ => default

/-- text of a parameter value (`str(None)` is `"None"`) -/
def valText : Option Str → Str
  | none => "None".toList
  | some s => s

/-- `WWWAuthenticate.to_header` -/
def toHeader (c : St) : Str :=
  match c.token with
  | some t => EH.title c.type ++ ' ' :: t
  | none =>
    if c.type == "digest".toList then
      "Digest ".toList ++ List.intercalate ", ".toList (c.params.map fun e =>
        e.1 ++ '=' :: quoteHeaderValue (valText e.2)
          (!(Gen.Views.digestQuoted.contains (String.ofList e.1))))
    else EH.title c.type ++ ' ' :: dumpDict c.params

/-- `on_update`: `response.www_authenticate = value` with a (truthy) view object -/
def write (h : HList) (c : St) : HList := (Hdr.set h "WWW-Authenticate".toList (toHeader c)).1

inductive Op where
  | setType (s : Str)
  | setToken (t : Option Str)
  | setParams (d : ODict)
  | setitem (k : Str) (v : Option Str)
  | delitem (k : Str)
  | pdict (op : DOp (Option Str))
deriving Repr, DecidableEq

/-- view mutators (`__setattr__` dispatches `type` / `token` / `parameters` to the property
setters and every other name to `__setitem__`) -/
def step (c : St) : Op → Out St (Option (Option Str))
  | .setType s => ⟨{ c with type := lower s }, true, .ok none⟩   -- as repaired by 78ff821
  | .setToken t => ⟨{ c with token := t }, true, .ok none⟩
  | .setParams d => ⟨{ c with params := d }, true, .ok none⟩
  | .setitem k v =>
    match v with
    | none => ⟨{ c with params := if has c.params k then erase c.params k else c.params }, true, .ok none⟩
    | some s => ⟨{ c with params := PyDict.set c.params k (some s) }, true, .ok none⟩
  | .delitem k =>
    if has c.params k then ⟨{ c with params := erase c.params k }, true, .ok none⟩ else ⟨c, false, .ok none⟩
  | .pdict op =>
    let r := dstep c.params op
    ⟨{ c with params := r.st }, r.notified, r.res⟩

end Auth

/-! ### mimetype_params -/
namespace MP

abbrev St := Dict Str Str

def isKeyChar (c : Char) : Bool :=
  c.isAlphanum || c == '_' || "!#$%&'*+-.^`|~".toList.contains c

/-- closing position scan of a quoted string starting after the opening quote;
returns (raw quoted text including both quotes, rest) -/
def scanQuoted : List Char → Str → Option (Str × Str)
  | [], _ => none
  | '\\' :: '\\' :: t, acc => scanQuoted t ('\\' :: '\\' :: acc)
  | '\\' :: '"' :: t, acc => scanQuoted t ('"' :: '\\' :: acc)
  | '"' :: t, acc => some (('"' :: acc).reverse, t)
  | c :: t, acc => scanQuoted t (c :: acc)

def replaceAll (pat rep : Str) (s : Str) : Str :=
  let rec go : Nat → List Char → List Char
    | 0, s => s
    | _, [] => []
    | n + 1, c :: t =>
      if pat.isPrefixOf (c :: t) && !pat.isEmpty then rep ++ go n ((c :: t).drop pat.length)
      else c :: go n t
  go (s.length + 1) s

def unquoteParam (pv : Str) : Str :=
  if pv.head? == some '"' && pv.getLast? == some '"' then
    let inner := (pv.drop 1).dropLast
    replaceAll "%22".toList ['"'] (replaceAll "\\\"".toList ['"'] (replaceAll "\\\\".toList ['\\'] inner))
  else pv

/-- the collection loop of `parse_options_header` over `rest` -/
def collect : Nat → Str → List (Str × Str) → List (Str × Str)
  | 0, _, acc => acc
  | fuel + 1, rest, acc =>
    let key := rest.takeWhile isKeyChar
    let after := rest.dropWhile isKeyChar
    let (acc', rest') :=
      if !key.isEmpty && after.head? == some '=' then
        let r := after.drop 1
        let pk := lower key
        let tok := r.takeWhile isKeyChar
        if !tok.isEmpty then (acc ++ [(pk, tok)], r)
        else if r.head? == some '"' then
          match scanQuoted (r.drop 1) ['"'] with
          | some (q, r') => (acc ++ [(pk, q)], r')
          | none => (acc, r)
        else (acc, r)
      else (acc, rest)
    if rest'.contains ';' then
      collect fuel (lstrip ((rest'.dropWhile (· != ';')).drop 1)) acc'
    else acc'

/-- the options of `parse_options_header(value)` (no `*` parameters) -/
def parseOptions (v : Str) : St :=
  let (value, _, rest) := partitionCh ';' v
  let value := strip value
  let rest := strip rest
  if value.isEmpty || rest.isEmpty then []
  else (collect (rest.length + 1) rest []).foldl (fun d e => PyDict.set d e.1 (unquoteParam e.2)) []

def load (h : HList) : St :=
  match getKey h "content-type".toList with
  | .ok v => parseOptions v
  | .error _ => []

/-- `Response.mimetype` -/
def mimetype (h : HList) : Option Str :=
  match getKey h "content-type".toList with
  | .ok ct => if ct.isEmpty then none else some (strip (splitCh ';' ct).head!)
  | .error _ => none

/-- `dump_options_header(header, options)` -/
def dumpOptions (header : Option Str) (d : St) : Str :=
  let segs := (match header with | some x => [x] | none => []) ++
    d.map fun e => if e.1.getLast? == some '*' then e.1 ++ '=' :: e.2 else e.1 ++ '=' :: quoteHeaderValue e.2
  List.intercalate "; ".toList segs

/-- the `on_update` closure -/
def write (h : HList) (d : St) : HList × Except String Unit :=
  let r := Hdr.set h "Content-Type".toList (dumpOptions (mimetype h) d)
  (r.1, r.2)

end MP

/-! ### scalar typed properties (`header_property`) -/
namespace Scalar

/-- `_DictAccessorProperty.__get__` with the load function as a parameter
(`none` = it raised ValueError / TypeError) -/
def get (load : Str → Option τ) (dflt : Option τ) (h : HList) (name : Str) : Option τ :=
  match getKey h name with
  | .error _ => dflt
  | .ok v => match load v with
    | some x => some x
    | none => dflt

/-- `__set__` : `headers[name] = dump(value)` -/
def set (h : HList) (name : Str) (text : Str) : Hdr.Res Unit := Hdr.set h name text

/-- `__delete__` : `headers.pop(name, None)` -/
def delete (h : HList) (name : Str) : HList := (popKey h name (some [])).1

/-- `parse_age` -/
def parseAge (v : Str) : Option Int :=
  if v.isEmpty then none
  else match CC.pyInt v with
    | some i => if i < 0 then none else some i
    | none => none

end Scalar

end Wz.Views
