/-
Model of the live header views of `werkzeug.sansio.response.Response` (C16).

A response is its `Headers` list (Model/Headers.lean). Every view is modelled as
  * the state of the view object (what the Python object holds),
  * `load`  : the property getter (parse the header into a fresh view),
  * `write` : the `on_update` closure the getter installs (serialise the view back),
  * the mutators of the view object, each answering (new state, was `on_update` called, result).
The header codecs are the ones of the C06 slice (`Model/Http.lean`: `parse_list_header`,
`parse_set_header`, `parse_dict_header`, `dump_header`, `parse_csp_header`,
`parse_content_range_header`, `WWWAuthenticate.from_header/to_header`, `parse_options_header`,
`dump_options_header`), so that the round-trip theorems of Props/C06.lean apply to the views.

Out of the model (values computed by the harness with the same library call): dates
(`http_date` / `parse_date`).
-/
import WzVerif.Util.Py
import WzVerif.Model.Headers
import WzVerif.Model.Containers
import WzVerif.Model.Http
import WzVerif.Gen.Views
import WzVerif.Gen.ResponseProps
import WzVerif.Gen.CacheSetTable
namespace Wz.Views
open Wz Hdr PyDict

abbrev ODict := Dict Str (Option Str)

def strip (s : Str) : Str := Py.strip s
def lstrip (s : Str) : Str := s.dropWhile Py.isSpace
def rstripCh (c : Char) (s : Str) : Str := (s.reverse.dropWhile (· == c)).reverse

/-- `s.partition(c)` : (before, found?, after) -/
def partitionCh (c : Char) (s : Str) : Str × Bool × Str :=
  let a := s.takeWhile (· != c)
  match s.dropWhile (· != c) with
  | [] => (a, false, [])
  | _ :: r => (a, true, r)

/-- `s.split(c)` -/
def splitCh (c : Char) (s : Str) : List Str :=
  let rec go : List Char → Str → List Str
    | [], cur => [cur.reverse]
    | x :: t, cur => if x == c then cur.reverse :: go t [] else go t (x :: cur)
  go s []

/-! ### the codecs (C06) -/

/-- an exception raised while serialising a view (e.g. IndexError of `dump_header` on an empty
key) propagates out of `on_update`; the headers are then left as they were -/
def writeText (h : HList) (name : Str) (text : Except String Str) : HList × Except String Unit :=
  match text with
  | .ok t => ((Hdr.set h name t).1, (Hdr.set h name t).2)
  | .error e => (h, .error e)

/-! ### generic callback dict (`CallbackDict` / `UpdateDictMixin`) -/

structure Out (σ ρ : Type) where
  st : σ
  notified : Bool
  res : Except String ρ

inductive DOp (β : Type) where
  | setitem (k : Str) (v : β)
  | delitem (k : Str)
  | clear
  | popitem
  | update (l : List (Str × β))
  | setdefault (k : Str) (v : β)
  | pop (k : Str) (dflt : Option β)
deriving Repr, DecidableEq

/-- the mutators of `UpdateDictMixin`; the result is the popped / defaulted value when there is one -/
def dstep {β : Type} (d : Dict Str β) : DOp β → Out (Dict Str β) (Option β)
  | .setitem k v => ⟨PyDict.set d k v, true, .ok none⟩
  | .delitem k => if has d k then ⟨erase d k, true, .ok none⟩ else ⟨d, false, .error "KeyError"⟩
  | .clear => ⟨[], true, .ok none⟩
  | .popitem =>
    match PyDict.popitem d with
    | some (e, d') => ⟨d', true, .ok (some e.2)⟩
    | none => ⟨d, false, .error "KeyError"⟩
  | .update l => ⟨l.foldl (fun a e => PyDict.set a e.1 e.2) d, true, .ok none⟩
  | .setdefault k v =>
    match get? d k with
    | some x => ⟨d, false, .ok (some x)⟩
    | none => ⟨PyDict.set d k v, true, .ok (some v)⟩
  | .pop k dflt =>
    match get? d k with
    | some x => ⟨erase d k, true, .ok (some x)⟩
    | none => match dflt with
      | some x => ⟨d, false, .ok (some x)⟩
      | none => ⟨d, false, .error "KeyError"⟩

/-! ### HeaderSet views (Vary / Allow / Content-Language) -/
namespace SetView

/-- `parse_set_header(headers.get(name))` -/
def load (h : HList) (name : Str) : HS.St :=
  match getKey h name with
  | .ok v => HS.construct (Http.parseSetHeader v)
  | .error _ => HS.construct []

/-- `HeaderSet.to_header` -/
def dump (c : HS.St) : Str := Http.headerSetToHeader c.headers

/-- the `on_update` closure of `_set_property.fget` -/
def write (h : HList) (name : Str) (c : HS.St) : HList :=
  if c.set.isEmpty then (if Hdr.contains h name then delKey h name else h)
  else (Hdr.set h name (dump c)).1

/-- the property setter applied to a `HeaderSet` object (`response.vary = view`): a falsy (empty)
set deletes the header, otherwise `dump_header(view)` is stored; the callback of `view` is not
touched -/
def assign (h : HList) (name : Str) (c : HS.St) : HList × Except String Unit :=
  if c.set.isEmpty then (delKey h name, .ok ()) else Hdr.set h name (dump c)

end SetView

/-! ### Cache-Control -/
namespace CC

/-- a value assigned to a typed directive attribute -/
inductive Val where
  | none
  | bool (b : Bool)
  | int (i : Int)
  | str (s : Str)
deriving Repr, DecidableEq

inductive Ty where
  | bool | int | str
deriving Repr, DecidableEq

/-- decimal text of a natural number (`str(n)`) -/
def natText (n : Nat) : Str := Nat.toDigits 10 n

/-- `str(i)` for an int -/
def intText : Int → Str
  | .ofNat n => natText n
  | .negSucc n => '-' :: natText (n + 1)

/-- value of a non-empty run of ASCII digits -/
def digitsVal (d : List Char) : Option Nat :=
  if d.isEmpty || !d.all Char.isDigit then none else some (Nat.ofDigitChars 10 d 0)

/-- Python `int(text)` for an optional sign and ASCII digits -/
def pyInt (s : Str) : Option Int :=
  match s with
  | '-' :: d => (digitsVal d).map (fun n => -(n : Int))
  | '+' :: d => (digitsVal d).map (fun n => (n : Int))
  | d => (digitsVal d).map (fun n => (n : Int))

def load (h : HList) : ODict :=
  match getKey h "cache-control".toList with
  | .ok v => (match Http.parseCacheControl v with | .ok d => d | .error _ => [])
  | .error _ => []

/-- `_CacheControl.to_header` (`dump_header` raises IndexError on an empty key) -/
def dump (d : ODict) : Except String Str := Http.dumpHeaderDict d

/-- the `on_update` closure of `Response.cache_control` -/
def write (h : HList) (d : ODict) : HList × Except String Unit :=
  if d.isEmpty then
    ((if Hdr.contains h "cache-control".toList then delKey h "cache-control".toList else h), .ok ())
  else writeText h "Cache-Control".toList (dump d)

/-- `_set_cache_value(key, value, type)` -/
def setValue (d : ODict) (key : Str) (ty : Ty) (v : Val) : Out ODict Unit :=
  let popIt : Out ODict Unit := if has d key then ⟨erase d key, true, .ok ()⟩ else ⟨d, false, .ok ()⟩
  let setNone : Out ODict Unit := ⟨PyDict.set d key none, true, .ok ()⟩
  let truthy : Bool := match v with
    | .none => false | .bool b => b | .int i => i != 0 | .str s => !s.isEmpty
  if ty == .bool then (if truthy then setNone else popIt)
  else match v with
    | .none => popIt
    | .bool false => popIt
    | .bool true => setNone
    | .int i => ⟨PyDict.set d key (some (intText i)), true, .ok ()⟩
    | .str s =>
      if ty == .int then
        match pyInt s with
        | some i => ⟨PyDict.set d key (some (intText i)), true, .ok ()⟩
        | none => ⟨d, false, .error "ValueError"⟩
      else ⟨PyDict.set d key (some s), true, .ok ()⟩

/-- what a typed attribute read returns -/
inductive Got where
  | none
  | bool (b : Bool)
  | int (i : Int)
  | str (s : Str)
deriving Repr, DecidableEq

/-- `_get_cache_value(key, empty, type)`; `emptyTrue` = the property's `empty` is `True` -/
def getValue (d : ODict) (key : Str) (emptyTrue : Bool) (ty : Ty) : Got :=
  if ty == .bool then .bool (has d key)
  else match get? d key with
    | none => .none
    | some none => if emptyTrue then .bool true else .none
    | some (some v) =>
      if ty == .int then (match pyInt v with | some i => .int i | none => .none) else .str v

/-- `_del_cache_value(key)` -/
def delValue (d : ODict) (key : Str) : Out ODict Unit :=
  if has d key then ⟨erase d key, true, .ok ()⟩ else ⟨d, false, .ok ()⟩

/-! comparison with the regenerated table of `_set_cache_value` / `_get_cache_value` -/

def valOfCode (code : Str) : Option Val :=
  match code with
  | ['~'] => some .none
  | ['t'] => some (.bool true)
  | ['f'] => some (.bool false)
  | 'i' :: r => (pyInt r).map .int
  | 's' :: r => some (.str r)
  | _ => none

def tyOfName (n : Str) : Ty := if n == "bool".toList then .bool else if n == "int".toList then .int else .str

/-- what the model predicts for one row of `Gen.CacheSetTable.rows`: (stored, typed read) -/
def tableRow (tyName code : Str) (present : Bool) : Str × Str :=
  let ty := tyOfName tyName
  let d : ODict := if present then [(['k'], some "old".toList)] else []
  match valOfCode code with
  | none => (['?'], ['?'])
  | some v =>
    let r := setValue d ['k'] ty v
    let stored : Str := match r.res with
      | .error e => e.toList
      | .ok _ => match get? r.st ['k'] with
        | none => "absent".toList
        | some none => "none".toList
        | some (some t) => "str:".toList ++ t
    let got : Str := match getValue r.st ['k'] false ty with
      | .none => "none".toList
      | .bool b => if b then "true".toList else "false".toList
      | .int i => "int:".toList ++ intText i
      | .str t => "str:".toList ++ t
    (stored, got)

inductive Op where
  /-- `cc.<attr> = value` for the directive `key` of type `ty` -/
  | attr (key : Str) (ty : Ty) (v : Val)
  /-- `del cc.<attr>` -/
  | delattr (key : Str)
  /-- a dict mutator (`CallbackDict`) -/
  | dict (op : DOp (Option Str))
deriving Repr, DecidableEq

def step (d : ODict) : Op → Out ODict (Option (Option Str))
  | .attr key ty v => let r := setValue d key ty v; ⟨r.st, r.notified, r.res.map fun _ => none⟩
  | .delattr key => let r := delValue d key; ⟨r.st, r.notified, r.res.map fun _ => none⟩
  | .dict op => dstep d op

end CC

/-! ### Content-Security-Policy -/
namespace CSP

abbrev St := Dict Str Str

def load (h : HList) (name : Str) : St :=
  match getKey h name with
  | .ok v => Http.parseCsp v
  | .error _ => []

/-- `dump_csp_header` -/
def dump (d : St) : Str := Http.dumpCsp d

/-- the `on_update` closure (`writeName` is the spelling it uses when setting) -/
def write (h : HList) (name writeName : Str) (d : St) : HList :=
  if d.isEmpty then delKey h name else (Hdr.set h writeName (dump d)).1

/-- `csp.<attr> = value` -/
def setValue (d : St) (key : Str) (v : Option Str) : Out St Unit :=
  match v with
  | none => if has d key then ⟨erase d key, true, .ok ()⟩ else ⟨d, false, .ok ()⟩
  | some s => ⟨PyDict.set d key s, true, .ok ()⟩

def delValue (d : St) (key : Str) : Out St Unit :=
  if has d key then ⟨erase d key, true, .ok ()⟩ else ⟨d, false, .ok ()⟩

/-- the property setter applied to a `ContentSecurityPolicy` object -/
def assign (h : HList) (name writeName : Str) (d : St) : HList × Except String Unit :=
  if d.isEmpty then (delKey h name, .ok ()) else Hdr.set h writeName (dump d)

inductive Op where
  | attr (key : Str) (v : Option Str)
  | delattr (key : Str)
  | dict (op : DOp Str)
deriving Repr, DecidableEq

def step (d : St) : Op → Out St (Option Str)
  | .attr key v => let r := setValue d key v; ⟨r.st, r.notified, r.res.map fun _ => none⟩
  | .delattr key => let r := delValue d key; ⟨r.st, r.notified, r.res.map fun _ => none⟩
  | .dict op => dstep d op

end CSP

/-! ### Content-Range -/
namespace CR

abbrev St := Http.ContentRangeV

def empty : St := ⟨none, none, none, none⟩

/-- `http.is_byte_range_valid` -/
def valid (start stop length : Option Int) : Bool := Http.isByteRangeValid start stop length

/-- `parse_content_range_header(value)` for a present header -/
def parse (v : Str) : Option St :=
  match Http.parseContentRangeHeader v with
  | .ok r => r
  | .error _ => none

def load (h : HList) : St :=
  match getKey h "content-range".toList with
  | .ok v => (parse v).getD empty
  | .error _ => empty

/-- `ContentRange.to_header`; TypeError (`self._stop - 1`) when `start` is set without `stop` -/
def toHeader (c : St) : Except String Str :=
  match c.units, c.start, c.stop with
  | some _, some _, none => .error "TypeError"
  | _, _, _ => .ok (Http.contentRangeToHeader c)

/-- the `on_update` closure; an exception from `to_header` propagates to the caller of the mutator -/
def write (h : HList) (c : St) : HList × Except String Unit :=
  match c.units with
  | none => (delKey h "content-range".toList, .ok ())
  | some _ => writeText h "Content-Range".toList (toHeader c)

/-- `Response.content_range` getter: the `ContentRange` constructor calls `set`, which calls the
freshly installed `on_update` - so *reading* the property rewrites the header in normal form (or
deletes an unparsable one) -/
def fetch (h : HList) : St × HList :=
  let c := load h
  (c, (write h c).1)

inductive Op where
  | setUnits (u : Option Str)
  | setStart (i : Option Int)
  | setStop (i : Option Int)
  | setLength (i : Option Int)
  | set (start stop length : Option Int) (units : Option Str)
  | unset
deriving Repr, DecidableEq

/-- view mutators: attribute assignment always notifies; `set` asserts validity first -/
def step (c : St) : Op → Out St Unit
  | .setUnits u => ⟨{ c with units := u }, true, .ok ()⟩
  | .setStart i => ⟨{ c with start := i }, true, .ok ()⟩
  | .setStop i => ⟨{ c with stop := i }, true, .ok ()⟩
  | .setLength i => ⟨{ c with length := i }, true, .ok ()⟩
  | .set a b l u => if valid a b l then ⟨⟨u, a, b, l⟩, true, .ok ()⟩ else ⟨c, false, .error "AssertionError"⟩
  | .unset => ⟨empty, true, .ok ()⟩

end CR

/-! ### WWW-Authenticate -/
namespace Auth

abbrev St := Http.Auth

def default : St := ⟨"basic".toList, [], none⟩

def load (h : HList) : St :=
  match getKey h "WWW-Authenticate".toList with
  | .ok v => (match Http.wwwFromHeader v with | .ok (some a) => a | _ => default)
  | .error _ => default

/-- `WWWAuthenticate.to_header` -/
def toHeader (c : St) : Except String Str := Http.wwwToHeader c

/-- `on_update`: `response.www_authenticate = value` with a (truthy) view object -/
def write (h : HList) (c : St) : HList × Except String Unit :=
  writeText h "WWW-Authenticate".toList (toHeader c)

inductive Op where
  | setType (s : Str)
  | setToken (t : Option Str)
  | setParams (d : ODict)
  | setitem (k : Str) (v : Option Str)
  | delitem (k : Str)
  | pdict (op : DOp (Option Str))
deriving Repr, DecidableEq

/-- view mutators (`__setattr__` dispatches `type` / `token` / `parameters` to the property
setters and every other name to `__setitem__`) -/
def step (c : St) : Op → Out St (Option (Option Str))
  | .setType s => ⟨{ c with type := lower s }, true, .ok none⟩   -- as repaired by 78ff821
  | .setToken t => ⟨{ c with token := t }, true, .ok none⟩
  | .setParams d => ⟨{ c with params := d }, true, .ok none⟩
  | .setitem k v =>
    match v with
    | none => ⟨{ c with params := if has c.params k then erase c.params k else c.params }, true, .ok none⟩
    | some s => ⟨{ c with params := PyDict.set c.params k (some s) }, true, .ok none⟩
  | .delitem k =>
    if has c.params k then ⟨{ c with params := erase c.params k }, true, .ok none⟩ else ⟨c, false, .ok none⟩
  | .pdict op =>
    let r := dstep c.params op
    ⟨{ c with params := r.st }, r.notified, r.res⟩

end Auth

/-! ### mimetype_params -/
namespace MP

abbrev St := Dict Str Str

def load (h : HList) : St :=
  match getKey h "content-type".toList with
  | .ok v => (match Http.parseOptionsHeader v with | .ok r => r.2 | .error _ => [])
  | .error _ => []

/-- `Response.mimetype` -/
def mimetype (h : HList) : Option Str :=
  match getKey h "content-type".toList with
  | .ok ct => if ct.isEmpty then none else some (strip (splitCh ';' ct).head!)
  | .error _ => none

/-- `dump_options_header(self.mimetype, d)` -/
def dumpOptions (header : Option Str) (d : St) : Except String Str :=
  Http.dumpOptionsHeader header (d.map fun e => (e.1, some e.2))

/-- the `on_update` closure -/
def write (h : HList) (d : St) : HList × Except String Unit :=
  writeText h "Content-Type".toList (dumpOptions (mimetype h) d)

end MP

/-! ### scalar typed properties (`header_property`) -/
namespace Scalar

/-- `_DictAccessorProperty.__get__` with the load function as a parameter
(`none` = it raised ValueError / TypeError) -/
def get (load : Str → Option τ) (dflt : Option τ) (h : HList) (name : Str) : Option τ :=
  match getKey h name with
  | .error _ => dflt
  | .ok v => match load v with
    | some x => some x
    | none => dflt

/-- `__set__` : `headers[name] = dump(value)` -/
def set (h : HList) (name : Str) (text : Str) : Hdr.Res Unit := Hdr.set h name text

/-- `__delete__` : `headers.pop(name, None)` -/
def delete (h : HList) (name : Str) : HList := (popKey h name (some [])).1

/-- `parse_age` -/
def parseAge (v : Str) : Option Int :=
  if v.isEmpty then none
  else match CC.pyInt v with
    | some i => if i < 0 then none else some i
    | none => none

/-! #### the typed properties that are not `header_property` descriptors -/

/-- `utils.get_content_type(mimetype, "utf-8")` -/
def getContentType (m : Str) : Str :=
  if "text/".toList.isPrefixOf m || Gen.ResponseProps.charsetMimetypes.contains (String.ofList m) ||
      "+xml".toList.isSuffixOf m then m ++ "; charset=utf-8".toList
  else m

/-- `response.mimetype = value` (the getter is `MP.mimetype`) -/
def mimetypeSet (h : HList) (m : Str) : Hdr.Res Unit := Hdr.set h "Content-Type".toList (getContentType m)

/-- what the `retry_after` getter finds: nothing, a number of seconds (it answers `now + seconds`),
or a date text handed to `parse_date` -/
inductive Retry where
  | none
  | seconds (i : Int)
  | date (text : Str)
deriving Repr, DecidableEq

/-- `Response.retry_after` getter up to the clock and `parse_date` -/
def retryAfterGet (h : HList) : Retry :=
  match getKey h "retry-after".toList with
  | .error _ => .none
  | .ok v => match CC.pyInt v with
    | some i => .seconds i
    | none => .date v

/-- `response.retry_after = value`; `text` is `http_date(value)` for a datetime, `str(value)` otherwise -/
def retryAfterSet (h : HList) (text : Option Str) : Hdr.Res Unit :=
  match text with
  | none => ((if Hdr.contains h "retry-after".toList then delKey h "retry-after".toList else h), .ok ())
  | some t => Hdr.set h "Retry-After".toList t

def credentialsName : Str := "Access-Control-Allow-Credentials".toList

/-- `Response.access_control_allow_credentials` getter -/
def credentialsGet (h : HList) : Bool := Hdr.contains h credentialsName

/-- the setter: `isTrue` = the assigned value `is True` -/
def credentialsSet (h : HList) (isTrue : Bool) : Hdr.Res Unit :=
  if isTrue then Hdr.set h credentialsName "true".toList else ((popKey h credentialsName (some [])).1, .ok ())

/-- `Response.set_etag(etag, weak)` -/
def setEtag (h : HList) (etag : Str) (weak : Bool) : Hdr.Res Unit :=
  match Http.quoteEtag etag weak with
  | .error e => (h, .error e)
  | .ok t => Hdr.set h "ETag".toList t

/-- `Response.get_etag()`; `none` = `(None, None)` -/
def getEtag (h : HList) : Option (Str × Bool) :=
  match getKey h "ETag".toList with
  | .ok v => Http.unquoteEtag v
  | .error _ => none

end Scalar

end Wz.Views
