/-
Model of `werkzeug.sansio.utils.host_is_trusted` / `get_host` and of the gates of
`werkzeug.debug.DebuggedApplication` (`__call__` dispatch, `check_pin_trust`, `pin_auth`,
`_fail_pin_auth` as repaired by 3932b31: the failure counter is an unsigned byte that saturates).

Opaque: the `idna` codec (a parameter `List Char → Except String (List Char)`; the harness supplies
CPython's answers for the strings of each case), `hash_pin`/sha1 and `time.time()` (the PIN cookie
is abstracted to the five classes the code distinguishes), the secret (right / wrong / absent).
-/
import WzVerif.Util.Bytes
namespace Wz.Dbg
open Wz

/-! ### host_is_trusted -/

/-- the `idna` codec: `.error _` = UnicodeError -/
abbrev Idna := List Char → Except String (List Char)

/-- `s.partition(":")[0]` -/
def beforeColon (s : List Char) : List Char := s.takeWhile (· != ':')

/-- `_strip_port(host)` (as repaired by ede13ce): a host that starts with `[` keeps everything up to
and including the first `]` when that bracket ends the string or is followed by `:`; when there is
no `]`, or something else follows it, the host is left unchanged; any other host is cut at its
first `:` -/
def stripPort : List Char → List Char
  | '[' :: rest =>
    let body := rest.takeWhile (· != ']')
    match rest.dropWhile (· != ']') with
    | [] => '[' :: rest                                   -- no closing bracket
    | _ :: after =>
      match after with
      | [] => '[' :: rest
      | ':' :: _ => '[' :: body ++ [']']
      | _ => '[' :: rest                                  -- garbage after the bracket: not stripped
  | s => beforeColon s

/-- `hostname.endswith(suffix)` -/
def endsWith (s suffix : List Char) : Bool := suffix.isSuffixOf s

/-- a trusted-list entry: (is dot-prefixed, text after the dot) -/
def refParts : List Char → Bool × List Char
  | '.' :: r => (true, r)
  | r => (false, r)

/-- the `for ref in trusted_list` loop; a reference that cannot be IDNA-encoded ends the whole
check with `False` (as coded) -/
def matchRefs (idna : Idna) (hn : List Char) : List (List Char) → Bool
  | [] => false
  | ref :: rest =>
    match idna (stripPort (refParts ref).2) with
    | .error _ => false
    | .ok rn =>
      if rn == hn || ((refParts ref).1 && endsWith hn ('.' :: rn)) then true
      else matchRefs idna hn rest

/-- `host_is_trusted(hostname, trusted_list)` -/
def hostIsTrusted (idna : Idna) (host : Option (List Char)) (trusted : List (List Char)) : Bool :=
  match host with
  | none => false
  | some [] => false
  | some h =>
    match idna (stripPort h) with
    | .error _ => false
    | .ok hn => matchRefs idna hn trusted

/-- CPython's `idna` codec on pure-ASCII input (the fast path of `encodings.idna.Codec.encode`):
the text is returned unchanged unless a label other than the last is empty or any label has 64 or
more characters. Non-ASCII input is outside this function (`.error "non-ascii"`). -/
def splitDots (s : List Char) : List (List Char) :=
  let rec go : List Char → List Char → List (List Char)
    | [], cur => [cur.reverse]
    | c :: t, cur => if c == '.' then cur.reverse :: go t [] else go t (c :: cur)
  go s []

def asciiIdna : Idna := fun s =>
  if s.all (fun c => c.toNat < 128) then
    let labels := splitDots s
    if labels.dropLast.all (fun l => 0 < l.length && l.length < 64) &&
        (match labels.getLast? with | some l => l.length < 64 | none => true)
    then .ok s else .error "UnicodeError"
  else .error "non-ascii"

/-- strip `:80` / `:443` for the matching scheme -/
def stripDefaultPort (scheme host : List Char) : List Char :=
  if (scheme == "http".toList || scheme == "ws".toList) && endsWith host ":80".toList then
    host.take (host.length - 3)
  else if (scheme == "https".toList || scheme == "wss".toList) && endsWith host ":443".toList then
    host.take (host.length - 4)
  else host

/-- `get_host(scheme, host_header, server, trusted_hosts)`; `.error "SecurityError"` -/
def getHost (idna : Idna) (scheme : List Char) (hostHeader : Option (List Char))
    (server : Option (List Char × Option Nat)) (trusted : Option (List (List Char))) :
    Except String (List Char) :=
  let host : List Char :=
    match hostHeader with
    | some h => h
    | none =>
      match server with
      | none => []
      | some (name, port) =>
        let name := if name.contains ':' && name.head? != some '[' then '[' :: name ++ [']'] else name
        match port with
        | some p => name ++ ':' :: (toString p).toList
        | none => name
  let host := stripDefaultPort scheme host
  match trusted with
  | none => .ok host
  | some tl => if hostIsTrusted idna (some host) tl then .ok host else .error "SecurityError"

/-! ### PIN authentication -/

/-- PIN cookie as `check_pin_trust` sees it -/
inductive Cookie where
  | valid       -- right hash, not older than PIN_TIME
  | expired     -- right hash, too old
  | wrongHash   -- well-formed, hash of another pin
  | malformed   -- no `|`, or the timestamp is not an int
  | absent
  deriving Repr, DecidableEq

/-- result of `check_pin_trust`: True / False / None -/
inductive Trust where
  | yes | no | bad
  deriving Repr, DecidableEq

def Trust.isYes : Trust → Bool
  | .yes => true
  | _ => false

def checkPinTrust (pinOn : Bool) (c : Cookie) : Trust :=
  if !pinOn then .yes else
  match c with
  | .valid => .yes
  | .expired => .no
  | .wrongHash => .bad
  | .malformed => .no
  | .absent => .no

/-- `_fail_pin_auth`: the counter is `multiprocessing.Value("B")`; it saturates at 255 -/
def failPinAuth (c : UInt8) : UInt8 := if c < 255 then c + 1 else c

/-- the counter as it was before fix 3932b31 (for the contrast theorem only) -/
def failPinAuthWrapping (c : UInt8) : UInt8 := c + 1

structure PinResult where
  auth : Bool
  exhausted : Bool
  deriving Repr, DecidableEq

/-- body of `pin_auth` after the host check: (`{"auth":…, "exhausted":…}`, new counter) -/
def pinAuthWith (fail : UInt8 → UInt8) (failed : UInt8) (trust : Trust) (pinRight : Bool) : PinResult × UInt8 :=
  match trust with
  | .bad => (⟨false, false⟩, fail failed)
  | .yes => (⟨true, false⟩, failed)
  | .no =>
    if failed > 10 then (⟨false, true⟩, failed)
    else if pinRight then (⟨true, false⟩, 0)
    else (⟨false, false⟩, fail failed)

def pinAuth := pinAuthWith failPinAuth

/-- one PIN attempt of a client that holds no valid cookie -/
inductive Attempt where
  | right        -- enters the correct PIN
  | wrong        -- enters a wrong PIN
  | stale        -- presents a cookie with a wrong hash (counts as a failure, `trust is None`)
  deriving Repr, DecidableEq

def attemptStep (fail : UInt8 → UInt8) (failed : UInt8) : Attempt → PinResult × UInt8
  | .right => pinAuthWith fail failed .no true
  | .wrong => pinAuthWith fail failed .no false
  | .stale => pinAuthWith fail failed .bad false

/-- run a history of attempts from counter value `failed`: the answers and the final counter -/
def runHistory (fail : UInt8 → UInt8) (failed : UInt8) : List Attempt → List PinResult × UInt8
  | [] => ([], failed)
  | a :: rest =>
    let (r, f') := attemptStep fail failed a
    let (rs, f'') := runHistory fail f' rest
    (r :: rs, f'')

/-- the same machine with an unbounded counter (what the property describes) -/
def idealStep (failed : Nat) : Attempt → PinResult × Nat
  | .right => if failed > 10 then (⟨false, true⟩, failed) else (⟨true, false⟩, 0)
  | .wrong => if failed > 10 then (⟨false, true⟩, failed) else (⟨false, false⟩, failed + 1)
  | .stale => (⟨false, false⟩, failed + 1)

def runIdeal (failed : Nat) : List Attempt → List PinResult × Nat
  | [] => ([], failed)
  | a :: rest =>
    let (r, f') := idealStep failed a
    let (rs, f'') := runIdeal f' rest
    (r :: rs, f'')

/-! ### sessions: PIN attempts, PIN changes, cookie reuse

The PIN can be changed at run time (`app.pin = new`). A cookie stores the hash of the PIN it was
issued for; `check_pin_trust` compares it with the hash of the *current* PIN. PINs are abstracted to
generations (a change increments the generation); the client keeps the last cookie it was issued. -/

structure Session where
  failed : UInt8 := 0
  /-- generation of the current PIN -/
  gen : Nat := 0
  /-- generation of the PIN whose hash the client's cookie carries -/
  held : Option Nat := none
  deriving Repr

inductive Act where
  | right     -- pinauth without cookie, the current PIN entered
  | wrong     -- pinauth without cookie, a wrong PIN entered
  | stale     -- pinauth with a cookie whose hash never was a PIN's
  | change    -- the application's PIN is changed
  | reuse     -- pinauth with the held cookie, a wrong PIN entered
  | eval      -- eval in a frame with the held cookie (secret, Host, frame, evalex all right)
  deriving Repr, DecidableEq

inductive Obs where
  | pin (r : PinResult)
  | evalRan (ran : Bool)
  | changed
  deriving Repr, DecidableEq

/-- `check_pin_trust` for the held cookie (fresh timestamps: expiry is not part of sessions) -/
def heldTrust (s : Session) : Trust :=
  match s.held with
  | none => .no
  | some g => if g == s.gen then .yes else .bad

def actStep (s : Session) : Act → Obs × Session
  | .right =>
    let (r, f) := pinAuth s.failed .no true
    (.pin r, { s with failed := f, held := if r.auth then some s.gen else s.held })
  | .wrong => let (r, f) := pinAuth s.failed .no false; (.pin r, { s with failed := f })
  | .stale => let (r, f) := pinAuth s.failed .bad false; (.pin r, { s with failed := f })
  | .change => (.changed, { s with gen := s.gen + 1 })
  | .reuse =>
    let (r, f) := pinAuth s.failed (heldTrust s) false
    (.pin r, { s with failed := f, held := if r.auth then some s.gen else s.held })
  | .eval => (.evalRan (heldTrust s).isYes, s)

def runSession (s : Session) : List Act → List Obs × Session
  | [] => ([], s)
  | a :: rest =>
    let (o, s') := actStep s a
    let (os, s'') := runSession s' rest
    (o :: os, s'')

/-! ### dispatch -/

/-- the `cmd` query argument -/
inductive Cmd where
  | none | resource | pinauth | printpin | other
  deriving Repr, DecidableEq

inductive Secret where
  | right | wrong | absent
  deriving Repr, DecidableEq

structure Config where
  evalex : Bool
  pinOn : Bool
  /-- `console_path is not None` -/
  consoleOn : Bool := true
  pinLogging : Bool := true
  deriving Repr

structure Req where
  /-- `request.args.get("__debugger__") == "yes"` -/
  debugger : Bool
  cmd : Cmd
  /-- `f` query argument present and non-empty -/
  hasArg : Bool
  secret : Secret
  /-- `self.frames.get(frm)` is not None -/
  frameKnown : Bool
  /-- `check_host_trust(environ)` -/
  hostTrusted : Bool
  cookie : Cookie
  /-- the `pin` argument matches (only read by pinauth) -/
  pinRight : Bool
  /-- `request.path == console_path` -/
  atConsole : Bool
  deriving Repr

inductive Outcome where
  | app                                   -- the wrapped application runs
  | resource
  | securityError                         -- 400
  | evalRan                               -- `frame.eval(cmd)` was called
  | console
  | printpin (logged : Bool)
  | pinauth (r : PinResult)
  deriving Repr, DecidableEq

def Secret.isRight : Secret → Bool
  | .right => true
  | _ => false

def Cmd.isSome : Cmd → Bool
  | .none => false
  | _ => true

/-- every handler starts with `if not self.check_host_trust(...): return SecurityError()` -/
def hostGate (r : Req) (k : Outcome) : Outcome :=
  if r.hostTrusted then k else .securityError

/-- the conjunction that guards `execute_command` in `__call__` (the Host check is inside the handler) -/
def evalCond (cfg : Config) (r : Req) : Bool :=
  cfg.evalex && r.cmd.isSome && r.frameKnown && r.secret.isRight
    && (checkPinTrust cfg.pinOn r.cookie).isYes

/-- what `DebuggedApplication.__call__` answers: the `if/elif` chain of the code followed by the
handler it selects (`failed` = the failure counter before the request) -/
def respond (cfg : Config) (failed : UInt8) (r : Req) : Outcome :=
  if r.debugger then
    match r.cmd, r.hasArg, r.secret.isRight with
    | .resource, true, _ => .resource                                 -- get_resource: no gate
    | .pinauth, _, true =>                                            -- pin_auth
      hostGate r (.pinauth (pinAuth failed (checkPinTrust cfg.pinOn r.cookie) r.pinRight).1)
    | .printpin, _, true =>                                           -- log_pin_request
      hostGate r (.printpin (cfg.pinLogging && cfg.pinOn))
    | _, _, _ =>
      if evalCond cfg r then hostGate r .evalRan                      -- execute_command
      else .app
  else if cfg.evalex && cfg.consoleOn && r.atConsole then
    hostGate r .console                                               -- display_console
  else .app

/-- the failure counter after the request: only an answered pinauth touches it -/
def nextCounter (cfg : Config) (failed : UInt8) (r : Req) : UInt8 :=
  match respond cfg failed r with
  | .pinauth _ => (pinAuth failed (checkPinTrust cfg.pinOn r.cookie) r.pinRight).2
  | _ => failed

def dispatch (cfg : Config) (failed : UInt8) (r : Req) : Outcome × UInt8 :=
  (respond cfg failed r, nextCounter cfg failed r)

/-! ### decoding the generated table (`Gen/Debugger.lean`) -/

/-- the request a table point stands for; `cmdIx` ranges over
eval, console, pinauth-right, pinauth-wrong, printpin, resource, nocmd, plain -/
def reqOf (cmdIx secIx cookieIx frameIx : Nat) (hostTrusted : Bool) : Req :=
  { debugger := cmdIx != 1 && cmdIx != 7,
    cmd := match cmdIx with
      | 0 => .other | 2 => .pinauth | 3 => .pinauth | 4 => .printpin | 5 => .resource | _ => .none,
    hasArg := cmdIx == 5,
    secret := match secIx with | 0 => .right | 1 => .wrong | _ => .absent,
    frameKnown := frameIx == 0,
    hostTrusted := hostTrusted,
    cookie := match cookieIx with
      | 0 => .valid | 1 => .expired | 2 => .wrongHash | 3 => .malformed | _ => .absent,
    pinRight := cmdIx == 2,
    atConsole := cmdIx == 1 }

def outcomeCode : Outcome → Nat
  | .app => 0
  | .resource => 1
  | .securityError => 3
  | .evalRan => 4
  | .console => 5
  | .printpin true => 6
  | .printpin false => 7
  | .pinauth r => 8 + 2 * (if r.auth then 1 else 0) + (if r.exhausted then 1 else 0)

/-! ### `check_pin_trust` on the raw cookie value, with the clock as a parameter -/

/-- `int(ts_str)`: opaque — Python's `int()` accepts surrounding white space, a sign, `_` separators
and any Unicode decimal digits; the theorems hold for every such function, the driver uses
`decimalInt` (what the cookies of the rig and of `pin_auth` itself contain) -/
abbrev IntOf := List Char → Option Int

/-- `val.split("|", 1)` for a value that contains `|`: (timestamp text, hash text) -/
def splitBar (val : List Char) : List Char × List Char :=
  (val.takeWhile (· != '|'), (val.dropWhile (· != '|')).drop 1)

/-- `check_pin_trust(environ)`: `pinHash` = `hash_pin(self.pin)` (`none` = `self.pin is None`),
`cookie` = `parse_cookie(environ).get(self.pin_cookie_name)`, `now` = `floor(time.time())`.
For an integer timestamp `ts`, `(time.time() - PIN_TIME) < ts` is `floor(time.time()) - PIN_TIME < ts`. -/
def checkPinTrustRaw (intOf : IntOf) (pinTime : Int) (pinHash : Option (List Char))
    (cookie : Option (List Char)) (now : Int) : Trust :=
  match pinHash with
  | none => .yes
  | some hp =>
    match cookie with
    | none => .no
    | some val =>
      if val.isEmpty || !val.contains '|' then .no
      else
        match intOf (splitBar val).1 with
        | none => .no
        | some ts =>
          if (splitBar val).2 != hp then .bad
          else if now - pinTime < ts then .yes else .no

/-- the abstract class of a raw cookie (the five cases `checkPinTrust` distinguishes) -/
def classifyCookie (intOf : IntOf) (pinTime : Int) (hp : List Char) (cookie : Option (List Char))
    (now : Int) : Cookie :=
  match cookie with
  | none => .absent
  | some val =>
    if val.isEmpty || !val.contains '|' then .malformed
    else
      match intOf (splitBar val).1 with
      | none => .malformed
      | some ts =>
        if (splitBar val).2 != hp then .wrongHash
        else if now - pinTime < ts then .valid else .expired

/-- a non-empty run of ASCII digits read as a decimal number -/
def decimalInt : IntOf := fun s =>
  if !s.isEmpty && s.all (fun c => '0' ≤ c && c ≤ '9') then
    some (Int.ofNat (s.foldl (fun a c => 10 * a + (c.toNat - 48)) 0))
  else none

/-- the cookie `pin_auth` issues at time `t0`: `f"{int(time.time())}|{hash_pin(pin)}"` -/
def issuedCookie (render : Int → List Char) (t0 : Int) (hp : List Char) : List Char :=
  render t0 ++ '|' :: hp

/-- `_fail_pin_auth`'s penalty delay in tenths of a second: `5.0 if count > 5 else 0.5` -/
def failDelayTenths (count : UInt8) : Nat := if count > 5 then 50 else 5

end Wz.Dbg
