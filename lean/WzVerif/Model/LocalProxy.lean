/-
`werkzeug.local.LocalProxy` (C18): every way a proxy can be constructed, and what any forwarded
operation does.

* `PSrc` - the `local` / `name` arguments of `LocalProxy.__init__`, one constructor per `isinstance`
  branch: a `Local` with a name, a `LocalStack` (with or without name), a bare `ContextVar` (with or
  without name), a callable (here: a function returning a fixed object, or a function that asks
  another proxy - `LocalProxy(lambda: request.session)`) (with or without name);
* `resolveP` - the `_get_current_object` closure of that branch, evaluated in context `c`: the
  object, `unbound` (RuntimeError), or `attrError` (the AttributeError `attrgetter(name)` raises on
  the bound object - not converted, except in the `Local` branch);
* `lookupGet` - `_ProxyLookup.__get__` for one entry of the forwarding table
  (`Gen/LocalProxyTbl.lean`, read from the live class on every run).

Attributes of payload objects are a parameter (`attrOf`), truthiness is a parameter (`falsy`).
Core Lean only.
-/
import WzVerif.Model.LocalLife
import WzVerif.Gen.LocalProxyTbl
namespace Wz.Local

inductive PSrc where
  /-- `LocalProxy(local, name)` / `local(name)` -/
  | localAttr (v name : Nat)
  /-- `LocalProxy(stack)` / `stack()`; `attr`: `LocalProxy(stack, "peer")` / `stack("peer")` -/
  | stackTop (v : Nat) (attr : Bool)
  /-- `LocalProxy(context_var)` / `LocalProxy(context_var, "peer")` -/
  | cvar (j : Nat) (attr : Bool)
  /-- `LocalProxy(lambda: obj)` / `LocalProxy(lambda: obj, "peer")` -/
  | const (x : Nat) (attr : Bool)
  /-- `LocalProxy(lambda: other._get_current_object())` (with / without name) -/
  | via (inner : PSrc) (attr : Bool)
deriving Repr

inductive PRes where
  | obj (x : Nat)
  /-- RuntimeError(unbound_message) -/
  | unbound
  /-- AttributeError from `attrgetter(name)(obj)` -/
  | attrError
deriving DecidableEq, Repr

/-- `get_name(obj)`: `_identity` or `attrgetter("peer")` -/
def getName (attrOf : Nat → Option Nat) (attr : Bool) (x : Nat) : PRes :=
  if attr then (match attrOf x with | some y => .obj y | none => .attrError) else .obj x

/-- `proxy._get_current_object()` in context `c` -/
def resolveP (attrOf : Nat → Option Nat) (falsy : Nat → Bool) (lw : LWorld) (c : Nat) : PSrc → PRes
  | .localAttr v name =>
    match resolveSrc falsy lw.w c (.attr v name) with
    | some x => .obj x
    | none => .unbound
  | .stackTop v attr =>
    match resolveSrc falsy lw.w c (.top v) with
    | some x => getName attrOf attr x
    | none => .unbound
  | .cvar j attr =>
    match lw.cv c j with
    | some x => getName attrOf attr x
    | none => .unbound
  | .const x attr => getName attrOf attr x
  | .via inner attr =>
    match resolveP attrOf falsy lw c inner with
    | .obj x => getName attrOf attr x
    | r => r

/-- what accessing one forwarded name on a proxy amounts to -/
inductive LookupOut where
  /-- RuntimeError: unbound and no fallback -/
  | runtimeError
  /-- the AttributeError of `get_name` propagates -/
  | attrError
  /-- unbound: the declared fallback's value -/
  | fallback (v : String)
  /-- the operation is re-done on `obj`; its result is the result -/
  | forward (obj : Nat)
  /-- in-place operator: re-done on `obj`, but the *proxy* is the result (so that `p += x` leaves
  `p` a proxy instead of re-binding it to the object) -/
  | forwardKeepProxy (obj : Nat)
deriving DecidableEq, Repr

/-- `_ProxyLookup.__get__(proxy, type(proxy))` followed by the call, for entry `e`, when
`_get_current_object()` gives `r` -/
def lookupGet (e : LookupEntry) : PRes → LookupOut
  | .unbound => if e.hasFallback then .fallback e.fallback else .runtimeError
  | .attrError => .attrError
  | .obj x => if e.iop then .forwardKeepProxy x else .forward x

/-! ### attributes of payload objects

Values stored in a local are references to application objects. The model keeps them opaque, except
for ONE mutable attribute per object (`obj.val` / an item / an appended element in the harness) so
that "mutate through a proxy" has a meaning: `fields` maps a value token to the attribute's current
value (0 until it is written). -/

abbrev Fields := List (Nat × Nat)

def fieldOf (fs : Fields) (x : Nat) : Nat := ((fs.find? fun p => p.1 == x).map (·.2)).getD 0

/-- `proxy.val = f` (`setattr` forwarded by `_ProxyLookup`) in context `c`: re-done on the object the
proxy resolves to THERE; nothing happens when it is unbound / `get_name` fails (the error propagates) -/
def mutateVia (attrOf : Nat → Option Nat) (falsy : Nat → Bool) (lw : LWorld) (fs : Fields) (c : Nat)
    (p : PSrc) (f : Nat) : Fields × PRes :=
  match resolveP attrOf falsy lw c p with
  | .obj x => ((x, f) :: fs, .obj x)
  | r => (fs, r)

/-- `proxy.val` read in context `c` -/
def readVia (attrOf : Nat → Option Nat) (falsy : Nat → Bool) (lw : LWorld) (fs : Fields) (c : Nat)
    (p : PSrc) : Option Nat :=
  match resolveP attrOf falsy lw c p with
  | .obj x => some (fieldOf fs x)
  | _ => none

def findEntry (name : String) : Option LookupEntry :=
  Gen.LocalProxyTbl.table.find? fun e => e.name == name

end Wz.Local
