/-
Model of `werkzeug.serving.DechunkedInput` (read_chunk_len / readinto as coded after fix 68c4de0),
of a chunk encoder (what a client may put on the wire) and of the response framing decision and
writer of `WSGIRequestHandler.run_wsgi`.

`rfile` (a blocking `BufferedReader` over the socket) is modelled as the list of bytes still to
come: `readline()` returns up to and including the first LF (or everything), `read(n)` returns `n`
bytes unless the stream ends first. `http.server`'s request parsing, sockets and timing are outside
the model.
-/
import WzVerif.Util.Bytes
import WzVerif.Util.Py
namespace Wz.Chunked
open Wz

/-! ### Python `int(s, 16)` -/

def hexVal (c : Char) : Option Nat :=
  if '0' ≤ c ∧ c ≤ '9' then some (c.toNat - 48)
  else if 'a' ≤ c ∧ c ≤ 'f' then some (c.toNat - 87)
  else if 'A' ≤ c ∧ c ≤ 'F' then some (c.toNat - 55)
  else none

/-- digits with single underscores between them (`long_from_string_base`): no leading, trailing or
doubled underscore, at least one digit; `prev` = the previous character was an underscore -/
def digitsVal : List Char → Bool → Nat → Option Nat
  | [], prev, acc => if prev then none else some acc
  | c :: t, prev, acc =>
    if c == '_' then (if prev then none else digitsVal t true acc)
    else match hexVal c with
      | some d => digitsVal t false (16 * acc + d)
      | none => none

def digitBody (s : List Char) : Option Nat :=
  match s with
  | [] => none
  | '_' :: _ => none
  | _ => digitsVal s false 0

/-- after the sign: optional `0x` / `0X` (then one optional underscore), then the digits -/
def unsignedVal (s : List Char) : Option Nat :=
  match s with
  | '0' :: x :: rest =>
    if x == 'x' || x == 'X' then
      match rest with
      | '_' :: r => digitBody r
      | r => digitBody r
    else digitBody s
  | _ => digitBody s

/-- `int(s, 16)` for a `str` whose characters are below U+0100; `none` = ValueError -/
def pyInt16 (s : List Char) : Option Int :=
  match Py.strip s with
  | '+' :: t => (unsignedVal t).map Int.ofNat
  | '-' :: t => (unsignedVal t).map fun n => -Int.ofNat n
  | t => (unsignedVal t).map Int.ofNat

/-! ### rfile -/

/-- `rfile.readline()`: (line, rest) -/
def readline : Bytes → Bytes × Bytes
  | [] => ([], [])
  | b :: t => if b == 10 then ([b], t) else let (l, r) := readline t; (b :: l, r)

/-- `DechunkedInput.read_chunk_len` on the line just read; `.error` = OSError -/
def chunkLenOf (line : Bytes) : Except String Nat :=
  match pyInt16 (Py.latin1Dec line) with
  | none => .error "OSError"          -- Invalid chunk header
  | some i => if i < 0 then .error "OSError" else .ok i.toNat

/-- the accepted chunk terminators: `b"\n"`, `b"\r\n"`, `b"\r"` -/
def isTerminator (l : Bytes) : Bool := l == [10] || l == [13, 10] || l == [13]

/-! ### DechunkedInput -/

structure DState where
  /-- `_len`: bytes left in the current chunk -/
  len : Nat := 0
  /-- `_done`: the final chunk was seen -/
  done : Bool := false
  /-- what `rfile` still holds -/
  wire : Bytes

abbrev Res := Except String Bytes

/-- `if self._len == 0: self._len = self.read_chunk_len()`; `.error` = OSError (the size line has
been consumed) -/
def readHeader (st : DState) : Except String DState :=
  if st.len == 0 then
    match chunkLenOf (readline st.wire).1 with
    | .error e => .error e
    | .ok n => .ok { st with len := n, wire := (readline st.wire).2 }
  else .ok st

/-- `if self._len == 0: self._done = True` (right after the header: the final chunk) -/
def markDone (st : DState) : DState := if st.len == 0 then { st with done := true } else st

/-- the rest of one loop iteration: copy `n = min(len(buf) - read, _len)` bytes (`if self._len > 0`;
for `_len = 0` the same expressions copy nothing), fail on a short read, and once the chunk is used
up (`if self._len == 0`) consume its terminating newline; then continue with `k` -/
def afterHeader (k : DState → Bytes → Res × DState) (st : DState) (size : Nat) (acc : Bytes) : Res × DState :=
  let n := min (size - acc.length) st.len
  let data := st.wire.take n
  if data.length != n then
    (.error "OSError", { st with wire := st.wire.drop n })                 -- ended inside a chunk
  else
    let st3 : DState := { st with len := st.len - n, wire := st.wire.drop n }
    if st3.len == 0 then
      if isTerminator (readline st3.wire).1 then k { st3 with wire := (readline st3.wire).2 } (acc ++ data)
      else (.error "OSError", { st3 with wire := (readline st3.wire).2 })  -- missing terminator
    else k st3 (acc ++ data)

/-- the `while not self._done and read < len(buf)` loop of `readinto`; `acc` = bytes copied into
the buffer so far (lost when an exception escapes). Every iteration that does not end the call
consumes at least one byte of `wire`, so `wire.length + 1` iterations suffice
(`Lemmas.Chunked`: the round-trip theorem never runs out of fuel). -/
def readLoop : Nat → DState → Nat → Bytes → Res × DState
  | 0, st, _, acc => (.ok acc, st)
  | f + 1, st, size, acc =>
    if st.done || size ≤ acc.length then (.ok acc, st)
    else
      match readHeader st with
      | .error e => (.error e, { st with wire := (readline st.wire).2 })
      | .ok st1 => afterHeader (fun s a => readLoop f s size a) (markDone st1) size acc

/-- `DechunkedInput.readinto(buf)` with `len(buf) = size` (= `RawIOBase.read(size)`) -/
def readinto (st : DState) (size : Nat) : Res × DState :=
  readLoop (st.wire.length + 1) st size []

/-- a sequence of `readinto` calls (the object stays usable after an exception) -/
def readMany (st : DState) : List Nat → List Res × DState
  | [] => ([], st)
  | n :: rest =>
    let (r, st') := readinto st n
    let (rs, st'') := readMany st' rest
    (r :: rs, st'')

/-! ### a chunk encoder (the client side) -/

inductive Term where
  | crlf | lf
  deriving Repr, DecidableEq

def Term.bytes : Term → Bytes
  | .crlf => [13, 10]
  | .lf => [10]

def hexDigitChar (upper : Bool) (d : Nat) : UInt8 :=
  if d < 10 then UInt8.ofNat (48 + d) else UInt8.ofNat ((if upper then 55 else 87) + d)

/-- hexadecimal digit values of `n`, most significant first (fuel `n + 1` always suffices) -/
def hexNums : Nat → Nat → List Nat
  | 0, _ => []
  | f + 1, n => if n < 16 then [n] else hexNums f (n / 16) ++ [n % 16]

/-- `"%x" % n` / `"%X" % n` -/
def hexOf (upper : Bool) (n : Nat) : Bytes := (hexNums (n + 1) n).map (hexDigitChar upper)

/-- one chunk on the wire: size line, data, terminator -/
def encodeChunk (upper : Bool) (t : Term) (data : Bytes) : Bytes :=
  hexOf upper data.length ++ t.bytes ++ data ++ t.bytes

/-- chunks (each with its own terminator style and hex case), then the zero chunk -/
def encode : List (Bytes × Term × Bool) → Term → Bytes
  | [], t => [48] ++ t.bytes ++ t.bytes
  | (data, t, upper) :: rest, tf => encodeChunk upper t data ++ encode rest tf

/-! ### response framing (`run_wsgi.write`) -/

/-- `chunk_response`: use chunked transfer encoding for the response? -/
def chunkedDecision (protocol11 hasContentLength isHead : Bool) (code : Nat) : Bool :=
  !(hasContentLength || isHead || (100 ≤ code && code < 200) || code == 204 || code == 304) && protocol11

/-- the body part of the response as written to `wfile`: each non-empty piece framed when chunked,
then the zero chunk -/
def bodyWire (chunked : Bool) (pieces : List Bytes) : Bytes :=
  let framed := pieces.flatMap fun d =>
    if d.isEmpty then [] else
    if chunked then hexOf false d.length ++ [13, 10] ++ d ++ [13, 10] else d
  if chunked then framed ++ [48, 13, 10, 13, 10] else framed

/-! ### header folding of `make_environ`

Input: `self.headers.items()` as `http.server` parsed them (outside the model). Output: the
`HTTP_*` / `CONTENT_TYPE` / `CONTENT_LENGTH` entries of the environ, as an association list in
dict insertion order. -/

abbrev Str := List Char
abbrev Env := List (Str × Str)

def upperAscii (c : Char) : Char := if 'a' ≤ c ∧ c ≤ 'z' then Char.ofNat (c.toNat - 32) else c

/-- `key.upper().replace("-", "_")` (header names are ASCII tokens) -/
def envName (name : Str) : Str := name.map fun c => if c == '-' then '_' else upperAscii c

/-- `value.replace("\r\n", "")` -/
def dropCrlf : Str → Str
  | '\r' :: '\n' :: t => dropCrlf t
  | c :: t => c :: dropCrlf t
  | [] => []

def Env.get (env : Env) (k : Str) : Option Str := (env.find? (·.1 == k)).map (·.2)

/-- `environ[k] = v`: an existing key keeps its position -/
def Env.set : Env → Str → Str → Env
  | [], k, v => [(k, v)]
  | (k', v') :: rest, k, v => if k' == k then (k', v) :: rest else (k', v') :: Env.set rest k v

def isContentKey (k : Str) : Bool := k == "CONTENT_TYPE".toList || k == "CONTENT_LENGTH".toList

/-- one iteration of `for key, value in self.headers.items()` -/
def foldHeader (env : Env) (h : Str × Str) : Env :=
  if h.1.contains '_' then env
  else
    let key := envName h.1
    let value := dropCrlf h.2
    if isContentKey key then env.set key value
    else
      let key := "HTTP_".toList ++ key
      match env.get key with
      | some old => env.set key (old ++ ',' :: value)
      | none => env.set key value

def foldHeaders (hs : List (Str × Str)) : Env := hs.foldl foldHeader []

end Wz.Chunked
