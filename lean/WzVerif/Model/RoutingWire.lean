/-
Routing: decoding of maps / adapters / values from the driver line protocol and encoding of
outcomes (shared by the C03, C04 and C12 drivers). Not mentioned by any theorem.

  map      cfg ';' rule ';' rule ...
  cfg      4 flags (strict merge redirect_defaults host_matching) ',' default_subdomain-toks
  rule     toks '|' domain '|' methods '|' strict '|' merge '|' endpoint '|' defaults '|' alias '|' ws '|' build_only [ '|' wraps ]
  wraps    wrap '+' wrap ...   (factories around the rule, innermost first)
  wrap     'M' toks (Submount) | 'D' toks (Subdomain) | 'E' hex (EndpointPrefix) | 'T' hex '=' hex '&' ... (RuleTemplate context)
  toks     tok ',' tok ...          ('' = no token, '~' = None where optional)
  tok      '/' | 'L' hex | 'V' conv ':' hex(name)
  conv     s.min.max.len | i.fixed.signed.min.max | f.signed.min.max | a.hex.hex... | u | p
  value    's' hex | 'i' int | 'f' hex | 'u' hex
  adapter  server '|' script '|' subdomain '|' scheme '|' default_method '|' qa
  qa       '~' | 't' hex | 'p' hex '=' hex ',' ...
-/
import WzVerif.Model.RoutingAdapter
import WzVerif.Model.RoutingFactory
import WzVerif.Driver.Proto
namespace Wz.Routing.Wire
open Wz Wz.Proto Wz.Routing

def splitStr (s : String) (sep : String) : List String := if s.isEmpty then [] else s.splitOn sep

def optOf (f : String → Option α) (s : String) : Option (Option α) :=
  if s == "~" then some none else (f s).map some

def natOpt := optOf natArg
def intOpt := optOf intArg

def decArg (s : String) : Option Dec :=
  match s.splitOn "_" with
  | [m, e] => match m.toInt?, e.toNat? with
    | some m, some e => some ⟨m, e⟩
    | _, _ => none
  | _ => none

def allSome : List (Option α) → Option (List α)
  | [] => some []
  | none :: _ => none
  | some a :: t => (allSome t).map (a :: ·)

def convArg (s : String) : Option Conv :=
  match s.splitOn "." with
  | ["s", mn, mx, ln] =>
    match natArg mn, natOpt mx, natOpt ln with
    | some mn, some mx, some ln => some (.string mn mx ln)
    | _, _, _ => none
  | ["i", fx, sg, mn, mx] =>
    match natArg fx, boolArg sg, intOpt mn, intOpt mx with
    | some fx, some sg, some mn, some mx => some (.int fx sg mn mx)
    | _, _, _, _ => none
  | ["f", sg, mn, mx] =>
    match boolArg sg, optOf decArg mn, optOf decArg mx with
    | some sg, some mn, some mx => some (.float sg mn mx)
    | _, _, _ => none
  | "a" :: items => (allSome (items.map unhexStr)).map .any
  | ["u"] => some .uuid
  | ["p"] => some .path
  | _ => none

def tokArg (s : String) : Option Tok :=
  if s == "/" then some .slash
  else if s.startsWith "L" then (unhexStr (s.drop 1).toString).map .lit
  else if s.startsWith "V" then
    match (s.drop 1).toString.splitOn ":" with
    | [c, n] => match convArg c, unhexStr n with
      | some c, some n => some (.var c n)
      | _, _ => none
    | _ => none
  else none

def toksArg (s : String) : Option (List Tok) := allSome ((splitStr s ",").map tokArg)

def valueArg (s : String) : Option Value :=
  let body := (s.drop 1).toString
  if s.startsWith "s" then (unhexStr body).map .str
  else if s.startsWith "i" then body.toInt?.map .int
  else if s.startsWith "f" then (unhexStr body).map .float
  else if s.startsWith "u" then (unhexStr body).map .uuid
  else none

def kvArg (s : String) : Option (Str × Value) :=
  match s.splitOn "=" with
  | [k, v] => match unhexStr k, valueArg v with
    | some k, some v => some (k, v)
    | _, _ => none
  | _ => none

def valuesArg (s : String) : Option (List (Str × Value)) := allSome ((splitStr s ",").map kvArg)

def methodsArg (s : String) : Option (Option (List Str)) :=
  if s == "~" then some none else (allSome ((splitStr s ",").map unhexStr)).map some

def ruleArg (s : String) : Option RuleSpec :=
  match s.splitOn "|" with
  | [toks, dom, ms, strict, merge, ep, defs, alias, ws, bo] =>
    match toksArg toks, optOf toksArg dom, methodsArg ms, optOf boolArg strict, optOf boolArg merge,
        unhexStr ep, valuesArg defs, boolArg alias, boolArg ws, boolArg bo with
    | some toks, some dom, some ms, some strict, some merge, some ep, some defs, some alias, some ws, some bo =>
      some { toks := toks, domain := dom, methods := ms, strict := strict, merge := merge, endpoint := ep,
             defaults := defs, alias := alias, websocket := ws, buildOnly := bo }
    | _, _, _, _, _, _, _, _, _, _ => none
  | _ => none

def wrapArg (s : String) : Option Wrap :=
  let body := (s.drop 1).toString
  if s.startsWith "M" then (toksArg body).map .submount
  else if s.startsWith "D" then (toksArg body).map .subdomain
  else if s.startsWith "E" then (unhexStr body).map .endpointPrefix
  else if s.startsWith "T" then
    (allSome ((splitStr body "&").map fun kv =>
      match kv.splitOn "=" with
      | [k, v] => match unhexStr k, unhexStr v with
        | some k, some v => some (k, v)
        | _, _ => none
      | _ => none)).map .template
  else none

/-- a rule with the factories around it: `none` = malformed, `some (.error _)` = the expansion raises -/
def wrappedRuleArg (hm : Bool) (s : String) : Option (Except String RuleSpec) :=
  match s.splitOn "|" with
  | [a, b, c, d, e, f, g, h, i, j, w] =>
    match ruleArg ("|".intercalate [a, b, c, d, e, f, g, h, i, j]), allSome ((splitStr w "+").map wrapArg) with
    | some r, some ws => some (applyWraps hm ws r)
    | _, _ => none
  | _ => (ruleArg s).map .ok

def allOk : List (Except String α) → Option (List α)
  | [] => some []
  | .error _ :: _ => none
  | .ok a :: t => (allOk t).map (a :: ·)

def cfgArg (s : String) : Option MapCfg :=
  match s.splitOn "," with
  | flags :: rest =>
    match flags.toList.map (fun c => c == '1'), toksArg (",".intercalate rest) with
    | [st, mg, rd, hm], some dsub =>
      some { strictSlashes := st, mergeSlashes := mg, redirectDefaults := rd, hostMatching := hm, defaultSubdomain := dsub }
    | _, _ => none
  | _ => none

/-- `none` = malformed request; `some none` = the map is outside the model -/
def mapArg (s : String) : Option (Option RMap) :=
  match s.splitOn ";" with
  | cfg :: rules =>
    match cfgArg cfg with
    | some cfg =>
      match allSome (rules.map (wrappedRuleArg cfg.hostMatching)) with
      | some specs => some ((allOk specs).bind (mkMap cfg))
      | none => none
    | none => none
  | _ => none

def qaArg (s : String) : Option QueryArgs :=
  if s == "~" then some .none
  else if s.startsWith "t" then (unhexStr (s.drop 1).toString).map .text
  else if s.startsWith "p" then
    (allSome ((splitStr (s.drop 1).toString ",").map fun kv =>
      match kv.splitOn "=" with
      | [k, v] => match unhexStr k, unhexStr v with
        | some k, some v => some (k, v)
        | _, _ => none
      | _ => none)).map .pairs
  else none

def adapterArg (s : String) : Option Adapter :=
  match s.splitOn "|" with
  | [server, script, sub, scheme, dm, qa] =>
    match unhexStr server, unhexStr script, optOf unhexStr sub, unhexStr scheme, unhexStr dm, qaArg qa with
    | some server, some script, some sub, some scheme, some dm, some qa =>
      some { serverName := server, scriptName := normScriptName script, subdomain := sub, urlScheme := scheme,
             defaultMethod := dm, queryArgs := qa }
    | _, _, _, _, _, _ => none
  | _ => none

/-! ### output -/

def outValue : Value → String
  | .str s => "s" ++ hexStr s
  | .int i => "i" ++ toString i
  | .float t => "f" ++ hexStr t
  | .uuid t => "u" ++ hexStr t

def strLe (a b : String) : Bool := a ≤ b

def insertSorted (x : String) : List String → List String
  | [] => [x]
  | y :: t => if strLe x y then x :: y :: t else y :: insertSorted x t

def sortStrings (l : List String) : List String := l.foldr insertSorted []

def outValues (vals : List (Str × Value)) : String :=
  outList id (sortStrings (vals.map fun (k, v) => hexStr k ++ "=" ++ outValue v))

def outOutcome : Outcome → String
  | .matched r vals => "M " ++ toString r.idx ++ " " ++ hexStr r.endpoint ++ " " ++ outValues vals
  | .redirect url => "R " ++ hexStr url
  | .notFound => "404"
  | .methodNotAllowed ms => "405 " ++ outList id (sortStrings (ms.map hexStr))
  | .wsMismatch => "WSM"
  | .error e => "ERR " ++ e

def outWeight (w : Weighting) : String :=
  toString w.nStatic ++ "/" ++ "+".intercalate (w.statics.map fun (a, b) => toString a ++ "_" ++ toString b) ++ "/" ++
    toString w.nArgs ++ "/" ++ "+".intercalate (w.args.map toString)

end Wz.Routing.Wire
