/-
Forced schedules over the generated `Map.update` / `Map.add` programs (driver side of the
`schedules` streams of C03 / C04 / C12). Not mentioned by any theorem.
-/
import WzVerif.Model.RoutingLock
import WzVerif.Gen.RoutingLock
namespace Wz.RoutingLock

/-- thread kinds: `none` = a request thread (calls `update()`), `some n` = a thread calling `add()` with a
factory of `n` rules. The map's constructor has added the rules `0 .. ctor-1`; add threads get the next ids. -/
def mkThreads (ctor : Nat) : List (Option Nat) → List Thread
  | [] => []
  | none :: rest => updateThread Gen.RoutingLock.updateProg :: mkThreads ctor rest
  | some n :: rest =>
    addThread Gen.RoutingLock.addBody Gen.RoutingLock.addAfter ((List.range n).map (· + ctor)) :: mkThreads (ctor + n) rest

def schedInit (ctor : Nat) (kinds : List (Option Nat)) : State :=
  let ts := mkThreads ctor kinds
  let s0 : State := afterInitState ctor ts
  -- every thread runs up to its first stop
  (List.range ts.length).foldl (fun s i => settle s i 8) s0
where
  afterInitState (ctor : Nat) (ts : List Thread) : State :=
    { sh := { remap := true, mIn := List.range ctor, eIn := List.range ctor, done := List.range ctor },
      th := fun i => ts.getD i {} }

/-- events of the grants, and for every thread: `some b` = left `update()` with `b`, `none` = still inside
(or an add thread) -/
def schedRun (ctor : Nat) (kinds : List (Option Nat)) (grants : List Nat) : List String × List (Option Bool) × Bool :=
  let (s, evs) := runGrants (schedInit ctor kinds) grants []
  (evs, (List.range kinds.length).map (fun i => (s.th i).result),
    (List.range kinds.length).all (fun i => (s.th i).pc.isEmpty))

end Wz.RoutingLock
