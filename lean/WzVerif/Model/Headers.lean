/-
Model of `werkzeug.datastructures.headers.Headers` (shared by C08, C16, C05).

State = the `_list` attribute: an ordered list of `(key, value)` pairs of text.
Every method is transcribed from the source (loops become structural recursion); quirks are
kept (e.g. `update` with a `Headers` argument calls `setlist` once per *pair*, `setlist` may stop
half-way when a later value is refused).

Modelled, not verified (validated by the correspondence streams of C08 / C05):
* `str.lower()` is ASCII lower-casing (`Char.toLower`); the streams use ASCII keys,
* `str(value)` of non-text values and `dump_options_header` for the keyword form of `add`/`set`
  are applied by the caller (the model receives the resulting text),
* Python list indexing / simple slices (`step` absent).
-/
namespace Wz.Hdr

abbrev Str := List Char
abbrev Pair := Str × Str
abbrev HList := List Pair

/-- `str.lower()` (ASCII). -/
def lower (s : Str) : Str := s.map Char.toLower

/-- `k.lower() == key.lower()` for the pair `p = (k, _)`. -/
def keyEq (key : Str) (p : Pair) : Bool := lower p.1 == lower key

def isNL (c : Char) : Bool := c == '\r' || c == '\n'

/-- does the text contain CR or LF (`_newline_re.search`) -/
def hasNL (v : Str) : Bool := v.any isNL

/-- `_str_header_value` after `str(value)`: refuses CR / LF with `ValueError`. -/
def strHeaderValue (v : Str) : Except String Str :=
  if hasNL v then .error "ValueError" else .ok v

/-! ### Python list indexing -/

/-- `list[i]` index normalisation; `none` = IndexError. -/
def pyIdx (n : Nat) (i : Int) : Option Nat :=
  if i < 0 then (if -i ≤ n then some (n - (-i).toNat) else none)
  else (if i.toNat < n then some i.toNat else none)

/-- a slice `start:stop` (no step) -/
structure Slice where
  start : Option Int
  stop : Option Int
deriving Repr, DecidableEq

def clampBound (n : Nat) (i : Int) : Nat :=
  if i < 0 then (if -i ≤ n then n - (-i).toNat else 0) else min i.toNat n

/-- `slice.indices(n)` for step 1: `(lo, hi)` with `lo ≤ hi ≤ n`. -/
def sliceBounds (n : Nat) (s : Slice) : Nat × Nat :=
  let lo := match s.start with | none => 0 | some i => clampBound n i
  let hi := match s.stop with | none => n | some i => clampBound n i
  (lo, max lo hi)

def getSlice (l : List α) (s : Slice) : List α :=
  let (lo, hi) := sliceBounds l.length s
  (l.drop lo).take (hi - lo)

def setSlice (l : List α) (s : Slice) (new : List α) : List α :=
  let (lo, hi) := sliceBounds l.length s
  l.take lo ++ new ++ l.drop hi

def delSlice (l : List α) (s : Slice) : List α := setSlice l s []

/-! ### reads -/

/-- `Headers._get_key`; the error is the exception class. -/
def getKey (l : HList) (key : Str) : Except String Str :=
  match l.find? (keyEq key) with
  | some p => .ok p.2
  | none => .error "BadRequestKeyError"

def contains (l : HList) (key : Str) : Bool := (l.find? (keyEq key)).isSome

/-- `Headers.getlist(key)` -/
def getlist (l : HList) (key : Str) : List Str := (l.filter (keyEq key)).map (·.2)

/-- `Headers.get(key, default, type)` with the conversion as a parameter
(`none` = the callable raised ValueError). -/
def getTyped (conv : Str → Option τ) (l : HList) (key : Str) : Option τ :=
  match getKey l key with
  | .ok v => conv v
  | .error _ => none

/-- `Headers.getlist(key, type)` -/
def getlistTyped (conv : Str → Option τ) (l : HList) (key : Str) : List τ :=
  (getlist l key).filterMap conv

def items (l : HList) (lowerKeys : Bool) : HList :=
  if lowerKeys then l.map (fun p => (lower p.1, p.2)) else l

def keys (l : HList) (lowerKeys : Bool) : List Str := (items l lowerKeys).map (·.1)
def values (l : HList) : List Str := l.map (·.2)

/-- `str(headers)` -/
def toText (l : HList) : Str :=
  List.intercalate "\r\n".toList (l.map (fun p => p.1 ++ ": ".toList ++ p.2) ++ ["\r\n".toList])

/-! ### argument forms accepted by the constructor / `extend` / `update` -/

/-- value of a mapping entry: a scalar or a list/tuple/set of values -/
inductive MVal where
  | one (v : Str)
  | many (vs : List Str)
deriving Repr, DecidableEq

abbrev MapArg := List (Str × MVal)

inductive Arg where
  /-- iterable of `(key, value)` pairs -/
  | pairs (l : List Pair)
  /-- `Mapping` whose values are scalars or lists -/
  | mapping (m : MapArg)
  /-- a `MultiDict` (its `lists()`) -/
  | multi (m : List (Str × List Str))
  /-- another `Headers` -/
  | headers (l : HList)
deriving Repr, DecidableEq

def mapItems : MapArg → List Pair
  | [] => []
  | (k, .one v) :: t => (k, v) :: mapItems t
  | (k, .many vs) :: t => vs.map (fun v => (k, v)) ++ mapItems t

/-- `iter_multi_items` -/
def iterMultiItems : Arg → List Pair
  | .pairs l => l
  | .mapping m => mapItems m
  | .multi m => m.flatMap (fun kv => kv.2.map (fun v => (kv.1, v)))
  | .headers l => l

/-! ### mutators

A mutator returns the new state together with `Except String ρ`: Python methods that raise
half-way (e.g. `extend` on the second pair) leave the part already done in place. -/

abbrev Res (ρ : Type) := HList × Except String ρ

/-- `Headers.add(key, value)` -/
def add (l : HList) (k v : Str) : Res Unit :=
  match strHeaderValue v with
  | .error e => (l, .error e)
  | .ok vs => (l ++ [(k, vs)], .ok ())

/-- `Headers._del_key` / `remove` / `__delitem__(str)` -/
def delKey (l : HList) (key : Str) : HList := l.filter (fun p => !keyEq key p)

/-- the `for … else` loop of `Headers.set`: replace the first occurrence and drop the later ones;
`none` when the loop finishes without `break`. -/
def setLoop (k vs : Str) : HList → Option HList
  | [] => none
  | p :: t =>
    if keyEq k p then some ((k, vs) :: t.filter (fun q => !keyEq k q))
    else (setLoop k vs t).map (p :: ·)

/-- `Headers.set(key, value)` -/
def set (l : HList) (k v : Str) : Res Unit :=
  match strHeaderValue v with
  | .error e => (l, .error e)
  | .ok vs =>
    if l.isEmpty then ([(k, vs)], .ok ())
    else match setLoop k vs l with
      | some r => (r, .ok ())
      | none => (l ++ [(k, vs)], .ok ())

/-- `for value in values: self.add(key, value)` -/
def addAll (l : HList) (k : Str) : List Str → Res Unit
  | [] => (l, .ok ())
  | v :: t =>
    match add l k v with
    | (l', .ok _) => addAll l' k t
    | r => r

/-- `Headers.setlist(key, values)` -/
def setlist (l : HList) (k : Str) (vs : List Str) : Res Unit :=
  match vs with
  | [] => (delKey l k, .ok ())
  | v :: t =>
    match set l k v with
    | (l', .ok _) => addAll l' k t
    | r => r

/-- `Headers.setdefault(key, default)` -/
def setdefault (l : HList) (k v : Str) : Res Str :=
  match getKey l k with
  | .ok x => (l, .ok x)
  | .error _ =>
    match set l k v with
    | (l', .ok _) => (l', getKey l' k)
    | (l', .error e) => (l', .error e)

/-- `Headers.setlistdefault(key, default)` -/
def setlistdefault (l : HList) (k : Str) (vs : List Str) : Res (List Str) :=
  if contains l k then (l, .ok (getlist l k))
  else match setlist l k vs with
    | (l', .ok _) => (l', .ok (getlist l' k))
    | (l', .error e) => (l', .error e)

/-- `for key, value in pairs: self.add(key, value)` -/
def addPairs (l : HList) : List Pair → Res Unit
  | [] => (l, .ok ())
  | (k, v) :: t =>
    match add l k v with
    | (l', .ok _) => addPairs l' t
    | r => r

/-- the positional part of `extend` -/
def extendHead (l : HList) : Option Arg → Res Unit
  | none => (l, .ok ())
  | some a => addPairs l (iterMultiItems a)

/-- continue with `f` when the first part succeeded -/
def andThen (r : Res Unit) (f : HList → Res Unit) : Res Unit :=
  match r with
  | (l', .ok _) => f l'
  | (l', .error e) => (l', .error e)

/-- `Headers.extend(arg, **kwargs)` -/
def extend (l : HList) (arg : Option Arg) (kw : MapArg) : Res Unit :=
  andThen (extendHead l arg) (fun l' => addPairs l' (mapItems kw))

/-- `for key, value in pairs: self.set(key, value)` -/
def setPairs (l : HList) : List Pair → Res Unit
  | [] => (l, .ok ())
  | (k, v) :: t =>
    match set l k v with
    | (l', .ok _) => setPairs l' t
    | r => r

/-- the `Mapping` branch of `update`: list values go through `setlist`, scalars through `set` -/
def updateMap (l : HList) : MapArg → Res Unit
  | [] => (l, .ok ())
  | (k, .one v) :: t =>
    match set l k v with
    | (l', .ok _) => updateMap l' t
    | r => r
  | (k, .many vs) :: t =>
    match setlist l k vs with
    | (l', .ok _) => updateMap l' t
    | r => r

/-- `for key in arg.keys(): self.setlist(key, arg.getlist(key))` where `look` is the argument's
`getlist` -/
def updateKeys (look : Str → List Str) (l : HList) : List Str → Res Unit
  | [] => (l, .ok ())
  | k :: t =>
    match setlist l k (look k) with
    | (l', .ok _) => updateKeys look l' t
    | r => r

def multiGetlist (m : List (Str × List Str)) (k : Str) : List Str :=
  match m.find? (fun kv => kv.1 == k) with
  | some kv => kv.2
  | none => []

/-- the positional part of `update` -/
def updateHead (l : HList) : Option Arg → Res Unit
  | none => (l, .ok ())
  | some (.headers h) => updateKeys (getlist h) l (keys h false)
  | some (.multi m) => updateKeys (multiGetlist m) l (m.map (·.1))
  | some (.mapping m) => updateMap l m
  | some (.pairs ps) => setPairs l ps

/-- `Headers.update(arg, **kwargs)` -/
def update (l : HList) (arg : Option Arg) (kw : MapArg) : Res Unit :=
  andThen (updateHead l arg) (fun l' => updateMap l' kw)

/-- `Headers.__setitem__(int, (k, v))` -/
def setIdx (l : HList) (i : Int) (p : Pair) : Res Unit :=
  match strHeaderValue p.2 with
  | .error e => (l, .error e)
  | .ok vs =>
    match pyIdx l.length i with
    | none => (l, .error "IndexError")
    | some n => (l.set n (p.1, vs), .ok ())

/-- the list comprehension `[(k, _str_header_value(v)) for k, v in value]` -/
def cleanPairs : List Pair → Except String (List Pair)
  | [] => .ok []
  | (k, v) :: t =>
    match strHeaderValue v with
    | .error e => .error e
    | .ok vs =>
      match cleanPairs t with
      | .error e => .error e
      | .ok r => .ok ((k, vs) :: r)

/-- `Headers.__setitem__(slice, pairs)` -/
def setSliceOp (l : HList) (s : Slice) (ps : List Pair) : Res Unit :=
  match cleanPairs ps with
  | .error e => (l, .error e)
  | .ok r => (setSlice l s r, .ok ())

/-- `del headers[int]` -/
def delIdx (l : HList) (i : Int) : Res Unit :=
  match pyIdx l.length i with
  | none => (l, .error "IndexError")
  | some n => (l.eraseIdx n, .ok ())

/-- `Headers.pop(int)` (also `pop()` / `popitem()` with `i = -1`) -/
def popIdx (l : HList) (i : Int) : Res Pair :=
  match pyIdx l.length i with
  | none => (l, .error "IndexError")
  | some n =>
    match l[n]? with
    | some p => (l.eraseIdx n, .ok p)
    | none => (l, .error "IndexError")

/-- `Headers.pop(key[, default])`; the result is `none` when the default is returned and no
default was given is an error. -/
def popKey (l : HList) (k : Str) (dflt : Option Str) : Res Str :=
  match getKey l k with
  | .ok v => (delKey l k, .ok v)
  | .error e =>
    match dflt with
    | some d => (l, .ok d)
    | none => (l, .error e)

inductive Op where
  | add (k v : Str)
  | set (k v : Str)
  | setlist (k : Str) (vs : List Str)
  | setdefault (k v : Str)
  | setlistdefault (k : Str) (vs : List Str)
  | extend (a : Option Arg) (kw : MapArg)
  | update (a : Option Arg) (kw : MapArg)
  | setitemKey (k v : Str)
  | setitemIdx (i : Int) (p : Pair)
  | setitemSlice (s : Slice) (ps : List Pair)
  | delitemKey (k : Str)
  | delitemIdx (i : Int)
  | delitemSlice (s : Slice)
  | remove (k : Str)
  | popLast
  | popKey (k : Str) (dflt : Option Str)
  | popIdx (i : Int)
  | popitem
  | clear
  | ior (a : Arg)
deriving Repr, DecidableEq

/-- what a mutator returns -/
inductive Ret where
  | none
  | str (s : Str)
  | pair (p : Pair)
  | strs (l : List Str)
deriving Repr, DecidableEq

def retUnit (r : Res Unit) : Res Ret := (r.1, r.2.map (fun _ => Ret.none))

/-- one public mutator call -/
def step (l : HList) : Op → Res Ret
  | .add k v => retUnit (add l k v)
  | .set k v => retUnit (set l k v)
  | .setlist k vs => retUnit (setlist l k vs)
  | .setdefault k v => let r := setdefault l k v; (r.1, r.2.map Ret.str)
  | .setlistdefault k vs => let r := setlistdefault l k vs; (r.1, r.2.map Ret.strs)
  | .extend a kw => retUnit (extend l a kw)
  | .update a kw => retUnit (update l a kw)
  | .setitemKey k v => retUnit (set l k v)
  | .setitemIdx i p => retUnit (setIdx l i p)
  | .setitemSlice s ps => retUnit (setSliceOp l s ps)
  | .delitemKey k => (delKey l k, .ok .none)
  | .delitemIdx i => retUnit (delIdx l i)
  | .delitemSlice s => (delSlice l s, .ok .none)
  | .remove k => (delKey l k, .ok .none)
  | .popLast => let r := popIdx l (-1); (r.1, r.2.map Ret.pair)
  | .popKey k d => let r := popKey l k d; (r.1, r.2.map Ret.str)
  | .popIdx i => let r := popIdx l i; (r.1, r.2.map Ret.pair)
  | .popitem => let r := popIdx l (-1); (r.1, r.2.map Ret.pair)
  | .clear => ([], .ok .none)
  | .ior a => retUnit (update l (some a) [])

/-- state after a whole history (errors do not stop the history: the caller catches them) -/
def run (l : HList) : List Op → HList
  | [] => l
  | op :: t => run (step l op).1 t

/-- `Headers(defaults)` = `extend(defaults)` on the empty list; an exception leaves no object -/
def construct (arg : Option Arg) : Except String HList :=
  match extend [] arg [] with
  | (l, .ok _) => .ok l
  | (_, .error e) => .error e

/-- `Headers.__eq__`: set equality of the pairs with lower-cased keys -/
def eqv (a b : HList) : Bool :=
  let la := a.map (fun p => (lower p.1, p.2))
  let lb := b.map (fun p => (lower p.1, p.2))
  la.all (lb.contains ·) && lb.all (la.contains ·)

end Wz.Hdr
