/-
Routing, part 4: URL building — converter `to_url`, `Rule._compile_builder` / `Rule.build`,
`suitable_for`, `build_compare_key`, `MapAdapter._partial_build` / `build`.
-/
import WzVerif.Model.RoutingUrl
namespace Wz.Routing

/-- `str(value)` (floats are carried as the text Python prints for them) -/
def pyStr : Value → Str
  | .str s => s
  | .int i => (toString i).toList
  | .float t => t
  | .uuid t => t

/-- `s.zfill(width)` -/
def zfill (width : Nat) (s : Str) : Str :=
  match s with
  | '-' :: t => '-' :: (List.replicate (width - s.length) '0' ++ t)
  | _ => List.replicate (width - s.length) '0' ++ s

/-- numeric value of a Python value for `==` between numbers -/
def Value.dec? : Value → Option Dec
  | .int i => some ⟨i, 0⟩
  | .float t => some (decOfText t)
  | _ => none

/-- Python `a == b` on the value types of the model -/
def Value.pyEq (a b : Value) : Bool :=
  match a.dec?, b.dec? with
  | some x, some y => x.le y && y.le x
  | none, none => a == b
  | _, _ => false

/-- `converter.to_url(value)`; `.error` = the exception class raised -/
def toUrl : Conv → Value → Except String Str
  | .string .., v => .ok (quote pathSafe (pyStr v))
  | .path, v => .ok (quote pathSafe (pyStr v))
  | .any items, v =>
    match v with
    | .str s => if items.contains s then .ok (quote pathSafe s) else .error "ValueError"
    | _ => .error "ValueError"
  | .uuid, v => .ok (pyStr v)
  | .int fixed .., v =>
    match v with
    | .int i => .ok (if fixed ≠ 0 then zfill fixed (toString i).toList else (toString i).toList)
    | _ => .error "Unsupported"
  | .float .., v =>
    match v with
    | .float t => .ok t
    | .int i => .ok ((toString i).toList ++ ".0".toList)
    | _ => .error "Unsupported"

/-- one entry of `Rule._trace` -/
inductive TraceItem where
  | text (s : Str)
  | var (name : Str)
  | bar
deriving DecidableEq, Repr

def traceToks : List Tok → List TraceItem
  | [] => []
  | .slash :: t => .text ['/'] :: traceToks t
  | .lit s :: t => .text s :: traceToks t
  | .var _ n :: t => .var n :: traceToks t

/-- tokens of the domain rule and of the path rule as `compile()` parses them -/
def Rule.domToks (cfg : MapCfg) (r : Rule) : List Tok :=
  if cfg.hostMatching then r.spec.domain.getD [] else r.spec.domain.getD cfg.defaultSubdomain

def Rule.pathToks (r : Rule) : List Tok := if r.merge then mergeSlashToks r.spec.toks else r.spec.toks

/-- `Rule._trace` -/
def Rule.trace (cfg : MapCfg) (r : Rule) : List TraceItem :=
  traceToks (r.domToks cfg) ++ .bar :: traceToks r.pathToks

/-- `Rule.arguments` (as a duplicate-free list) -/
def Rule.arguments (r : Rule) : List Str :=
  (r.defaults.map (·.1) ++ r.convs.map (·.1)).eraseDups

def lookupVal (k : Str) : List (Str × Value) → Option Value
  | [] => none
  | (k', v) :: t => if k' == k then some v else lookupVal k t

def lookupConv (k : Str) : List (Str × Conv) → Option Conv
  | [] => none
  | (k', v) :: t => if k' == k then some v else lookupConv k t

/-- the text one side (domain or url) of the compiled builder produces -/
def buildSide (r : Rule) (values : List (Str × Value)) : List TraceItem → Except String Str
  | [] => .ok []
  | .bar :: t => buildSide r values t
  | .text s :: t => do
    let rest ← buildSide r values t
    pure (quote pathSafe s ++ rest)
  | .var n :: t => do
    let c ← match lookupConv n r.convs with | some c => pure c | none => throw "KeyError"
    let v ← match lookupVal n r.defaults with
      | some d => pure d            -- "a default given for a value that appears in the rule"
      | none => match lookupVal n values with | some v => pure v | none => throw "TypeError"
    let s ← toUrl c v
    let rest ← buildSide r values t
    pure (s ++ rest)

/-- keyword arguments left over for the query string: values that are neither positional
arguments of the builder nor keys of `defaults` -/
def Rule.leftover (r : Rule) (values : List (Str × Value)) : List (Str × Value) :=
  values.filter fun (k, _) => !(r.convs.any (·.1 == k)) && !(r.defaults.any (·.1 == k))

/-- `Rule._encode_query_vars` (without `sort_parameters`) -/
def encodeQueryVars (kw : List (Str × Value)) : Str := urlencode (kw.map fun (k, v) => (k, pyStr v))

/-- `Rule.build(values, append_unknown)`: (domain part, url) -/
def Rule.build (cfg : MapCfg) (r : Rule) (values : List (Str × Value)) (appendUnknown : Bool) : Except String (Str × Str) := do
  let dom ← buildSide r values (traceToks (r.domToks cfg))
  let url ← buildSide r values (traceToks r.pathToks)
  let kw := r.leftover values
  let params := if appendUnknown && !kw.isEmpty then encodeQueryVars kw else []
  pure (dom, if params.isEmpty then url else url ++ '?' :: params)

/-- `Rule.suitable_for(values, method)` -/
def Rule.suitableFor (r : Rule) (values : List (Str × Value)) (method : Option Str) : Bool :=
  (match method, r.methods with
    | some m, some ms => ms.contains m
    | _, _ => true) &&
  r.arguments.all (fun k => r.defaults.any (·.1 == k) || values.any (·.1 == k)) &&
  r.defaults.all (fun (k, d) => match lookupVal k values with | some v => d.pyEq v | none => true)

/-- `Rule.build_compare_key()` -/
def Rule.buildCompareKey (r : Rule) : Int × Int × Int :=
  (if r.alias then 1 else 0, -(r.arguments.length : Int), -(r.defaults.length : Int))

def keyLt (a b : Int × Int × Int) : Bool :=
  a.1 < b.1 || (a.1 == b.1 && (a.2.1 < b.2.1 || (a.2.1 == b.2.1 && a.2.2 < b.2.2)))

def insertRule (x : Rule) : List Rule → List Rule
  | [] => [x]
  | y :: t => if keyLt y.buildCompareKey x.buildCompareKey then y :: insertRule x t else x :: y :: t

/-- `rules.sort(key=build_compare_key)` (stable) -/
def sortRules : List Rule → List Rule
  | [] => []
  | x :: t => insertRule x (sortRules t)

/-- `map._rules_by_endpoint[endpoint]` after `update()` -/
def rulesByEndpoint (rules : List Rule) (endpoint : Str) : List Rule :=
  sortRules (rules.filter (·.endpoint == endpoint))

/-- `MapAdapter._partial_build` for one method -/
def partialBuild1 (cfg : MapCfg) (a : Adapter) (cands : List Rule) (values : List (Str × Value))
    (method : Option Str) (appendUnknown : Bool) (first : Option (Str × Str × Bool)) : Except String (Option (Str × Str × Bool)) :=
  match cands with
  | [] => .ok first
  | r :: t =>
    if r.suitableFor values method then
      match r.build cfg values appendUnknown with
      | .error e => .error e
      | .ok (d, u) =>
        let rv := (d, u, r.websocket)
        if cfg.hostMatching then
          if d == a.serverName then .ok (some rv)
          else partialBuild1 cfg a t values method appendUnknown (first.orElse fun _ => some rv)
        else .ok (some rv)
    else partialBuild1 cfg a t values method appendUnknown first

/-- `MapAdapter._partial_build` -/
def partialBuild (cfg : MapCfg) (a : Adapter) (rules : List Rule) (endpoint : Str) (values : List (Str × Value))
    (method : Option Str) (appendUnknown : Bool) : Except String (Option (Str × Str × Bool)) :=
  let cands := rulesByEndpoint rules endpoint
  match method with
  | none =>
    match partialBuild1 cfg a cands values (some a.defaultMethod) appendUnknown none with
    | .error e => .error e
    | .ok (some rv) => .ok (some rv)
    | .ok none => partialBuild1 cfg a cands values none appendUnknown none
  | some m => partialBuild1 cfg a cands values (some m) appendUnknown none

/-- `MapAdapter.build(endpoint, values, method, force_external, append_unknown)` (bound scheme);
`.error "BuildError"` when no rule is suitable -/
def adapterBuild (cfg : MapCfg) (a : Adapter) (rules : List Rule) (endpoint : Str) (values : List (Str × Value))
    (method : Option Str) (forceExternal appendUnknown : Bool) : Except String Str :=
  match partialBuild cfg a rules endpoint values method appendUnknown with
  | .error e => .error e
  | .ok none => .error "BuildError"
  | .ok (some (domainPart, path, websocket)) =>
    let host := getHost cfg.hostMatching a (some domainPart)
    let secure := a.urlScheme == "https".toList || a.urlScheme == "wss".toList
    let forceExternal := forceExternal || websocket
    let scheme : Str :=
      if websocket then (if secure then "wss".toList else "ws".toList)
      else if !a.urlScheme.isEmpty then (if secure then "https".toList else "http".toList)
      else []
    if !forceExternal && ((cfg.hostMatching && host == a.serverName) ||
        (!cfg.hostMatching && some domainPart == a.subdomain)) then
      .ok (rstripChar '/' a.scriptName ++ '/' :: lstripChar '/' path)
    else
      let sch := if scheme.isEmpty then [] else scheme ++ [':']
      .ok (sch ++ '/' :: '/' :: host ++ a.scriptName.dropLast ++ '/' :: lstripChar '/' path)

end Wz.Routing
