/-
Models of the multi-value containers of `werkzeug.datastructures` (C08):

* `PyDict`  – a Python `dict` as an association list in insertion order (re-insertion of an
              existing key keeps its position; `popitem` takes the last entry). Modelled CPython
              primitive, validated by the `ops-*` streams.
* `MD`      – `MultiDict` (a dict of lists) with every public method transcribed from
              `structures.py`, including the methods that can leave a key with *zero* values.
* `MDSpec`  – the documented abstract model: an insertion-ordered multimap (keys in first-insertion
              order, every key has at least one value), written with list combinators only.
* `CMD`     – `CombinedMultiDict` (read-through over a list of `MD`).
* `HS`      – `HeaderSet` (`_headers` list + `_set` of lower-cased members) and its abstract model,
              a case-insensitive ordered set.
* `EH`      – `EnvironHeaders` (a view over an environ dict).
Immutable variants are the same states with every mutator answering `TypeError`.
-/
import WzVerif.Model.Headers
import WzVerif.Gen.Containers
namespace Wz

/-! ## Python dict -/
namespace PyDict
variable {κ α : Type} [DecidableEq κ]

abbrev Dict (κ α : Type) := List (κ × α)

def get? (d : Dict κ α) (k : κ) : Option α := d.lookup k

def has (d : Dict κ α) (k : κ) : Bool := (d.lookup k).isSome

/-- `d[k] = x` -/
def set : Dict κ α → κ → α → Dict κ α
  | [], k, x => [(k, x)]
  | (k', y) :: t, k, x => if k' = k then (k', x) :: t else (k', y) :: set t k x

/-- remove the entry of `k` (no error when missing) -/
def erase : Dict κ α → κ → Dict κ α
  | [], _ => []
  | (k', y) :: t, k => if k' = k then t else (k', y) :: erase t k

/-- `d.popitem()`; `none` = KeyError -/
def popitem (d : Dict κ α) : Option ((κ × α) × Dict κ α) :=
  match d.getLast? with
  | some p => some (p, d.dropLast)
  | none => none

def keys (d : Dict κ α) : List κ := d.map (·.1)

end PyDict

/-! ## MultiDict -/
namespace MD
open PyDict
variable {κ ν : Type} [DecidableEq κ]

abbrev St (κ ν : Type) := Dict κ (List ν)
abbrev Res (κ ν ρ : Type) := St κ ν × Except String ρ

/-- value of a `Mapping` entry given to the constructor / `update` -/
inductive MVal (ν : Type) where
  | one (v : ν)
  | many (vs : List ν)
deriving Repr, DecidableEq

inductive Arg (κ ν : Type) where
  | pairs (l : List (κ × ν))
  | mapping (m : List (κ × MVal ν))
  | multi (m : St κ ν)
deriving Repr, DecidableEq

def mapItems : List (κ × MVal ν) → List (κ × ν)
  | [] => []
  | (k, .one v) :: t => (k, v) :: mapItems t
  | (k, .many vs) :: t => vs.map (fun v => (k, v)) ++ mapItems t

/-- `MultiDict.items(multi=True)` never fails: a key with no values contributes nothing -/
def itemsMulti (c : St κ ν) : List (κ × ν) := c.flatMap (fun e => e.2.map (fun v => (e.1, v)))

/-- `iter_multi_items` -/
def iterMultiItems : Arg κ ν → List (κ × ν)
  | .pairs l => l
  | .mapping m => mapItems m
  | .multi m => itemsMulti m

/-- `dict.setdefault(key, []).append(value)` -/
def add (c : St κ ν) (k : κ) (v : ν) : St κ ν :=
  match get? c k with
  | some vs => set c k (vs ++ [v])
  | none => set c k [v]

def addAll (c : St κ ν) : List (κ × ν) → St κ ν
  | [] => c
  | (k, v) :: t => addAll (add c k v) t

/-- `MultiDict(mapping)` -/
def construct : Option (Arg κ ν) → St κ ν
  | none => []
  | some (.multi m) => m            -- `(k, vs[:]) for k, vs in mapping.lists()`
  | some (.mapping m) =>
    m.foldl (fun tmp e =>
      match e.2 with
      | .one v => set tmp e.1 [v]
      | .many vs => if vs.isEmpty then tmp else set tmp e.1 vs) []
  | some (.pairs l) => addAll [] l

/-- `MultiDict.__getitem__` -/
def getitem (c : St κ ν) (k : κ) : Except String ν :=
  match get? c k with
  | some (v :: _) => .ok v
  | _ => .error "BadRequestKeyError"

/-- `get(key, type=conv)`; `none` = the default -/
def getTyped (conv : ν → Option τ) (c : St κ ν) (k : κ) : Option τ :=
  match getitem c k with
  | .ok v => conv v
  | .error _ => none

def getlist (c : St κ ν) (k : κ) : List ν := (get? c k).getD []

def getlistTyped (conv : ν → Option τ) (c : St κ ν) (k : κ) : List τ := (getlist c k).filterMap conv

/-- `for key, values in dict.items(): yield key, values[0]` – `IndexError` on an empty list -/
def itemsFirst : St κ ν → Except String (List (κ × ν))
  | [] => .ok []
  | (k, v :: _) :: t =>
    match itemsFirst t with
    | .ok r => .ok ((k, v) :: r)
    | .error e => .error e
  | (_, []) :: _ => .error "IndexError"

def values (c : St κ ν) : Except String (List ν) := (itemsFirst c).map (·.map (·.2))

def lists (c : St κ ν) : List (κ × List ν) := c
def listvalues (c : St κ ν) : List (List ν) := c.map (·.2)

/-- `to_dict(flat=True)`: a plain dict built from `items()` -/
def toDictFlat (c : St κ ν) : Except String (List (κ × ν)) := itemsFirst c

inductive Op (κ ν : Type) where
  | setitem (k : κ) (v : ν)
  | delitem (k : κ)
  | add (k : κ) (v : ν)
  | setlist (k : κ) (vs : List ν)
  | setdefault (k : κ) (v : ν)
  | setlistdefault (k : κ) (vs : List ν)
  | update (a : Arg κ ν)
  | ior (a : Arg κ ν)
  | pop (k : κ) (dflt : Option ν)
  | popitem
  | poplist (k : κ)
  | popitemlist
  | clear
deriving Repr, DecidableEq

inductive Ret (κ ν : Type) where
  | none
  | val (v : ν)
  | vals (vs : List ν)
  | item (k : κ) (v : ν)
  | itemlist (k : κ) (vs : List ν)
deriving Repr, DecidableEq

/-- one public mutator call of `MultiDict` -/
def step (c : St κ ν) : Op κ ν → Res κ ν (Ret κ ν)
  | .setitem k v => (set c k [v], .ok .none)
  | .delitem k => if has c k then (erase c k, .ok .none) else (c, .error "KeyError")
  | .add k v => (add c k v, .ok .none)
  | .setlist k vs => (set c k vs, .ok .none)
  | .setdefault k v =>
    let c' := if has c k then c else set c k [v]
    (c', (getitem c' k).map .val)
  | .setlistdefault k vs =>
    let c' := if has c k then c else set c k vs
    (c', .ok (.vals (getlist c' k)))
  | .update a => (addAll c (iterMultiItems a), .ok .none)
  | .ior a => (addAll c (iterMultiItems a), .ok .none)
  | .pop k dflt =>
    match get? c k with
    | some (v :: _) => (erase c k, .ok (.val v))
    | some [] =>
      -- the entry is popped, then `BadRequestKeyError` is raised inside the `try` and answered
      -- like a missing key
      (erase c k, match dflt with | some d => .ok (.val d) | none => .error "BadRequestKeyError")
    | none => (c, match dflt with | some d => .ok (.val d) | none => .error "BadRequestKeyError")
  | .popitem =>
    match PyDict.popitem c with
    | some ((k, v :: _), c') => (c', .ok (.item k v))
    | some ((_, []), c') => (c', .error "BadRequestKeyError")
    | none => (c, .error "BadRequestKeyError")
  | .poplist k =>
    match get? c k with
    | some vs => (erase c k, .ok (.vals vs))
    | none => (c, .ok (.vals []))
  | .popitemlist =>
    match PyDict.popitem c with
    | some ((k, vs), c') => (c', .ok (.itemlist k vs))
    | none => (c, .error "BadRequestKeyError")
  | .clear => ([], .ok .none)

def run (c : St κ ν) : List (Op κ ν) → St κ ν
  | [] => c
  | op :: t => run (step c op).1 t

/-- the reads of the public API -/
inductive Query (κ : Type) where
  | getitem (k : κ)
  | getlist (k : κ)
  | contains (k : κ)
  | len
  | keys
  | values
  | items (multi : Bool)
  | lists
  | listvalues
  | toDict (flat : Bool)
deriving Repr, DecidableEq

inductive Ans (κ ν : Type) where
  | val (v : ν)
  | vals (vs : List ν)
  | bool (b : Bool)
  | nat (n : Nat)
  | keys (ks : List κ)
  | pairs (l : List (κ × ν))
  | lists (l : List (κ × List ν))
  | valss (l : List (List ν))
deriving Repr, DecidableEq

def read (c : St κ ν) : Query κ → Except String (Ans κ ν)
  | .getitem k => (getitem c k).map .val
  | .getlist k => .ok (.vals (getlist c k))
  | .contains k => .ok (.bool (has c k))
  | .len => .ok (.nat c.length)
  | .keys => .ok (.keys (keys c))
  | .values => (values c).map .vals
  | .items false => (itemsFirst c).map .pairs
  | .items true => .ok (.pairs (itemsMulti c))
  | .lists => .ok (.lists (lists c))
  | .listvalues => .ok (.valss (listvalues c))
  | .toDict true => (toDictFlat c).map .pairs
  | .toDict false => .ok (.lists (lists c))

end MD

/-! ## the documented abstract model of MultiDict: an insertion-ordered multimap -/
namespace MDSpec
open MD
variable {κ ν : Type} [DecidableEq κ]

/-- keys in first-insertion order, each with its values; well-formed when the keys are distinct
and no value list is empty -/
abbrev MultiMap (κ ν : Type) := List (κ × List ν)

def WF (m : MultiMap κ ν) : Prop := (m.map (·.1)).Nodup ∧ ∀ e ∈ m, e.2 ≠ []

def hasKey (m : MultiMap κ ν) (k : κ) : Bool := (m.map (·.1)).contains k

def valuesOf (m : MultiMap κ ν) (k : κ) : List ν := (m.filter (·.1 == k)).flatMap (·.2)

/-- give `k` exactly the values `vs` (non-empty), keeping its position or appending it -/
def put (m : MultiMap κ ν) (k : κ) (vs : List ν) : MultiMap κ ν :=
  if hasKey m k then m.map (fun e => if e.1 = k then (e.1, vs) else e) else m ++ [(k, vs)]

def remove (m : MultiMap κ ν) (k : κ) : MultiMap κ ν := m.filter (fun e => !(e.1 == k))

def add (m : MultiMap κ ν) (k : κ) (v : ν) : MultiMap κ ν := put m k (valuesOf m k ++ [v])

def addAll (m : MultiMap κ ν) : List (κ × ν) → MultiMap κ ν
  | [] => m
  | (k, v) :: t => addAll (add m k v) t

def first? (m : MultiMap κ ν) (k : κ) : Option ν := (valuesOf m k).head?

def step (m : MultiMap κ ν) : Op κ ν → MultiMap κ ν × Except String (Ret κ ν)
  | .setitem k v => (put m k [v], .ok .none)
  | .delitem k => if hasKey m k then (remove m k, .ok .none) else (m, .error "KeyError")
  | .add k v => (add m k v, .ok .none)
  | .setlist k vs => (if vs.isEmpty then remove m k else put m k vs, .ok .none)
  | .setdefault k v =>
    match first? m k with
    | some x => (m, .ok (.val x))
    | none => (put m k [v], .ok (.val v))
  | .setlistdefault k vs =>
    if hasKey m k then (m, .ok (.vals (valuesOf m k)))
    else (if vs.isEmpty then m else put m k vs, .ok (.vals vs))
  | .update a => (addAll m (iterMultiItems a), .ok .none)
  | .ior a => (addAll m (iterMultiItems a), .ok .none)
  | .pop k dflt =>
    match first? m k with
    | some x => (remove m k, .ok (.val x))
    | none => (m, match dflt with | some d => .ok (.val d) | none => .error "BadRequestKeyError")
  | .popitem =>
    match m.getLast? with
    | some (k, vs) =>
      (m.dropLast, match vs.head? with | some v => .ok (.item k v) | none => .error "BadRequestKeyError")
    | none => (m, .error "BadRequestKeyError")
  | .poplist k => (remove m k, .ok (.vals (valuesOf m k)))
  | .popitemlist =>
    match m.getLast? with
    | some (k, vs) => (m.dropLast, .ok (.itemlist k vs))
    | none => (m, .error "BadRequestKeyError")
  | .clear => ([], .ok .none)

def run (m : MultiMap κ ν) : List (Op κ ν) → MultiMap κ ν
  | [] => m
  | op :: t => run (step m op).1 t

/-- reads of the abstract model (total on well-formed states: every key has a first value) -/
def read (m : MultiMap κ ν) : Query κ → Except String (Ans κ ν)
  | .getitem k => match first? m k with | some v => .ok (.val v) | none => .error "BadRequestKeyError"
  | .getlist k => .ok (.vals (valuesOf m k))
  | .contains k => .ok (.bool (hasKey m k))
  | .len => .ok (.nat m.length)
  | .keys => .ok (.keys (m.map (·.1)))
  | .values => .ok (.vals (m.filterMap (·.2.head?)))
  | .items false => .ok (.pairs (m.filterMap (fun e => e.2.head?.map (fun v => (e.1, v)))))
  | .items true => .ok (.pairs (m.flatMap (fun e => e.2.map (fun v => (e.1, v)))))
  | .lists => .ok (.lists m)
  | .listvalues => .ok (.valss (m.map (·.2)))
  | .toDict true => .ok (.pairs (m.filterMap (fun e => e.2.head?.map (fun v => (e.1, v)))))
  | .toDict false => .ok (.lists m)

end MDSpec

/-! ## CombinedMultiDict -/
namespace CMD
open PyDict MD
variable {κ ν : Type} [DecidableEq κ]

abbrev St (κ ν : Type) := List (MD.St κ ν)

/-- `CombinedMultiDict.__getitem__` -/
def getitem : St κ ν → κ → Except String ν
  | [], _ => .error "BadRequestKeyError"
  | d :: t, k => if has d k then MD.getitem d k else getitem t k

/-- `CombinedMultiDict.get(key, default, type)`: `.ok none` = the default; a failed conversion
moves on to the next dict -/
def getTyped (conv : ν → Option τ) : St κ ν → κ → Except String (Option τ)
  | [], _ => .ok none
  | d :: t, k =>
    if has d k then
      match MD.getitem d k with
      | .error e => .error e
      | .ok v => match conv v with
        | some x => .ok (some x)
        | none => getTyped conv t k
    else getTyped conv t k

def get : St κ ν → κ → Except String (Option ν)
  | [], _ => .ok none
  | d :: t, k => if has d k then (MD.getitem d k).map some else get t k

def getlist (c : St κ ν) (k : κ) : List ν := c.flatMap (MD.getlist · k)
def getlistTyped (conv : ν → Option τ) (c : St κ ν) (k : κ) : List τ :=
  c.flatMap (MD.getlistTyped conv · k)

def contains (c : St κ ν) (k : κ) : Bool := c.any (has · k)

/-- the key *set* (`_keys_impl`), here in order of first appearance; compared as a set -/
def keys (c : St κ ν) : List κ := (c.flatMap PyDict.keys).eraseDups

def len (c : St κ ν) : Nat := (keys c).length

def itemsMulti (c : St κ ν) : List (κ × ν) := c.flatMap MD.itemsMulti

/-- `items()` : first pair of every key not seen in an earlier dict -/
def itemsFirstAux (found : List κ) : St κ ν → Except String (List (κ × ν))
  | [] => .ok []
  | d :: t =>
    match MD.itemsFirst d with
    | .error e => .error e
    | .ok ps =>
      let new := ps.filter (fun p => !found.contains p.1)
      match itemsFirstAux (found ++ new.map (·.1)) t with
      | .error e => .error e
      | .ok r => .ok (new ++ r)

def itemsFirst (c : St κ ν) : Except String (List (κ × ν)) := itemsFirstAux [] c

/-- `lists()` : `rv.setdefault(key, []).extend(values)` over all dicts -/
def lists (c : St κ ν) : List (κ × List ν) :=
  c.foldl (fun rv d => d.foldl (fun rv e =>
    match get? rv e.1 with
    | some vs => set rv e.1 (vs ++ e.2)
    | none => set rv e.1 e.2) rv) []

end CMD

/-! ## HeaderSet -/
namespace HS
open Hdr

/-- `_headers` and `_set` (the latter as a duplicate-free list; order is not observable) -/
structure St where
  headers : List Str
  set : List Str
deriving Repr, DecidableEq

def setAdd (s : List Str) (x : Str) : List Str := if s.contains x then s else s ++ [x]


/-- delete the first member that equals `key` after lower-casing (the loop of `remove`) -/
def dropFirst (key : Str) : List Str → List Str
  | [] => []
  | h :: t => if lower h == key then t else h :: dropFirst key t

/-- result of a mutator: new state, whether `on_update` was called, result -/
structure Out (ρ : Type) where
  st : St
  notified : Bool
  res : Except String ρ

def updateLoop (c : St) : List Str → St × Bool
  | [] => (c, false)
  | h :: t =>
    let key := lower h
    if c.set.contains key then updateLoop c t
    else ((updateLoop ⟨c.headers ++ [h], c.set ++ [key]⟩ t).1, true)

/-- `HeaderSet(headers)` (as repaired by 1a2e0e6): both containers are built the way `update()`
builds them - a header given in two spellings is kept once, the first spelling wins -/
def construct (hs : List Str) : St := (updateLoop ⟨[], []⟩ hs).1

/-- `HeaderSet.update(iterable)` -/
def update (c : St) (hs : List Str) : Out Unit :=
  let r := updateLoop c hs
  ⟨r.1, r.2, .ok ()⟩

/-- `HeaderSet.remove(header)` (as repaired: compares case-insensitively) -/
def remove (c : St) (h : Str) : Out Unit :=
  let key := lower h
  if c.set.contains key then ⟨⟨dropFirst key c.headers, c.set.erase key⟩, true, .ok ()⟩
  else ⟨c, false, .error "KeyError"⟩

/-- `HeaderSet.discard(header)` -/
def discard (c : St) (h : Str) : Out Unit :=
  let r := remove c h
  ⟨r.st, r.notified, .ok ()⟩

def findAux (key : Str) : List Str → Nat → Option Nat
  | [], _ => none
  | h :: t, i => if lower h == key then some i else findAux key t (i + 1)

/-- `HeaderSet.find(header)`: index or -1 -/
def find (c : St) (h : Str) : Int :=
  match findAux (lower h) c.headers 0 with
  | some i => i
  | none => -1

/-- `del hs[idx]` -/
def delitem (c : St) (i : Int) : Out Unit :=
  match pyIdx c.headers.length i with
  | none => ⟨c, false, .error "IndexError"⟩
  | some n =>
    match c.headers[n]? with
    | none => ⟨c, false, .error "IndexError"⟩
    | some rv =>
      let hs := c.headers.eraseIdx n
      if c.set.contains (lower rv) then ⟨⟨hs, c.set.erase (lower rv)⟩, true, .ok ()⟩
      else ⟨⟨hs, c.set⟩, false, .error "KeyError"⟩

/-- `hs[idx] = value` -/
def setitem (c : St) (i : Int) (v : Str) : Out Unit :=
  match pyIdx c.headers.length i with
  | none => ⟨c, false, .error "IndexError"⟩
  | some n =>
    match c.headers[n]? with
    | none => ⟨c, false, .error "IndexError"⟩
    | some old =>
      if c.set.contains (lower old) then
        ⟨⟨c.headers.set n v, setAdd (c.set.erase (lower old)) (lower v)⟩, true, .ok ()⟩
      else ⟨c, false, .error "KeyError"⟩

inductive Op where
  | add (h : Str)
  | remove (h : Str)
  | discard (h : Str)
  | update (hs : List Str)
  | clear
  | delitem (i : Int)
  | setitem (i : Int) (v : Str)
deriving Repr, DecidableEq

def step (c : St) : Op → Out Unit
  | .add h => update c [h]
  | .remove h => remove c h
  | .discard h => discard c h
  | .update hs => update c hs
  | .clear => ⟨⟨[], []⟩, true, .ok ()⟩
  | .delitem i => delitem c i
  | .setitem i v => setitem c i v

def run (c : St) : List Op → St
  | [] => c
  | op :: t => run (step c op).st t

def contains (c : St) (h : Str) : Bool := c.set.contains (lower h)
def len (c : St) : Nat := c.set.length
def getitem (c : St) (i : Int) : Except String Str :=
  match pyIdx c.headers.length i with
  | none => .error "IndexError"
  | some n => match c.headers[n]? with | some h => .ok h | none => .error "IndexError"
def index (c : St) (h : Str) : Except String Int :=
  let r := find c h
  if r < 0 then .error "IndexError" else .ok r

def isToken (s : Str) : Bool := s.all (fun ch => Gen.Containers.tokenChars.contains ch.toNat)

/-- `http.quote_header_value(value)` -/
def quoteHeaderValue (s : Str) : Str :=
  if s.isEmpty then ['"', '"']
  else if isToken s then s
  else '"' :: (s.flatMap (fun ch => if ch == '\\' then ['\\', '\\'] else if ch == '"' then ['\\', '"'] else [ch])) ++ ['"']

/-- `HeaderSet.to_header()` -/
def toHeader (c : St) : Str := List.intercalate ", ".toList (c.headers.map quoteHeaderValue)

/-- the invariant the class relies on: `_set` is exactly the lower-cased members and no two
members are equal ignoring case -/
def Inv (c : St) : Prop :=
  (c.headers.map lower).Nodup ∧ c.set.Nodup ∧ ∀ x, x ∈ c.set ↔ x ∈ c.headers.map lower

instance (c : St) : Decidable (Inv c) := by
  unfold Inv
  have : Decidable (∀ x, x ∈ c.set ↔ x ∈ c.headers.map lower) :=
    decidable_of_iff ((∀ x ∈ c.set, x ∈ c.headers.map lower) ∧ (∀ x ∈ c.headers.map lower, x ∈ c.set))
      ⟨fun h x => ⟨h.1 x, h.2 x⟩, fun h => ⟨fun x hx => (h x).1 hx, fun x hx => (h x).2 hx⟩⟩
  exact inferInstance

end HS

/-! ## the abstract model of HeaderSet: a case-insensitive ordered set -/
namespace HSSpec
open Hdr

/-- members in insertion order, no two equal ignoring case -/
abbrev CISet := List Str

def WF (s : CISet) : Prop := (s.map lower).Nodup

def mem (s : CISet) (h : Str) : Bool := (s.map lower).contains (lower h)

def insert (s : CISet) (h : Str) : CISet := if mem s h then s else s ++ [h]

def insertAll (s : CISet) : List Str → CISet
  | [] => s
  | h :: t => insertAll (insert s h) t

def delete (s : CISet) (h : Str) : CISet := s.filter (fun x => !(lower x == lower h))

/-- the abstract step: new set and result (`none` = no error) -/
def step (s : CISet) : HS.Op → CISet × Except String Unit
  | .add h => (insert s h, .ok ())
  | .remove h => if mem s h then (delete s h, .ok ()) else (s, .error "KeyError")
  | .discard h => (delete s h, .ok ())
  | .update hs => (insertAll s hs, .ok ())
  | .clear => ([], .ok ())
  | .delitem i =>
    match pyIdx s.length i with
    | some n => (s.eraseIdx n, .ok ())
    | none => (s, .error "IndexError")
  | .setitem i v =>
    match pyIdx s.length i with
    | some n => (s.set n v, .ok ())
    | none => (s, .error "IndexError")

end HSSpec

/-! ## EnvironHeaders -/
namespace EH
open Hdr PyDict

abbrev Env := Dict Str Str

def upper (s : Str) : Str := s.map Char.toUpper

/-- `str.title()` (ASCII) -/
def title (s : Str) : Str :=
  let rec go : List Char → Bool → List Char
    | [], _ => []
    | c :: t, prevCased =>
      if c.isAlpha then (if prevCased then c.toLower else c.toUpper) :: go t true
      else c :: go t false
  go s false

def replaceCh (a b : Char) (s : Str) : Str := s.map (fun c => if c == a then b else c)

def special (k : Str) : Bool := k == "CONTENT_TYPE".toList || k == "CONTENT_LENGTH".toList

/-- `EnvironHeaders._get_key` -/
def getKey (env : Env) (key : Str) : Except String Str :=
  let k := replaceCh '-' '_' (upper key)
  let ek := if special k then k else "HTTP_".toList ++ k
  match get? env ek with
  | some v => .ok v
  | none => .error "KeyError"

def contains (env : Env) (key : Str) : Bool := (getKey env key).toBool

/-- `EnvironHeaders.__iter__` -/
def iter (env : Env) : HList :=
  env.filterMap fun (k, v) =>
    if "HTTP_".toList.isPrefixOf k && !(k == "HTTP_CONTENT_TYPE".toList || k == "HTTP_CONTENT_LENGTH".toList) then
      some (title (replaceCh '_' '-' (k.drop 5)), v)
    else if special k && !v.isEmpty then some (title (replaceCh '_' '-' k), v)
    else none

def len (env : Env) : Nat := (iter env).length

/-- inherited `Headers.getlist` runs over `__iter__` -/
def getlist (env : Env) (key : Str) : List Str := Hdr.getlist (iter env) key

end EH

/-! ## plain dict mutators (`dict`, `TypeConversionDict`) -/
namespace PyDict
variable {κ α : Type} [DecidableEq κ]

inductive Op (κ α : Type) where
  | setitem (k : κ) (v : α)
  | delitem (k : κ)
  | clear
  | popitem
  | update (l : List (κ × α))
  | setdefault (k : κ) (v : α)
  | pop (k : κ) (dflt : Option α)
deriving Repr, DecidableEq

/-- a mutator of `dict`: new state and result (`none` = returns None) -/
def step (d : Dict κ α) : Op κ α → Dict κ α × Except String (Option α)
  | .setitem k v => (set d k v, .ok none)
  | .delitem k => if has d k then (erase d k, .ok none) else (d, .error "KeyError")
  | .clear => ([], .ok none)
  | .popitem =>
    match popitem d with
    | some (e, d') => (d', .ok (some e.2))
    | none => (d, .error "KeyError")
  | .update l => (l.foldl (fun a e => set a e.1 e.2) d, .ok none)
  | .setdefault k v =>
    match get? d k with
    | some x => (d, .ok (some x))
    | none => (set d k v, .ok (some v))
  | .pop k dflt =>
    match get? d k with
    | some x => (erase d k, .ok (some x))
    | none => match dflt with
      | some x => (d, .ok (some x))
      | none => (d, .error "KeyError")

/-- the Python method name of each mutator -/
def opName : Op κ α → String
  | .setitem .. => "__setitem__"
  | .delitem _ => "__delitem__"
  | .clear => "clear"
  | .popitem => "popitem"
  | .update _ => "update"
  | .setdefault .. => "setdefault"
  | .pop .. => "pop"

end PyDict

/-! ## TypeConversionDict -/
namespace TCD
open PyDict
variable {κ ν τ : Type} [DecidableEq κ]

/-- `TypeConversionDict.get(key, default, type)`; `conv v = none` = the callable raised ValueError /
TypeError -/
def get (conv : ν → Option τ) (d : Dict κ ν) (k : κ) (dflt : Option τ) : Option τ :=
  match get? d k with
  | none => dflt
  | some v =>
    match conv v with
    | some x => some x
    | none => dflt

/-- `get(key, default)` without `type` -/
def getPlain (d : Dict κ ν) (k : κ) (dflt : Option ν) : Option ν :=
  match get? d k with
  | none => dflt
  | some v => some v

end TCD

/-! ## FileMultiDict -/
namespace FMD
open Hdr

/-- what a `FileStorage` holds, as far as the container is concerned: the identity of the stream
object and the three descriptive attributes -/
structure FS where
  stream : Nat
  filename : Option Str
  name : Option Str
  contentType : Option Str
deriving Repr, DecidableEq

/-- the `file` argument of `add_file` -/
inductive FileArg where
  /-- a `FileStorage`: stored as it is -/
  | storage (fs : FS)
  /-- a path (`str` / `PathLike`): opened; `handle` is the identity of the opened file -/
  | path (p : Str) (handle : Nat)
  /-- any other object: used as the stream -/
  | stream (handle : Nat)
deriving Repr, DecidableEq

/-- the `FileStorage` that `add_file(name, file, filename, content_type)` stores; `guess` is
`mimetypes.guess_type(filename)[0]` -/
def mkStorage (guess : Str → Option Str) (name : Str) (f : FileArg) (filename ct : Option Str) : FS :=
  match f with
  | .storage fs => fs
  | .path p h =>
    let fname := match filename with | some x => x | none => p
    let ct' := if !fname.isEmpty && ct.isNone then some ((guess fname).getD "application/octet-stream".toList) else ct
    ⟨h, some fname, some name, ct'⟩
  | .stream h =>
    let truthy := match filename with | some x => !x.isEmpty | none => false
    let ct' := if truthy && ct.isNone then some ((guess (filename.getD [])).getD "application/octet-stream".toList) else ct
    ⟨h, filename, some name, ct'⟩

/-- `FileMultiDict.add_file` -/
def addFile (guess : Str → Option Str) (c : MD.St Str FS) (name : Str) (f : FileArg) (filename ct : Option Str) :
    MD.St Str FS :=
  MD.add c name (mkStorage guess name f filename ct)

end FMD

/-! ## immutable variants: the mutators the generated table lists answer TypeError -/
namespace Imm

/-- names the immutable class `cls` blocks, from the regenerated table -/
def blocked (cls : String) : List String :=
  match Gen.Containers.immTable.find? (·.1 == cls) with
  | some (_, _, _, b) => b
  | none => []

/-- mutator names of the mutable base of `cls`, from the regenerated table -/
def mutators (cls : String) : List String :=
  match Gen.Containers.immTable.find? (·.1 == cls) with
  | some (_, _, m, _) => m
  | none => []

/-- calling method `name` on an instance of the immutable class `cls` whose state is `c`: a blocked
name raises TypeError and leaves the state, any other name runs the inherited method -/
def call {σ ρ : Type} (cls name : String) (run : σ → σ × Except String ρ) (c : σ) : σ × Except String ρ :=
  if (blocked cls).contains name then (c, .error "TypeError") else run c

/-- the Python method name of each mutator of the MultiDict model -/
def mdOpName {κ ν : Type} : MD.Op κ ν → String
  | .setitem .. => "__setitem__"
  | .delitem _ => "__delitem__"
  | .add .. => "add"
  | .setlist .. => "setlist"
  | .setdefault .. => "setdefault"
  | .setlistdefault .. => "setlistdefault"
  | .update _ => "update"
  | .ior _ => "__ior__"
  | .pop .. => "pop"
  | .popitem => "popitem"
  | .poplist _ => "poplist"
  | .popitemlist => "popitemlist"
  | .clear => "clear"

/-- the Python method name of each mutator of the Headers model -/
def hdrOpName : Hdr.Op → String
  | .add .. => "add"
  | .set .. => "set"
  | .setlist .. => "setlist"
  | .setdefault .. => "setdefault"
  | .setlistdefault .. => "setlistdefault"
  | .extend .. => "extend"
  | .update .. => "update"
  | .setitemKey .. => "__setitem__"
  | .setitemIdx .. => "__setitem__"
  | .setitemSlice .. => "__setitem__"
  | .delitemKey _ => "__delitem__"
  | .delitemIdx _ => "__delitem__"
  | .delitemSlice _ => "__delitem__"
  | .remove _ => "remove"
  | .popLast => "pop"
  | .popKey .. => "pop"
  | .popIdx _ => "pop"
  | .popitem => "popitem"
  | .clear => "clear"
  | .ior _ => "__ior__"

/-- a mutator call on an `ImmutableMultiDict` (`cls`), on the dict-of-lists state -/
def mdStep {κ ν : Type} [DecidableEq κ] (cls : String) (c : MD.St κ ν) (op : MD.Op κ ν) : MD.Res κ ν (MD.Ret κ ν) :=
  call cls (mdOpName op) (fun c => MD.step c op) c

/-- a mutator call on an `ImmutableDict` / `ImmutableTypeConversionDict` -/
def dictStep {κ α : Type} [DecidableEq κ] (cls : String) (d : PyDict.Dict κ α) (op : PyDict.Op κ α) :
    PyDict.Dict κ α × Except String (Option α) :=
  call cls (PyDict.opName op) (fun d => PyDict.step d op) d

/-- a mutator call on an `EnvironHeaders` (immutable `Headers`), on the `_list` state -/
def hdrStep (cls : String) (l : Hdr.HList) (op : Hdr.Op) : Hdr.Res Hdr.Ret :=
  call cls (hdrOpName op) (fun l => Hdr.step l op) l

end Imm

/-! ## pickling, copying, equality and hashing as functions of the state -/
namespace Pickle
open PyDict
variable {κ ν α : Type} [DecidableEq κ]

/-- `dict(iterable of pairs)` / `dict.update(d, mapping)` -/
def dictOf (acc : Dict κ α) (ps : List (κ × α)) : Dict κ α := ps.foldl (fun d e => set d e.1 e.2) acc

/-- `MultiDict.__getstate__` : `dict(self.lists())` -/
def mdGetstate (c : MD.St κ ν) : Dict κ (List ν) := dictOf [] (MD.lists c)

/-- `MultiDict.__setstate__(value)`: `dict.clear(self); dict.update(self, value)` -/
def mdSetstate (_old : MD.St κ ν) (value : Dict κ (List ν)) : MD.St κ ν := dictOf [] value

/-- `ImmutableMultiDictMixin.__reduce_ex__` : rebuilt as `cls(list(self.items(multi=True)))` -/
def imdRebuild (c : MD.St κ ν) : MD.St κ ν := MD.construct (some (.pairs (MD.itemsMulti c)))

/-- `MultiDict.copy()` = `cls(self)` : `(k, vs[:]) for k, vs in mapping.lists()` -/
def mdCopy (c : MD.St κ ν) : MD.St κ ν := MD.construct (some (.multi c))

/-- `MultiDict.deepcopy()` = `cls(deepcopy(self.to_dict(flat=False)))` (values are atoms here): the
`Mapping` branch of the constructor, which skips a key without values -/
def mdDeepcopy (c : MD.St κ ν) : MD.St κ ν :=
  MD.construct (some (.mapping ((dictOf [] (MD.lists c)).map fun e => (e.1, MD.MVal.many e.2))))

/-- `dict.__eq__` on two dicts: same number of entries and every entry of the first is in the second -/
def dictEq [DecidableEq α] (a b : Dict κ α) : Bool :=
  a.length == b.length && a.all (fun e => b.lookup e.1 == some e.2)

end Pickle

end Wz
