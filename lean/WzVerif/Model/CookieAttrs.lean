/-
Model of the front half of `werkzeug.http.dump_cookie` (argument normalisation: path quoting,
domain pipeline, `timedelta` max-age, the `expires` forms, `sync_expires`, the `max_size` warning)
on top of `Model/Cookie.lean` (value escaping + attribute assembly), and of
`sansio.response.Response.set_cookie` / `delete_cookie`.

Opaque library functions (modelled, not verified) are the fields of `Lib`; every theorem quantifies
over an arbitrary `Lib`, the driver instantiates it from tables the harness computes with the same
library calls. Everything else (partition/lstrip of the domain, the ASCII fast path of the idna
codec, `urllib.parse.quote` with dump_cookie's `safe=` literal, `int(td.total_seconds())`, the
order of the checks and therefore which exception escapes) is modelled here.
-/
import WzVerif.Model.Cookie
import WzVerif.Gen.CookieGlue
namespace Wz.Cookie
open Wz

abbrev Str := List Char

/-- opaque library calls -/
structure Lib where
  /-- `s.encode("idna").decode("ascii")` for a NON-ASCII `s` (`.error` = exception class) -/
  idna : Str → Except String Str
  /-- `http_date(x)` for a non-`str` expires argument, identified by a label the harness chooses -/
  httpDate : Str → Except String Str
  /-- `http_date(datetime.now(tz=utc).timestamp() + max_age)` -/
  syncDate : Int → Except String Str
  /-- `uri_to_iri(path_attribute)` (test client jar) -/
  iri : Str → Str
  /-- `parse_date(text)` as whole seconds since the epoch, `none` = unparseable (test client jar) -/
  parseDate : Str → Option Int

/-! ### `urllib.parse.quote(path, safe="%!$&'()*+,/:=@")` -/

def hexU (n : Nat) : Char := if n < 10 then Char.ofNat (48 + n) else Char.ofNat (55 + n)

/-- one byte through `quote`: kept (live table `quoteKeeps`) or `%XX` -/
def quoteByte (b : UInt8) : Str :=
  if tbl Gen.CookieGlue.quoteKeeps b.toNat then [Char.ofNat b.toNat]
  else ['%', hexU (b.toNat / 16), hexU (b.toNat % 16)]

def quotePath (p : Str) : Str := (utf8Enc p).flatMap quoteByte

/-! ### the domain pipeline `domain.partition(":")[0].lstrip(".").encode("idna").decode("ascii")` -/

def isAsciiStr (s : Str) : Bool := s.all (fun c => c.toNat < 128)

/-- `str.split(sep)` for a one-character separator -/
def splitOn (sep : Char) : Str → List Str
  | [] => [[]]
  | c :: t =>
    if c == sep then [] :: splitOn sep t
    else match splitOn sep t with
      | [] => [[c]]
      | h :: r => (c :: h) :: r

/-- label rule of the idna codec's ASCII fast path: every label but the last has 1..63 characters,
the last at most 63 -/
def labelsOK : List Str → Bool
  | [] => true
  | [l] => l.length < 64
  | l :: r => (0 < l.length && l.length < 64) && labelsOK r

/-- `s.encode("idna").decode("ascii")` -/
def idnaEnc (lib : Lib) (s : Str) : Except String Str :=
  if s.isEmpty then .ok []
  else if isAsciiStr s then (if labelsOK (splitOn '.' s) then .ok s else .error "UnicodeError")
  else lib.idna s

/-- `domain.partition(":")[0].lstrip(".")` -/
def domainHost (d : Str) : Str := (d.takeWhile (· != ':')).dropWhile (· == '.')

/-- `if domain: domain = ...` (an empty string is falsy and stays as it is) -/
def resolveDomain (lib : Lib) (d : Option Str) : Except String (Option Str) :=
  match d with
  | none => .ok none
  | some [] => .ok (some [])
  | some d => (idnaEnc lib (domainHost d)).map some

/-! ### max_age -/

inductive MaxAgeArg where
  /-- an `int` -/
  | int (i : Int)
  /-- a `timedelta`, given as its exact length in microseconds -/
  | td (micros : Int)

/-- `int(max_age.total_seconds())`: truncation towards zero (exact for |td| < 2^33 s, where the float
quotient cannot round across an integer; the harness stays inside that range) -/
def resolveMaxAge : Option MaxAgeArg → Option Int
  | none => none
  | some (.int i) => some i
  | some (.td us) => some (us.tdiv 1000000)

/-! ### expires -/

inductive ExpiresArg where
  /-- a `str`: used verbatim -/
  | str (s : Str)
  /-- `datetime` (aware or naive), `int` or `float`: goes through `http_date` -/
  | obj (label : Str)

def resolveExpires (lib : Lib) (e : Option ExpiresArg) (maxAge : Option Int) (sync : Bool) :
    Except String (Option Str) :=
  match e with
  | some (.str s) => .ok (some s)
  | some (.obj l) => (lib.httpDate l).map some
  | none =>
    match maxAge with
    | some m => if sync then (lib.syncDate m).map some else .ok none
    | none => .ok none

/-! ### `dump_cookie` with its real signature -/

structure DumpArgs where
  key : Str
  value : Str := []
  maxAge : Option MaxAgeArg := none
  expires : Option ExpiresArg := none
  path : Option Str := some ['/']
  domain : Option Str := none
  secure : Bool := false
  httponly : Bool := false
  syncExpires : Bool := true
  maxSize : Int := 4093
  samesite : Option Str := none
  partitioned : Bool := false

/-- the argument normalisation at the top of `dump_cookie`, in source order (so the first failing
step decides which exception escapes) -/
def resolveAttrs (lib : Lib) (a : DumpArgs) : Except String Attrs :=
  let path := a.path.map quotePath
  match resolveDomain lib a.domain with
  | .error e => .error e
  | .ok dom =>
    let ma := resolveMaxAge a.maxAge
    match resolveExpires lib a.expires ma a.syncExpires with
    | .error e => .error e
    | .ok exp =>
      .ok { domain := dom, expires := exp, maxAge := ma, secure := a.secure, httponly := a.httponly,
            path := path, samesite := a.samesite, partitioned := a.partitioned }

/-- `if max_size and cookie_size > max_size: warnings.warn(...)` -/
def sizeWarning (maxSize : Int) (header : Str) : Bool :=
  maxSize != 0 && decide ((header.length : Int) > maxSize)

/-- `dump_cookie(key, value, max_age, expires, path, domain, secure, httponly, sync_expires,
max_size, samesite, partitioned)`: the header text and whether the size warning fires -/
def dumpCookieFull (lib : Lib) (a : DumpArgs) : Except String (Str × Bool) :=
  match resolveAttrs lib a with
  | .error e => .error e
  | .ok at' =>
    match dumpCookie a.key a.value at' with
    | .error e => .error e
    | .ok h => .ok (h, sizeWarning a.maxSize h)

/-! ### `Response.set_cookie` / `Response.delete_cookie` -/

/-- `datastructures.headers._str_header_value`: `ValueError` for CR / LF -/
def hasNewline (s : Str) : Bool := s.any (fun c => c == '\r' || c == '\n')

abbrev HeaderList := List (Str × Str)

def setCookieName : Str := "Set-Cookie".toList

/-- `Headers.add(name, value)` -/
def headersAdd (h : HeaderList) (name value : Str) : Except String HeaderList :=
  if hasNewline value then .error "ValueError" else .ok (h ++ [(name, value)])

/-- the arguments `Response.set_cookie` accepts (no `sync_expires`, no `max_size`) -/
structure SetArgs where
  key : Str
  value : Str := []
  maxAge : Option MaxAgeArg := none
  expires : Option ExpiresArg := none
  path : Option Str := some ['/']
  domain : Option Str := none
  secure : Bool := false
  httponly : Bool := false
  samesite : Option Str := none
  partitioned : Bool := false

/-- the `dump_cookie(...)` call inside `Response.set_cookie`: every argument forwarded under its own
name, `max_size=self.max_cookie_size`, `sync_expires` left at its default -/
def SetArgs.toDump (a : SetArgs) (maxCookieSize : Int) : DumpArgs :=
  { key := a.key, value := a.value, maxAge := a.maxAge, expires := a.expires, path := a.path,
    domain := a.domain, secure := a.secure, httponly := a.httponly, syncExpires := true,
    maxSize := maxCookieSize, samesite := a.samesite, partitioned := a.partitioned }

/-- `Response.set_cookie`: new header list and whether the size warning fired -/
def responseSetCookie (lib : Lib) (maxCookieSize : Int) (h : HeaderList) (a : SetArgs) :
    Except String (HeaderList × Bool) :=
  match dumpCookieFull lib (a.toDump maxCookieSize) with
  | .error e => .error e
  | .ok (text, w) => (headersAdd h setCookieName text).map (·, w)

/-- the arguments of `Response.delete_cookie` -/
structure DeleteArgs where
  key : Str
  path : Option Str := some ['/']
  domain : Option Str := none
  secure : Bool := false
  httponly : Bool := false
  samesite : Option Str := none
  partitioned : Bool := false

/-- label under which the harness tabulates `http_date(0)` -/
def zeroLabel : Str := "ts:0".toList

/-- the `self.set_cookie(...)` call inside `delete_cookie`: `expires=0, max_age=0`, value left at `""` -/
def DeleteArgs.toSet (a : DeleteArgs) : SetArgs :=
  { key := a.key, value := [], maxAge := some (.int 0), expires := some (.obj zeroLabel), path := a.path,
    domain := a.domain, secure := a.secure, httponly := a.httponly, samesite := a.samesite,
    partitioned := a.partitioned }

def responseDeleteCookie (lib : Lib) (maxCookieSize : Int) (h : HeaderList) (a : DeleteArgs) :
    Except String (HeaderList × Bool) :=
  responseSetCookie lib maxCookieSize h a.toSet

end Wz.Cookie
