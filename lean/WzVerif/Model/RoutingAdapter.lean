/-
Routing, part 5: `MapAdapter.match` — translation of the matcher's result into
matched | RequestRedirect | NotFound | MethodNotAllowed | WebsocketMismatch, including the
slash / merged-slash redirect, the defaults redirect and the alias redirect.
`redirect_to` rules are not modelled (application supplied targets are outside C12's claim).
-/
import WzVerif.Model.RoutingBuild
namespace Wz.Routing

inductive Outcome where
  | matched (r : Rule) (vals : List (Str × Value))
  /-- `RequestRedirect(new_url)` -/
  | redirect (url : Str)
  | notFound
  /-- `MethodNotAllowed(valid_methods)` (a set: compare as sets) -/
  | methodNotAllowed (ms : List Str)
  | wsMismatch
  /-- an exception of another class escapes while a redirect target is built -/
  | error (e : String)
deriving Repr

/-- a whole map after `Map.__init__` + `update()` -/
structure RMap where
  cfg : MapCfg
  rules : List Rule
  root : State

def mkMap (cfg : MapCfg) (specs : List RuleSpec) : Option RMap :=
  (bindRules cfg specs).map fun rules => { cfg := cfg, rules := rules, root := buildRoot rules }

/-- `path_part = f"/{path_info.lstrip('/')}" if path_info else ""` -/
def pathPart (pathInfo : Str) : Str := if pathInfo.isEmpty then [] else '/' :: lstripChar '/' pathInfo

def sameSet (a b : List Str) : Bool := a.all b.contains && b.all a.contains

/-- `Rule.provides_defaults_for(rule)` -/
def providesDefaultsFor (cfg : MapCfg) (r rule : Rule) : Bool :=
  !r.spec.buildOnly && !r.defaults.isEmpty && r.endpoint == rule.endpoint &&
  r.trace cfg != rule.trace cfg && sameSet r.arguments rule.arguments

/-- `MapAdapter.get_default_redirect` -/
def getDefaultRedirect (m : RMap) (a : Adapter) (rule : Rule) (method : Str) (values : List (Str × Value))
    (qa : QueryArgs) : List Rule → Except String (Option Str)
  | [] => .ok none
  | r :: t =>
    if r.idx == rule.idx then .ok none
    else if providesDefaultsFor m.cfg r rule && r.suitableFor values (some method) then
      match r.build m.cfg (dictUpdate values r.defaults) true with
      | .error e => .error e
      | .ok (dom, path) => .ok (some (makeRedirectUrl m.cfg.hostMatching a path qa (some dom)))
    else getDefaultRedirect m a rule method values qa t

def isWsScheme (s : Str) : Bool := s == "ws".toList || s == "wss".toList

/-- the domain part handed to the matcher -/
def domainPartOf (cfg : MapCfg) (a : Adapter) : Str :=
  if !cfg.hostMatching then (match a.subdomain with | some s => s | none => a.serverName) else a.serverName

/-- `method = (method or self.default_method).upper()`, `websocket` defaulting to the bound scheme -/
def reqOf (a : Adapter) (method : Option Str) (ws : Option Bool) : Req :=
  ⟨((match method with | some x => if x.isEmpty then a.defaultMethod else x | none => a.defaultMethod)).map upperAscii,
   ws.getD (isWsScheme a.urlScheme)⟩

/-- tail of `make_alias_redirect_url`: `assert url != path` with `path = f"{domain_part}|{path_part}"` (reachable
only when the bound domain part contains a '/') -/
def aliasOutcome (url domainPart pp : Str) : Outcome :=
  if url == domainPart ++ '|' :: pp then .error "AssertionError" else .redirect url

/-- `MapAdapter.match(path_info, method, query_args=qa, websocket=ws)` -/
def matchAdapter (m : RMap) (a : Adapter) (pathInfo : Str) (method : Option Str) (qa : QueryArgs)
    (ws : Option Bool) : Outcome :=
  let qa := effQa a qa
  let q := reqOf a method ws
  let domainPart := domainPartOf m.cfg a
  let pp := pathPart pathInfo
  match matchSM m.root m.cfg.mergeSlashes m.cfg.redirectDefaults q domainPart pp with
  | .requestPath p => .redirect (makeRedirectUrl m.cfg.hostMatching a (quote pathSafe p) qa none)
  | .aliasRedirect r vals =>
    match adapterBuild m.cfg a m.rules r.endpoint vals (some q.method) true false with
    | .error e => .error e
    | .ok url => aliasOutcome (if qa.truthy then url ++ '?' :: encodeQueryArgs qa else url) domainPart pp
  | .noMatch ms wsm =>
    if !ms.isEmpty then .methodNotAllowed ms.eraseDups
    else if wsm then .wsMismatch
    else .notFound
  | .ok r vals =>
    if m.cfg.redirectDefaults then
      match getDefaultRedirect m a r q.method vals qa (rulesByEndpoint m.rules r.endpoint) with
      | .error e => .error e
      | .ok (some url) => .redirect url
      | .ok none => .matched r vals
    else .matched r vals

end Wz.Routing
