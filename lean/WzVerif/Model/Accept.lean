/-
Model of content negotiation (property C17):
`werkzeug.http.parse_accept_header` and `werkzeug.datastructures.accept.{Accept, MIMEAccept,
LanguageAccept, CharsetAccept}`.

Layers
* generic part (polymorphic in the specificity type `σ`, the quality type `κ`, their orders and
  the match relation): stable descending sort of `Accept.__init__`, `_best_single_match`,
  `quality`, `find`, `__contains__`, the selection loop of `best_match`;
* concrete part: exact decimal q values (`Q`), `_q_value_re` + range check, the four classes'
  `_specificity` / `_value_matches`, the three stages of `LanguageAccept.best_match`;
* lexical part (own small model; C06/C07's codec model is not used): `urllib.request.parse_http_list`,
  `parse_options_header` (without RFC 2231 `key*=` values: the model answers `UNSUPPORTED`),
  `dump_options_header`, `quote_header_value`.

Opaque / assumed (validated by stream `negotiation`, not verified): `float()` of a string matched
by `_q_value_re` and float comparison behave like exact decimal arithmetic (true below 15
significant digits); `str.lower()` is modelled on ASCII only; `codecs.lookup(name).name` is a
parameter (alias table supplied by the harness).
-/
import WzVerif.Util.Py
namespace Wz.Accept
open Wz

abbrev Str := List Char

/-! ## generic part -/

/-- insert `a` (which precedes every element of the list in the original sequence) into a list
sorted descending w.r.t. `ge`, before the first element it is `≥` of. -/
def insertDesc {α : Type} (ge : α → α → Bool) (a : α) : List α → List α
  | [] => [a]
  | b :: t => if ge a b then a :: b :: t else b :: insertDesc ge a t

/-- `sorted(values, key=..., reverse=True)`: stable, descending. -/
def sortDesc {α : Type} (ge : α → α → Bool) : List α → List α
  | [] => []
  | a :: t => insertDesc ge a (sortDesc ge t)

/-- what one Accept class is made of -/
structure Neg (σ κ : Type) where
  /-- `_specificity(value)` -/
  spec : Str → σ
  /-- `≤` on specificity tuples -/
  sle : σ → σ → Bool
  /-- `≤` on qualities -/
  qle : κ → κ → Bool
  /-- the quality `0` -/
  zero : κ
  /-- `_value_matches(value, item)`: first argument the offer, second the client item -/
  «matches» : Str → Str → Bool

variable {σ κ : Type}

/-- `key(x) >= key(y)` for `key = lambda x: (self._specificity(x[0]), x[1])`, tuples compared
lexicographically -/
def keyGe (N : Neg σ κ) (x y : Str × κ) : Bool :=
  if N.sle (N.spec x.1) (N.spec y.1) then N.sle (N.spec y.1) (N.spec x.1) && N.qle y.2 x.2
  else true

/-- `Accept.__init__(values)` for a plain iterable of pairs -/
def mk (N : Neg σ κ) (values : List (Str × κ)) : List (Str × κ) := sortDesc (keyGe N) values

/-- `_best_single_match(offer)` -/
def bestSingle (N : Neg σ κ) (self : List (Str × κ)) (offer : Str) : Option (Str × κ) :=
  self.find? fun it => N.matches offer it.1

/-- `quality(key)`; `none` stands for the integer `0` returned when nothing matches -/
def quality (N : Neg σ κ) (self : List (Str × κ)) (key : Str) : Option κ :=
  (bestSingle N self key).map (·.2)

/-- `find(key)` for a string key; `none` = -1 -/
def find (N : Neg σ κ) (self : List (Str × κ)) (key : Str) : Option Nat :=
  self.findIdx? fun it => N.matches key it.1

/-- `key in self` -/
def contains (N : Neg σ κ) (self : List (Str × κ)) (key : Str) : Bool :=
  self.any fun it => N.matches key it.1

/-- loop state of `best_match`: `none` = nothing chosen yet (`best_quality = -1`,
`best_specificity = (-1,)`), else `(result, best_quality, best_specificity)` -/
abbrev BestState (σ κ : Type) := Option (Str × κ × σ)

/-- one iteration of the `for server_item in matches` loop -/
def bestStep (N : Neg σ κ) (self : List (Str × κ)) (st : BestState σ κ) (offer : Str) : BestState σ κ :=
  match bestSingle N self offer with
  | none => st
  | some (ci, q) =>
    let sp := N.spec ci
    if N.qle q N.zero then st            -- quality <= 0
    else
      match st with
      | none => some (offer, q, sp)
      | some (_, bq, bs) =>
        if !(N.qle bq q) then st         -- quality < best_quality
        else if !(N.qle q bq) || !(N.sle sp bs) then some (offer, q, sp)
        else st

/-- `best_match(offers)` with `default=None` -/
def bestMatch (N : Neg σ κ) (self : List (Str × κ)) (offers : List Str) : Option Str :=
  (offers.foldl (bestStep N self) none).map (·.1)

/-! ## q values -/

/-- exact decimal `num / 10^scale` -/
structure Q where
  num : Nat
  scale : Nat
deriving Repr, DecidableEq, Inhabited

def Q.le (a b : Q) : Bool := a.num * 10 ^ b.scale ≤ b.num * 10 ^ a.scale
def Q.zero : Q := ⟨0, 0⟩
def Q.one : Q := ⟨1, 0⟩

/-- canonical representative (trailing zeros of the fraction removed), used for output only -/
def Q.norm (q : Q) : Q :=
  let rec go : Nat → Nat → Q
    | n, 0 => ⟨n, 0⟩
    | n, s + 1 => if n % 10 == 0 then go (n / 10) s else ⟨n, s + 1⟩
  go q.num q.scale

def isDigitA (c : Char) : Bool := '0' ≤ c && c ≤ '9'

def digitsVal (ds : Str) : Nat := ds.foldl (fun n c => 10 * n + (c.toNat - 48)) 0

/-- `_q_value_re.fullmatch(s)` (`-?\d+(\.\d+)?`, re.ASCII), then `float`, then the range check
`0 <= q <= 1`. `none` = the item is ignored. `-0`, `-0.0` pass (they are not `< 0`).
`parseQBody` works on the text after the optional minus sign. -/
def parseQBody (neg : Bool) (body : Str) : Option Q :=
  let ip := body.takeWhile isDigitA
  let rest := body.dropWhile isDigitA
  if ip.isEmpty then none else
  let frac : Option Str :=
    match rest with
    | [] => some []
    | '.' :: fr => if !fr.isEmpty && fr.all isDigitA then some fr else none
    | _ => none
  match frac with
  | none => none
  | some fr =>
    let q : Q := ⟨digitsVal (ip ++ fr), fr.length⟩
    if neg && q.num != 0 then none
    else if q.le Q.one then some q else none

def parseQ (s : Str) : Option Q :=
  let neg : Bool := s.head? == some '-'
  parseQBody neg (if neg then s.drop 1 else s)

/-! ## specificity orders -/

/-- Python's `<=` on tuples of bools (lexicographic, a proper prefix is smaller) -/
def specLe : List Bool → List Bool → Bool
  | [], _ => true
  | _ :: _, [] => false
  | a :: s, b :: t => if a == b then specLe s t else (!a && b)

def star : Str := ['*']

/-- ASCII `str.lower()` -/
def lowerA (s : Str) : Str := s.map Char.toLower

/-! ## Accept -/

def baseSpec (v : Str) : List Bool := [v != star]

def baseMatches (value item : Str) : Bool := item == star || lowerA item == lowerA value

def acceptNeg : Neg (List Bool) Q :=
  { spec := baseSpec, sle := specLe, qle := Q.le, zero := Q.zero, «matches» := baseMatches }

/-! ## MIMEAccept -/

/-- split on `/` and `;`, remembering whether the piece was ended by `;` -/
def mimePieces : Str → Str → List (Str × Bool)
  | [], cur => [(cur.reverse, false)]
  | c :: t, cur =>
    if c == '/' then (cur.reverse, false) :: mimePieces t []
    else if c == ';' then (cur.reverse, true) :: mimePieces t []
    else mimePieces t (c :: cur)

/-- the whitespace around `;` belongs to the delimiter (`\s*;\s*`) -/
def mimeTrim : Bool → List (Str × Bool) → List Str
  | _, [] => []
  | afterSemi, (p, semi) :: t =>
    let p1 := if afterSemi then p.dropWhile Py.isSpace else p
    let p2 := if semi then Py.rstripBy Py.isSpace p1 else p1
    p2 :: mimeTrim semi t

/-- `_mime_split_re.split(value)` with `_mime_split_re = /|(?:\s*;\s*)` -/
def mimeSplit (v : Str) : List Str := mimeTrim false (mimePieces v [])

def mimeSpec (v : Str) : List Bool := (mimeSplit v).map (· != star)

structure Mime where
  type : Str
  subtype : Str
  params : List Str

/-- `_normalize_mime` + the unpacking into type, subtype, params (needs a `/` in the value) -/
def mimeNorm (v : Str) : Mime :=
  match mimeSplit (lowerA v) with
  | a :: b :: ps => ⟨a, b, ps⟩
  | [a] => ⟨a, [], []⟩
  | [] => ⟨[], [], []⟩

def hasSlash (v : Str) : Bool := v.contains '/'

/-- the offer makes `_value_matches` raise `ValueError` (once an item containing `/` is reached) -/
def mimeOfferInvalid (v : Str) : Bool :=
  !hasSlash v || ((mimeNorm v).type == star && (mimeNorm v).subtype != star)

/-- `MIMEAccept._value_matches(value, item)` for a valid offer `value`;
`sorted(a) == sorted(b)` is modelled as `a.isPerm b` -/
def mimeMatches (value item : Str) : Bool :=
  if !hasSlash item then false else
  let v := mimeNorm value
  let i := mimeNorm item
  if i.type == star && i.subtype != star then false else
  ((i.type == star && i.subtype == star) || (v.type == star && v.subtype == star)) ||
  (i.type == v.type &&
    (i.subtype == star || v.subtype == star || (i.subtype == v.subtype && i.params.isPerm v.params)))

def mimeNeg : Neg (List Bool) Q :=
  { spec := mimeSpec, sle := specLe, qle := Q.le, zero := Q.zero, «matches» := mimeMatches }

/-- does a lookup of `offer` raise ValueError? -/
def mimeRaises (self : List (Str × Q)) (offer : Str) : Bool :=
  mimeOfferInvalid offer && self.any fun it => hasSlash it.1

/-! ## LanguageAccept -/

def isLangDelim (c : Char) : Bool := c == '_' || c == '-'

/-- `re.split(r"[_-]", s)` -/
def splitLang : Str → Str → List Str
  | [], cur => [cur.reverse]
  | c :: t, cur => if isLangDelim c then cur.reverse :: splitLang t [] else splitLang t (c :: cur)

def normLang (v : Str) : List Str := splitLang (lowerA v) []

/-- `_locale_delim_re.split(s, 1)[0]` -/
def primaryTag (v : Str) : Str := v.takeWhile (fun c => !isLangDelim c)

def langMatches (value item : Str) : Bool := item == star || normLang value == normLang item

def langNeg : Neg (List Bool) Q :=
  { spec := baseSpec, sle := specLe, qle := Q.le, zero := Q.zero, «matches» := langMatches }

/-- stage 2 of `LanguageAccept.best_match`: a plain `Accept` of the client's primary tags -/
def langFallbackSelf (self : List (Str × Q)) : List (Str × Q) :=
  mk acceptNeg (self.map fun it => (primaryTag it.1, it.2))

/-- the offers that stay in play for the fallback stages (0816efc): those the exact stage did not
find refused, i.e. whose `_best_single_match` is `None` or has `q > 0` -/
def langNotRefused (self : List (Str × Q)) (offers : List Str) : List Str :=
  offers.filter fun o =>
    match bestSingle langNeg self o with
    | none => true
    | some (_, q) => !(Q.le q Q.zero)

/-- `LanguageAccept.best_match(offers)` (default `None`), as repaired by 754d284 and 0816efc -/
def langBestMatch (self : List (Str × Q)) (offers : List Str) : Option Str :=
  match bestMatch langNeg self offers with
  | some r => some r
  | none =>
    let offers := langNotRefused self offers
    match bestMatch acceptNeg (langFallbackSelf self) offers with
    | some r => some r
    | none =>
      let prim := offers.map primaryTag
      match bestMatch langNeg self prim with
      | some r => ((offers.zip prim).find? fun p => p.2 == r).map (·.1)
      | none => none

/-- which stage produced the result (0 = none, 1 exact, 2 client primary, 3 offer primary) -/
def langStage (self : List (Str × Q)) (offers : List Str) : Nat :=
  if (bestMatch langNeg self offers).isSome then 1
  else if (bestMatch acceptNeg (langFallbackSelf self) (langNotRefused self offers)).isSome then 2
  else if (bestMatch langNeg self ((langNotRefused self offers).map primaryTag)).isSome then 3 else 0

/-! ## CharsetAccept -/

/-- `_normalize(name)`: `codecs.lookup(name).name`, else `name.lower()`; the codec alias table is
an opaque parameter: an association list covering the names that occur -/
def charsetNorm (aliases : List (Str × Str)) (name : Str) : Str :=
  match aliases.find? (fun p => p.1 == name) with
  | some p => p.2
  | none => lowerA name

def charsetMatches (aliases : List (Str × Str)) (value item : Str) : Bool :=
  item == star || charsetNorm aliases value == charsetNorm aliases item

def charsetNeg (aliases : List (Str × Str)) : Neg (List Bool) Q :=
  { spec := baseSpec, sle := specLe, qle := Q.le, zero := Q.zero, «matches» := charsetMatches aliases }

/-! ## lexical layer -/

/-- `urllib.request.parse_http_list` before the final `strip` of every part -/
def httpList : Str → Str → Bool → Bool → List Str
  | [], part, _, _ => if part.isEmpty then [] else [part.reverse]
  | c :: t, part, esc, quo =>
    if esc then httpList t (c :: part) false quo
    else if quo then
      if c == '\\' then httpList t part true quo
      else if c == '"' then httpList t (c :: part) false false
      else httpList t (c :: part) false quo
    else if c == ',' then part.reverse :: httpList t [] false false
    else if c == '"' then httpList t (c :: part) false true
    else httpList t (c :: part) false false

/-- `parse_list_header` -/
def parseListHeader (v : Str) : List Str :=
  (httpList v [] false false).map fun p =>
    let p := Py.strip p
    if p.length ≥ 2 && p.head? == some '"' && p.getLast? == some '"' then (p.drop 1).dropLast else p

/-- the punctuation of `[\w!#$%&'*+\-.^`|~]` (explicit list: string literals are slow to unfold
in kernel `decide` proofs) -/
def tokPunct : Str := ['!', '#', '$', '%', '&', '\'', '*', '+', '-', '.', '^', '`', '|', '~']

def qKey : Str := ['q']

/-- `[\w!#$%&'*+\-.^`|~]` under re.ASCII; also the members of `_token_chars` -/
def isTokChar (c : Char) : Bool :=
  c.isAlphanum || c == '_' || tokPunct.contains c

/-- scan of a quoted parameter value after the opening quote: `(consumed incl. the closing quote, rest)` -/
def quotedEnd : Str → Option (Str × Str)
  | [] => none
  | '\\' :: '\\' :: t => (quotedEnd t).map fun (b, r) => ('\\' :: '\\' :: b, r)
  | '\\' :: '"' :: t => (quotedEnd t).map fun (b, r) => ('\\' :: '"' :: b, r)
  | '"' :: t => some (['"'], t)
  | c :: t => (quotedEnd t).map fun (b, r) => (c :: b, r)

/-- the `while True` loop of `parse_options_header` collecting raw `(key, value)` parts -/
def paramParts : Nat → Str → List (Str × Str)
  | 0, _ => []
  | fuel + 1, rest =>
    let key := rest.takeWhile isTokChar
    let after := rest.dropWhile isTokChar
    let (found, rest') : List (Str × Str) × Str :=
      if !key.isEmpty && after.head? == some '=' then
        let pk := lowerA key
        let r := after.drop 1
        let tok := r.takeWhile isTokChar
        if !tok.isEmpty then ([(pk, tok)], r)
        else if r.head? == some '"' then
          match quotedEnd (r.drop 1) with
          | some (body, rem) => ([(pk, '"' :: body)], rem)
          | none => ([], r)
        else ([], r)
      else ([], rest)
    if rest'.contains ';' then
      found ++ paramParts fuel (((rest'.dropWhile (· != ';')).drop 1).dropWhile Py.isSpace)
    else found

/-- `str.replace(pat, rep)` for a non-empty pattern -/
def replaceAll (pat rep : Str) : Nat → Str → Str
  | 0, s => s
  | _, [] => []
  | fuel + 1, c :: t =>
    if pat.isPrefixOf (c :: t) then rep ++ replaceAll pat rep fuel ((c :: t).drop pat.length)
    else c :: replaceAll pat rep fuel t

def pyReplace (pat rep s : Str) : Str := replaceAll pat rep (s.length + 1) s

/-- dict assignment `d[k] = v` on an insertion-ordered association list -/
def dictSet (d : List (Str × Str)) (k v : Str) : List (Str × Str) :=
  if d.any (·.1 == k) then d.map fun p => if p.1 == k then (k, v) else p else d ++ [(k, v)]

def dictGet (d : List (Str × Str)) (k : Str) : Option Str := (d.find? (·.1 == k)).map (·.2)

/-- `_continuation_re.search(pk)` (`\*(\d+)$`): the key without the `*digits` suffix -/
def continuationBase (pk : Str) : Option Str :=
  let ds := pk.reverse.takeWhile isDigitA
  let before := pk.reverse.dropWhile isDigitA
  if !ds.isEmpty && before.head? == some '*' then some (before.drop 1).reverse else none

/-- second loop of `parse_options_header`; a key ending in `*` (RFC 2231 charset form) is outside
the model: `UNSUPPORTED` -/
def processParts : List (Str × Str) → List (Str × Str) → Except String (List (Str × Str))
  | [], opts => .ok opts
  | (pk, pv) :: t, opts =>
    if pk.getLast? == some '*' then .error "UNSUPPORTED" else
    let pv :=
      if pv.head? == some '"' && pv.getLast? == some '"' then
        pyReplace ['%', '2', '2'] ['"'] (pyReplace ['\\', '"'] ['"'] (pyReplace ['\\', '\\'] ['\\'] (pv.drop 1).dropLast))
      else pv
    match continuationBase pk with
    | some base => processParts t (dictSet opts base ((dictGet opts base).getD [] ++ pv))
    | none => processParts t (dictSet opts pk pv)

/-- `parse_options_header(value)` -/
def parseOptionsHeader (value : Str) : Except String (Str × List (Str × Str)) :=
  let v := Py.strip (value.takeWhile (· != ';'))
  let rest := Py.strip ((value.dropWhile (· != ';')).drop 1)
  if v.isEmpty || rest.isEmpty then .ok (v, [])
  else
    match processParts (paramParts (rest.length + 1) rest) [] with
    | .ok o => .ok (v, o)
    | .error e => .error e

/-- `quote_header_value(value)` -/
def quoteHeaderValue (v : Str) : Str :=
  if v.isEmpty then ['"', '"']
  else if v.all isTokChar then v
  else '"' :: pyReplace ['"'] ['\\', '"'] (pyReplace ['\\'] ['\\', '\\'] v) ++ ['"']

/-- `dump_options_header(header, options)` -/
def dumpOptionsHeader (header : Str) (opts : List (Str × Str)) : Str :=
  [';', ' '].intercalate
    (header :: opts.map fun (k, v) =>
      if k.getLast? == some '*' then k ++ '=' :: v else k ++ '=' :: quoteHeaderValue v)

/-- the body of the `for item in parse_list_header(value)` loop over already split
`(item, options)` pairs: q extraction, validation, reconstruction of the item -/
def acceptItem (item : Str) (opts : List (Str × Str)) : Option (Str × Q) :=
  match dictGet opts qKey with
  | some qs =>
    match parseQ (Py.strip qs) with
    | none => none
    | some q =>
      let o := opts.filter (·.1 != qKey)
      some (if o.isEmpty then item else dumpOptionsHeader item o, q)
  | none => some (if opts.isEmpty then item else dumpOptionsHeader item opts, Q.one)

def acceptItems (l : List (Str × List (Str × Str))) : List (Str × Q) :=
  l.filterMap fun (i, o) => acceptItem i o

/-- the `(item, options)` pairs of a header value -/
def lexHeader (value : Str) : Except String (List (Str × List (Str × Str))) :=
  (parseListHeader value).mapM parseOptionsHeader

/-- `parse_accept_header(value, cls)`: the list handed to `cls(...)`, before sorting -/
def parseAcceptRaw (value : Str) : Except String (List (Str × Q)) :=
  if value.isEmpty then .ok [] else (lexHeader value).map acceptItems

/-- `parse_accept_header(value, cls)` for the class with negotiation structure `N` -/
def parseAccept (N : Neg σ Q) (value : Str) : Except String (List (Str × Q)) :=
  (parseAcceptRaw value).map (mk N)

/-! ## the rest of the `Accept` API -/

/-- `best_match(matches, default)` -/
def bestMatchD (N : Neg σ κ) (self : List (Str × κ)) (offers : List Str) (default : Option Str) :
    Option Str :=
  match bestMatch N self offers with
  | some r => some r
  | none => default

/-- the `best` property: the first item's value -/
def best (self : List (Str × κ)) : Option Str := self.head?.map (·.1)

/-- `values()` -/
def values (self : List (Str × κ)) : List Str := self.map (·.1)

/-- `index(key)` for a string key; `.error "ValueError"` when nothing matches -/
def index (N : Neg σ κ) (self : List (Str × κ)) (key : Str) : Except String Nat :=
  match find N self key with
  | some i => .ok i
  | none => .error "ValueError"

/-- `self[key]` for a string key: `quality(key)`, the integer `0` when nothing matches -/
def getItemStr (N : Neg σ κ) (self : List (Str × κ)) (key : Str) : κ :=
  (quality N self key).getD N.zero

/-- `self[i]` for an index; `none` = IndexError -/
def getItemIdx (self : List (Str × κ)) (i : Nat) : Option (Str × κ) := self[i]?

/-- left-pad with `'0'` to `n` characters -/
def padZeros (n : Nat) (s : Str) : Str := List.replicate (n - s.length) '0' ++ s

/-- `repr(float)` of a parsed quality, as `f"{quality}"` prints it: `0.0` for zero, else the
shortest positional decimal `0.ddd` — Python switches to exponent notation below `1e-4`, which is
outside this model (`none`; such a text would not even pass `_q_value_re` again). Qualities equal
to 1 are never printed (`quality != 1`). -/
def qRepr (q : Q) : Option Str :=
  let n := q.norm
  if n.num == 0 then some ['0', '.', '0']
  else if n.scale == 0 then some ((toString n.num).toList ++ ['.', '0'])
  else if n.scale > 4 && n.num * 10000 < 10 ^ n.scale then none
  else some ('0' :: '.' :: padZeros n.scale (toString n.num).toList)

/-- is the quality equal to 1 (`quality != 1` is false)? -/
def Q.isOne (q : Q) : Bool := q.le Q.one && Q.one.le q

/-- one element of `to_header()` -/
def itemHeader (it : Str × Q) : Option Str :=
  if it.2.isOne then some it.1
  else (qRepr it.2).map fun r => it.1 ++ [';', 'q', '='] ++ r

/-- `to_header()` / `__str__()`: `",".join(...)`; `none` = a quality below `1e-4` (outside the model) -/
def toHeader (self : List (Str × Q)) : Option Str :=
  (self.mapM itemHeader).map fun parts => [','].intercalate parts

/-! ### `MIMEAccept` convenience flags -/

def mtHtml : Str := "text/html".toList
def mtXhtml : Str := "application/xhtml+xml".toList
def mtXml : Str := "application/xml".toList
def mtJson : Str := "application/json".toList

/-- `accept_xhtml` -/
def acceptXhtml (self : List (Str × Q)) : Bool :=
  contains mimeNeg self mtXhtml || contains mimeNeg self mtXml

/-- `accept_html` -/
def acceptHtml (self : List (Str × Q)) : Bool := contains mimeNeg self mtHtml || acceptXhtml self

/-- `accept_json` -/
def acceptJson (self : List (Str × Q)) : Bool := contains mimeNeg self mtJson

/-! ### the `Request` attributes -/

/-- `Request.accept_mimetypes / accept_charsets / accept_encodings / accept_languages` -/
inductive AcceptAttr where
  | mimetypes
  | charsets
  | encodings
  | languages
deriving Repr, DecidableEq

/-- the four Accept classes -/
inductive AcceptCls where
  | accept
  | mime
  | lang
  | charset
deriving Repr, DecidableEq

/-- attribute name, request header it reads, class it builds -/
def AcceptAttr.spec : AcceptAttr → Str × Str × AcceptCls
  | .mimetypes => ("accept_mimetypes".toList, "Accept".toList, .mime)
  | .charsets => ("accept_charsets".toList, "Accept-Charset".toList, .charset)
  | .encodings => ("accept_encodings".toList, "Accept-Encoding".toList, .accept)
  | .languages => ("accept_languages".toList, "Accept-Language".toList, .lang)

def AcceptAttr.all : List AcceptAttr := [.mimetypes, .charsets, .encodings, .languages]

/-- the negotiation structure of a class (`aliases`: the opaque codec alias table) -/
def AcceptCls.neg (aliases : List (Str × Str)) : AcceptCls → Neg (List Bool) Q
  | .accept => acceptNeg
  | .mime => mimeNeg
  | .lang => langNeg
  | .charset => charsetNeg aliases

/-- `headers.get(name)` on a list of `(name, value)` pairs: first value, name compared
case-insensitively (ASCII) -/
def headersGet (headers : List (Str × Str)) (name : Str) : Option Str :=
  (headers.find? fun h => lowerA h.1 == lowerA name).map (·.2)

/-- the attribute: `parse_accept_header(self.headers.get(<header>), <class>)`; an absent header
gives the empty object (`cls(None)`) -/
def requestAccept (aliases : List (Str × Str)) (attr : AcceptAttr) (headers : List (Str × Str)) :
    Except String (List (Str × Q)) :=
  match headersGet headers attr.spec.2.1 with
  | none => .ok []
  | some v => parseAccept (attr.spec.2.2.neg aliases) v

/-- `best_match` of the class (only `LanguageAccept` overrides it) -/
def clsBestMatch (aliases : List (Str × Str)) (c : AcceptCls) (self : List (Str × Q)) (offers : List Str)
    (default : Option Str) : Option Str :=
  match c with
  | .lang => (match langBestMatch self offers with | some r => some r | none => default)
  | c => bestMatchD (c.neg aliases) self offers default

end Wz.Accept
