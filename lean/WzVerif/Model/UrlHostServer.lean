/-
`sansio.utils.get_host(scheme, host_header, server)` with its fallback to the server address (C15):
the Host header when there is one, else `server = (SERVER_NAME, SERVER_PORT | None)` - an IPv6
SERVER_NAME is wrapped in brackets, the port appended -, then the scheme's default port is cut
(`getHost`). `trusted_hosts` is not part of this property. Core Lean only.
-/
import WzVerif.Model.UrlEnviron
namespace Wz.Url

/-- the host text `get_host` starts from -/
def hostOrServer (hostHeader : Option Str) (server : Option (Str × Option Nat)) : Str :=
  match hostHeader with
  | some h => h
  | none =>
    match server with
    | some (name, port) =>
      -- `if ":" in host and host[0] != "[": host = f"[{host}]"`
      let n := if name.contains ':' && name.head? != some '[' then '[' :: name ++ [']'] else name
      match port with
      | some k => n ++ ':' :: (toString k).toList
      | none => n
    | none => []

/-- `get_host(scheme, host_header, server)` -/
def getHostFull (scheme : Str) (hostHeader : Option Str) (server : Option (Str × Option Nat)) : Str :=
  getHost scheme (hostOrServer hostHeader server)

end Wz.Url
