/-
Routing, part 3: URL text primitives used by the router — `urllib.parse.quote / quote_plus /
urlencode` (modelled, validated by the correspondence streams), `urlunsplit` for the
http/https/ws/wss case, and the adapter's `get_host`, `encode_query_args`, `make_redirect_url`.
The `safe=` literals are the ones found in the source by AST (`Gen.Routing.safeSites`); Props checks
that the literals used here are the generated ones.
-/
import WzVerif.Model.RoutingMatch
namespace Wz.Routing

def hexUpper (n : Nat) : Char := if n < 10 then Char.ofNat (48 + n) else Char.ofNat (55 + n)

/-- `urllib.parse.quote_from_bytes` for one byte -/
def quoteByte (safe : List Nat) (b : UInt8) : Str :=
  if Gen.Routing.alwaysSafe.contains b.toNat || (b.toNat < 128 && safe.contains b.toNat) then [Char.ofNat b.toNat]
  else ['%', hexUpper (b.toNat / 16), hexUpper (b.toNat % 16)]

/-- `urllib.parse.quote(s, safe=safe)` for text without lone surrogates -/
def quote (safe : String) (s : Str) : Str :=
  (utf8Enc s).flatMap (quoteByte (safe.toList.map Char.toNat))

/-- `urllib.parse.quote_plus(s, safe=safe)` -/
def quotePlus (safe : String) (s : Str) : Str :=
  if s.contains ' ' then (quote (safe ++ " ") s).map (fun c => if c == ' ' then '+' else c)
  else quote safe s

/-- safe set of `BaseConverter.to_url`, `_compile_builder` and `MapAdapter.match` (path segment) -/
def pathSafe : String := "!$&'()*+,/:;=@"
/-- safe set of `urls._urlencode` -/
def querySafe : String := "!$'()*,/:;?@"

/-- `urls._urlencode(items)` for string keys / values -/
def urlencode (items : List (Str × Str)) : Str :=
  joinWith '&' (items.map fun (k, v) => quotePlus querySafe k ++ '=' :: quotePlus querySafe v)

/-- query arguments as given to `Map.bind` / `MapAdapter.match` -/
inductive QueryArgs where
  | none
  | text (s : Str)
  /-- a mapping / list of pairs (already flattened by `iter_multi_items`, `None` values dropped) -/
  | pairs (l : List (Str × Str))
deriving Repr

def QueryArgs.truthy : QueryArgs → Bool
  | .none => false
  | .text s => !s.isEmpty
  | .pairs l => !l.isEmpty

/-- `MapAdapter.encode_query_args` -/
def encodeQueryArgs : QueryArgs → Str
  | .none => []
  | .text s => s
  | .pairs l => urlencode l

/-- the bound adapter (`Map.bind`) -/
structure Adapter where
  serverName : Str
  /-- as stored by `MapAdapter.__init__` (ends with `/`) -/
  scriptName : Str
  subdomain : Option Str
  urlScheme : Str
  defaultMethod : Str
  queryArgs : QueryArgs
deriving Repr

/-- `MapAdapter.__init__`'s normalisation of `script_name` -/
def normScriptName (s : Str) : Str := if endsWithChar s '/' then s else s ++ ['/']

/-- `MapAdapter.get_host(domain_part)` -/
def getHost (hostMatching : Bool) (a : Adapter) (domainPart : Option Str) : Str :=
  if hostMatching then domainPart.getD a.serverName
  else
    let sub := match domainPart with | some d => d | none => a.subdomain.getD []
    if sub.isEmpty then a.serverName else sub ++ '.' :: a.serverName

/-- `urlunsplit((scheme, host, path, query, None))` for a scheme in `uses_netloc` or a non-empty host -/
def urlunsplit (scheme host path : Str) (query : Option Str) : Str :=
  let url :=
    if !host.isEmpty || (!scheme.isEmpty && Gen.Routing.usesNetloc.contains (String.ofList scheme) && path.take 2 != ['/', '/']) then
      let p := if !path.isEmpty && path.take 1 != ['/'] then '/' :: path else path
      '/' :: '/' :: host ++ p
    else path
  let url := if scheme.isEmpty then url else scheme ++ ':' :: url
  match query with
  | some q => if q.isEmpty then url else url ++ '?' :: q
  | none => url

/-- `query_args if query_args is not None else self.query_args` -/
def effQa (a : Adapter) (qa : QueryArgs) : QueryArgs :=
  match qa with
  | .none => a.queryArgs
  | q => q

/-- `MapAdapter.make_redirect_url(path_info, query_args, domain_part)` -/
def makeRedirectUrl (hostMatching : Bool) (a : Adapter) (pathInfo : Str) (qa : QueryArgs) (domainPart : Option Str) : Str :=
  let qa := effQa a qa
  let queryStr := if qa.truthy then some (encodeQueryArgs qa) else none
  let scheme := if a.urlScheme.isEmpty then "http".toList else a.urlScheme
  let host := getHost hostMatching a domainPart
  let path := stripChar '/' a.scriptName ++ '/' :: lstripChar '/' pathInfo
  urlunsplit scheme host path queryStr

end Wz.Routing
