/-
Routing: the text of `RulePart.content` as `Rule._parse_rule` assembles it, for the model's parts —
used to tie `parseRule` to the live compiled rules (`Gen/RoutingParts.lean`, `Props/C03`).
-/
import WzVerif.Model.RoutingMatch
namespace Wz.Routing

/-- regex text of a converter as far as the part depends on it -/
def RKind.regexText : RKind → String
  | .strLen n => "[^/]{" ++ toString n ++ "}"
  | .strRange mn mx => "[^/]{" ++ toString mn ++ "," ++ (match mx with | some m => toString m | none => "") ++ "}"
  | .digits s => (if s then "-?" else "") ++ classRegex "int"
  | .decimal s => (if s then "-?" else "") ++ classRegex "float"
  | .anyOf items => "(?:" ++ "|".intercalate (items.map fun i => String.ofList (reEscape i)) ++ ")"
  | .uuid => classRegex "uuid"
  | .path => classRegex "path"

/-- `RulePart.content`: static parts hold their text; a dynamic part holds
`re.escape(pre) (?P<__werkzeug_0>regex) re.escape(post) [(?<!/)(/?)] \Z` -/
def Part.contentText : Part → String
  | .static c => String.ofList c
  | .dyn pre kind post _ suffixed _ =>
    String.ofList (reEscape pre) ++ "(?P<__werkzeug_0>" ++ kind.regexText ++ ")" ++ String.ofList (reEscape post) ++
      (if suffixed then "(?<!/)(/?)" else "") ++ "\\Z"

/-- (content, final, static, suffixed, weight of a dynamic part) -/
def Part.row : Part → String × Bool × Bool × Bool × Int × List (Int × Int) × Int × List Int
  | .static c => (String.ofList c, false, true, false, 0, [], 0, [])
  | .dyn pre kind post final suffixed w =>
    ((Part.dyn pre kind post final suffixed w).contentText, final, false, suffixed, w.nStatic, w.statics, w.nArgs, w.args)

end Wz.Routing
