/-
The lazy re-sort protocol of `werkzeug.routing.Map` (C03 / C04 / C12).

`Map.update()` — called by `MapAdapter.match` / `build` before they touch the state machine or the
per-endpoint rule lists — re-sorts both structures under double-checked locking on the `_remap`
flag; `Map.add()` inserts rules without the lock and sets the flag afterwards. The statement order of
both functions is regenerated from the source (`Gen/RoutingLock.lean`, tools/gen/c03lock.py) into the
op alphabet below; this file gives the ops an interleaving semantics over any number of threads.

Abstraction. Rules are numbers. Of each of the two structures we keep the rules inserted (`mIn`,
`eIn`) and the set of rules with respect to which it is currently sorted (`mOk`, `eOk`): appending a
rule keeps the order among the earlier ones, a finished sort covers everything inserted, and a sort
in progress covers nothing (`list.sort` empties the list while it runs). `done` = rules whose
`add()` call has returned. A thread that leaves `update()` records whether both structures were
sorted with respect to every rule that was `done` when it entered.
-/
namespace Wz.RoutingLock

inductive Op
  /-- `if not self._remap: return` (inside the `with` block the return first releases the lock) -/
  | retIfClean
  /-- entering / leaving `with self._remap_lock:` -/
  | acquire
  | release
  /-- `self._matcher.update()` -/
  | sortMatcher
  /-- `for rules in self._rules_by_endpoint.values(): rules.sort(key=…build_compare_key())` -/
  | sortEndpoints
  /-- second half of a sort (never generated: `step` schedules it after the first half) -/
  | sortMatcherEnd
  | sortEndpointsEnd
  /-- `self._remap = b` -/
  | setRemap (b : Bool)
  /-- `rule.bind(self)` -/
  | bindRule
  /-- `if not rule.build_only: self._matcher.add(rule)` -/
  | matcherAdd (rule : Nat)
  /-- `self._rules_by_endpoint.setdefault(rule.endpoint, []).append(rule)` -/
  | endpointAdd (rule : Nat)
  /-- a statement the translator does not know -/
  | other (src : String)
  deriving DecidableEq, Repr

structure Shared where
  remap : Bool := true
  /-- owner of `_remap_lock` -/
  lock : Option Nat := none
  mIn : List Nat := []
  mOk : List Nat := []
  eIn : List Nat := []
  eOk : List Nat := []
  done : List Nat := []
  deriving DecidableEq, Repr

/-- `a ⊆ b` -/
def sub (a b : List Nat) : Bool := a.all (fun x => b.contains x)

structure Thread where
  /-- `none`: a thread calling `update()`; `some rs`: a thread calling `add()` for the rules `rs` -/
  rules : Option (List Nat) := none
  pc : List Op := []
  /-- `done` at the thread's first step -/
  entry : Option (List Nat) := none
  /-- set when `update()` returns: were both structures sorted w.r.t. `entry` at that moment -/
  result : Option Bool := none
  deriving DecidableEq, Repr

structure State where
  sh : Shared
  th : Nat → Thread

/-- the loop body instantiated for one rule -/
def Op.inst (r : Nat) : Op → Op
  | .matcherAdd _ => .matcherAdd r
  | .endpointAdd _ => .endpointAdd r
  | o => o

/-- `Map.add(factory)` for a factory yielding the rules `rs` -/
def addProg (body after : List Op) (rs : List Nat) : List Op :=
  (rs.flatMap fun r => body.map (Op.inst r)) ++ after

def updateThread (p : List Op) : Thread := { pc := p }
def addThread (body after : List Op) (rs : List Nat) : Thread := { rules := some rs, pc := addProg body after rs }

/-- the thread leaves `update()` now -/
def Thread.finish (sh : Shared) (t : Thread) : Thread :=
  { t with pc := [], result := some (sub (t.entry.getD []) sh.mOk && sub (t.entry.getD []) sh.eOk) }

/-- continue with `rest`; falling off the end of `update()` is a return -/
def Thread.goto (sh : Shared) (t : Thread) (rest : List Op) : Thread :=
  if rest.isEmpty && t.rules.isNone then t.finish sh else { t with pc := rest }

def State.set (s : State) (sh : Shared) (i : Nat) (t : Thread) : State :=
  { sh := sh, th := fun j => if j = i then t else s.th j }

/-- thread `i` (already marked as entered: `t`) executes `op`, `rest` is what follows -/
def stepOp (s : State) (i : Nat) (t : Thread) (op : Op) (rest : List Op) : State :=
  let sh := s.sh
  match op with
  | .retIfClean =>
    if sh.remap then s.set sh i (t.goto sh rest)
    else if sh.lock = some i then
      -- `return` inside the `with` block: the lock is released on the way out
      s.set sh i { t with pc := [.release] }
    else s.set sh i (if t.rules.isNone then t.finish sh else { t with pc := [] })
  | .acquire =>
    if sh.lock = none then
      let sh' := { sh with lock := some i }
      s.set sh' i (t.goto sh' rest)
    else s
  | .release =>
    let sh' := if sh.lock = some i then { sh with lock := none } else sh
    s.set sh' i (t.goto sh' rest)
  | .sortMatcher =>
    let sh' := { sh with mOk := [] }
    s.set sh' i { t with pc := .sortMatcherEnd :: rest }
  | .sortMatcherEnd =>
    let sh' := { sh with mOk := sh.mIn }
    s.set sh' i (t.goto sh' rest)
  | .sortEndpoints =>
    let sh' := { sh with eOk := [] }
    s.set sh' i { t with pc := .sortEndpointsEnd :: rest }
  | .sortEndpointsEnd =>
    let sh' := { sh with eOk := sh.eIn }
    s.set sh' i (t.goto sh' rest)
  | .setRemap b =>
    -- the flag write that ends `add()` is the moment its rules count as added
    let sh' := { sh with remap := b, done := (if b then t.rules.getD [] else []) ++ sh.done }
    s.set sh' i (t.goto sh' rest)
  | .bindRule => s.set sh i (t.goto sh rest)
  | .matcherAdd r =>
    let sh' := { sh with mIn := r :: sh.mIn }
    s.set sh' i (t.goto sh' rest)
  | .endpointAdd r =>
    let sh' := { sh with eIn := r :: sh.eIn }
    s.set sh' i (t.goto sh' rest)
  | .other _ => s.set sh i (t.goto sh rest)

/-- the thread has entered: `entry` is fixed at its first step -/
def Thread.enter (sh : Shared) (t : Thread) : Thread := { t with entry := t.entry.or (some sh.done) }

/-- one atomic step of thread `i` (a blocked or finished thread does not move) -/
def step (s : State) (i : Nat) : State :=
  match (s.th i).pc with
  | [] => s
  | op :: rest => stepOp s i ((s.th i).enter s.sh) op rest

def run (s : State) : List Nat → State
  | [] => s
  | i :: rest => run (step s i) rest

/-- the schedule never lets an `add()` thread move while some thread holds the lock -/
def addsQuiet (s : State) : List Nat → Prop
  | [] => True
  | i :: rest => ((s.th i).rules.isSome = true → s.sh.lock = none) ∧ addsQuiet (step s i) rest

/-! ### the discipline the generated programs are checked against (by `decide`) -/

/-- inside the `with` block: `f` = the flag is known to be set, `m` / `e` = the state machine / the
endpoint lists are known to be sorted w.r.t. every added rule. A sort needs the flag set (it passes
through an unsorted state), clearing the flag needs both structures sorted, and the block ends with
the release, both structures sorted. -/
def lockedOK : List Op → (f m e : Bool) → Bool
  | [.release], _, m, e => m && e
  | .retIfClean :: rest, _, m, e => lockedOK rest true m e
  | .sortMatcher :: rest, f, _, e => f && lockedOK rest f true e
  | .sortMatcherEnd :: rest, f, _, e => lockedOK rest f true e
  | .sortEndpoints :: rest, f, m, _ => f && lockedOK rest f m true
  | .sortEndpointsEnd :: rest, f, m, _ => lockedOK rest f m true
  | .setRemap false :: rest, _, m, e => m && e && lockedOK rest false m e
  | .setRemap true :: rest, _, m, e => lockedOK rest true m e
  | _, _, _, _ => false

/-- `update()`: any number of unlocked flag tests, then the lock, then a block satisfying `lockedOK` -/
def UpdateOK : List Op → Bool
  | .retIfClean :: rest => UpdateOK rest
  | .acquire :: rest => lockedOK rest false false false
  | _ => false

/-- remaining ops of an `add()` thread: every rule is in both structures before the flag is set -/
def addOK : List Op → (mIn eIn rs : List Nat) → Bool
  | [], _, _, _ => true
  | .bindRule :: rest, mi, ei, rs => addOK rest mi ei rs
  | .matcherAdd r :: rest, mi, ei, rs => addOK rest (r :: mi) ei rs
  | .endpointAdd r :: rest, mi, ei, rs => addOK rest mi (r :: ei) rs
  | .setRemap true :: rest, mi, ei, rs => sub rs mi && sub rs ei && addOK rest mi ei rs
  | _, _, _, _ => false

/-- syntactic form of `Map.add` that guarantees `addOK` for every rule list: the loop body inserts the
rule into both structures (and does nothing else but `bind`), and the only statement after the
loop sets the flag -/
def AddOK (body after : List Op) : Bool :=
  body.all (fun o => o == .bindRule || o == .matcherAdd 0 || o == .endpointAdd 0) &&
  body.contains (.matcherAdd 0) && body.contains (.endpointAdd 0) && after == [.setRemap true]

/-! ### observation granularity of the harness (forced schedules on the real code)

The harness can stop a real thread in front of: a read or write of `_remap`, `lock.acquire` /
`release`, `StateMachineMatcher.update` / `add`, and inside the endpoint sort (in the key function,
when the list has already been emptied). A *grant* lets a thread run to its next stop. -/

def Op.isStop : Op → Bool
  | .retIfClean | .acquire | .release | .sortMatcher | .sortEndpointsEnd | .setRemap _ | .matcherAdd _ => true
  | _ => false

def headIsStop (t : Thread) : Bool :=
  match t.pc with
  | [] => true
  | o :: _ => o.isStop

/-- run thread `i` until its next stop (at most `fuel` steps) -/
def settle (s : State) (i : Nat) : Nat → State
  | 0 => s
  | fuel + 1 => if headIsStop (s.th i) then s else settle (step s i) i fuel

/-- what the harness logs for a grant -/
def eventOf (s : State) (i : Nat) : String :=
  match (s.th i).pc with
  | [] => "-"
  | .retIfClean :: _ => if s.sh.remap then "r1" else "r0"
  | .acquire :: _ => if s.sh.lock = none then "acq" else "blk"
  | .release :: _ => "rel"
  | .sortMatcher :: _ => "sm"
  | .sortEndpointsEnd :: _ => "se"
  | .setRemap b :: _ => if b then "w1" else "w0"
  | .matcherAdd _ :: _ => "ma"
  | _ => "?"

/-- one grant: the stop op itself, then on to the next stop -/
def grant (s : State) (i : Nat) : State × String :=
  let ev := eventOf s i
  let s1 := step s i
  (settle s1 i 8, ev)

def runGrants (s : State) : List Nat → List String → State × List String
  | [], acc => (s, acc.reverse)
  | i :: rest, acc =>
    let (s', ev) := grant s i
    runGrants s' rest ((toString i ++ ":" ++ ev) :: acc)

end Wz.RoutingLock
