/-
Routing, part 1: URL converters (`werkzeug/routing/converters.py`).

`Conv` = a converter instance of the default converter set with its constructor options.
`RKind` = what the converter's *regex* depends on (two converters of the same `RKind` produce the
same regex text, hence the same `RulePart.content`); `RKind.accepts` is a direct recogniser of the
language of that regex (validated against the live compiled regexes by stream `part-kernels`).
`toPython` / `toUrl` = the converter's conversions; `Value` = the Python value (floats are kept as
their positional decimal text: Python's float <-> text is correspondence-tested only).

Generated (`Gen.Routing`): the `\d` digit runs, the `re.escape` set.
-/
import WzVerif.Util.Bytes
import WzVerif.Gen.Routing
namespace Wz.Routing

abbrev Str := List Char

/-! ### small text utilities -/

/-- `str.split(c)` -/
def splitOn (c : Char) : Str → List Str
  | [] => [[]]
  | x :: xs =>
    if x == c then [] :: splitOn c xs
    else match splitOn c xs with
      | h :: t => (x :: h) :: t
      | [] => [[x]]

/-- `c.join(parts)` -/
def joinWith (c : Char) : List Str → Str
  | [] => []
  | [x] => x
  | x :: y :: t => x ++ c :: joinWith c (y :: t)

def endsWithChar (s : Str) (c : Char) : Bool := s.getLast? == some c

/-- `s.lstrip(c)` -/
def lstripChar (c : Char) (s : Str) : Str := s.dropWhile (· == c)

/-- `s.rstrip(c)` -/
def rstripChar (c : Char) (s : Str) : Str := (s.reverse.dropWhile (· == c)).reverse

/-- `s.strip(c)` -/
def stripChar (c : Char) (s : Str) : Str := rstripChar c (lstripChar c s)

/-- is `suf` a suffix of `s`; if so the part in front of it -/
def stripSuffix? (suf s : Str) : Option Str :=
  if suf.length ≤ s.length ∧ s.drop (s.length - suf.length) = suf then some (s.take (s.length - suf.length))
  else none

def stripPrefix? (pre s : Str) : Option Str :=
  if s.take pre.length = pre then some (s.drop pre.length) else none

/-! ### digits (`\d`, `int()`) -/

def digitValIn : List Nat → Nat → Option Nat
  | [], _ => none
  | z :: t, n => if z ≤ n ∧ n < z + 10 then some (n - z) else digitValIn t n

/-- digit value of a code point matched by `\d` (any Unicode decimal digit) -/
def digitVal? (c : Char) : Option Nat := digitValIn Gen.Routing.digitZeros c.toNat

def isDigit (c : Char) : Bool := (digitVal? c).isSome

def digitsVal (ds : Str) : Nat := ds.foldl (fun acc c => acc * 10 + (digitVal? c).getD 0) 0

def asciiDigit (c : Char) : Char := Char.ofNat (48 + (digitVal? c).getD 0)

def isHex (c : Char) : Bool :=
  ('0' ≤ c && c ≤ '9') || ('a' ≤ c && c ≤ 'f') || ('A' ≤ c && c ≤ 'F')

def lowerHex (c : Char) : Char := if 'A' ≤ c && c ≤ 'F' then Char.ofNat (c.toNat + 32) else c

/-- `str.upper()` on ASCII letters (HTTP method names) -/
def upperAscii (c : Char) : Char := if 'a' ≤ c && c ≤ 'z' then Char.ofNat (c.toNat - 32) else c

/-! ### decimal numbers (float bounds, float values as text) -/

/-- `m / 10^e` -/
structure Dec where
  m : Int
  e : Nat
deriving DecidableEq, Repr

def Dec.le (a b : Dec) : Bool := a.m * (10 : Int) ^ b.e ≤ b.m * (10 : Int) ^ a.e
def Dec.lt (a b : Dec) : Bool := a.m * (10 : Int) ^ b.e < b.m * (10 : Int) ^ a.e

/-! ### converters -/

inductive Conv where
  /-- `UnicodeConverter(minlength, maxlength, length)` (`string`, `default`) -/
  | string (min : Nat) (max : Option Nat) (len : Option Nat)
  /-- `IntegerConverter(fixed_digits, signed, min, max)` -/
  | int (fixed : Nat) (signed : Bool) (min max : Option Int)
  /-- `FloatConverter(signed, min, max)` -/
  | float (signed : Bool) (min max : Option Dec)
  /-- `AnyConverter(*items)` -/
  | any (items : List Str)
  | uuid
  | path
deriving DecidableEq, Repr

/-- what the regex of a converter depends on -/
inductive RKind where
  | strLen (n : Nat)
  | strRange (min : Nat) (max : Option Nat)
  | digits (signed : Bool)
  | decimal (signed : Bool)
  | anyOf (items : List Str)
  | uuid
  | path
deriving DecidableEq, Repr

def Conv.kind : Conv → RKind
  | .string _ _ (some n) => .strLen n
  | .string mn mx none => .strRange mn mx
  | .int _ s _ _ => .digits s
  | .float s _ _ => .decimal s
  | .any items => .anyOf items
  | .uuid => .uuid
  | .path => .path

/-- `BaseConverter.weight` per class -/
def Conv.weight : Conv → Nat
  | .string .. => 100
  | .any _ => 100
  | .uuid => 100
  | .int .. => 50
  | .float .. => 50
  | .path => 200

/-- `BaseConverter.part_isolating` per class -/
def Conv.partIsolating : Conv → Bool
  | .path => false
  | _ => true

/-- name under which the class is registered in `DEFAULT_CONVERTERS` -/
def Conv.className : Conv → String
  | .string .. => "string"
  | .any _ => "any"
  | .uuid => "uuid"
  | .int .. => "int"
  | .float .. => "float"
  | .path => "path"

/-- class-level `regex` attribute -/
def classRegex : String → String
  | "string" => "[^/]+"
  | "default" => "[^/]+"
  | "any" => "[^/]+"
  | "path" => "[^/].*?"
  | "int" => "\\d+"
  | "float" => "\\d+\\.\\d+"
  | "uuid" => "[A-Fa-f0-9]{8}-[A-Fa-f0-9]{4}-[A-Fa-f0-9]{4}-[A-Fa-f0-9]{4}-[A-Fa-f0-9]{12}"
  | _ => ""

def reEscape (s : Str) : Str :=
  s.flatMap fun c => if Gen.Routing.reEscapeSpecial.contains c.toNat then ['\\', c] else [c]

/-- the instance attribute `regex` as text (what ends up in `RulePart.content`) -/
def Conv.regexText : Conv → String
  | .string _ _ (some n) => "[^/]{" ++ toString n ++ "}"
  | .string mn mx none => "[^/]{" ++ toString mn ++ "," ++ (match mx with | some m => toString m | none => "") ++ "}"
  | .int _ s _ _ => (if s then "-?" else "") ++ classRegex "int"
  | .float s _ _ => (if s then "-?" else "") ++ classRegex "float"
  | .any items => "(?:" ++ "|".intercalate (items.map fun i => String.ofList (reEscape i)) ++ ")"
  | .uuid => classRegex "uuid"
  | .path => classRegex "path"

def allDigits (s : Str) : Bool := !s.isEmpty && s.all isDigit

def unsign (signed : Bool) (s : Str) : Str :=
  match signed, s with
  | true, '-' :: t => t
  | _, _ => s

def uuidShape : List Nat := [8, 4, 4, 4, 12]

def hexGroups : List Nat → Str → Bool
  | [], _ => false
  | [n], s => s.length == n && s.all isHex
  | n :: ns, s => (s.take n).length == n && (s.take n).all isHex && (s.drop n).head? == some '-' && hexGroups ns (s.drop (n + 1))

/-- direct recogniser of the language of the converter's regex (full match) -/
def RKind.accepts : RKind → Str → Bool
  | .strLen n, s => s.length == n && s.all (· != '/')
  | .strRange mn mx, s => mn ≤ s.length && (match mx with | some m => s.length ≤ m | none => true) && s.all (· != '/')
  | .digits sg, s => allDigits (unsign sg s)
  | .decimal sg, s =>
    let u := unsign sg s
    let a := u.takeWhile (· != '.')
    match u.dropWhile (· != '.') with
    | _ :: b => allDigits a && allDigits b
    | [] => false
  | .anyOf items, s => if items.isEmpty then s.isEmpty else items.contains s
  | .uuid, s => hexGroups uuidShape s
  | .path, s =>
    match s with
    | [] => false
    | c :: t => c != '/' && t.all (fun d => !Gen.Routing.dotRejects.contains d.toNat)

def regexAccepts (c : Conv) (s : Str) : Bool := c.kind.accepts s

/-! ### values -/

inductive Value where
  | str (s : Str)
  | int (i : Int)
  /-- a float as positional decimal text with ASCII digits, e.g. `-1.50` -/
  | float (t : Str)
  /-- canonical (lower-case, hyphenated) UUID text -/
  | uuid (t : Str)
deriving DecidableEq, Repr

def intOfText (s : Str) : Int :=
  match s with
  | '-' :: t => -(digitsVal t : Int)
  | _ => (digitsVal s : Int)

/-- decimal text `[-]ddd.ddd` to `Dec` -/
def decOfText (s : Str) : Dec :=
  let neg := s.head? == some '-'
  let u := if neg then s.drop 1 else s
  let a := u.takeWhile (· != '.')
  let b := (u.dropWhile (· != '.')).drop 1
  let n : Int := digitsVal (a ++ b)
  ⟨if neg then -n else n, b.length⟩

def asciiNum (s : Str) : Str := s.map fun c => if isDigit c then asciiDigit c else c

/-- `repr(float(text))` for positional decimal text `[-]d+.d+` with ASCII digits, in the range where
Python prints floats positionally and exactly (at most 15 significant digits, 1e-4 <= |x| < 1e16 or 0):
leading zeros of the integer part and trailing zeros of the fraction are dropped. Python's
float <-> text conversion itself is not modelled (correspondence-tested). -/
def normFloat (s : Str) : Str :=
  let neg := s.head? == some '-'
  let u := if neg then s.drop 1 else s
  let a := (u.takeWhile (· != '.')).dropWhile (· == '0')
  let b := rstripChar '0' ((u.dropWhile (· != '.')).drop 1)
  (if neg then ['-'] else []) ++ (if a.isEmpty then ['0'] else a) ++ '.' :: (if b.isEmpty then ['0'] else b)

/-- `to_python`; `none` = `ValidationError` (the rule then does not match) -/
def toPython : Conv → Str → Option Value
  | .string .., s => some (.str s)
  | .any _, s => some (.str s)
  | .path, s => some (.str s)
  | .uuid, s => some (.uuid (s.map lowerHex))
  | .int fixed _ mn mx, s =>
    if fixed ≠ 0 ∧ s.length ≠ fixed then none
    else
      let v := intOfText s
      if (match mn with | some m => v < m | none => false) || (match mx with | some m => v > m | none => false)
      then none else some (.int v)
  | .float _ mn mx, s =>
    let v := decOfText s
    if (match mn with | some m => v.lt m | none => false) || (match mx with | some m => m.lt v | none => false)
    then none else some (.float (normFloat (asciiNum s)))

end Wz.Routing
