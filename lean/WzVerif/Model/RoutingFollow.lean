/-
Routing, part 6: following the router's own redirects (C12) — `urllib.parse.unquote`, reading a
redirect URL back into (path_info, query string) the way a client + WSGI server would, and the
hop loop.
-/
import WzVerif.Model.RoutingAdapter
import WzVerif.Util.Py
namespace Wz.Routing

def hexNibble? (c : Char) : Option Nat :=
  if '0' ≤ c ∧ c ≤ '9' then some (c.toNat - 48)
  else if 'a' ≤ c ∧ c ≤ 'f' then some (c.toNat - 87)
  else if 'A' ≤ c ∧ c ≤ 'F' then some (c.toNat - 55)
  else none

/-- `urllib.parse.unquote_to_bytes` on the UTF-8 bytes of the text -/
def unquoteBytes : List UInt8 → List UInt8
  | 37 :: a :: b :: t =>
    match hexNibble? (Char.ofNat a.toNat), hexNibble? (Char.ofNat b.toNat) with
    | some x, some y => UInt8.ofNat (16 * x + y) :: unquoteBytes t
    | _, _ => 37 :: unquoteBytes (a :: b :: t)
  | c :: t => c :: unquoteBytes t
  | [] => []

/-- `urllib.parse.unquote(s)` (UTF-8, errors='replace') -/
def unquote (s : Str) : Str := Py.decodeReplace (unquoteBytes (utf8Enc s))

/-- scheme, host and script root a redirect must stay on -/
def boundPrefix (hostMatching : Bool) (a : Adapter) (domainPart : Option Str) : Str :=
  (if a.urlScheme.isEmpty then "http".toList else a.urlScheme) ++ "://".toList ++ getHost hostMatching a domainPart

/-- script root as it appears in URLs: `/` or `/app/` -/
def scriptRoot (a : Adapter) : Str :=
  let s := stripChar '/' a.scriptName
  if s.isEmpty then ['/'] else '/' :: s ++ ['/']

/-- read a redirect URL issued for the bound adapter back into (path_info, query); `none` when the URL
is not on the bound scheme / host / script root or the path continues with a second slash -/
def readRedirect (hostMatching : Bool) (a : Adapter) (url : Str) : Option (Str × Str) :=
  match stripPrefix? (boundPrefix hostMatching a none) url with
  | none => none
  | some rest =>
    let path := rest.takeWhile (· != '?')
    let query := (rest.dropWhile (· != '?')).drop 1
    match stripPrefix? (scriptRoot a) path with
    | none => none
    | some p => if p.head? == some '/' then none else some ('/' :: unquote p, query)

/-- follow router redirects: the outcomes of at most `fuel` matches -/
def follow (m : RMap) (a : Adapter) (method : Option Str) (ws : Option Bool) :
    Nat → Str → QueryArgs → List Outcome → List Outcome × Option String
  | 0, _, _, acc => (acc.reverse, some "TOOMANY")
  | fuel + 1, path, qa, acc =>
    let o := matchAdapter m a path method qa ws
    match o with
    | .redirect url =>
      match readRedirect m.cfg.hostMatching a url with
      | none => ((o :: acc).reverse, some "OFFHOST")
      | some (p, q) => follow m a method ws fuel p (.text q) (o :: acc)
    | _ => ((o :: acc).reverse, none)

end Wz.Routing
