/-
Model of `posixpath.normpath / join / isabs` (CPython 3.12, str paths), of
`werkzeug.security.safe_join` and of the ASCII stage of `werkzeug.utils.secure_filename`.

Generated (`Gen.Paths`): `_os_alt_seps`, `os.sep/altsep`, the `_filename_ascii_strip_re` class
evaluated on every code point, the `.strip("._")` / `"_".join` literals, `str.isspace`.
Hand-modelled and validated by the streams `normpath-kernel`, `safe-join`, `secure-filename`:
the control flow of normpath / join / safe_join / secure_filename.
Opaque: `unicodedata.normalize("NFKD", ·)` (a parameter of `secureFilename`).
Core Lean only.
-/
import WzVerif.Gen.Paths
namespace Wz.Paths

abbrev Str := List Char

def sep : Char := '/'
def dot : Str := ['.']
def dotdot : Str := ['.', '.']

/-! ### `str.split("/")` -/

/-- (first component, remaining components) of `s.split("/")` -/
def splitAux : Str → Str × List Str
  | [] => ([], [])
  | c :: t =>
    let r := splitAux t
    if c = sep then ([], r.1 :: r.2) else (c :: r.1, r.2)

/-- `s.split("/")` (never empty) -/
def splitSep (s : Str) : List Str := (splitAux s).1 :: (splitAux s).2

/-- `"/".join(comps)` -/
def joinSep : List Str → Str
  | [] => []
  | [c] => c
  | c :: t => c ++ sep :: joinSep t

/-! ### `posixpath.normpath` -/

/-- number of leading slashes -/
def lead : Str → Nat
  | [] => 0
  | c :: t => if c = sep then lead t + 1 else 0

/-- normpath's `initial_slashes`: 0, 1, or 2 (exactly two leading slashes; three or more count as one) -/
def initialSlashes (s : Str) : Nat :=
  match lead s with
  | 0 => 0
  | 2 => 2
  | _ => 1

/-- one iteration of normpath's loop; `stk` is `new_comps` reversed (top of stack first) -/
def step (abs : Bool) (stk : List Str) (comp : Str) : List Str :=
  if comp = [] ∨ comp = dot then stk
  else if comp ≠ dotdot ∨ (abs = false ∧ stk = []) ∨ stk.head? = some dotdot then comp :: stk
  else stk.tail

/-- `new_comps` after the loop -/
def normComps (abs : Bool) (comps : List Str) : List Str := (comps.foldl (step abs) []).reverse

/-- the components normpath keeps for `path` (before re-joining) -/
def normSegs (path : Str) : List Str := normComps (initialSlashes path != 0) (splitSep path)

/-- `posixpath.normpath(path)` -/
def normpath (path : Str) : Str :=
  if path = [] then dot
  else
    let p := List.replicate (initialSlashes path) sep ++ joinSep (normSegs path)
    if p = [] then dot else p

/-- `posixpath.isabs` -/
def isabs (s : Str) : Bool := s.head? = some sep

/-- one iteration of `posixpath.join`'s loop -/
def joinStep (path b : Str) : Str :=
  if b.head? = some sep then b
  else if path = [] ∨ path.getLast? = some sep then path ++ b
  else path ++ sep :: b

/-- `posixpath.join(a, *p)` -/
def join (a : Str) (p : List Str) : Str := p.foldl joinStep a

/-! ### `werkzeug.security.safe_join` -/

/-- `sub in s` for a one-character `sub` -/
def hasChar (c : Char) (s : Str) : Bool := s.contains c

/-- the per-component check of `safe_join`: the (normalised) component, or `none` = refuse -/
def checkComp (alts : List Char) (f : Str) : Option Str :=
  let f := if f = [] then f else normpath f
  if alts.any (hasChar · f) || isabs f || f.head? = some sep || f = dotdot
      || (['.', '.', '/'] : Str).isPrefixOf f
  then none else some f

/-- the loop of `safe_join` over the untrusted components: first refusal wins -/
def checkAll (alts : List Char) : List Str → Option (List Str)
  | [] => some []
  | f :: t =>
    match checkComp alts f with
    | none => none
    | some f' => (checkAll alts t).map (f' :: ·)

/-- `safe_join(directory, *pathnames)` with the alternative separators as a parameter -/
def safeJoinWith (alts : List Char) (d : Str) (ps : List Str) : Option Str :=
  let d := if d = [] then dot else d
  (checkAll alts ps).map (join d)

/-- `safe_join` on this platform (`_os_alt_seps` as generated) -/
def safeJoin (d : Str) (ps : List Str) : Option Str := safeJoinWith Gen.Paths.osAltSeps d ps

/-- segments of a path text: the non-empty, non-`.` components of `s.split("/")` -/
def segments (s : Str) : List Str := (splitSep s).filter fun c => !(c == [] || c == dot)

/-! ### `werkzeug.utils.secure_filename` after the Unicode fold -/

def tbl (t : List Bool) (n : Nat) : Bool := t.getD n false

/-- `str.isspace` -/
def isSpace (c : Char) : Bool := Gen.Paths.pySpaces.contains c.toNat

/-- does `_filename_ascii_strip_re` remove `c`? -/
def stripped (c : Char) : Bool :=
  if c.toNat < 128 then tbl Gen.Paths.stripRe c.toNat else Gen.Paths.stripReHigh

/-- `str.split()` (whitespace split without empty words); `cur` is the current word reversed -/
def wordsAux : Str → Str → List Str
  | [], cur => if cur = [] then [] else [cur.reverse]
  | c :: t, cur =>
    if isSpace c then (if cur = [] then wordsAux t [] else cur.reverse :: wordsAux t [])
    else wordsAux t (c :: cur)

def pyWords (s : Str) : List Str := wordsAux s []

/-- `sep.join(words)` for an arbitrary separator text -/
def joinWith (j : Str) : List Str → Str
  | [] => []
  | [w] => w
  | w :: t => w ++ j ++ joinWith j t

/-- `str.strip(chars)` -/
def stripOf (chars : Str) (s : Str) : Str :=
  ((s.dropWhile (chars.contains ·)).reverse.dropWhile (chars.contains ·)).reverse

/-- `for sep in os.sep, os.path.altsep: filename = filename.replace(sep, " ")` -/
def replaceSeps (s : Str) : Str := s.map fun c => if Gen.Paths.osSeps.contains c then ' ' else c

/-- `secure_filename` from the point where the name is ASCII (after NFKD + ascii/ignore);
the `os.name == "nt"` device-file branch is not modelled: `Gen.Paths.osNameNt = false` is a checked
obligation (Props/C14 `windows_branch_dead`). -/
def secureAscii (s : Str) : Str :=
  stripOf Gen.Paths.stripChars
    ((joinWith Gen.Paths.joinChars (pyWords (replaceSeps s))).filter fun c => !stripped c)

/-- `.encode("ascii", "ignore").decode("ascii")` -/
def asciiIgnore (s : Str) : Str := s.filter fun c => c.toNat < 128

/-- `secure_filename` with the NFKD normalisation as an opaque parameter -/
def secureFilename (nfkd : Str → Str) (s : Str) : Str := secureAscii (asciiIgnore (nfkd s))

/-! ### the platform parameters of `secure_filename`: separators and the Windows device-file branch

`secureAsciiWith seps nt` is `secure_filename` after the Unicode fold with `os.sep / os.path.altsep`
(`seps`) and `os.name == "nt"` (`nt`) as parameters; `secureAscii` is its instance for the generating
platform (`secureAsciiWith_here`, Lemmas/PathsNt.lean). -/

/-- `str.upper()` on one ASCII character (table `Gen.Paths.upperAscii`); other characters unchanged -/
def upperChar (c : Char) : Char :=
  if 'a'.toNat ≤ c.toNat ∧ c.toNat ≤ 'z'.toNat then Char.ofNat (c.toNat - 32) else c

/-- `filename.split(".")[0]` -/
def beforeDot (s : Str) : Str := s.takeWhile (· != '.')

/-- `filename.split(".")[0].upper() in _windows_device_files` -/
def isDevice (s : Str) : Bool :=
  Gen.Paths.windowsDeviceFiles.any fun d => d.toList == (beforeDot s).map upperChar

/-- `for sep in os.sep, os.path.altsep: if sep: filename = filename.replace(sep, " ")` -/
def replaceSepsWith (seps : List Char) (s : Str) : Str :=
  s.map fun c => if seps.contains c then ' ' else c

/-- `secure_filename` up to (not including) the device-file branch -/
def secureBase (seps : List Char) (s : Str) : Str :=
  stripOf Gen.Paths.stripChars
    ((joinWith Gen.Paths.joinChars (pyWords (replaceSepsWith seps s))).filter fun c => !stripped c)

/-- `secure_filename` from the point where the name is ASCII, for any platform: `seps` = the truthy
ones of `os.sep, os.path.altsep`; `nt` = `os.name == "nt"` -/
def secureAsciiWith (seps : List Char) (nt : Bool) (s : Str) : Str :=
  let r := secureBase seps s
  if nt && !r.isEmpty && isDevice r then '_' :: r else r

/-- `secure_filename` for any platform with the NFKD normalisation as an opaque parameter -/
def secureFilenameWith (seps : List Char) (nt : Bool) (nfkd : Str → Str) (s : Str) : Str :=
  secureAsciiWith seps nt (asciiIgnore (nfkd s))

/-- `posixpath.basename` (what follows the last `/`) -/
def basename (p : Str) : Str := (splitSep p).getLastD []

end Wz.Paths

namespace Wz.Paths
/-- alias: the ASCII stage of `secure_filename` under the name used in DESIGN.md -/
abbrev secureFilenameAscii (s : Str) : Str := secureAscii s
end Wz.Paths
