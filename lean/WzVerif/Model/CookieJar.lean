/-
Model of the test client's cookie jar (`werkzeug.test`): `Cookie._from_response_header`,
`Cookie._matches_request`, `Cookie._should_delete`, `Cookie._storage_key`,
`Client._update_cookies_from_response`, `Client._add_cookies_to_wsgi`,
`Client.set_cookie` / `delete_cookie` / `get_cookie`.

The jar is an insertion-ordered association list (a Python `dict`): assignment to an existing key
keeps its position, `pop` removes it. Opaque: `uri_to_iri` on the Path attribute and `parse_date`
on the Expires attribute (fields of `Lib`); the request's server name and path arrive as the
strings `urlsplit(get_current_url(environ))` yields (computed by the harness with the same calls).
`str.lower()` is modelled on ASCII letters (the seven attribute names looked up contain no
character that a non-ASCII letter lower-cases to); `int()` on sign + decimal digits of any script
(table of the live interpreter's Nd runs, `Gen.Cookie.decimalZeros`) with single underscores.
-/
import WzVerif.Model.CookieAttrs
namespace Wz.Cookie
open Wz

/-- `s.partition(sep)`: (before, separator found?, after) -/
def partitionAt (sep : Char) (s : Str) : Str × Bool × Str :=
  match s.dropWhile (· != sep) with
  | [] => (s, false, [])
  | _ :: rest => (s.takeWhile (· != sep), true, rest)

/-- `s.rpartition("/")[0]` -/
def rpartitionHead (sep : Char) (s : Str) : Str :=
  match (s.reverse.dropWhile (· != sep)) with
  | [] => []
  | _ :: revHead => revHead.reverse

def lowerAscii (s : Str) : Str := s.map fun c => if 'A' ≤ c ∧ c ≤ 'Z' then Char.ofNat (c.toNat + 32) else c

/-- the `for item in parameters_str.split(";")` loop: (lower-cased stripped name, stripped value or
`None` when the item has no `=`), in order (a later duplicate wins, see `paramGet`) -/
def parseItem (item : Str) : Str × Option Str :=
  let (k, sep, v) := partitionAt '=' item
  (lowerAscii (Py.strip k), if sep then some (Py.strip v) else none)

def parseParams (s : Str) : List (Str × Option Str) := (splitOn ';' s).map parseItem

/-- dict lookup after the loop: `none` = key absent, `some none` = present with value `None` -/
def paramGet (ps : List (Str × Option Str)) (k : String) : Option (Option Str) :=
  (ps.reverse.find? (fun p => p.1 == k.toList)).map (·.2)

/-- `params.get(k)` as a truthy string (`None` and `""` are both falsy) -/
def paramTruthy (ps : List (Str × Option Str)) (k : String) : Option Str :=
  match paramGet ps k with
  | some (some v) => if v.isEmpty then none else some v
  | _ => none

/-- value of a run of ASCII digits -/
def digitsVal (ds : Str) : Nat := Nat.ofDigitChars 10 ds 0

/-- digit groups separated by single underscores -/
def intBody : Str → Bool → Option Str
  | [], prevDigit => if prevDigit then some [] else none
  | c :: t, prevDigit =>
    if c.isDigit then (intBody t true).map (c :: ·)
    else if c == '_' && prevDigit then (match t with
      | d :: _ => if d.isDigit then intBody t false else none
      | [] => none)
    else none

/-- `int(text)` for stripped ASCII text; `none` = ValueError -/
def pyIntAscii (s : Str) : Option Int :=
  match s with
  | '-' :: r => (intBody r false).map fun ds => - (digitsVal ds : Int)
  | '+' :: r => (intBody r false).map fun ds => (digitsVal ds : Int)
  | r => (intBody r false).map fun ds => (digitsVal ds : Int)

/-- what `int()` does to one character before parsing (CPython
`_PyUnicode_TransformDecimalAndSpaceToASCII`): every Unicode decimal digit (category Nd; they come
in runs of ten starting at the DIGIT ZEROs of `Gen.Cookie.decimalZeros`, regenerated from the live
interpreter) becomes the ASCII digit of its value; everything else is left alone (and is then no
digit: `Char.isDigit` is ASCII-only) -/
def asciiDigit (c : Char) : Char :=
  if c.toNat < 128 then c
  else match Gen.Cookie.decimalZeros.find? (fun z => z ≤ c.toNat && c.toNat ≤ z + 9) with
    | some z => Char.ofNat (48 + (c.toNat - z))
    | none => c

/-- `int(text)` for stripped text: optional sign, decimal digits of any script, single underscores
between digits; `none` = ValueError -/
def pyInt (s : Str) : Option Int := pyIntAscii (s.map asciiDigit)

structure JarCookie where
  key : Str
  value : Str
  decodedKey : Str
  decodedValue : Str
  expires : Option Int
  maxAge : Option Int
  domain : Str
  originOnly : Bool
  path : Str
  secure : Bool
  httpOnly : Bool
  sameSite : Option Str
  deriving Repr, BEq, DecidableEq

/-- `path.rpartition("/")[0] or "/"` -/
def defaultPath (reqPath : Str) : Str :=
  let h := rpartitionHead '/' reqPath
  if h.isEmpty then ['/'] else h

/-- `Cookie._from_response_header(server_name, path, header)` -/
def fromResponseHeader (lib : Lib) (serverName reqPath header : Str) : Except String JarCookie :=
  let (pair, _, paramStr) := partitionAt ';' header
  let (key, _, value) := partitionAt '=' pair
  -- `werkzeug.http.parse_cookie(pair)` (environ level: latin-1 dance); MultiDict.items() yields the
  -- first value of each key, `next` the first of those
  match parseCookieEnviron pair with
  | none => .error "UnicodeEncodeError"
  | some [] => .error "StopIteration"
  | some ((dk, dv) :: _) =>
    let ps := parseParams paramStr
    let pathParam := (paramTruthy ps "path").map lib.iri
    let expires := match paramGet ps "expires" with
      | some (some v) => lib.parseDate v
      | _ => none
    let maxAge : Except String (Option Int) := match paramGet ps "max-age" with
      | none => .ok none
      | some none => .ok (some 0)
      | some (some v) => if v.isEmpty then .ok (some 0) else
          match pyInt v with
          | some i => .ok (some i)
          | none => .error "ValueError"
    match maxAge with
    | .error e => .error e
    | .ok ma =>
      .ok { key := Py.strip key, value := Py.strip value, decodedKey := dk, decodedValue := dv,
            expires := expires, maxAge := ma,
            domain := (paramTruthy ps "domain").getD serverName,
            originOnly := (paramGet ps "domain").isNone,
            path := match pathParam with
              | some p => if p.isEmpty then defaultPath reqPath else p
              | none => defaultPath reqPath,
            secure := (paramGet ps "secure").isSome,
            httpOnly := (paramGet ps "httponly").isSome,
            sameSite := (paramGet ps "samesite").bind id }

/-- `Cookie._should_delete` -/
def shouldDelete (maxAge expires : Option Int) : Bool := maxAge == some 0 || expires == some 0

def JarCookie.shouldDelete (c : JarCookie) : Bool := Cookie.shouldDelete c.maxAge c.expires

/-- `Cookie._storage_key` -/
def JarCookie.storageKey (c : JarCookie) : Str × Str × Str := (c.domain, c.path, c.decodedKey)

def endsWith (s suffix : Str) : Bool := suffix.reverse.isPrefixOf s.reverse

/-- the domain half of `Cookie._matches_request` -/
def domainMatch (cdomain : Str) (originOnly : Bool) (serverName : Str) : Bool :=
  serverName == cdomain ||
    (!originOnly && endsWith serverName cdomain &&
      -- `server_name[: -len(domain)]`; for an empty domain `[:-0]` is the empty string
      endsWith (if cdomain.isEmpty then [] else serverName.take (serverName.length - cdomain.length)) ['.'])

/-- the path half of `Cookie._matches_request` -/
def pathMatch (cpath reqPath : Str) : Bool :=
  reqPath == cpath ||
    (cpath.isPrefixOf reqPath &&
      (reqPath.drop (cpath.length - (if endsWith cpath ['/'] then 1 else 0))).head? == some '/')

def JarCookie.matchesRequest (c : JarCookie) (serverName reqPath : Str) : Bool :=
  domainMatch c.domain c.originOnly serverName && pathMatch c.path reqPath

abbrev Jar := List ((Str × Str × Str) × JarCookie)

/-- `dict.pop(key, None)` -/
def Jar.pop (j : Jar) (k : Str × Str × Str) : Jar := j.filter (fun e => e.1 != k)

/-- `dict[key] = cookie` -/
def Jar.store (j : Jar) (c : JarCookie) : Jar :=
  if j.any (fun e => e.1 == c.storageKey) then
    j.map (fun e => if e.1 == c.storageKey then (e.1, c) else e)
  else j ++ [(c.storageKey, c)]

/-- the body of the loop in `_update_cookies_from_response` (and the tail of `Client.set_cookie`) -/
def Jar.put (j : Jar) (c : JarCookie) : Jar :=
  if c.shouldDelete then j.pop c.storageKey else j.store c

/-- `Client._update_cookies_from_response(server_name, path, headers)`; an exception from one header
aborts the loop (the earlier headers stay applied) -/
def Jar.update (lib : Lib) (j : Jar) (serverName reqPath : Str) : List Str → Jar × Option String
  | [] => (j, none)
  | h :: t =>
    match fromResponseHeader lib serverName reqPath h with
    | .error e => (j, some e)
    | .ok c => Jar.update lib (j.put c) serverName reqPath t

/-- the cookies `_add_cookies_to_wsgi` selects, in dict order -/
def Jar.matching (j : Jar) (serverName reqPath : Str) : List JarCookie :=
  (j.map (·.2)).filter (fun c => c.matchesRequest serverName reqPath)

/-- `"; ".join(c._to_request_header() ...)`; `none` = the `HTTP_COOKIE` key is removed -/
def Jar.cookieHeader (j : Jar) (serverName reqPath : Str) : Option Str :=
  let v := jarText ((j.matching serverName reqPath).map fun c => (c.key, c.value))
  if v.isEmpty then none else some v

/-- `Request.cookies` for the request the client sends: `sansio.http.parse_cookie` of the `Cookie`
header (`Request.cookies` joins `headers.getlist("Cookie")` and calls the sans-io parser) -/
def Jar.requestCookies (j : Jar) (serverName reqPath : Str) : List (Str × Str) :=
  match j.cookieHeader serverName reqPath with
  | none => []
  | some h => parseCookie h

/-- `Client.set_cookie(key, value, domain=, origin_only=, path=, **kwargs)`: the remaining keyword
arguments go to `dump_cookie` -/
def clientSetCookie (lib : Lib) (j : Jar) (domain : Str) (originOnly : Bool) (path : Str) (a : DumpArgs) :
    Except String Jar :=
  match dumpCookieFull lib { a with domain := some domain, path := some path } with
  | .error e => .error e
  | .ok (h, _) =>
    match fromResponseHeader lib domain ['/'] h with
    | .error e => .error e
    | .ok c => .ok (j.put { c with originOnly := originOnly })

/-- `Client.delete_cookie(key, domain=, path=)` -/
def clientDeleteCookie (j : Jar) (key domain path : Str) : Jar := j.pop (domain, path, key)

/-- `Client.get_cookie(key, domain, path)` -/
def clientGetCookie (j : Jar) (key domain path : Str) : Option JarCookie :=
  (j.find? (fun e => e.1 == (domain, path, key))).map (·.2)

/-! ### histories -/

/-- one thing that can happen to a client's jar -/
inductive JarStep where
  /-- a response to a request for `path` on `server` arrives with these `Set-Cookie` headers -/
  | response (server path : Str) (headers : List Str)
  /-- `Client.set_cookie(...)` -/
  | clientSet (domain : Str) (originOnly : Bool) (path : Str) (a : DumpArgs)
  /-- `Client.delete_cookie(key, domain=, path=)` -/
  | clientDelete (key domain path : Str)

def Jar.step (lib : Lib) (j : Jar) : JarStep → Jar
  | .response s p hs => (j.update lib s p hs).1
  | .clientSet d oo p a =>
    match clientSetCookie lib j d oo p a with
    | .ok j' => j'
    | .error _ => j
  | .clientDelete k d p => clientDeleteCookie j k d p

/-- the jar after a whole history, starting empty -/
def Jar.run (lib : Lib) (steps : List JarStep) : Jar := steps.foldl (Jar.step lib) []

/-! ### `MultiDict` view of `Request.cookies` -/

/-- `request.cookies[k]` / `.get(k)`: the first value stored under the name -/
def cookiesGet (l : List (Str × Str)) (k : Str) : Option Str := (l.find? (·.1 == k)).map (·.2)

/-- `request.cookies.getlist(k)`: every value stored under the name, in header order -/
def cookiesGetList (l : List (Str × Str)) (k : Str) : List Str := (l.filter (·.1 == k)).map (·.2)

end Wz.Cookie
