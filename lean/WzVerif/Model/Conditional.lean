/-
Model of conditional and range responses (property C11):
`werkzeug.sansio.http.is_resource_modified`, `werkzeug.http.{parse_etags, unquote_etag,
parse_if_range_header, parse_range_header, is_byte_range_valid}`, `datastructures.range.Range`
(`range_for_length`, `to_content_range_header`), `wrappers.response.Response`
(`_is_range_request_processable`, `_process_range_request`, `make_conditional`, the body choice of
`get_app_iter`) and `wsgi._RangeWrapper`, all as repaired by f11af11 / 3e1f661 / 64fcb6a / 84dd3fe / a63ec67 / 9be10e4.

`parse_date`: the decision functions take parsed instants (any origin; the harness supplies epoch
seconds for arbitrary date notations); for IMF-fixdate text (`http_date` output) the text-level
wrappers `mkReqText` / `mkRespText` use C06's `Date.parseDate` (instants counted from 0001-01-01),
so nothing is opaque on that layout. Opaque otherwise (validated by the streams, not verified): `str.lower()` (ASCII only), the file
object behind a `FileWrapper` (modelled as "blocks of at most `buffer_size` bytes, never empty").
Own small parsers for etags / ranges (C06's codec model is not used).
-/
import WzVerif.Util.Py
import WzVerif.Model.Date
namespace Wz.Cond
open Wz

abbrev Str := List Char

/-! ## entity tags -/

/-- `ETags`: the two frozensets as lists (only membership is ever asked). Elements are optional
strings for historical reasons (before a63ec67 `parse_etags` stored `None` for the tag `""`);
`parseEtags` now only produces `some`. -/
structure ETags where
  strong : List (Option Str)
  weak : List (Option Str)
  star : Bool
deriving Repr, DecidableEq

def ETags.empty : ETags := ⟨[], [], false⟩

/-- `bool(etags)` -/
def ETags.truthy (e : ETags) : Bool := e.star || !e.strong.isEmpty || !e.weak.isEmpty

/-- `contains`: strong comparison, honouring `*` -/
def ETags.contains (e : ETags) (t : Str) : Bool := e.star || e.strong.contains (some t)

/-- `contains_weak` -/
def ETags.containsWeak (e : ETags) (t : Str) : Bool := e.weak.contains (some t) || e.contains t

/-- `(?:\s*,\s*|$)` at the current position: the rest after the delimiter -/
def etagDelim (s : Str) : Option Str :=
  if s.isEmpty then some []
  else
    match s.dropWhile Py.isSpace with
    | ',' :: t => some (t.dropWhile Py.isSpace)
    | _ => none

/-- `"(.*?)"` followed by the delimiter, after the opening quote: lazily the first closing quote
that is followed by a delimiter -/
def quotedTag : Str → Str → Option (Str × Str)
  | [], _ => none
  | c :: t, acc =>
    if c == '"' then
      match etagDelim t with
      | some r => some (acc.reverse, r)
      | none => quotedTag t (c :: acc)
    else if c == '\n' then none
    else quotedTag t (c :: acc)

/-- `(.*?)` followed by the delimiter -/
def rawTag : Str → Str → Option (Str × Str)
  | [], acc => some (acc.reverse, [])
  | c :: t, acc =>
    match etagDelim (c :: t) with
    | some r => some (acc.reverse, r)
    | none => if c == '\n' then none else rawTag t (c :: acc)

/-- group 1 of `_etag_re`: the optional `[Ww]/` -/
def weakPrefix : Str → Bool × Str
  | 'W' :: '/' :: t => (true, t)
  | 'w' :: '/' :: t => (true, t)
  | s => (false, s)

/-- group 2 of `_etag_re`: the alternative `"(.*?)"` (tried first) -/
def quotedAt : Str → Option (Str × Str)
  | '"' :: t => quotedTag t []
  | _ => none

/-- one `_etag_re.match(value, pos)` and the branch on its groups: `(tag, is the wildcard, rest)`.
The wildcard test `raw == "*"` looks at group 3 only, so a *quoted* `"*"` is an ordinary tag
(`elif quoted is not None`, a63ec67). -/
def etagMatch (body : Str) : Option (Option Str × Bool × Str) :=
  match quotedAt body with
  | some (tag, rest) => some (some tag, false, rest)
  | none =>
    match rawTag body [] with
    | some (tag, rest) => some (some tag, tag == ['*'], rest)
    | none => none

/-- the `while pos < end` loop of `parse_etags` -/
def parseEtagsLoop : Nat → Str → List (Option Str) → List (Option Str) → ETags
  | 0, _, st, wk => ⟨st.reverse, wk.reverse, false⟩
  | fuel + 1, s, st, wk =>
    if s.isEmpty then ⟨st.reverse, wk.reverse, false⟩
    else
      match etagMatch (weakPrefix s).2 with
      | none => ⟨st.reverse, wk.reverse, false⟩
      | some (raw, isStar, rest) =>
        if isStar then ⟨[], [], true⟩
        else if (weakPrefix s).1 then parseEtagsLoop fuel rest st (raw :: wk)
        else parseEtagsLoop fuel rest (raw :: st) wk

/-- `parse_etags(value)` (header text without line feeds) -/
def parseEtags (value : Option Str) : ETags :=
  match value with
  | none => ETags.empty
  | some v => if v.isEmpty then ETags.empty else parseEtagsLoop (v.length + 1) v [] []

/-- `unquote_etag(etag)`; `none` = `(None, None)` -/
def unquoteEtag (s : Str) : Option (Str × Bool) :=
  if s.isEmpty then none
  else
    let e := Py.strip s
    let (weak, e) : Bool × Str :=
      match e with
      | 'W' :: '/' :: t => (true, t)
      | 'w' :: '/' :: t => (true, t)
      | _ => (false, e)
    let e := if e.head? == some '"' && e.getLast? == some '"' then (e.drop 1).dropLast else e
    some (e, weak)

/-! ## If-Range and the modification check -/

/-- `IfRange` object: at most one of etag / date -/
inductive IfRange where
  | none
  | date (d : Int)
  | etag (e : Str)
deriving Repr, DecidableEq

/-- `parse_if_range_header(value)`; `dateOf` = `parse_date(value)` as epoch seconds (opaque) -/
def parseIfRange (value : Option Str) (dateOf : Option Int) : IfRange :=
  match value with
  | none => .none
  | some v =>
    if v.isEmpty then .none
    else
      match dateOf with
      | some d => .date d
      | none =>
        match unquoteEtag v with
        | some (e, _) => .etag e
        | none => .none

/-- `value.lstrip().startswith(('"', 'W/"', 'w/"'))`: the value is spelled like an entity tag
(31f8ea0: such a value is never offered to `parse_date`, which would accept a quoted date) -/
def looksLikeEtag (value : Str) : Bool :=
  match value.dropWhile Py.isSpace with
  | '"' :: _ => true
  | 'W' :: '/' :: '"' :: _ => true
  | 'w' :: '/' :: '"' :: _ => true
  | _ => false

/-- `parse_if_range_header(value)` as the code calls it: `dateOf` = `parse_date(value)`, consulted
only when the value is not spelled like an entity tag. (`parseIfRange` itself keeps its meaning
"given this date"; Props/C11T relates it to the translated source.) -/
def parseIfRangeHeader (value : Option Str) (dateOf : Option Int) : IfRange :=
  parseIfRange value (if (value.map looksLikeEtag).getD false then none else dateOf)

/-- the request side of a conditional evaluation -/
structure CondReq where
  /-- `Range` header text -/
  range : Option Str := none
  /-- `If-Range` header text and its `parse_date` -/
  ifRange : Option Str := none
  ifRangeDate : Option Int := none
  /-- `parse_date(If-Modified-Since)` -/
  ims : Option Int := none
  /-- `If-None-Match`, `If-Match` header texts -/
  inm : Option Str := none
  im : Option Str := none

/-- `modified_since and last_modified and last_modified <= modified_since` on epoch seconds -/
def dateUnmodified (since lm : Option Int) : Bool :=
  match since, lm with
  | some ms, some l => decide (l ≤ ms)
  | _, _ => false

/-- `is_resource_modified(...)`. `etag` is the response's ETag header value (still quoted),
`lastModified` the response's instant as (epoch seconds, microseconds): the microseconds are
dropped (`replace(microsecond=0)`). -/
def isResourceModified (r : CondReq) (etag : Option Str) (lastModified : Option (Int × Nat))
    (ignoreIfRange : Bool) : Bool :=
  let lm : Option Int := lastModified.map (·.1)
  let ifr : Option IfRange :=
    if !ignoreIfRange && r.range.isSome then some (parseIfRangeHeader r.ifRange r.ifRangeDate) else none
  let modifiedSince : Option Int :=
    match ifr with
    | some (.date d) => some d
    | _ => r.ims
  let u0 : Bool := dateUnmodified modifiedSince lm
  let unmodified : Bool :=
    match etag with
    | none => u0
    | some et =>
      match unquoteEtag et with
      | none => u0                           -- `if etag:` is false for the empty string
      | some (e, _) =>
        match ifr with
        | some (.etag ie) => ie == e          -- `if_range.etag == etag` (9be10e4, repaired F11g)
        | _ =>
          let inm := parseEtags r.inm
          let u1 := if inm.truthy then inm.containsWeak e else u0
          let im := parseEtags r.im
          if im.truthy then !im.contains e else u1
  !unmodified

/-! ## Range header -/

def isDigitA (c : Char) : Bool := '0' ≤ c && c ≤ '9'

def digitsVal (ds : Str) : Nat := ds.foldl (fun n c => 10 * n + (c.toNat - 48)) 0

/-- `_plain_int(value)`; `none` = ValueError -/
def plainInt (s : Str) : Option Int :=
  let s := Py.strip s
  let neg : Bool := s.head? == some '-'
  let ds : Str := if neg then s.drop 1 else s
  if ds.isEmpty || !ds.all isDigitA then none
  else some (if neg then -(digitsVal ds : Int) else (digitsVal ds : Int))

/-- `Range` object: units and half-open `(begin, end)` pairs; `end = none` is open ended, a negative
`begin` with `end = none` is a suffix length -/
structure Range where
  units : Str
  ranges : List (Int × Option Int)
deriving Repr, DecidableEq

def splitOnChar (d : Char) : Str → Str → List Str
  | [], cur => [cur.reverse]
  | c :: t, cur => if c == d then cur.reverse :: splitOnChar d t [] else splitOnChar d t (c :: cur)

/-- the `for item in rng.split(",")` loop of `parse_range_header` -/
def parseRangeItems : List Str → Int → List (Int × Option Int) → Option (List (Int × Option Int))
  | [], _, acc => some acc.reverse
  | item :: rest, lastEnd, acc =>
    let item := Py.strip item
    if !item.contains '-' then none
    else if item.head? == some '-' then
      if lastEnd < 0 then none
      else
        match plainInt item with
        | none => none
        | some b =>
          if b == 0 then none           -- suffix length zero selects nothing (84dd3fe)
          else parseRangeItems rest (-1) ((b, none) :: acc)
    else
      let beginStr := Py.strip (item.takeWhile (· != '-'))
      let endStr := Py.strip ((item.dropWhile (· != '-')).drop 1)
      match plainInt beginStr with
      | none => none
      | some b =>
        if b < lastEnd || lastEnd < 0 then none
        else if !endStr.isEmpty then
          match plainInt endStr with
          | none => none
          | some e =>
            let e := e + 1
            if b ≥ e then none else parseRangeItems rest e ((b, some e) :: acc)
        else parseRangeItems rest (-1) ((b, none) :: acc)

def lowerA (s : Str) : Str := s.map Char.toLower

/-- `parse_range_header(value)` -/
def parseRangeHeader (value : Option Str) : Option Range :=
  match value with
  | none => none
  | some v =>
    if v.isEmpty || !v.contains '=' then none
    else
      let units := lowerA (Py.strip (v.takeWhile (· != '=')))
      let rng := (v.dropWhile (· != '=')).drop 1
      (parseRangeItems (splitOnChar ',' rng []) 0 []).map fun rs => ⟨units, rs⟩

/-- `is_byte_range_valid(start, stop, length)` -/
def isByteRangeValid (start stop length : Option Int) : Bool :=
  match start, stop with
  | none, none =>
    match length with
    | none => true
    | some l => decide (0 ≤ l)
  | some s, some e =>
    match length with
    | none => decide (0 ≤ s) && decide (s < e)
    | some l => if s ≥ e then false else decide (0 ≤ s) && decide (s < l)
  | _, _ => false

def bytesUnit : Str := ['b', 'y', 't', 'e', 's']

/-- `Range.range_for_length(length)` -/
def rangeForLength (r : Range) (length : Option Int) : Option (Int × Int) :=
  match length, r.ranges with
  | some l, [(start, end_)] =>
    if r.units != bytesUnit then none
    else
      let s : Int :=
        match end_ with
        | some _ => start
        | none => if start < 0 then start + l else start
      let e : Int :=
        match end_ with
        | some e => e
        | none => l
      if isByteRangeValid (some s) (some e) (some l) then some (s, min e l) else none
  | _, _ => none

/-! ## `_RangeWrapper` -/

/-- non-seekable `_first_iteration`: read chunks until `read_length > start_byte`; the result is the
tail of the last chunk that lies at or after `start_byte`, the remaining chunks and `read_length`.
`none`: the iterable ended first (StopIteration). -/
def rwFirst (start : Nat) : List Bytes → Nat → Option (Bytes × List Bytes × Nat)
  | [], _ => none
  | c :: cs, rl =>
    let rl' := rl + c.length
    if rl' ≤ start then rwFirst start cs rl'
    else some (c.drop (c.length - (rl' - start)), cs, rl')

/-- the iterations after the first chunk was produced: `read_length = rl`, stop at `endB`;
empty chunks are skipped by `__next__` -/
def rwRest (endB : Nat) : List Bytes → Nat → List Bytes
  | [], _ => []
  | c :: cs, rl =>
    let rl' := rl + c.length
    if rl' ≥ endB then
      let out := c.take (endB - rl)
      if out.isEmpty then [] else [out]
    else if c.isEmpty then rwRest endB cs rl'
    else c :: rwRest endB cs rl'

/-- `list(_RangeWrapper(iter(chunks), start, len))` for a non-seekable iterable -/
def rangeWrapIter (chunks : List Bytes) (start len : Nat) : List Bytes :=
  match rwFirst start chunks 0 with
  | none => []
  | some (c, cs, rl) =>
    if rl ≥ start + len then
      let out := c.take len
      if out.isEmpty then [] else [out]
    else (if c.isEmpty then [] else [c]) ++ rwRest (start + len) cs rl

/-- what a `FileWrapper` yields from a position: blocks of `b` bytes, the last one shorter,
never an empty one -/
def blocks (b : Nat) : Nat → Bytes → List Bytes
  | 0, _ => []
  | fuel + 1, d => if d.isEmpty || b == 0 then [] else d.take b :: blocks b fuel (d.drop b)

/-- `FileWrapper.__next__` over a file object with SHORT READS: one `file.read(buffer_size)` per
item, and only an EMPTY read ends the iteration. `sched` caps what each successive read returns
(a cap of 0 counts as 1: a blocking read returns at least one byte before end of file); when the
schedule runs out the reads are full blocks. -/
def fileWrapperItems (b : Nat) : Nat → List Nat → Bytes → List Bytes
  | 0, _, _ => []
  | fuel + 1, sched, d =>
    if d.isEmpty || b == 0 then []
    else
      let k := max 1 (min b (sched.headD b))
      d.take k :: fileWrapperItems b fuel sched.tail (d.drop k)

/-- `list(_RangeWrapper(FileWrapper(file, b), start, len))` for a seekable file holding `data`:
`seek(start)`, `read_length = tell() = start`, then the ordinary iterations -/
def rangeWrapSeek (data : Bytes) (b : Nat) (start len : Nat) : List Bytes :=
  rwRest (start + len) (blocks b (data.length + 1) (data.drop start)) start

/-! ## Response.make_conditional -/

/-- response side: ETag header value, Last-Modified header as parsed instant -/
structure RespIn where
  etag : Option Str := none
  lastModified : Option Int := none

def lmOf (r : RespIn) : Option (Int × Nat) := r.lastModified.map fun s => (s, 0)

/-- `_is_range_request_processable(environ)` -/
def rangeProcessable (q : CondReq) (r : RespIn) : Bool :=
  (q.ifRange.isNone || !isResourceModified q r.etag (lmOf r) false) && q.range.isSome

/-- outcome of `_process_range_request`: not a range response, a 206 with `(start, stop)`, or
`RequestedRangeNotSatisfiable` -/
inductive RangeOutcome where
  | notRange
  | partialContent (start stop : Int)
  | unsatisfiable
deriving Repr, DecidableEq

def processRangeRequest (q : CondReq) (r : RespIn) (completeLength : Option Int)
    (acceptRanges : Bool) : RangeOutcome :=
  match completeLength with
  | none => .notRange
  | some l =>
    if !acceptRanges || l == 0 || !rangeProcessable q r then .notRange
    else
      match parseRangeHeader q.range with
      | none => .unsatisfiable
      | some pr =>
        match rangeForLength pr (some l) with
        | none => .unsatisfiable
        | some (a, b) => .partialContent a b

/-- status decision of `make_conditional` (on a response whose status was 200);
`none` = `RequestedRangeNotSatisfiable` is raised (416) -/
def makeConditionalStatus (method : Str) (q : CondReq) (r : RespIn) (completeLength : Option Int)
    (acceptRanges : Bool) : Option (Nat × RangeOutcome) :=
  if method == ['G', 'E', 'T'] || method == ['H', 'E', 'A', 'D'] then
    -- preconditions first (64fcb6a), Range only for a response that would otherwise be 200
    if !isResourceModified q r.etag (lmOf r) true then
      some (if (parseEtags q.im).truthy then 412 else 304, .notRange)
    else
      match processRangeRequest q r completeLength acceptRanges with
      | .unsatisfiable => none
      | .partialContent a b => some (206, .partialContent a b)
      | .notRange => some (200, .notRange)
  else some (200, .notRange)

/-- the WSGI response of `Response(body).make_conditional(environ, accept_ranges, complete_length)`:
status, Content-Range `(first, last, length)`, Content-Length, body chunks. The body is supplied
as the chunk list the response iterable yields; `seekable = some b` for a seekable `FileWrapper`
with buffer size `b` (then the chunks are only used for their concatenation); `kind`: 0 = a list
(`is_sequence`), 1 = another iterable (made a sequence by `make_conditional` for GET/HEAD only),
2 = `direct_passthrough` (no Content-Length can be computed for a non-206 response). -/
structure WsgiOut where
  status : Nat
  contentRange : Option (Int × Int × Int)
  contentLength : Option Int
  body : List Bytes
  /-- `Accept-Ranges: bytes` present (set by `_process_range_request` on success only) -/
  acceptRanges : Bool := false
deriving Repr, DecidableEq

def respond (method : Str) (q : CondReq) (r : RespIn) (completeLength : Option Int)
    (acceptRanges : Bool) (chunks : List Bytes) (seekable : Option Nat) (kind : Nat) :
    Option WsgiOut :=
  let isHead := method == ['H', 'E', 'A', 'D']
  let total : Int := (chunks.flatten.length : Nat)
  match makeConditionalStatus method q r completeLength acceptRanges with
  | none => none
  | some (_, .partialContent a b) =>
    let start := a.toNat
    let len := (b - a).toNat
    let body :=
      match seekable with
      | some bs => rangeWrapSeek chunks.flatten bs start len
      | none => rangeWrapIter chunks start len
    some ⟨206, some (a, b - 1, completeLength.getD 0), some (b - a), if isHead then [] else body, true⟩
  | some (st, _) =>
    if st == 304 then some ⟨304, none, none, [], false⟩
    else
      let isGetHead := method == ['G', 'E', 'T'] || isHead
      some ⟨st, none, if kind == 0 || (kind == 1 && isGetHead) then some total else none,
        if isHead then [] else chunks.filter (!·.isEmpty), false⟩

/-! ## the argument forms of `make_conditional` -/

/-- the `accept_ranges` argument: `False`, `True`, or a unit string (`'bytes'`, `'none'`, …) -/
inductive AcceptArg where
  | no
  | yes
  | unit (u : Str)
deriving Repr, DecidableEq

/-- `not accept_ranges` decides whether range handling is attempted: an empty string is falsy -/
def AcceptArg.truthy : AcceptArg → Bool
  | .no => false
  | .yes => true
  | .unit u => !u.isEmpty

/-- the `Accept-Ranges` header value written on success (`True` becomes `"bytes"`) -/
def AcceptArg.header : AcceptArg → Str
  | .unit u => u
  | _ => bytesUnit

/-- `Response(body).make_conditional(request_or_environ, accept_ranges, complete_length)` followed
by `get_wsgi_response`: the answer of `respond` plus the `Accept-Ranges` header value. The unit
named by a string argument is only *advertised*: the `Range` header is still read as byte ranges
(`range_for_length` insists on `bytes`). `request_or_environ` may be the environ or a `Request`
(`_get_environ` takes `.environ`): same function of the header texts. -/
def makeConditionalFull (method : Str) (q : CondReq) (r : RespIn) (completeLength : Option Int)
    (accept : AcceptArg) (chunks : List Bytes) (seekable : Option Nat) (kind : Nat) :
    Option (WsgiOut × Option Str) :=
  (respond method q r completeLength accept.truthy chunks seekable kind).map fun o =>
    (o, if o.acceptRanges then some accept.header else none)

/-! ## `utils.send_file` (the conditional glue) -/

/-- the `etag` argument of `send_file`: `True` (generate from the file), `False`, or a string -/
inductive EtagArg where
  | auto
  | off
  | given (s : Str)
deriving Repr, DecidableEq

/-- what `send_file` learns about the file and its arguments as far as validators and conditional
handling are concerned -/
structure SendFile where
  /-- a path was given (`os.stat`: size and mtime known); else a file object -/
  isPath : Bool
  /-- `stat.st_size`, or `BytesIO.getbuffer().nbytes`; `none` for any other file object -/
  size : Option Nat
  /-- `stat.st_mtime` as (whole seconds, microseconds); paths only -/
  mtime : Option (Int × Nat) := none
  /-- `repr(mtime)` as `f"{mtime}"` prints it, `adler32(path.encode()) & 0xFFFFFFFF` (opaque) -/
  mtimeRepr : Str := []
  check : Nat := 0
  etag : EtagArg := .auto
  /-- the `last_modified` argument as an instant (whole seconds: `http_date` drops the rest) -/
  lastModified : Option Int := none
  conditional : Bool := true

def natRepr (n : Nat) : Str := (toString n).toList

/-- the text of the generated entity tag: `f"{mtime}-{size}-{check}"` -/
def SendFile.autoTag (a : SendFile) : Str :=
  a.mtimeRepr ++ '-' :: natRepr (a.size.getD 0) ++ '-' :: natRepr a.check

/-- the `ETag` header `send_file` sets; `.error` = `quote_etag` raises ValueError (a `"` in a given
tag) -/
def SendFile.etagHeader (a : SendFile) : Except String (Option Str) :=
  match a.etag with
  | .given s => if s.contains '"' then .error "ValueError" else .ok (some ('"' :: s ++ ['"']))
  | .auto => if a.isPath then .ok (some ('"' :: a.autoTag ++ ['"'])) else .ok none
  | .off => .ok none

/-- the `Last-Modified` instant: the argument, else the file's mtime floored to whole seconds -/
def SendFile.lastMod (a : SendFile) : Option Int :=
  match a.lastModified with
  | some t => some t
  | none => a.mtime.map (·.1)

/-- `complete_length=size` -/
def SendFile.clen (a : SendFile) : Option Int := a.size.map Int.ofNat

/-- `wrap_file(environ, file)` with the default `buffer_size` -/
def fileBufferSize : Nat := 8192

/-- `send_file(path_or_file, environ, etag=…, last_modified=…, conditional=…)` followed by
`get_wsgi_response`, for a file holding `data`: a `direct_passthrough` response over a
`FileWrapper` (`seekable` says whether the file object can seek), validators as above,
`make_conditional(environ, accept_ranges=True, complete_length=size)` when `conditional`.
`.error "ValueError"`: invalid given etag; `.ok none`: 416. -/
def sendFile (a : SendFile) (method : Str) (q : CondReq) (data : Bytes) (seekable : Bool) :
    Except String (Option WsgiOut) :=
  match a.etagHeader with
  | .error e => .error e
  | .ok et =>
    let r : RespIn := { etag := et, lastModified := a.lastMod }
    let chunks := blocks fileBufferSize (data.length + 1) data
    let cl : Option Int := a.clen
    if a.conditional then
      -- `rv.content_length = size` was set before `make_conditional`: a 200 / 412 keeps it
      .ok ((respond method q r cl true chunks (if seekable then some fileBufferSize else none) 2).map
        fun o => if o.status == 200 || o.status == 412 then { o with contentLength := cl } else o)
    else
      .ok (some ⟨200, none, cl, if method == ['H', 'E', 'A', 'D'] then [] else chunks, false⟩)

/-- the `Cache-Control` header `send_file` sets: `no-cache` unless a positive `max_age` makes the
response `public`; a `max_age` (also zero or negative) is always written. `max_age` may be a
callable of the path: its result is used (the harness passes the value). -/
def sendFileCacheControl (maxAge : Option Int) : Str :=
  match maxAge with
  | none => "no-cache".toList
  | some n =>
    if n > 0 then "public, max-age=".toList ++ (toString n).toList
    else "no-cache, max-age=".toList ++ (toString n).toList

/-- `Expires` is written exactly when a `max_age` is given: `int(time() + max_age)` -/
def sendFileExpires (maxAge : Option Int) (now : Int) : Option Int := maxAge.map (now + ·)

/-! ## date headers as text (IMF-fixdate, C06's model) -/

/-- `parse_date(text)` on the IMF-fixdate layout, as an instant counted from 0001-01-01 -/
def dateOfText (v : Option Str) : Option Int :=
  v.bind fun s => (Date.parseDate s).map Int.ofNat

/-- a request whose date headers are given as header text -/
def mkReqText (range ifRange ims inm im : Option Str) : CondReq :=
  { range := range, ifRange := ifRange, ifRangeDate := dateOfText ifRange, ims := dateOfText ims,
    inm := inm, im := im }

/-- a response whose `Last-Modified` header is given as header text -/
def mkRespText (etag lastModified : Option Str) : RespIn :=
  { etag := etag, lastModified := dateOfText lastModified }

end Wz.Cond
