/-
The body-parsing attributes of `werkzeug.wrappers.Request` (property C07): `form`, `files`, `values`,
`data`, `get_data()`, `json`, `get_json(silent=True)`, `stream`, `want_form_data_parsed` — the glue
between the header parsers and the body parsers, in exception-aware form:

  Request._load_form_data → FormDataParser.parse (dispatch on the mimetype, `except ValueError`
  silent fallback) → `_parse_multipart` (boundary `.encode("ascii")`, "Missing boundary") /
  `_parse_urlencoded` (bounded read, strict `data.decode()`, `parse_qsl(errors="werkzeug.url_quote")`)
  and Request.get_json (415 when the mimetype is not JSON, `except ValueError` → 400 / None).

Tied to the source by `Gen/RequestGlue.lean` (AST): the mimetype constants, the caught classes, the
codec call sites and `parse_qsl` arguments (pinned in Props/C07), and the subclass relation of the
exception vocabulary evaluated on the live classes.

Parameters (other properties' / Python's): `mp` = `MultiPartParser.parse` on what the limited stream
delivers (C01/C02/C10's model `Wz.Multipart.formParse` in the driver), `jl` = `json.loads`.
The request body enters as a `Wire`: the bytes the limited input stream (C09) delivers and whether
it raises `ClientDisconnected` at their end (declared Content-Length not reached).
-/
import WzVerif.Model.RequestAttrs
import WzVerif.Gen.RequestGlue
import WzVerif.Model.Multipart
namespace Wz.Req
open Wz Wz.Http

/-- `issubclass(cls, ValueError)` on the live classes (generated table) -/
def isValueError (e : String) : Bool := Gen.RequestGlue.excTable.any fun r => r.1 == e && r.2.1
/-- `issubclass(cls, HTTPException)` on the live classes (generated table) -/
def isHttpExc (e : String) : Bool := Gen.RequestGlue.excTable.any fun r => r.1 == e && r.2.2

/-- does `except <classes>` catch an exception of class `e`? (by name, or through ValueError) -/
def caughtBy (classes : List String) (e : String) : Bool :=
  classes.any fun c => c == e || (c == "ValueError" && isValueError e)

/-- `try: body except <classes>: pass` followed by the fall-through value -/
def tryExcept {α : Type} (classes : List String) (body : Except String α) (dflt : α) : Except String α :=
  match body with
  | .ok a => .ok a
  | .error e => if caughtBy classes e then .ok dflt else .error e

structure FormResult where
  fields : List (Option Str × Str) := []
  /-- (name, filename, content) -/
  files : List (Option Str × Str × Bytes) := []
  deriving DecidableEq, Repr

/-- the limits a `Request` class carries (class attributes; defaults of `wrappers.Request`) -/
structure BodyCfg where
  maxFormMemorySize : Option Nat := some 500000
  maxFormParts : Option Nat := some 1000
  maxContentLength : Option Nat := none

/-- what the limited input stream delivers -/
structure Wire where
  body : Bytes := []
  /-- the stream raises `ClientDisconnected` when read to its end -/
  disc : Bool := false

structure BodyExt where
  /-- `MultiPartParser(...).parse(stream, boundary, content_length)` -/
  mp : Bytes → BodyCfg → Wire → Except String FormResult
  /-- `json.loads(data)`: only whether, and with what, it raises -/
  jl : Bytes → Except String Unit

/-! the multipart branch instantiated with C01/C02/C10's model -/

/-- `MultiPartParser.parse` as modelled by C01/C02/C10 (Model/Multipart.lean), on what the limited
stream delivers; a stream that ends early raises `ClientDisconnected` instead of delivering EOF -/
def mpModel (bnd : Bytes) (cfg : BodyCfg) (w : Wire) : Except String FormResult :=
  let conv (fields : List (Option Str × Str)) (files : List Wz.Multipart.FileItem) : FormResult :=
    { fields := fields, files := files.map fun f => (f.name, f.filename, f.content) }
  if w.disc then
    let chunks := Wz.Multipart.readChunks 65536 w.body.length [] w.body
    match Wz.Multipart.formLoop cfg.maxFormMemorySize
        (Wz.Multipart.mkDecoder bnd cfg.maxFormMemorySize cfg.maxFormParts) {} (chunks.map some) with
    | .error e => .error e
    | .ok _ => .error "ClientDisconnected"
  else
    match Wz.Multipart.formParse bnd cfg.maxFormMemorySize cfg.maxFormParts 65536 [] w.body with
    | .error e => .error e
    | .ok (fields, files) => .ok (conv fields files)

/-- `str.encode("ascii")` -/
def asciiEnc (s : Str) : Except String Bytes :=
  if s.all (fun c => c.toNat < 128) then .ok (s.map fun c => UInt8.ofNat c.toNat) else .error "UnicodeEncodeError"

/-- `Request.stream` / `get_input_stream(environ, max_content_length)`: 413 when the declared length
exceeds the limit -/
def streamOutcome (cfg : BodyCfg) (e : Env) : Except String Unit := do
  let cl ← contentLength e
  match cl, cfg.maxContentLength with
  | some n, some m => if n > (m : Int) then .error "RequestEntityTooLarge" else pure ()
  | _, _ => pure ()

/-- `FormDataParser._parse_multipart` -/
def parseMultipart (bx : BodyExt) (cfg : BodyCfg) (options : Dict Str) (w : Wire) : Except String FormResult := do
  let boundary ← asciiEnc ((dictGet? options "boundary".toList).getD [])
  if boundary.isEmpty then .error "ValueError" else bx.mp boundary cfg w

/-- `FormDataParser._parse_urlencoded` -/
def parseUrlencodedBody (cfg : BodyCfg) (contentLength : Option Nat) (w : Wire) : Except String FormResult :=
  match (Wz.Urlencode.urlencodedRead cfg.maxFormMemorySize contentLength [] w.body).1 with
  | .error e => .error e
  | .ok data =>
    -- the read loop reaches the end of the stream
    if w.disc then .error "ClientDisconnected" else
    -- `data.decode()`: strict UTF-8
    match utf8Dec? data with
    | none => .error "UnicodeDecodeError"
    | some s => .ok { fields := (Wz.Urlencode.parseQsl true s).map fun kv => (some kv.1, kv.2) }

/-- `FormDataParser.parse(stream, mimetype, content_length, options)` (silent, the default) -/
def formDataParse (bx : BodyExt) (cfg : BodyCfg) (mimetype : Str) (contentLength : Option Nat) (options : Dict Str)
    (w : Wire) : Except String FormResult :=
  if mimetype == "multipart/form-data".toList then
    tryExcept Gen.RequestGlue.parseCaught (parseMultipart bx cfg options w) {}
  else if mimetype == "application/x-www-form-urlencoded".toList then
    tryExcept Gen.RequestGlue.parseCaught (parseUrlencodedBody cfg contentLength w) {}
  else .ok {}

/-- `Request.want_form_data_parsed`: `bool(environ.get("CONTENT_TYPE"))` -/
def wantFormDataParsed (e : Env) : Bool := !(e.contentType.getD []).isEmpty

/-- `Request._load_form_data` (first call) -/
def loadFormData (bx : BodyExt) (cfg : BodyCfg) (e : Env) (w : Wire) : Except String FormResult := do
  streamOutcome cfg e
  if wantFormDataParsed e then
    let mt ← mimetype e
    let cl ← contentLength e
    let ps ← mimetypeParams e
    formDataParse bx cfg mt (cl.map Int.toNat) ps w
  else pure {}

/-- `stream.read()` to the end -/
def readAll (w : Wire) : Except String Bytes := if w.disc then .error "ClientDisconnected" else .ok w.body

/-- `Request.get_data()` (first call): the body -/
def getData (cfg : BodyCfg) (e : Env) (w : Wire) : Except String Bytes := do
  streamOutcome cfg e
  readAll w

inductive BodyAttr where
  | form | files | values | data | getData | json | getJsonSilent | stream | wantFormDataParsed
  deriving DecidableEq, Repr

/-- outcome of the first access of a body attribute on a fresh request -/
def bodyOutcome (bx : BodyExt) (cfg : BodyCfg) (e : Env) (method : Str) (w : Wire) : BodyAttr → Except String Unit
  | .form => (loadFormData bx cfg e w).map fun _ => ()
  | .files => (loadFormData bx cfg e w).map fun _ => ()
  | .values => do
    let _ ← args e
    if method != "GET".toList then
      let _ ← loadFormData bx cfg e w
    pure ()
  | .data => do
    -- `get_data(parse_form_data=True)`: whatever the form parser left unread is read to the end
    let _ ← loadFormData bx cfg e w
    if w.disc then .error "ClientDisconnected" else pure ()
  | .getData => (getData cfg e w).map fun _ => ()
  | .json => do
    if !(← isJson e) then .error "UnsupportedMediaType"
    let data ← getData cfg e w
    match bx.jl data with
    | .ok _ => pure ()
    | .error x => if caughtBy Gen.RequestGlue.jsonCaught x then .error "BadRequest" else .error x
  | .getJsonSilent => do
    if !(← isJson e) then return ()
    let data ← getData cfg e w
    tryExcept Gen.RequestGlue.jsonCaught (bx.jl data) ()
  | .stream => streamOutcome cfg e
  | .wantFormDataParsed => .ok ((fun _ => ()) (wantFormDataParsed e))

/-- the form value `Request.form` returns (for the correspondence stream) -/
def formValue (bx : BodyExt) (cfg : BodyCfg) (e : Env) (w : Wire) : Except String FormResult := loadFormData bx cfg e w

/-- name of the live attribute each modelled header attribute stands for -/
def Attr.name : Attr → String
  | .args => "args" | .cookies => "cookies" | .acceptMimetypes => "accept_mimetypes" | .acceptCharsets => "accept_charsets"
  | .acceptEncodings => "accept_encodings" | .acceptLanguages => "accept_languages" | .cacheControl => "cache_control"
  | .ifMatch => "if_match" | .ifNoneMatch => "if_none_match" | .ifModifiedSince => "if_modified_since"
  | .ifUnmodifiedSince => "if_unmodified_since" | .ifRange => "if_range" | .date => "date" | .range => "range"
  | .authorization => "authorization" | .mimetype => "mimetype" | .mimetypeParams => "mimetype_params" | .isJson => "is_json"
  | .contentLength => "content_length" | .maxForwards => "max_forwards"
  | .accessControlRequestHeaders => "access_control_request_headers" | .pragma => "pragma" | .accessRoute => "access_route"
  | .host => "host"

def Attr.all : List Attr :=
  [.args, .cookies, .acceptMimetypes, .acceptCharsets, .acceptEncodings, .acceptLanguages, .cacheControl, .ifMatch, .ifNoneMatch,
   .ifModifiedSince, .ifUnmodifiedSince, .ifRange, .date, .range, .authorization, .mimetype, .mimetypeParams, .isJson,
   .contentLength, .maxForwards, .accessControlRequestHeaders, .pragma, .accessRoute, .host]

def BodyAttr.name : BodyAttr → String
  | .form => "form" | .files => "files" | .values => "values" | .data => "data" | .getData => "get_data" | .json => "json"
  | .getJsonSilent => "get_json" | .stream => "stream" | .wantFormDataParsed => "want_form_data_parsed"

def BodyAttr.all : List BodyAttr := [.form, .files, .values, .data, .getData, .json, .getJsonSilent, .stream, .wantFormDataParsed]

end Wz.Req
