/-
Model of the path / query / base-URL handling of `werkzeug.test.EnvironBuilder`, of the fields
`werkzeug.wrappers.Request` derives from the environ, and of `sansio.utils.get_host` /
`get_current_url` (C15: what goes into the builder is what the request reports).
`query_string` is the `str` form of the argument (the mapping form goes through `_urlencode`,
which belongs to C02). Core Lean only.
-/
import WzVerif.Model.UrlSplit
namespace Wz.Url

def rstripSlash (s : Str) : Str := (s.reverse.dropWhile (· == '/')).reverse
def lstripSlash (s : Str) : Str := s.dropWhile (· == '/')

/-- the environ keys this property is about -/
structure Environ where
  scriptName : Str
  pathInfo : Str
  queryString : Str
  httpHost : Str
  urlScheme : Str

/-- `EnvironBuilder(path=path, base_url=baseUrl, query_string=qs).get_environ()` -/
def builderEnviron (o : UrlOpaque) (path baseUrl qs : Str) : Except String Environ :=
  if path.contains '?' then .error "ValueError" else
  match urlsplit o path with
  | .error e => .error e
  | .ok ru =>
    match iriToUriText o ru.path with          -- self.path = iri_to_uri(request_uri.path)
    | .error e => .error e
    | .ok selfPath =>
      match iriToUriText o baseUrl with        -- base_url = iri_to_uri(base_url)
      | .error e => .error e
      | .ok base =>
        match urlsplit o base with
        | .error e => .error e
        | .ok b =>
          if !b.query.isEmpty || !b.fragment.isEmpty then .error "ValueError" else
          .ok { scriptName := encodingDance (unquoteReplace (rstripSlash b.path))
                pathInfo := encodingDance (unquoteReplace selfPath)
                queryString := encodingDance qs
                httpHost := b.netloc
                urlScheme := b.scheme }

def endsWith (s suf : Str) : Bool := suf.reverse.isPrefixOf s.reverse

/-- `sansio.utils.get_host(scheme, host_header)` without trusted hosts -/
def getHost (scheme host : Str) : Str :=
  if (scheme == "http".toList || scheme == "ws".toList) && endsWith host ":80".toList then host.take (host.length - 3)
  else if (scheme == "https".toList || scheme == "wss".toList) && endsWith host ":443".toList then
    host.take (host.length - 4)
  else host

/-- `sansio.utils.get_current_url(scheme, host, root_path, path, query_string)` (all parts given) -/
def getCurrentUrl (o : UrlOpaque) (scheme host rootPath path : Str) (query : Bytes) : Except String Str :=
  let url := scheme ++ "://".toList ++ host
    ++ quote Gen.UrlTables.curRootSafe (rstripSlash rootPath) ++ ['/']
    ++ quote Gen.UrlTables.curPathSafe (lstripSlash path)
    ++ (if query.isEmpty then [] else '?' :: quoteBytes Gen.UrlTables.curQuerySafe query)
  uriToIriText o url

/-- `sansio.utils.get_current_url` with its optional parts: without `root_path` only
`scheme://host/`, without `path` only up to the root -/
def getCurrentUrlOpt (o : UrlOpaque) (scheme host : Str) (rootPath path : Option Str) (query : Bytes) :
    Except String Str :=
  let url := scheme ++ "://".toList ++ host
  match rootPath with
  | none => uriToIriText o (url ++ ['/'])
  | some r =>
    let url := url ++ quote Gen.UrlTables.curRootSafe (rstripSlash r) ++ ['/']
    match path with
    | none => uriToIriText o url
    | some p =>
      uriToIriText o (url ++ quote Gen.UrlTables.curPathSafe (lstripSlash p)
        ++ (if query.isEmpty then [] else '?' :: quoteBytes Gen.UrlTables.curQuerySafe query))

/-- `werkzeug.wsgi.get_current_url(environ, root_only, strip_querystring, host_only)`:
`sansio.get_current_url` applied to the environ values after the WSGI decoding dance (16e16ac) -/
def wsgiCurrentUrl (o : UrlOpaque) (e : Environ) (rootOnly stripQs hostOnly : Bool) : Except String Str :=
  match decodingDance e.scriptName, decodingDance e.pathInfo, Py.latin1Enc e.queryString with
  | some root, some p, some q =>
    getCurrentUrlOpt o e.urlScheme (getHost e.urlScheme e.httpHost)
      (if hostOnly then none else some root)
      (if hostOnly || rootOnly then none else some p)
      (if stripQs then [] else q)
  | _, _, _ => .error "UnicodeEncodeError"

/-- `Request.url`, `.base_url`, `.root_url`, `.host_url` -/
def requestUrls (o : UrlOpaque) (e : Environ) : Except String (Str × Str × Str × Str) :=
  match decodingDance e.scriptName, decodingDance e.pathInfo, Py.latin1Enc e.queryString with
  | some root, some p, some q =>
    let rootPath := rstripSlash root
    let path := '/' :: lstripSlash p
    let host := getHost e.urlScheme e.httpHost
    match getCurrentUrlOpt o e.urlScheme host (some rootPath) (some path) q,
          getCurrentUrlOpt o e.urlScheme host (some rootPath) (some path) [],
          getCurrentUrlOpt o e.urlScheme host (some rootPath) none [],
          getCurrentUrlOpt o e.urlScheme host none none [] with
    | .ok a, .ok b, .ok c, .ok d => .ok (a, b, c, d)
    | .error x, _, _, _ => .error x
    | _, .error x, _, _ => .error x
    | _, _, .error x, _ => .error x
    | _, _, _, .error x => .error x
  | _, _, _ => .error "UnicodeEncodeError"

/-- what `Request(environ)` reports -/
structure RequestView where
  path : Str
  rootPath : Str
  host : Str
  url : Str

def requestView (o : UrlOpaque) (e : Environ) : Except String RequestView :=
  match decodingDance e.scriptName, decodingDance e.pathInfo, Py.latin1Enc e.queryString with
  | some root, some p, some q =>
    let rootPath := rstripSlash root
    let path := '/' :: lstripSlash p
    let host := getHost e.urlScheme e.httpHost
    match getCurrentUrl o e.urlScheme host rootPath path q with
    | .error err => .error err
    | .ok url => .ok { path := path, rootPath := rootPath, host := host, url := url }
  | _, _, _ => .error "UnicodeEncodeError"

end Wz.Url
