/-
The path computation of werkzeug's static-file helpers (C14):
`utils.send_from_directory` (with and without the `_root_path` keyword, incl. the join `send_file`
itself performs), `SharedDataMiddleware.__init__` (which loader an export value gets),
`get_directory_loader`, `get_file_loader`, `get_package_loader`, and the export loop + the
`is_allowed` gate of `SharedDataMiddleware.__call__`.

Outside the model (parameters):
* the file system: one predicate `isfile : path → Bool` (`os.path.isfile` at request time; doubles as
  "`reader.open_resource` succeeds" for package exports) and one predicate `isfileInit` for the
  `os.path.isfile(value)` test `__init__` performs when the middleware is built;
* `is_allowed` (`fnmatch` against `disallow`, or a subclass override): a predicate on `real_filename`;
* `importlib`: a package export `(package, package_path)` enters as the directory `pkgDir` the
  package's resource reader resolves resources against (`FileReader`: `pkgDir/<resource>`);
* `get_path_info` (latin-1 → UTF-8 re-decoding of PATH_INFO): the request path is the decoded text;
* mimetype / cache / etag headers: they never influence which file is opened.

What is computed is the path that is opened (`open(path, "rb")`), `none` = 404 / fall through to the
wrapped application. Core Lean only.
-/
import WzVerif.Model.Paths
namespace Wz.Paths

/-- `safe_join(root, rel)` followed by the file test: the path that is opened, or `none` -/
def joinIfFile (isfile : Str → Bool) (root rel : Str) : Option Str :=
  match safeJoin root [rel] with
  | none => none
  | some p => if isfile p then some p else none

/-- `send_from_directory(directory, path, environ)` (no `_root_path`): the file that is sent, or
`none` = NotFound -/
def sendFromDirectory (isfile : Str → Bool) (directory path : Str) : Option Str :=
  joinIfFile isfile directory path

/-- the path `send_from_directory(..., _root_path=r)` hands to `os.path.isfile` -/
def sfdChecked (rootPath : Option Str) (p : Str) : Str :=
  match rootPath with
  | some r => join r [p]
  | none => p

/-- the path `send_file(path_str, environ, _root_path=r)` opens for the `path_str` it is given
(`os.path.join(_root_path, path_or_file)`; without `_root_path` it is `abspath(path_str)`, i.e. the
same file relative to the working directory) -/
def sendFileOpened (rootPath : Option Str) (pathStr : Str) : Str :=
  match rootPath with
  | some r => join r [pathStr]
  | none => pathStr

/-- `send_from_directory(directory, path, environ, **kwargs)` with the optional `_root_path`
keyword: `(tested, opened)` = the path given to `os.path.isfile` and the path `send_file` opens
(`_root_path` stays in `kwargs`, so `send_file` joins it a second time), or `none` = NotFound -/
def sendFromDirectoryRoot (isfile : Str → Bool) (rootPath : Option Str) (directory path : Str) :
    Option (Str × Str) :=
  match safeJoin directory [path] with
  | none => none
  | some p =>
    let tested := sfdChecked rootPath p
    if isfile tested then some (tested, sendFileOpened rootPath tested) else none

/-- what a loader returns: `(real_filename, path the opener opens)`; `none` = `(None, None)` -/
abbrev Loaded := Option (Str × Str)

/-- the loader `get_directory_loader(directory)` returns, applied to `path` (`None` = the export
key itself was requested) -/
def directoryLoader (isfile : Str → Bool) (directory : Str) (path : Option Str) : Loaded :=
  match path with
  | some rel => (joinIfFile isfile directory rel).map fun p => (basename p, p)
  | none => if isfile directory then some (basename directory, directory) else none

/-- the loader `get_file_loader(filename)` returns: whatever it is applied to, the export itself -/
def fileLoader (filename : Str) (_path : Option Str) : Loaded := some (basename filename, filename)

/-- the loader `get_package_loader(package, package_path)` returns, applied to `path`: the resource
name is `safe_join(package_path, path)`, the file opened is that name below the package directory.
`canOpen` = `open_resource` succeeds (no OSError / ValueError); `None` is never served. -/
def packageLoader (canOpen : Str → Bool) (pkgDir packagePath : Str) (path : Option Str) : Loaded :=
  match path with
  | none => none
  | some rel =>
    match safeJoin packagePath [rel] with
    | none => none
    | some rp => if canOpen (join pkgDir [rp]) then some (basename rp, join pkgDir [rp]) else none

/-- what an export key is mapped to once `__init__` has chosen the loader -/
inductive Export where
  | dir (directory : Str)
  | file (filename : Str)
  | pkg (pkgDir packagePath : Str)
deriving DecidableEq, Repr

/-- the trusted root of an export: the directory, the single file, or `package_path` below the
package directory (`"."` when `package_path` is empty, as `safe_join` does) -/
def Export.root : Export → Str
  | .dir d => d
  | .file f => f
  | .pkg pd pp => join pd [if pp = [] then dot else pp]

/-- an export value as given to the constructor: a `str`, or a `(package, package_path)` tuple -/
inductive ExportSpec where
  | path (value : Str)
  | package (pkgDir packagePath : Str)

/-- the loader choice of `SharedDataMiddleware.__init__` (`isfileInit` = `os.path.isfile` then) -/
def mkExport (isfileInit : Str → Bool) : ExportSpec → Export
  | .path v => if isfileInit v then .file v else .dir v
  | .package pd pp => .pkg pd pp

/-- `self.exports` after `__init__` (dict items or list of pairs: the order given) -/
def mkExports (isfileInit : Str → Bool) (specs : List (Str × ExportSpec)) : List (Str × Export) :=
  specs.map fun (k, v) => (k, mkExport isfileInit v)

def loaderOf (isfile : Str → Bool) : Export → Option Str → Loaded
  | .dir d => directoryLoader isfile d
  | .file f => fileLoader f
  | .pkg pd pp => packageLoader isfile pd pp

/-- `str.startswith` -/
def startsWith (s pre : Str) : Bool := pre.isPrefixOf s

/-- `search_path` after `if not search_path.endswith("/"): search_path += "/"` -/
def withSlash (search : Str) : Str := if search.getLast? = some '/' then search else search ++ ['/']

/-- one iteration of the export loop of `__call__`: `some` = `break` with this file loader -/
def tryExport (isfile : Str → Bool) (search : Str) (ex : Export) (path : Str) : Loaded :=
  let exact := if search = path then loaderOf isfile ex none else none
  match exact with
  | some r => some r
  | none =>
    if startsWith path (withSlash search) then
      loaderOf isfile ex (some (path.drop (withSlash search).length))
    else none

/-- the export loop of `SharedDataMiddleware.__call__`: the first export (in the order of
`self.exports`) whose loader returns a file loader -/
def findExport (isfile : Str → Bool) : List (Str × Export) → Str → Loaded
  | [], _ => none
  | (search, ex) :: rest, path =>
    match tryExport isfile search ex path with
    | some r => some r
    | none => findExport isfile rest path

/-- `SharedDataMiddleware.__call__`: the file that is opened and served, or `none` = the wrapped
application is called (`file_loader is None or not self.is_allowed(real_filename)`) -/
def sharedData (isfile allowed : Str → Bool) (exports : List (Str × Export)) (path : Str) : Option Str :=
  match findExport isfile exports path with
  | some (name, f) => if allowed name then some f else none
  | none => none

end Wz.Paths
