/-
The path computation of werkzeug's static-file helpers (C14):
`utils.send_from_directory`, `SharedDataMiddleware.get_directory_loader` and the export loop of
`SharedDataMiddleware.__call__`. The file system is one opaque predicate `isfile : path → Bool`
(`os.path.isfile`); what is computed is the path that would be opened, `none` = 404 / fall through
to the wrapped application. The request path is the already percent-decoded PATH_INFO (any text).
Core Lean only.
-/
import WzVerif.Model.Paths
namespace Wz.Paths

/-- `send_from_directory(directory, path, environ)`: the file that is sent, or `none` = NotFound -/
def sendFromDirectory (isfile : Str → Bool) (directory path : Str) : Option Str :=
  match safeJoin directory [path] with
  | none => none
  | some p => if isfile p then some p else none

/-- the loader `get_directory_loader(directory)` returns, applied to `path` (`None` = the export
key itself was requested): the file to open, or `none` -/
def directoryLoader (isfile : Str → Bool) (directory : Str) (path : Option Str) : Option Str :=
  let p :=
    match path with
    | some rel => safeJoin directory [rel]
    | none => some directory
  match p with
  | none => none
  | some q => if isfile q then some q else none

/-- `str.startswith` -/
def startsWith (s pre : Str) : Bool := pre.isPrefixOf s

/-- the export loop of `SharedDataMiddleware.__call__` over directory exports
`(search_path, directory)`: the file that is served, or `none` = the wrapped app is called -/
def sharedData (isfile : Str → Bool) : List (Str × Str) → Str → Option Str
  | [], _ => none
  | (search, directory) :: rest, path =>
    let exact := if search = path then directoryLoader isfile directory none else none
    match exact with
    | some f => some f
    | none =>
      let sp := if search.getLast? = some '/' then search else search ++ ['/']
      let sub := if startsWith path sp then directoryLoader isfile directory (some (path.drop sp.length))
                 else none
      match sub with
      | some f => some f
      | none => sharedData isfile rest path

end Wz.Paths
