/-
The path computation of werkzeug's static-file helpers (C14):
`utils.send_from_directory`, `SharedDataMiddleware.get_directory_loader` and the export loop of
`SharedDataMiddleware.__call__`. The file system is one opaque predicate `isfile : path → Bool`
(`os.path.isfile`); what is computed is the path that would be opened, `none` = 404 / fall through
to the wrapped application. The request path is the already percent-decoded PATH_INFO (any text).
Core Lean only.
-/
import WzVerif.Model.Paths
namespace Wz.Paths

/-- `safe_join(root, rel)` followed by the file test: the path that is opened, or `none` -/
def joinIfFile (isfile : Str → Bool) (root rel : Str) : Option Str :=
  match safeJoin root [rel] with
  | none => none
  | some p => if isfile p then some p else none

/-- `send_from_directory(directory, path, environ)`: the file that is sent, or `none` = NotFound -/
def sendFromDirectory (isfile : Str → Bool) (directory path : Str) : Option Str :=
  joinIfFile isfile directory path

/-- the loader `get_directory_loader(directory)` returns, applied to `path` (`None` = the export
key itself was requested): the file to open, or `none` -/
def directoryLoader (isfile : Str → Bool) (directory : Str) (path : Option Str) : Option Str :=
  match path with
  | some rel => joinIfFile isfile directory rel
  | none => if isfile directory then some directory else none

/-- the loader `get_package_loader(package, package_path)` returns, applied to `path`: the resource
path handed to `reader.open_resource` (relative to the package directory), or `none`.
`canOpen` = `open_resource` succeeds (no OSError); `None` is never served by a package export. -/
def packageLoader (canOpen : Str → Bool) (packagePath : Str) (path : Option Str) : Option Str :=
  match path with
  | none => none
  | some rel => joinIfFile canOpen packagePath rel

/-- what an export key is mapped to: a directory, or `(package, package_path)` -/
inductive Export where
  | dir (directory : Str)
  | pkg (packagePath : Str)

def Export.root : Export → Str
  | .dir d => d
  | .pkg pp => pp

/-- the loader of an export; `isfile` doubles as "can be opened" for package resources -/
def loaderOf (isfile : Str → Bool) : Export → Option Str → Option Str
  | .dir d => directoryLoader isfile d
  | .pkg pp => packageLoader isfile pp

/-- `str.startswith` -/
def startsWith (s pre : Str) : Bool := pre.isPrefixOf s

/-- the export loop of `SharedDataMiddleware.__call__` over exports `(search_path, export)`: the
file that is served, or `none` = the wrapped app is called -/
def sharedData (isfile : Str → Bool) : List (Str × Export) → Str → Option Str
  | [], _ => none
  | (search, ex) :: rest, path =>
    let exact := if search = path then loaderOf isfile ex none else none
    match exact with
    | some f => some f
    | none =>
      let sp := if search.getLast? = some '/' then search else search ++ ['/']
      let sub := if startsWith path sp then loaderOf isfile ex (some (path.drop sp.length)) else none
      match sub with
      | some f => some f
      | none => sharedData isfile rest path

end Wz.Paths
