/-
Model of the glue between `werkzeug.wrappers.Request` and the body stream:
`Request.stream` (a `cached_property` over `wsgi.get_input_stream(environ, max_content_length=…)`),
`Request._get_stream_for_parsing`, `Request._load_form_data` (`form` / `files` / `values`),
`Request.get_data(cache, as_text, parse_form_data)` (`data`, `get_json` read through it) and
`Request.close()`, as one state machine over *access histories* on one `Request` object.

What the form parser does with the stream it is handed is not modelled here (C01/C02/C10 own the
parsers): a parser is an *arbitrary reader* — the list of read operations it issues on the stream is
an input of the step (`pops`; the harness records the calls the real parser makes). `as_text` only
decodes the returned bytes (`bytes.decode(errors="replace")`, Util.Py) and is applied by the harness.

Modelling identifications (validated by stream `request-body`, not verified):
* `io.BytesIO(b)` (the empty fallback stream, and the copy of the cached data handed to the form
  parser) answers `read / readline / readlines / readinto / __next__` exactly like a
  `LimitedStream(BytesIO(b), len(b))` with a declared length — it is represented by such an object
  over its own private bytes (`live = false`);
* a server-terminated `wsgi.input` used without a maximum (`Choice.raw`) is assumed to behave like
  `BytesIO` over what the server will deliver (that is what "the server terminates the stream"
  means) and is represented the same way, but over the real input (`live = true`).
-/
import WzVerif.Model.LimitedStream
namespace Wz.RB
open Wz Wz.LS

/-- a `Request` object: the part of the environ / configuration `get_input_stream` looks at
(constant), and `__dict__["stream"]`, `_cached_data`, `"form" in __dict__` -/
structure RSt where
  cl : Option (List Char)
  chunked : Bool
  terminated : Bool
  max : Option Nat
  /-- `hasattr(environ["wsgi.input"], "readinto")` -/
  ri : Bool
  /-- `bool(environ.get("CONTENT_TYPE"))` — `want_form_data_parsed` -/
  wantForm : Bool
  /-- `environ["wsgi.input"]` as long as no stream object wraps it (afterwards: its last known
  state, refreshed whenever a live stream object is replaced) -/
  input : Under
  /-- `__dict__["stream"]`: (reads the real input?, the stream object) -/
  stream : Option (Bool × St) := none
  /-- `_cached_data` -/
  cached : Option Bytes := none
  /-- `"form" in __dict__` -/
  formLoaded : Bool := false

/-- `io.BytesIO(b)` as a stream object (see the header) -/
def memStream (b : Bytes) : St := fresh b [] b.length false true

/-- `get_input_stream(environ, max_content_length=self.max_content_length)` on the current input -/
def makeStream (r : RSt) : Except String (Bool × St) :=
  match getInputStream r.cl r.chunked r.terminated r.max true with
  | .tooLarge => .error "RequestEntityTooLarge"
  | .limited n m => .ok (true, { limit := n, isMax := m, hasReadinto := r.ri, u := r.input })
  | .raw => .ok (true, { limit := r.input.data.length, isMax := false, hasReadinto := r.ri, u := r.input })
  | .empty => .ok (false, memStream [])

/-- `self.stream`: the cached property (an exception is not cached) -/
def accessStream (r : RSt) : Except String (Bool × St) × RSt :=
  match r.stream with
  | some st => (.ok st, r)
  | none =>
    match makeStream r with
    | .error e => (.error e, r)
    | .ok st => (.ok st, { r with stream := some st })

/-- store the stream object back after it was used; a live object carries the real input -/
def putStream (r : RSt) (live : Bool) (st : St) : RSt :=
  { r with stream := some (live, st), input := if live then st.u else r.input }

/-- operations of the history -/
inductive ROp where
  /-- `request.stream.<op>(…)` -/
  | stream (op : Op)
  /-- `request.get_data(cache, parse_form_data=parse)`; `pops` = what the form parser reads if it runs -/
  | getData (cache parse : Bool) (pops : List Op)
  /-- `request.form` / `.files` / `.values` (`_load_form_data`) -/
  | form (pops : List Op)
  /-- `request.close()` -/
  | close
  deriving Repr

/-- run the parser's reads until the first exception -/
def runParser (st : St) : List Op → Option String × St
  | [] => (none, st)
  | op :: ops =>
    match runOp st op with
    | (.error e, st') => (some e, st')
    | (.ok _, st') => runParser st' ops

/-- `Request._load_form_data()` -/
def loadForm (r : RSt) (pops : List Op) : Option String × RSt :=
  if r.formLoaded then (none, r)
  else if r.wantForm then
    -- `_get_stream_for_parsing()`
    match r.cached with
    | some c =>
      -- the parser reads a private copy; `d["stream"]` becomes that BytesIO
      let (e, st') := runParser (memStream c) pops
      match e with
      | some e => (some e, r)
      | none => (none, { r with stream := some (false, st'), formLoaded := true })
    | none =>
      match accessStream r with
      | (.error e, r') => (some e, r')
      | (.ok (live, st), r') =>
        let (e, st') := runParser st pops
        match e with
        | some e => (some e, putStream r' live st')
        | none => (none, { putStream r' live st' with formLoaded := true })
  else
    match accessStream r with
    | (.error e, r') => (some e, r')
    | (.ok _, r') => (none, { r' with formLoaded := true })

/-- `Request.get_data(cache, parse_form_data)` (before `as_text`) -/
def getData (r : RSt) (cache parse : Bool) (pops : List Op) : Res × RSt :=
  match r.cached with
  | some c => (.ok c, r)
  | none =>
    let (e, r1) := if parse then loadForm r pops else (none, r)
    match e with
    | some e => (.error e, r1)
    | none =>
      match accessStream r1 with
      | (.error e, r2) => (.error e, r2)
      | (.ok (live, st), r2) =>
        match readall st with
        | (.error e, st') => (.error e, putStream r2 live st')
        | (.ok b, st') =>
          let r3 := putStream r2 live st'
          (.ok b, if cache then { r3 with cached := some b } else r3)

def runROp (r : RSt) : ROp → LRes × RSt
  | .stream op =>
    match accessStream r with
    | (.error e, r') => (.error e, r')
    | (.ok (live, st), r') =>
      let (res, st') := runOp st op
      (res, putStream r' live st')
  | .getData cache parse pops => single' (getData r cache parse pops)
  | .form pops =>
    match loadForm r pops with
    | (some e, r') => (.error e, r')
    | (none, r') => (.ok [], r')
  | .close => (.ok [], r)
where
  single' : Res × RSt → LRes × RSt
    | (.ok b, r) => (.ok [b], r)
    | (.error e, r) => (.error e, r)

def runROps (r : RSt) : List ROp → List LRes × RSt
  | [] => ([], r)
  | op :: ops =>
    let (x, r') := runROp r op
    let (xs, r'') := runROps r' ops
    (x :: xs, r'')

/-- a new `Request(environ)` whose `wsgi.input` holds `data` and behaves as `script` says -/
def freshReq (cl : Option (List Char)) (chunked terminated : Bool) (max : Option Nat) (ri wantForm : Bool)
    (data : Bytes) (script : List Beh) : RSt :=
  { cl := cl, chunked := chunked, terminated := terminated, max := max, ri := ri, wantForm := wantForm,
    input := { data := data, script := script } }

/-- bytes taken from the real `wsgi.input` so far -/
def consumed (r : RSt) : Nat := r.input.taken.length

end Wz.RB
