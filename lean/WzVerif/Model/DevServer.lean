/-
Model of `werkzeug.serving.WSGIRequestHandler.make_environ` and of the response writer inside
`run_wsgi` (`write` / `start_response` / `execute`).

Input of `makeEnviron` is what `http.server` has already parsed: `self.command`, `self.path`,
`self.request_version`, `self.headers.items()`. The request-line / header parsing itself stays outside
the model, except for one documented step of CPython ≥ 3.12 (`httpServerPath`: leading `//` of an
origin-form target is collapsed, gh-87389), kept as a separate function so that its effect on the
property (known finding F19b) can be stated.

`urllib.parse.urlsplit` / `unquote` are hand-modelled for request targets made of printable ASCII
(0x21–0x7E) without `[`/`]` in the authority (`inDomain`); outside that domain `makeEnviron` answers
`none` (not modelled). Validated by streams `environ` and `server`.
-/
import WzVerif.Util.Bytes
import WzVerif.Util.Py
import WzVerif.Model.Chunked
namespace Wz.DevServer
open Wz Wz.Chunked

/-! ### urlsplit -/

def isAlphaAscii (c : Char) : Bool := ('a' ≤ c && c ≤ 'z') || ('A' ≤ c && c ≤ 'Z')
def isSchemeChar (c : Char) : Bool := isAlphaAscii c || ('0' ≤ c && c ≤ '9') || c == '+' || c == '-' || c == '.'
def lowerAscii (c : Char) : Char := if 'A' ≤ c ∧ c ≤ 'Z' then Char.ofNat (c.toNat + 32) else c

/-- printable ASCII without space -/
def inDomain (s : Str) : Bool := s.all fun c => 0x21 ≤ c.toNat && c.toNat ≤ 0x7E

structure Split where
  scheme : Str
  netloc : Str
  path : Str
  query : Str
  deriving Repr, DecidableEq

def headIsAlpha (s : Str) : Bool :=
  match s.head? with
  | some c => isAlphaAscii c
  | none => false

/-- `i = url.find(':'); if i > 0 and url[0] is an ASCII letter and url[:i] ⊆ scheme_chars` -/
def splitScheme (url : Str) : Str × Str :=
  let pre := url.takeWhile (· != ':')
  if pre.length < url.length && !pre.isEmpty && headIsAlpha pre && pre.all isSchemeChar
  then (pre.map lowerAscii, url.drop (pre.length + 1))
  else ([], url)

def isNetlocEnd (c : Char) : Bool := c == '/' || c == '?' || c == '#'

/-- `if url[:2] == '//': netloc, url = _splitnetloc(url, 2)` -/
def splitNetloc : Str → Str × Str
  | '/' :: '/' :: r => (r.takeWhile (!isNetlocEnd ·), r.dropWhile (!isNetlocEnd ·))
  | r => ([], r)

/-- `urlsplit(url)` (fragment dropped); `none` = outside the modelled domain -/
def urlsplit (url : Str) : Option Split :=
  if !inDomain url then none else
  let sr := splitScheme url
  let nr := splitNetloc sr.2
  if nr.1.contains '[' || nr.1.contains ']' then none else
  let noFrag := nr.2.takeWhile (· != '#')
  some { scheme := sr.1, netloc := nr.1, path := noFrag.takeWhile (· != '?'),
         query := (noFrag.dropWhile (· != '?')).drop 1 }

/-! ### unquote + the latin-1 dance -/

/-- `urllib.parse.unquote_to_bytes` on an ASCII string: `%XX` with two hex digits becomes a byte,
any other `%` stays -/
def pctDecode : Str → Bytes
  | '%' :: a :: b :: t =>
    match hexVal a, hexVal b with
    | some x, some y => UInt8.ofNat (16 * x + y) :: pctDecode t
    | _, _ => 37 :: pctDecode (a :: b :: t)
  | c :: t => UInt8.ofNat c.toNat :: pctDecode t
  | [] => []

/-- `_wsgi_encoding_dance(unquote(s))` for ASCII `s`: percent-decode, decode as UTF-8 with
replacement, then re-encode as UTF-8 and present the bytes as latin-1 text -/
def unquoteDance (s : Str) : Str := Py.latin1Dec (utf8Enc (Py.decodeReplace (pctDecode s)))

/-- `_wsgi_encoding_dance(s)` -/
def dance (s : Str) : Str := Py.latin1Dec (utf8Enc s)

/-! ### make_environ -/

structure Environ where
  method : Str            -- REQUEST_METHOD
  pathInfo : Str          -- PATH_INFO
  query : Str             -- QUERY_STRING
  protocol : Str          -- SERVER_PROTOCOL
  rawUri : Str            -- REQUEST_URI / RAW_URI
  headers : Env           -- HTTP_* / CONTENT_TYPE / CONTENT_LENGTH in insertion order
  /-- `wsgi.input_terminated` set and `wsgi.input` wrapped in `DechunkedInput` -/
  terminated : Bool
  deriving Repr

def lowerStr (s : Str) : Str := s.map lowerAscii

/-- `environ.get("HTTP_TRANSFER_ENCODING", "").strip().lower() == "chunked"` -/
def isChunkedRequest (env : Env) : Bool :=
  match env.get "HTTP_TRANSFER_ENCODING".toList with
  | some v => lowerStr (Py.strip v) == "chunked".toList
  | none => false

def makeEnviron (command path version : Str) (headers : List (Str × Str)) : Option Environ :=
  match urlsplit path with
  | none => none
  | some u =>
    -- no scheme but a netloc: the path started with `//`, put the first segment back
    let pathInfo := if u.scheme.isEmpty && !u.netloc.isEmpty then '/' :: u.netloc ++ u.path else u.path
    let env := foldHeaders headers
    let env' := if !u.scheme.isEmpty && !u.netloc.isEmpty then env.set "HTTP_HOST".toList u.netloc else env
    some { method := command, pathInfo := unquoteDance pathInfo, query := dance u.query, protocol := version,
           rawUri := dance path, headers := env', terminated := isChunkedRequest env }

/-- CPython ≥ 3.12 `http.server.BaseHTTPRequestHandler.parse_request`: a target that starts with
`//` is reduced to a single leading slash before any handler code runs (stdlib, not werkzeug) -/
def httpServerPath (target : Str) : Str :=
  match target with
  | '/' :: '/' :: _ => '/' :: target.dropWhile (· == '/')
  | _ => target

/-! ### the response writer -/

def crlf : Bytes := [13, 10]

def strBytes (s : Str) : Bytes := s.map fun c => UInt8.ofNat c.toNat   -- `.encode("latin-1")`

/-- `status.split(None, 1)` for a status whose code is a run of digits: (code text, message) -/
def splitStatus (status : Str) : Str × Str :=
  let s := status.dropWhile Py.isSpace
  (s.takeWhile (!Py.isSpace ·), (s.dropWhile (!Py.isSpace ·)).dropWhile Py.isSpace)

def natOf (s : Str) : Nat := s.foldl (fun a c => 10 * a + (c.toNat - 48)) 0

def headerLine (h : Str × Str) : Bytes := strBytes h.1 ++ [58, 32] ++ strBytes h.2 ++ crlf

structure Resp where
  /-- `handler.protocol_version` -/
  protocol : Str
  status : Str
  /-- `Server` and `Date`, added by `send_response` (values are opaque inputs) -/
  serverHeaders : List (Str × Str)
  headers : List (Str × Str)
  isHead : Bool

def Resp.code (r : Resp) : Nat := natOf (splitStatus r.status).1

def Resp.hasContentLength (r : Resp) : Bool := r.headers.any fun h => lowerStr h.1 == "content-length".toList

def Resp.chunked (r : Resp) : Bool :=
  chunkedDecision (decide ("HTTP/1.1".toList ≤ r.protocol)) r.hasContentLength r.isHead r.code

/-- the header lines the writer emits, in order -/
def Resp.headLines (r : Resp) : List Bytes :=
  [strBytes r.protocol ++ [32] ++ strBytes (toString r.code).toList ++ [32] ++ strBytes (splitStatus r.status).2]
  ++ (r.serverHeaders ++ r.headers ++ (if r.chunked then [("Transfer-Encoding".toList, "chunked".toList)] else [])
      ++ [("Connection".toList, "close".toList)]).map fun h => strBytes h.1 ++ [58, 32] ++ strBytes h.2

/-- status line, headers, blank line — what the first `write()` puts on the wire -/
def Resp.head (r : Resp) : Bytes := (r.headLines.flatMap (· ++ crlf)) ++ crlf

/-- state of `run_wsgi`'s closure variables: `status_sent is not None`, and the bytes written so far -/
structure WState where
  sent : Bool := false
  wire : Bytes := []

/-- `write(data)` -/
def writeStep (r : Resp) (st : WState) (data : Bytes) : WState :=
  let st1 : WState := if st.sent then st else { sent := true, wire := st.wire ++ r.head }
  if data.isEmpty then st1
  else if r.chunked then { st1 with wire := st1.wire ++ hexOf false data.length ++ crlf ++ data ++ crlf }
  else { st1 with wire := st1.wire ++ data }

/-- `execute(app)`: the application calls `write` for `written`, the iterable yields `yielded`;
then `if not headers_sent: write(b"")` and the zero chunk when chunked.
(`headers_sent` is the header *list*: for an empty list the extra `write(b"")` runs although the
head was sent — it writes nothing.) -/
def runWsgi (r : Resp) (written yielded : List Bytes) : Bytes :=
  let st := (written ++ yielded).foldl (writeStep r) {}
  let st := if st.sent && !r.headers.isEmpty then st else writeStep r st []
  if r.chunked then st.wire ++ [48, 13, 10, 13, 10] else st.wire

end Wz.DevServer
