/-
Model of `werkzeug.sansio.multipart` (`MultipartDecoder`, `MultipartEncoder`) and of
`werkzeug.formparser.MultiPartParser.parse` / `_chunk_iter`.

Hand-written (validated by the streams of C01 / C10 / C02):
* leftmost matchers for exactly the regexes the class compiles: `preamble_re`, `boundary_re`
  (`searchDelim`), `BLANK_LINE_RE` (`searchBlank`), `LINE_BREAK_RE.match` (`lbLen`),
  `HEADER_CONTINUATION_RE.sub` (`foldContinuations`);
* `last_newline`, `_parse_data`, `_parse_headers`, `receive_data`, `next_event`;
* the event loop of `MultiPartParser.parse` with its field-size accounting.
Generated: the horizontal-whitespace class `[^\S\n\r]` and `SEARCH_EXTRA_LENGTH` (Gen/Multipart).
The model is of the code as it is (including the retained `_search_position` optimisation).
-/
import WzVerif.Util.Bytes
import WzVerif.Util.Py
import WzVerif.Gen.Multipart
import WzVerif.Model.FormOptions
namespace Wz.Multipart
open Wz

/-! ### byte classes -/

def isNl (b : UInt8) : Bool := b == 10 || b == 13

/-- `[^\S\n\r]` of the compiled delimiter regexes (generated table) -/
def isHws (b : UInt8) : Bool := Gen.Multipart.hws.getD b.toNat false

def searchExtra : Nat := Gen.Multipart.searchExtraLength

def hasNl (s : Bytes) : Bool := s.any isNl

/-! ### regex kernels -/

/-- length matched by `LINE_BREAK_RE.match(s)` = `(?:\r\n|\n|\r)` anchored at the start (0 = no match) -/
def lbLen : Bytes → Nat
  | [] => 0
  | a :: t =>
    if a == 10 then 1
    else if a == 13 then
      match t with
      | b :: _ => if b == 10 then 2 else 1
      | [] => 1
    else 0

/-- `BLANK_LINE_RE` = `(?:\r\n\r\n|\r\r|\n\n)` anchored at the start (0 = no match) -/
def blankLen (s : Bytes) : Nat :=
  if [13, 10, 13, 10].isPrefixOf s then 4
  else if [13, 13].isPrefixOf s then 2
  else if [10, 10].isPrefixOf s then 2
  else 0

/-- group 1 of `preamble_re` / `boundary_re` anchored at the start of `r` (the text after
`--boundary`): `(--[^\S\n\r]*LB?|[^\S\n\r]*LB)`; result = (matched length, is the closing delimiter) -/
def matchTail (r : Bytes) : Option (Nat × Bool) :=
  if [45, 45].isPrefixOf r then
    let r2 := r.drop 2
    let h := (r2.takeWhile isHws).length
    some (2 + h + lbLen (r2.drop h), true)
  else
    let h := (r.takeWhile isHws).length
    let l := lbLen (r.drop h)
    if l > 0 then some (h + l, false) else none

/-- `preamble_re` (`optLB = true`: `LB?--boundary(…)`) or `boundary_re` (`optLB = false`:
`LB--boundary(…)`) anchored at the start of `s`; result = (matched length, closing?) -/
def matchDelimAt (bnd : Bytes) (optLB : Bool) (s : Bytes) : Option (Nat × Bool) :=
  let l := lbLen s
  if !optLB && l == 0 then none
  else
    let r := s.drop l
    if (45 :: 45 :: bnd).isPrefixOf r then
      match matchTail (r.drop (bnd.length + 2)) with
      | some (n, f) => some (l + (bnd.length + 2) + n, f)
      | none => none
    else none

/-- leftmost match: (start, end, closing?) -/
def searchDelim (bnd : Bytes) (optLB : Bool) : Bytes → Option (Nat × Nat × Bool)
  | [] => none
  | a :: t =>
    match matchDelimAt bnd optLB (a :: t) with
    | some (n, f) => some (0, n, f)
    | none =>
      match searchDelim bnd optLB t with
      | some (s, e, f) => some (s + 1, e + 1, f)
      | none => none

/-- `regex.search(buffer, pos)` -/
def searchDelimFrom (bnd : Bytes) (optLB : Bool) (pos : Nat) (buf : Bytes) : Option (Nat × Nat × Bool) :=
  match searchDelim bnd optLB (buf.drop pos) with
  | some (s, e, f) => some (s + pos, e + pos, f)
  | none => none

/-- `buf.rfind(sub, start)` for a non-empty `sub`, scanning `buf` whose first byte has index `i`:
the highest index `p ≥ start` at which `sub` occurs (`none` = -1) -/
def rfindFrom (sub : Bytes) : Bytes → Nat → Nat → Option Nat
  | [], _, _ => none
  | a :: t, i, start =>
    match rfindFrom sub t (i + 1) start with
    | some p => some p
    | none => if start ≤ i && sub.isPrefixOf (a :: t) then some i else none

/-- the `_search_position` kept when `preamble_re` found nothing (as repaired for F01c): the usual
`max(0, len(buffer) - len(boundary) - SEARCH_EXTRA_LENGTH)`, lowered to two bytes before the last
`--boundary` seen at or after the previous search position, so that a delimiter whose padding or
line break has not arrived yet stays inside the searched window -/
def nextSearchPos (bnd buf : Bytes) (sp : Nat) : Nat :=
  let sp0 := buf.length - bnd.length - searchExtra
  match rfindFrom (45 :: 45 :: bnd) buf 0 sp with
  | some p => min sp0 (p - 2)
  | none => sp0

/-- leftmost match of `BLANK_LINE_RE`: (start, end) -/
def searchBlank : Bytes → Option (Nat × Nat)
  | [] => none
  | a :: t =>
    if blankLen (a :: t) > 0 then some (0, blankLen (a :: t))
    else
      match searchBlank t with
      | some (s, e) => some (s + 1, e + 1)
      | none => none

def searchBlankFrom (pos : Nat) (buf : Bytes) : Option (Nat × Nat) :=
  match searchBlank (buf.drop pos) with
  | some (s, e) => some (s + pos, e + pos)
  | none => none

/-- `buffer.find(p) != -1` -/
def containsSub (p : Bytes) : Bytes → Bool
  | [] => p.isEmpty
  | a :: t => p.isPrefixOf (a :: t) || containsSub p t

/-- `a :: t` is exactly one CRLF followed by text without line breaks -/
def isLastCrlf (a : UInt8) (t : Bytes) : Bool :=
  a == 13 && t.head? == some 10 && !hasNl t.tail

/-- `last_newline(data)`: the start of the last line break (CRLF counted as one), or `len(data)` -/
def lastNewline : Bytes → Nat
  | [] => 0
  | a :: t =>
    if hasNl t then
      if isLastCrlf a t then 0 else 1 + lastNewline t
    else if isNl a then 0
    else 1 + t.length

/-- literal transcription of `last_newline` (rfind / slicing); agrees with `lastNewline`
(both are compared with the real method by stream `regex-kernels`) -/
def lastNewlinePy (d : Bytes) : Nat :=
  let rfind (x : UInt8) : Option Nat :=
    let i := (d.reverse.takeWhile (· != x)).length
    if i == d.length then none else some (d.length - 1 - i)
  let last : Option Nat :=
    match rfind 10, rfind 13 with
    | some a, some b => some (max a b)
    | some a, none => some a
    | none, some b => some b
    | none, none => none
  match last with
  | none => d.length
  | some last =>
    if last > 0 && (d.drop (last - 1)).take 2 == [13, 10] then last - 1 else last

/-- `HEADER_CONTINUATION_RE.sub(b" ", data)`: every `LB[ \t]` becomes one SP -/
def foldContinuations (data : Bytes) : Bytes :=
  let rec go : Nat → Bytes → Bytes
    | _, [] => []
    | skip + 1, _ :: t => go skip t
    | 0, a :: t =>
      let l := lbLen (a :: t)
      let nxt := ((a :: t).drop l).head?
      if l > 0 && (nxt == some 32 || nxt == some 9) then 32 :: go l t
      else a :: go 0 t
  go 0 data

/-- `bytes.splitlines()`: line ends are `\n`, `\r`, `\r\n` only; no trailing empty line -/
def splitLines (data : Bytes) : List Bytes :=
  let rec go : Bytes → Bytes → Bool → List Bytes
    | [], cur, _ => if cur.isEmpty then [] else [cur.reverse]
    | a :: t, cur, afterCR =>
      if a == 10 then (if afterCR then go t [] false else cur.reverse :: go t [] false)
      else if a == 13 then cur.reverse :: go t [] true
      else go t (a :: cur) false
  go data [] false

/-- bytes whitespace of `bytes.strip()` -/
def isBytesSpace (b : UInt8) : Bool := b == 32 || (9 ≤ b && b ≤ 13)

def stripBytes (s : Bytes) : Bytes :=
  ((s.dropWhile isBytesSpace).reverse.dropWhile isBytesSpace).reverse

abbrev Str := List Char
abbrev Headers := List (Str × Str)

/-- `str.partition(":")` -> (before, after) -/
def partitionColon (s : Str) : Str × Str :=
  (s.takeWhile (· != ':'), (s.dropWhile (· != ':')).drop 1)

/-- `_parse_headers`; `.error "UnicodeDecodeError"` when a line is not UTF-8 -/
def parseHeaders (data : Bytes) : Except String Headers :=
  let lines := (splitLines (foldContinuations data)).map stripBytes |>.filter (!·.isEmpty)
  lines.foldr (fun ln acc =>
    match utf8Dec? ln, acc with
    | none, _ => .error "UnicodeDecodeError"
    | _, .error e => .error e
    | some s, .ok hs =>
      let (n, v) := partitionColon s
      .ok ((Py.strip n, Py.strip v) :: hs)) (.ok [])

/-- `str.lower()` restricted to ASCII (header names; see assumptions) -/
def lowerAscii (s : Str) : Str := s.map Char.toLower

/-- `Headers.get(key)` (first entry whose lower-cased name equals the lower-case `key`) -/
def headerGet (key : Str) : Headers → Option Str
  | [] => none
  | (k, v) :: t => if lowerAscii k == key then some v else headerGet key t

/-! ### `_parse_data` -/

structure DataRes where
  payload : Bytes
  delIndex : Nat
  /-- `none` = more_data; `some closing` = a delimiter was matched -/
  next : Option Bool
deriving Repr, DecidableEq

/-- (data_end, del_index, decision) of `_parse_data` -/
def dataCut (bnd : Bytes) (buf : Bytes) : Nat × Nat × Option Bool :=
  let delim : Bytes := 45 :: 45 :: bnd
  if !containsSub delim buf then
    let k := lastNewline buf
    if buf.length - k > delim.length + 1 then (buf.length, buf.length, none) else (k, k, none)
  else
    match searchDelim bnd false buf with
    | some (s, e, f) => (s, e, some f)
    | none => let k := lastNewline buf; (k, k, none)

/-- `_parse_data(buffer, start=…)`; `.error "AttributeError"` when `start` and the buffer does not
begin with a line break (unreachable from `next_event`) -/
def parseData (bnd : Bytes) (buf : Bytes) (start : Bool) : Except String DataRes :=
  let ds := if start then lbLen buf else 0
  if start && ds == 0 then .error "AttributeError"
  else
    let (de, di, nx) := dataCut bnd buf
    .ok ⟨(buf.take de).drop ds, di, nx⟩

/-- one `next_event` call in state DATA (`start = false`) or DATA_START (`start = true`) as a function
of the buffer: (payload released, new buffer, still waiting in DATA_START?, delimiter decision).
In DATA_START nothing is consumed while `del_index == 0`. -/
def dataStep (bnd : Bytes) (start : Bool) (buf : Bytes) :
    Except String (Bytes × Bytes × Bool × Option Bool) :=
  match parseData bnd buf start with
  | .error e => .error e
  | .ok r =>
    if start && r.delIndex == 0 then .ok ([], buf, true, none)
    else .ok (r.payload, buf.drop r.delIndex, false, r.next)

/-- the `next_event` loop while the decoder stays in DATA / DATA_START: repeat `dataStep` until a
delimiter is recognised or NEED_DATA is answered; `acc` collects the payload of the Data events.
Result: (payload so far, buffer, still DATA_START?, decision). -/
def dataLoop (bnd : Bytes) : Nat → Bool → Bytes → Bytes →
    Except String (Bytes × Bytes × Bool × Option Bool)
  | 0, start, buf, acc => .ok (acc, buf, start, none)
  | fuel + 1, start, buf, acc =>
    match dataStep bnd start buf with
    | .error e => .error e
    | .ok (p, buf', start', nx) =>
      match nx with
      | some f => .ok (acc ++ p, buf', false, some f)
      | none =>
        if start' then .ok (acc, buf, true, none)
        else if start || !p.isEmpty then dataLoop bnd fuel false buf' (acc ++ p)
        else .ok (acc, buf', false, none)

/-- the DATA phase of one part over successive chunks: drain the buffer, append the next chunk,
drain again … until the delimiter that ends the part is recognised.
Result: the concatenated payload and, when a delimiter was recognised, (closing?, the bytes after
the delimiter ++ the chunks not yet received). -/
def dataPhase (bnd : Bytes) : Bool → Bytes → Bytes → List Bytes →
    Except String (Bytes × Option (Bool × Bytes))
  | start, buf, acc, [] =>
    match dataLoop bnd (buf.length + 1) start buf acc with
    | .error e => .error e
    | .ok (acc', buf', _, some f) => .ok (acc', some (f, buf'))
    | .ok (acc', _, _, none) => .ok (acc', none)
  | start, buf, acc, c :: cs =>
    match dataLoop bnd (buf.length + 1) start buf acc with
    | .error e => .error e
    | .ok (acc', buf', _, some f) => .ok (acc', some (f, buf' ++ (c :: cs).flatten))
    | .ok (acc', buf', start', none) => dataPhase bnd start' (buf' ++ c) acc' cs

/-- reference semantics of the DATA phase on the whole remaining stream `S`: the payload is what
precedes the leftmost match of `boundary_re` (minus the line break that ends the headers when
`start`), followed by the delimiter decision and the bytes after the delimiter -/
def dataSpec (bnd : Bytes) (start : Bool) (S : Bytes) : Option (Bytes × Bool × Bytes) :=
  match searchDelim bnd false S with
  | some (s, e, f) => some ((S.take s).drop (if start then lbLen S else 0), f, S.drop e)
  | none => none

/-! ### decoder -/

inductive State where
  | preamble | part | dataStart | data | epilogue | complete
deriving Repr, DecidableEq

structure Decoder where
  boundary : Bytes
  buffer : Bytes := []
  state : State := .preamble
  complete : Bool := false
  searchPos : Nat := 0
  partsDecoded : Nat := 0
  maxMem : Option Nat := none
  maxParts : Option Nat := none
deriving Repr, DecidableEq

inductive Event where
  | preamble (d : Bytes)
  | field (name : Option Str) (headers : Headers)
  | file (name : Option Str) (filename : Str) (headers : Headers)
  | data (d : Bytes) (more : Bool)
  | epilogue (d : Bytes)
  | needData
deriving Repr, DecidableEq

/-- `receive_data(data)`; `none` = `receive_data(None)` -/
def receive (d : Decoder) : Option Bytes → Except String Decoder
  | none => .ok { d with complete := true }
  | some c =>
    match d.maxMem with
    | some m =>
      if d.buffer.length + c.length > m then .error "RequestEntityTooLarge"
      else .ok { d with buffer := d.buffer ++ c }
    | none => .ok { d with buffer := d.buffer ++ c }

def afterDelim (closing : Bool) : State := if closing then .epilogue else .part

/-- `next_event` in state DATA (`start = false`) / DATA_START (`start = true`): one `_parse_data`
call (`dataStep`) turned into an event -/
def stepData (d : Decoder) (start : Bool) : Except String (Event × Decoder) :=
  match dataStep d.boundary start d.buffer with
  | .error err => .error err
  | .ok (p, buf', start', nx) =>
    let st' : State := match nx with
      | some f => afterDelim f
      | none => if start' then .dataStart else .data
    let d1 := { d with buffer := buf', state := st' }
    -- DATA_START: nothing is consumed while del_index == 0
    if start' then .ok (.needData, d1)
    else if start || !p.isEmpty || nx.isSome then .ok (.data p nx.isNone, d1)
    else .ok (.needData, d1)

/-- the body of `next_event` before the final `complete and NeedData` check -/
def step (d : Decoder) : Except String (Event × Decoder) :=
  match d.state with
  | .preamble =>
    match searchDelimFrom d.boundary true d.searchPos d.buffer with
    | some (s, e, f) =>
      .ok (.preamble (d.buffer.take s),
        { d with buffer := d.buffer.drop e, state := afterDelim f, searchPos := 0 })
    | none =>
      .ok (.needData, { d with searchPos := nextSearchPos d.boundary d.buffer d.searchPos })
  | .part =>
    match searchBlankFrom d.searchPos d.buffer with
    | some (s, e) =>
      match parseHeaders (d.buffer.take s) with
      | .error err => .error err
      | .ok headers =>
        let d1 := { d with buffer := d.buffer.drop ((s + e) / 2) }
        match headerGet "content-disposition".toList headers with
        | none => .error "ValueError"
        | some cd =>
          match FormOptions.parseOptionsHeader cd with
          | .error err => .error err
          | .ok (_, extra) =>
            let name := FormOptions.lookup "name".toList extra
            let ev : Event :=
              match FormOptions.lookup "filename".toList extra with
              | some fn => .file name fn headers
              | none => .field name headers
            let d2 := { d1 with state := .dataStart, searchPos := 0, partsDecoded := d.partsDecoded + 1 }
            match d.maxParts with
            | some m => if d2.partsDecoded > m then .error "RequestEntityTooLarge" else .ok (ev, d2)
            | none => .ok (ev, d2)
    | none => .ok (.needData, { d with searchPos := d.buffer.length - searchExtra })
  | .dataStart => stepData d true
  | .data => stepData d false
  | .epilogue =>
    if d.complete then .ok (.epilogue d.buffer, { d with buffer := [], state := .complete })
    else .ok (.needData, d)
  | .complete => .ok (.needData, d)

/-- `next_event()` -/
def nextEvent (d : Decoder) : Except String (Event × Decoder) :=
  match step d with
  | .error e => .error e
  | .ok (ev, d') =>
    if d.complete && ev == .needData then .error "ValueError" else .ok (ev, d')

/-- outcome of a run: the events produced so far and the exception class that ended it, if any -/
structure Run where
  events : List Event := []
  err : Option String := none
  dec : Decoder
deriving Repr

/-- call `next_event` until it returns `NEED_DATA` or an `Epilogue` (or raises); `fuel` bounds the
number of events (every event consumes at least one buffered byte or ends the run) -/
def drain : Nat → Decoder → List Event → Run
  | 0, d, acc => { events := acc.reverse, err := some "FUEL", dec := d }
  | fuel + 1, d, acc =>
    match nextEvent d with
    | .error e => { events := acc.reverse, err := some e, dec := d }
    | .ok (.needData, d') => { events := acc.reverse, dec := d' }
    | .ok (.epilogue x, d') => { events := (Event.epilogue x :: acc).reverse, dec := d' }
    | .ok (ev, d') => drain fuel d' (ev :: acc)

def drainFuel (d : Decoder) : Nat := d.buffer.length + 3

/-- `receive_data(c)` followed by draining -/
def feed (d : Decoder) (c : Option Bytes) : Run :=
  match receive d c with
  | .error e => { err := some e, dec := d }
  | .ok d' => drain (drainFuel d') d' []

/-- feed the chunks one by one, then `None` -/
def feedAll : Decoder → List Bytes → Run
  | d, [] => feed d none
  | d, c :: cs =>
    let r := feed d (some c)
    match r.err with
    | some _ => r
    | none =>
      let r2 := feedAll r.dec cs
      { r2 with events := r.events ++ r2.events }

def mkDecoder (bnd : Bytes) (maxMem maxParts : Option Nat) : Decoder :=
  { boundary := bnd, maxMem := maxMem, maxParts := maxParts }

def decodeChunks (bnd : Bytes) (maxMem maxParts : Option Nat) (chunks : List Bytes) : Run :=
  feedAll (mkDecoder bnd maxMem maxParts) chunks

/-! ### parts -/

structure Part where
  isFile : Bool
  name : Option Str
  filename : Option Str
  headers : Headers
  payload : Bytes
deriving Repr, DecidableEq

/-- what the property compares: per part kind, name, filename, headers and the concatenated payload
(preamble and epilogue are dropped) -/
def partsGo : Option Part → List Event → List Part
  | cur, [] => cur.toList
  | cur, .field n h :: t => cur.toList ++ partsGo (some ⟨false, n, none, h, []⟩) t
  | cur, .file n f h :: t => cur.toList ++ partsGo (some ⟨true, n, some f, h, []⟩) t
  | some p, .data d _ :: t => partsGo (some { p with payload := p.payload ++ d }) t
  | none, .data _ _ :: t => partsGo none t
  | cur, _ :: t => partsGo cur t

def partsOf (evs : List Event) : List Part := partsGo none evs

/-! ### `MultiPartParser.parse` -/

/-- `bytes.decode("ascii", "replace")` -/
def asciiReplace (b : Bytes) : Str := b.map fun x => if x < 128 then Char.ofNat x.toNat else Char.ofNat 0xFFFD

/-- `get_part_charset(headers)` -/
def partCharset (headers : Headers) : Except String Str :=
  match headerGet "content-type".toList headers with
  | none => .ok "utf-8".toList
  | some ct =>
    if ct.isEmpty then .ok "utf-8".toList
    else
      match FormOptions.parseOptionsHeader ct with
      | .error e => .error e
      | .ok (_, params) =>
        let cs := lowerAscii ((FormOptions.lookup "charset".toList params).getD [])
        if cs == "ascii".toList || cs == "us-ascii".toList || cs == "utf-8".toList ||
            cs == "iso-8859-1".toList then .ok cs
        else .ok "utf-8".toList

/-- `bytes.decode(charset, "replace")` for the four admitted charsets -/
def decodeCharset (cs : Str) (b : Bytes) : Str :=
  if cs == "utf-8".toList then Py.decodeReplace b
  else if cs == "iso-8859-1".toList then Py.latin1Dec b
  else asciiReplace b

structure FileItem where
  name : Option Str
  filename : Str
  headers : Headers
  content : Bytes
deriving Repr, DecidableEq

structure FormState where
  cur : Option Part := none
  fieldSize : Option Nat := none
  fields : List (Option Str × Str) := []
  files : List FileItem := []
deriving Repr

/-- `field_size += len(event.data); if field_size > max_form_memory_size: raise` (only with a limit
and only for non-file parts, where `field_size` is not `None`) -/
def fieldSizeStep (maxMem : Option Nat) (fieldSize : Option Nat) (n : Nat) : Except String (Option Nat) :=
  match maxMem, fieldSize with
  | some m, some sz => if sz + n > m then .error "RequestEntityTooLarge" else .ok (some (sz + n))
  | _, fsz => .ok fsz

/-- one iteration of the `while not isinstance(event, (Epilogue, NeedData))` body -/
def formEvent (maxMem : Option Nat) (st : FormState) : Event → Except String FormState
  | .field n h => .ok { st with cur := some ⟨false, n, none, h, []⟩, fieldSize := some 0 }
  | .file n f h => .ok { st with cur := some ⟨true, n, some f, h, []⟩, fieldSize := none }
  | .data d more =>
    match fieldSizeStep maxMem st.fieldSize d.length with
    | .error e => .error e
    | .ok fsz =>
      match st.cur with
      | none => .error "UnboundLocalError"
      | some p =>
        let p' := { p with payload := p.payload ++ d }
        if more then .ok { st with cur := some p', fieldSize := fsz }
        else if p'.isFile then
          .ok { st with cur := some p', fieldSize := fsz,
                        files := st.files ++ [⟨p'.name, p'.filename.getD [], p'.headers, p'.payload⟩] }
        else
          match partCharset p'.headers with
          | .error e => .error e
          | .ok cs =>
            .ok { st with cur := some p', fieldSize := fsz,
                          fields := st.fields ++ [(p'.name, decodeCharset cs p'.payload)] }
  | _ => .ok st

def formEvents (maxMem : Option Nat) : FormState → List Event → Except String FormState
  | st, [] => .ok st
  | st, ev :: t =>
    match formEvent maxMem st ev with
    | .error e => .error e
    | .ok st' => formEvents maxMem st' t

/-- the `for data in _chunk_iter(...)` loop: chunks, then `None` -/
def formLoop (maxMem : Option Nat) : Decoder → FormState → List (Option Bytes) → Except String FormState
  | _, st, [] => .ok st
  | d, st, c :: cs =>
    let r := feed d c
    match formEvents maxMem st r.events with
    | .error e => .error e
    | .ok st' =>
      match r.err with
      | some e => .error e
      | none => formLoop maxMem r.dec st' cs

/-- the reads `_chunk_iter(stream.read, buffer_size)` sees on a stream that delivers at most
`sched[i]` (at least one) bytes on the i-th call and full reads afterwards -/
def readChunks (bufSize : Nat) : Nat → List Nat → Bytes → List Bytes
  | 0, _, _ => []
  | _, _, [] => []
  | fuel + 1, sched, body =>
    let n := max 1 (min bufSize (sched.headD bufSize))
    body.take n :: readChunks bufSize fuel sched.tail (body.drop n)

/-- `MultiPartParser(max_form_memory_size, buffer_size, max_form_parts).parse(stream, boundary, _)` -/
def formParse (bnd : Bytes) (maxMem maxParts : Option Nat) (bufSize : Nat) (sched : List Nat)
    (body : Bytes) : Except String (List (Option Str × Str) × List FileItem) :=
  let chunks := readChunks bufSize body.length sched body
  match formLoop maxMem (mkDecoder bnd maxMem maxParts) {} (chunks.map some ++ [none]) with
  | .error e => .error e
  | .ok st => .ok (st.fields, st.files)

/-! ### encoder -/

def crlf : Bytes := [13, 10]

def str (s : String) : Bytes := s.toUTF8.toList

/-- `MultipartEncoder.send_event`; `.error "ValueError"` for an event that is not allowed in the
current state, `.error "AttributeError"` for a part without a name -/
def sendEvent (bnd : Bytes) (st : State) (ev : Event) : Except String (Bytes × State) :=
  let part (name : Option Str) (filename : Option Str) (headers : Headers) : Except String (Bytes × State) :=
    if st == .preamble || st == .part || st == .data then
      match name with
      | none => .error "AttributeError"
      | some n =>
        let d0 := crlf ++ 45 :: 45 :: bnd ++ crlf ++ str "Content-Disposition: form-data; name=\"" ++ utf8Enc n ++ [34]
        let d1 := match filename with
          | some f => d0 ++ str "; filename=\"" ++ utf8Enc f ++ [34]
          | none => d0
        let hs := headers.filter (fun (k, _) => lowerAscii k != "content-disposition".toList)
        .ok (d1 ++ crlf ++ (hs.map fun (k, v) => utf8Enc (k ++ ':' :: ' ' :: v) ++ crlf).flatten, .dataStart)
    else .error "ValueError"
  match ev with
  | .preamble d => if st == .preamble then .ok (d, .part) else .error "ValueError"
  | .field n h => part n none h
  | .file n f h => part n (some f) h
  | .data d more =>
    if st == .dataStart then
      -- the line break that starts the body is written with the first non-empty data; an empty
      -- chunk with more_data keeps the encoder at the start of the body
      if d.length > 0 then .ok (crlf ++ d, .data)
      else .ok (d, if more then .dataStart else .data)
    else if st == .data then .ok (d, .data)
    else .error "ValueError"
  | .epilogue d => .ok (crlf ++ 45 :: 45 :: bnd ++ [45, 45] ++ crlf ++ d, .complete)
  | .needData => .error "ValueError"

/-- feed a list of events through a fresh encoder; the concatenated output -/
def encodeEvents (bnd : Bytes) : State → List Event → Except String Bytes
  | _, [] => .ok []
  | st, ev :: t =>
    match sendEvent bnd st ev with
    | .error e => .error e
    | .ok (out, st') =>
      match encodeEvents bnd st' t with
      | .error e => .error e
      | .ok rest => .ok (out ++ rest)

/-- the Field / File event of a part -/
def partHeadEvent (p : Part) : Event :=
  match p.filename with
  | some f => .file p.name f p.headers
  | none => .field p.name p.headers

/-- the events `stream_encode_multipart` sends for one part: a Field/File event and one Data event -/
def partEvents (p : Part) : List Event := [partHeadEvent p, .data p.payload false]

/-- `Preamble(b"")`, the parts, `Epilogue(b"")` through a fresh encoder (what
`stream_encode_multipart` / `encode_multipart` do) -/
def encodeAll (bnd : Bytes) (parts : List Part) : Except String Bytes :=
  encodeEvents bnd .preamble (.preamble [] :: (parts.flatMap partEvents ++ [.epilogue []]))

end Wz.Multipart
