/-
Model of the request-level glue around the form parsers (`werkzeug.wrappers.request.Request`,
`werkzeug.formparser.FormDataParser`):

* `Request.stream` (cached property over `wsgi.get_input_stream(environ, max_content_length)`),
  `Request._get_stream_for_parsing`, `Request.make_form_data_parser`, `Request._load_form_data`,
  `Request.get_data(cache, parse_form_data)`, `.data`, `.form`, `.files`, `.values`,
  `.get_json(force=True, silent=True, cache)`;
* `FormDataParser.parse` (mimetype → parse function, `except ValueError` with `silent=True`),
  `_parse_multipart` (boundary option, `MultiPartParser(...)` with the parser's limits, 64 KiB reads),
  `_parse_urlencoded` (declared-length check, bounded read).

One `Request` object is a state `RS`; an *access history* is a list of `Op`; `run` gives what every
access returned or raised. `wsgi.input` is a `BytesIO`-like stream (every read returns all it is asked
for while bytes remain; short reads are the subject of C01 / C09). The stream objects `Request.stream`
can be (`Strm`) are described by what they can still deliver (`avail`) and by what the read after the
last byte does (`endErr`): the closed form of `LimitedStream.read / readall` over such an input
(`LimitedStream` itself is C09's model; this closed form is validated by stream `request-histories`).

Ghost field: `RS.calls` records, for every run of a parse function, the limits it was given and
where its bytes came from — it is only there to state `history_parser_limits`.
-/
import WzVerif.Model.Multipart
import WzVerif.Model.Urlencode
namespace Wz.FormReq
open Wz Wz.Multipart

/-- the mimetype of CONTENT_TYPE as far as `FormDataParser.parse` and `want_form_data_parsed`
distinguish it -/
inductive Mime where
  /-- `multipart/form-data` with `options.get("boundary", "")` (ASCII; empty = missing) -/
  | multipart (boundary : Bytes)
  /-- `application/x-www-form-urlencoded` -/
  | urlencoded
  /-- any other non-empty content type (`application/json`, `text/plain` …) -/
  | other
  /-- no or empty CONTENT_TYPE: `want_form_data_parsed` is false -/
  | absent
  deriving Repr, DecidableEq

/-- what does not change during the life of a request -/
structure Cfg where
  /-- `Request.max_content_length` -/
  mcl : Option Nat
  /-- `Request.max_form_memory_size` -/
  mm : Option Nat
  /-- `Request.max_form_parts` -/
  mp : Option Nat
  mime : Mime
  /-- `get_content_length(environ)` (= `Request.content_length`) -/
  declared : Option Nat
  /-- `"wsgi.input_terminated" in environ` -/
  terminated : Bool
  deriving Repr, DecidableEq

/-- a stream object the request can hold in `__dict__["stream"]` -/
inductive Strm where
  /-- `io.BytesIO()` (no usable length, stream not terminated) -/
  | empty
  /-- `environ["wsgi.input"]` itself -/
  | raw
  /-- `LimitedStream(wsgi.input, limit, is_max)` at position `pos` -/
  | limited (limit pos : Nat) (isMax : Bool)
  /-- `BytesIO(cached_data)`, `rest` still unread -/
  | bio (rest : Bytes)
  deriving Repr, DecidableEq

abbrev FormRes := List (Option Str × Str) × List FileItem

/-- ghost: one run of a parse function -/
structure ParserCall where
  mm : Option Nat
  mp : Option Nat
  contentLength : Option Nat
  fromCache : Bool
  deriving Repr, DecidableEq

/-- the mutable part of one `Request` object (+ the bytes `wsgi.input` has not handed out yet) -/
structure RS where
  input : Bytes
  /-- `__dict__["stream"]` -/
  stream : Option Strm := none
  /-- `_cached_data` -/
  cached : Option Bytes := none
  /-- `__dict__["form"]`, `__dict__["files"]` -/
  form : Option FormRes := none
  /-- `__dict__["data"]` -/
  dataProp : Option Bytes := none
  /-- `_cached_json[True] is not Ellipsis` -/
  jsonDone : Bool := false
  /-- ghost -/
  calls : List ParserCall := []
  deriving Repr

/-! ### streams -/

/-- `wsgi.get_input_stream(environ, max_content_length=mcl)` on parsed values: `none` = raises
RequestEntityTooLarge (declared length above the maximum) -/
def chooseStream (c : Cfg) : Option Strm :=
  let over := match c.declared, c.mcl with
    | some n, some m => decide (n > m)
    | _, _ => false
  if over then none
  else if c.terminated then
    match c.mcl with
    | some m => some (.limited m 0 true)
    | none => some .raw
  else
    match c.declared with
    | none => some .empty
    | some n => some (.limited n 0 false)

/-- the bytes the stream can still deliver, given what `wsgi.input` still holds -/
def avail : Strm → Bytes → Bytes
  | .empty, _ => []
  | .raw, i => i
  | .limited l p _, i => i.take (l - p)
  | .bio rest, _ => rest

/-- what the read that follows the last deliverable byte does: `some e` = raises `e`, `none` = returns
`b""`. At the limit `on_exhausted` raises for a maximum; before the limit (the input ended early)
`on_disconnect` raises unless the limit is a maximum. -/
def endErr : Strm → Bytes → Option String
  | .limited l p isMax, i =>
    if l - p ≤ i.length then (if isMax then some "RequestEntityTooLarge" else none)
    else (if isMax then none else some "ClientDisconnected")
  | _, _ => none

/-- the stream and the input after `k` deliverable bytes were read -/
def advance : Strm → Bytes → Nat → Strm × Bytes
  | .empty, i, _ => (.empty, i)
  | .raw, i, k => (.raw, i.drop k)
  | .limited l p m, i, k => (.limited l (p + k) m, i.drop k)
  | .bio rest, i, k => (.bio (rest.drop k), i)

/-- `stream.read()`: everything that is left. A `LimitedStream` that is already at its limit calls
`on_exhausted`; one that reaches its limit while reading returns what it has **without raising**
(F09b / F10b); one whose input ends early raises ClientDisconnected unless the limit is a maximum. -/
def sReadAll (s : Strm) (i : Bytes) : Except String Bytes × Strm × Bytes :=
  match s with
  | .limited l p isMax =>
    if l ≤ p then ((if isMax then .error "RequestEntityTooLarge" else .ok []), s, i)
    else if l - p ≤ i.length then (.ok (i.take (l - p)), advance s i (l - p))
    else if isMax then (.ok i, advance s i i.length)
    else (.error "ClientDisconnected", advance s i i.length)
  | _ => (.ok (avail s i), advance s i (avail s i).length)

/-! ### the parse functions over a stream -/

/-- `formLoop` that also counts the chunks it consumed -/
def formLoopN (maxMem : Option Nat) : Decoder → FormState → List (Option Bytes) → Except String FormState × Nat
  | _, st, [] => (.ok st, 0)
  | d, st, c :: cs =>
    let r := feed d c
    match formEvents maxMem st r.events with
    | .error e => (.error e, 1)
    | .ok st' =>
      match r.err with
      | some e => (.error e, 1)
      | none =>
        let res := formLoopN maxMem r.dec st' cs
        (res.1, res.2 + 1)

def lenSum (l : List Bytes) : Nat := l.flatten.length

/-- `MultiPartParser.buffer_size` as `FormDataParser._parse_multipart` leaves it (the default) -/
def bufferSize : Nat := 65536

/-- `MultiPartParser(max_form_memory_size=mm, max_form_parts=mp).parse(stream, boundary, _)` reading
`stream` in `bufferSize` pieces: result, and the stream / input afterwards (an exception leaves the
stream where the failing chunk ended) -/
def parseMultipartS (bnd : Bytes) (mm mp : Option Nat) (s : Strm) (i : Bytes) :
    Except String FormRes × Strm × Bytes :=
  let D := avail s i
  let chunks := readChunks bufferSize D.length [] D
  match endErr s i with
  | none =>
    let r := formLoopN mm (mkDecoder bnd mm mp) {} (chunks.map some ++ [none])
    (r.1.map (fun st => (st.fields, st.files)), advance s i (lenSum (chunks.take r.2)))
  | some e =>
    let r := formLoopN mm (mkDecoder bnd mm mp) {} (chunks.map some)
    match r.1 with
    | .error e' => (.error e', advance s i (lenSum (chunks.take r.2)))
    | .ok _ => (.error e, advance s i D.length)

/-- `FormDataParser(max_form_memory_size=mm)._parse_urlencoded(stream, _, content_length, _)` -/
def parseUrlencodedS (mm : Option Nat) (cl : Option Nat) (s : Strm) (i : Bytes) :
    Except String FormRes × Strm × Bytes :=
  let decode (data : Bytes) : Except String FormRes :=
    match utf8Dec? data with
    | none => .error "UnicodeDecodeError"
    | some t => .ok ((Urlencode.parseQsl true t).map (fun (k, v) => (some k, v)), [])
  match mm with
  | none =>
    match sReadAll s i with
    | (.error e, s', i') => (.error e, s', i')
    | (.ok data, s', i') => (decode data, s', i')
  | some m =>
    if Urlencode.declaredTooLarge m cl then (.error "RequestEntityTooLarge", s, i)
    else
      let D := avail s i
      if D.length > m then (.error "RequestEntityTooLarge", advance s i (m + 1))
      else
        match endErr s i with
        | some e => (.error e, advance s i D.length)
        | none => (decode D, advance s i D.length)

/-- exception classes `except ValueError` catches among those the parse functions can raise -/
def isValueError (e : String) : Bool :=
  e == "ValueError" || e == "UnicodeDecodeError" || e == "UnicodeEncodeError"

/-- `except ValueError: if not self.silent: raise` with `silent=True`, then `return stream, cls(), cls()`:
a ValueError gives the empty result (the stream stays where the parse function left it) -/
def silentRes (r : Except String FormRes × Strm × Bytes) : Except String FormRes × Strm × Bytes :=
  match r.1 with
  | .error e => if isValueError e then (.ok ([], []), r.2.1, r.2.2) else r
  | .ok _ => r

/-- `FormDataParser(max_form_memory_size=mm, max_form_parts=mp, silent=True).parse(stream, mimetype,
content_length, options)`: dispatch on the mimetype -/
def parseDispatch (mime : Mime) (mm mp cl : Option Nat) (s : Strm) (i : Bytes) :
    Except String FormRes × Strm × Bytes :=
  match mime with
  | .multipart bnd =>
    if bnd.isEmpty then (.ok ([], []), s, i)       -- ValueError("Missing boundary"), silenced
    else silentRes (parseMultipartS bnd mm mp s i)
  | .urlencoded => silentRes (parseUrlencodedS mm cl s i)
  | _ => (.ok ([], []), s, i)

/-- does a parse function run for this mimetype? -/
def Mime.parsed : Mime → Bool
  | .multipart _ => true
  | .urlencoded => true
  | _ => false

/-! ### the request -/

/-- `self.stream` (cached property): created on first use; `.error` = `get_input_stream` raised and
nothing was stored -/
def getStream (c : Cfg) (w : RS) : Except String (Strm × RS) :=
  match w.stream with
  | some s => .ok (s, w)
  | none =>
    match chooseStream c with
    | none => .error "RequestEntityTooLarge"
    | some s => .ok (s, { w with stream := some s })

/-- `parser = self.make_form_data_parser(); parser.parse(stream, self.mimetype, self.content_length,
self.mimetype_params)`: the parser is given the request's limits and declared length -/
def parseFrom (c : Cfg) (s : Strm) (i : Bytes) : Except String FormRes × Strm × Bytes :=
  parseDispatch c.mime c.mm c.mp c.declared s i

/-- ghost record of that run (none when the mimetype has no parse function) -/
def callOf (c : Cfg) (fromCache : Bool) : List ParserCall :=
  if c.mime.parsed then [⟨c.mm, c.mp, c.declared, fromCache⟩] else []

/-- `_load_form_data` when `_cached_data` is set: `_get_stream_for_parsing()` is a fresh
`BytesIO(cached_data)`; `wsgi.input` is not touched -/
def loadCached (c : Cfg) (w : RS) (d : Bytes) : Option String × RS :=
  let r := parseFrom c (.bio d) w.input
  match r.1 with
  | .error e => (some e, { w with calls := w.calls ++ callOf c true })
  | .ok res => (none, { w with stream := some r.2.1, form := some res, calls := w.calls ++ callOf c true })

/-- `_load_form_data` when nothing is cached: the parser reads `self.stream` -/
def loadStream (c : Cfg) (w : RS) : Option String × RS :=
  match getStream c w with
  | .error e => (some e, w)
  | .ok (s, w1) =>
    let r := parseFrom c s w1.input
    match r.1 with
    | .error e => (some e, { w1 with stream := some r.2.1, input := r.2.2, calls := w1.calls ++ callOf c false })
    | .ok res =>
      (none, { w1 with stream := some r.2.1, input := r.2.2, form := some res, calls := w1.calls ++ callOf c false })

/-- `_load_form_data` when `want_form_data_parsed` is false -/
def loadPlain (c : Cfg) (w : RS) : Option String × RS :=
  match getStream c w with
  | .error e => (some e, w)
  | .ok (_, w1) => (none, { w1 with form := some ([], []) })

/-- `Request._load_form_data()`; `some e` = raised `e` -/
def loadForm (c : Cfg) (w : RS) : Option String × RS :=
  if w.form.isSome then (none, w)
  else if c.mime != .absent then
    match w.cached with
    | some d => loadCached c w d
    | none => loadStream c w
  else loadPlain c w

/-- `self.stream.read()` -/
def streamReadAll (c : Cfg) (w : RS) : Except String Bytes × RS :=
  match getStream c w with
  | .error e => (.error e, w)
  | .ok (s, w1) =>
    let r := sReadAll s w1.input
    (r.1, { w1 with stream := some r.2.1, input := r.2.2 })

/-- `Request.get_data(cache, parse_form_data)` -/
def getData (c : Cfg) (cache parse : Bool) (w : RS) : Except String Bytes × RS :=
  match w.cached with
  | some d => (.ok d, w)
  | none =>
    let l := if parse then loadForm c w else (none, w)
    match l.1 with
    | some e => (.error e, l.2)
    | none =>
      match streamReadAll c l.2 with
      | (.error e, w2) => (.error e, w2)
      | (.ok d, w2) => (.ok d, if cache then { w2 with cached := some d } else w2)

inductive Op where
  | getData (cache parse : Bool)
  /-- `.data` (cached property over `get_data(parse_form_data=True)`) -/
  | data
  /-- `.stream.read()` -/
  | streamRead
  | form
  | files
  /-- `.values` of a POST request: the form after the (here empty) query arguments -/
  | values
  /-- `.get_json(force=True, silent=True, cache=cache)`: only its effect on the body is modelled -/
  | json (cache : Bool)
  deriving Repr, DecidableEq

inductive Obs where
  | bytes (b : Bytes)
  | fields (f : List (Option Str × Str))
  | files (f : List FileItem)
  | json
  | exc (e : String)
  deriving Repr, DecidableEq

def obsBytes : Except String Bytes → Obs
  | .ok b => .bytes b
  | .error e => .exc e

/-- one access -/
def stepOp (c : Cfg) (w : RS) : Op → Obs × RS
  | .getData cache parse =>
    let r := getData c cache parse w
    (obsBytes r.1, r.2)
  | .data =>
    match w.dataProp with
    | some d => (.bytes d, w)
    | none =>
      match getData c true true w with
      | (.error e, w') => (.exc e, w')
      | (.ok d, w') => (.bytes d, { w' with dataProp := some d })
  | .streamRead =>
    let r := streamReadAll c w
    (obsBytes r.1, r.2)
  | .form =>
    match loadForm c w with
    | (some e, w') => (.exc e, w')
    | (none, w') => (.fields (w'.form.getD ([], [])).1, w')
  | .values =>
    match loadForm c w with
    | (some e, w') => (.exc e, w')
    | (none, w') => (.fields (w'.form.getD ([], [])).1, w')
  | .files =>
    match loadForm c w with
    | (some e, w') => (.exc e, w')
    | (none, w') => (.files (w'.form.getD ([], [])).2, w')
  | .json cache =>
    if cache && w.jsonDone then (.json, w)
    else
      match getData c cache false w with
      | (.error e, w') => (.exc e, w')
      | (.ok _, w') => (.json, { w' with jsonDone := w'.jsonDone || cache })

/-- an access history on one request object -/
def run (c : Cfg) : RS → List Op → List Obs × RS
  | w, [] => ([], w)
  | w, op :: ops =>
    let r := stepOp c w op
    let rest := run c r.2 ops
    (r.1 :: rest.1, rest.2)

/-- a fresh request over a body -/
def fresh (body : Bytes) : RS := { input := body }

/-- bytes taken from `wsgi.input` so far -/
def taken (body : Bytes) (w : RS) : Nat := body.length - w.input.length

end Wz.FormReq
