/-
Model of `werkzeug.wsgi.LimitedStream` (readinto / readall / exhaust / on_exhausted /
on_disconnect as coded after fix 87f3b4d), of the CPython glue that sits on top of `readinto`
(`RawIOBase.read`, `IOBase.readline / readlines / __next__`; modelled, not verified) and of
`wsgi.get_input_stream` + `sansio.utils.get_content_length`.

The underlying stream (`environ["wsgi.input"]`) is *remaining data + an oracle list*: every
underlying call consumes one oracle entry that decides what the stream does (`give k` bytes at
most, `eof` = zero bytes although data may remain, `raise` = OSError/ValueError). When the list
is used up the stream behaves like `BytesIO` (gives everything asked for).

Ghost fields (not in the Python object, only there to state the theorems): `Under.taken`
(bytes taken from the underlying stream so far), `Under.log` (every underlying request as
(bytes consumed before the request, bytes requested)), `St.out` (all bytes handed out by
`readinto` so far).
-/
import WzVerif.Util.Bytes
import WzVerif.Util.Py
namespace Wz.LS
open Wz

/-- what the underlying stream does on one call -/
inductive Beh where
  | give (k : Nat)
  | eof
  | raise
  deriving Repr, DecidableEq

structure Under where
  /-- bytes the client sent that have not been taken yet -/
  data : Bytes
  /-- ghost: bytes taken so far, in order -/
  taken : Bytes := []
  /-- behaviour of the next calls -/
  script : List Beh := []
  /-- ghost: (consumed before, requested) for every call, newest first -/
  log : List (Nat × Nat) := []

inductive UOut where
  | got (b : Bytes)
  | raised

/-- the stream after a call that asked for `n` bytes and was given `k` -/
def Under.after (u : Under) (n k : Nat) : Under :=
  { data := u.data.drop k, taken := u.taken ++ u.data.take k, script := u.script.tail,
    log := (u.taken.length, n) :: u.log }

/-- one `read(n)` / `readinto(buffer of n bytes)` call on the underlying stream -/
def Under.call (u : Under) (n : Nat) : UOut × Under :=
  match u.script.head? with
  | some .raise => (.raised, u.after n 0)
  | some .eof => (.got [], u.after n 0)
  | some (.give k) => (.got (u.data.take (min k n)), u.after n (min k n))
  | none => (.got (u.data.take n), u.after n n)

/-- a `LimitedStream` object -/
structure St where
  limit : Nat
  isMax : Bool
  /-- `hasattr(self._stream, "readinto")` -/
  hasReadinto : Bool
  pos : Nat := 0
  /-- ghost: everything `readinto` has handed out -/
  out : Bytes := []
  u : Under

abbrev Res := Except String Bytes

/-- `on_exhausted`: `some e` = raises `e` -/
def onExhausted (s : St) : Option String :=
  if s.isMax then some "RequestEntityTooLarge" else none

/-- `on_disconnect(error)` -/
def onDisconnect (s : St) (err : Bool) : Option String :=
  if !s.isMax || err then some "ClientDisconnected" else none

/-- size of the request `readinto(b)` with `len(b) = size` passes to the underlying stream, by the
three paths of the code (only evaluated when `limit - pos > 0`) -/
def request (s : St) (size : Nat) : Nat :=
  let remaining := s.limit - s.pos
  if s.hasReadinto then
    if size ≤ remaining then size        -- the caller's buffer is used directly
    else remaining                       -- temporary buffer of `remaining` bytes
  else min size remaining                -- `stream.read(min(size, remaining))`

/-- result of a hook call followed by `return 0` -/
def hook : Option String → Res
  | some e => .error e
  | none => .ok []

/-- `LimitedStream.readinto(b)` with `len(b) = size`: the bytes written to the front of `b`
(the return value is their number), or the escaping exception; and the new state. -/
def readinto (s : St) (size : Nat) : Res × St :=
  if s.limit ≤ s.pos then (hook (onExhausted s), s)
  else
    match s.u.call (request s size) with
    | (.raised, u') => (hook (onDisconnect s true), { s with u := u' })
    | (.got b, u') =>
      if b.isEmpty then (hook (onDisconnect s false), { s with u := u' })
      else (.ok b, { s with u := u', pos := s.pos + b.length, out := s.out ++ b })

/-- `RawIOBase.read(n)` for `n ≥ 0`: allocate `n` bytes, `readinto`, truncate -/
def read (s : St) (n : Nat) : Res × St := readinto s n

/-- the `while not self.is_exhausted` loop of `readall` -/
def readallLoop : Nat → St → Bytes → Res × St
  | 0, s, acc => (.ok acc, s)
  | f + 1, s, acc =>
    if s.limit ≤ s.pos then (.ok acc, s)
    else
      match read s 65536 with
      | (.error e, s') => (.error e, s')
      | (.ok d, s') => if d.isEmpty then (.ok acc, s') else readallLoop f s' (acc ++ d)

/-- `LimitedStream.readall()` (= `read()` / `read(-1)`). Every productive iteration advances
`pos` by at least one, so `limit - pos + 1` iterations always suffice
(`Lemmas.LimitedStream.readallLoop_fuel`). -/
def readall (s : St) : Res × St :=
  if s.limit ≤ s.pos then (hook (onExhausted s), s)
  else readallLoop (s.limit - s.pos + 1) s []

/-- `LimitedStream.exhaust()` -/
def exhaust (s : St) : Res × St :=
  if s.limit ≤ s.pos then (.ok [], s) else readall s

def reachedLimit (lim : Option Nat) (n : Nat) : Bool :=
  match lim with
  | some l => l ≤ n
  | none => false

/-- `IOBase.readline(limit)` for an object without `peek`: one `read(1)` per byte -/
def readlineLoop : Nat → St → Option Nat → Bytes → Res × St
  | 0, s, _, acc => (.ok acc, s)
  | f + 1, s, lim, acc =>
    if reachedLimit lim acc.length then (.ok acc, s)
    else
      match read s 1 with
      | (.error e, s') => (.error e, s')
      | (.ok d, s') =>
        if d.isEmpty then (.ok acc, s')
        else if d.getLast? == some 10 then (.ok (acc ++ d), s')
        else readlineLoop f s' lim (acc ++ d)

def readline (s : St) (lim : Option Nat) : Res × St :=
  readlineLoop (s.limit - s.pos + 2) s lim []

abbrev LRes := Except String (List Bytes)

/-- `IOBase.__next__` -/
def next (s : St) : Res × St :=
  match readline s none with
  | (.error e, s') => (.error e, s')
  | (.ok l, s') => if l.isEmpty then (.error "StopIteration", s') else (.ok l, s')

/-- `IOBase.readlines(hint)`: iterate; with a positive hint stop once the total length of the
lines exceeds it -/
def readlinesLoop : Nat → St → Option Nat → Nat → List Bytes → LRes × St
  | 0, s, _, _, acc => (.ok acc, s)
  | f + 1, s, hint, len, acc =>
    match next s with
    | (.error e, s') => if e == "StopIteration" then (.ok acc, s') else (.error e, s')
    | (.ok l, s') =>
      match hint with
      | some h =>
        if l.length > h - len then (.ok (acc ++ [l]), s')
        else readlinesLoop f s' hint (len + l.length) (acc ++ [l])
      | none => readlinesLoop f s' hint len (acc ++ [l])

def readlines (s : St) (hint : Option Nat) : LRes × St :=
  let hint := match hint with | some 0 => none | h => h
  readlinesLoop (s.limit - s.pos + 2) s hint 0 []

inductive Op where
  | read (n : Nat)
  | readall
  | readline (lim : Option Nat)
  | readlines (hint : Option Nat)
  | readinto (n : Nat)
  | next
  | exhaust
  deriving Repr

def single : Res × St → LRes × St
  | (.ok b, s) => (.ok [b], s)
  | (.error e, s) => (.error e, s)

def runOp (s : St) : Op → LRes × St
  | .read n => single (read s n)
  | .readall => single (readall s)
  | .readline l => single (readline s l)
  | .readlines h => readlines s h
  | .readinto n => single (readinto s n)
  | .next => single (next s)
  | .exhaust => single (exhaust s)

/-- run a sequence of operations (the object stays usable after an exception, as in Python) -/
def runOps (s : St) : List Op → List LRes × St
  | [] => ([], s)
  | op :: ops =>
    let (r, s') := runOp s op
    let (rs, s'') := runOps s' ops
    (r :: rs, s'')

def finalState (s : St) (ops : List Op) : St := (runOps s ops).2

/-! ### observers and iteration -/

/-- `LimitedStream.tell()` -/
def tell (s : St) : Nat := s.pos

/-- `LimitedStream.is_exhausted` (`self._pos >= self.limit`) -/
def isExhausted (s : St) : Bool := decide (s.limit ≤ s.pos)

/-- `LimitedStream.readable()` -/
def readable (_ : St) : Bool := true

/-- `for line in stream: ...` (`IOBase.__iter__` returns the object itself): `__next__` is called
until it raises — `StopIteration` ends the loop normally, anything else escapes from it. The result
lists every `__next__` outcome in order; the last entry is the exception that ended the loop. -/
def iterLoop : Nat → St → List LRes × St
  | 0, s => ([], s)
  | f + 1, s =>
    match runOp s .next with
    | (.error e, s') => ([.error e], s')
    | (.ok l, s') =>
      let (rs, s'') := iterLoop f s'
      (.ok l :: rs, s'')

/-- every line has at least one byte, so `limit - pos + 1` calls always reach the exception
(`Lemmas.LimitedStream.iterLoop_ends`) -/
def iterAll (s : St) : List LRes × St := iterLoop (s.limit - s.pos + 1) s

/-- a freshly constructed `LimitedStream(stream, limit, is_max)` over a stream holding `data` that
behaves as `script` says -/
def fresh (data : Bytes) (script : List Beh) (limit : Nat) (isMax ri : Bool) : St :=
  { limit := limit, isMax := isMax, hasReadinto := ri, u := { data := data, script := script } }

/-! ### get_content_length / get_input_stream -/

def isAsciiDigit (c : Char) : Bool := '0' ≤ c && c ≤ '9'

def digitsVal (cs : List Char) : Nat := cs.foldl (fun a c => 10 * a + (c.toNat - 48)) 0

/-- `_plain_int(value)`: `none` = ValueError -/
def plainInt (v : List Char) : Option Int :=
  let v := Py.strip v
  match v with
  | '-' :: ds => if !ds.isEmpty && ds.all isAsciiDigit then some (-(digitsVal ds : Int)) else none
  | ds => if !ds.isEmpty && ds.all isAsciiDigit then some (digitsVal ds : Int) else none

/-- `sansio.utils.get_content_length(http_content_length, http_transfer_encoding)`;
`chunked` stands for `http_transfer_encoding == "chunked"` -/
def getContentLength (cl : Option (List Char)) (chunked : Bool) : Option Nat :=
  if chunked then none else
  match cl with
  | none => none
  | some v =>
    match plainInt v with
    | some i => some i.toNat       -- max(0, i)
    | none => some 0

inductive Choice where
  | tooLarge                       -- raises RequestEntityTooLarge
  | limited (limit : Nat) (isMax : Bool)
  | raw                            -- `environ["wsgi.input"]` itself
  | empty                          -- `io.BytesIO()`
  deriving Repr, DecidableEq

/-- `wsgi.get_input_stream(environ, safe_fallback, max_content_length)`;
`terminated` stands for `"wsgi.input_terminated" in environ` -/
def getInputStream (cl : Option (List Char)) (chunked terminated : Bool) (max : Option Nat)
    (safe : Bool) : Choice :=
  let n := getContentLength cl chunked
  let over := match n, max with
    | some n, some m => decide (n > m)
    | _, _ => false
  if over then .tooLarge
  else if terminated then
    match max with
    | some m => .limited m true
    | none => .raw
  else
    match n with
    | none => if safe then .empty else .raw
    | some n => .limited n false

end Wz.LS
