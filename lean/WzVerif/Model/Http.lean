/-
Model of the header codecs of `werkzeug.http` and the typed header objects in
`werkzeug.datastructures.{auth,cache_control,csp,etag,range,structures}` (properties C06, C07).

Text is `List Char` (`Str`). Every Python operation that can raise is a primitive returning
`Except String` (error string = Python exception class name); every `try/except` of the source is a
`catching` on the listed classes. Character classes / literal sets / typed-property tables come
from `Gen.Http` (regenerated from the live module objects on every run). Hand-modelled: control flow,
urllib's `parse_http_list` scanner and `unquote`, the regex *shapes* (pinned in Props against the
generated pattern sources), base64, `int()`. Validated by the streams of C06 / C07.
-/
import WzVerif.Util.Bytes
import WzVerif.Util.Py
import WzVerif.Gen.Http
namespace Wz.Http
open Wz

abbrev Str := List Char

instance instDecEqExcept {ε α : Type} [DecidableEq ε] [DecidableEq α] : DecidableEq (Except ε α) :=
  fun a b =>
    match a, b with
    | .ok x, .ok y => if h : x = y then isTrue (by rw [h]) else isFalse (fun e => by cases e; exact h rfl)
    | .error x, .error y => if h : x = y then isTrue (by rw [h]) else isFalse (fun e => by cases e; exact h rfl)
    | .ok _, .error _ => isFalse (fun e => by cases e)
    | .error _, .ok _ => isFalse (fun e => by cases e)

/-! ### Python primitives -/

def tbl (t : List Bool) (n : Nat) : Bool := t.getD n false

/-- membership in a generated 256-row class table, `high` for code points above U+00FF -/
def cls (t : List Bool) (high : Bool) (c : Char) : Bool :=
  if c.toNat < 256 then tbl t c.toNat else high

/-- `c in _token_chars` -/
def isToken (c : Char) : Bool := cls Gen.Http.tokenTbl Gen.Http.tokenHigh c
def isKeyCh (c : Char) : Bool := cls Gen.Http.paramKeyCls Gen.Http.paramKeyHigh c
def isTokValCh (c : Char) : Bool := cls Gen.Http.paramTokCls Gen.Http.paramTokHigh c
def isCharsetCh (c : Char) : Bool := cls Gen.Http.charsetCls Gen.Http.charsetHigh c
def isCharsetLangCh (c : Char) : Bool := cls Gen.Http.charsetLangCls Gen.Http.charsetHigh c
def isCharsetValCh (c : Char) : Bool := cls Gen.Http.charsetValCls Gen.Http.charsetHigh c
def isContDigit (c : Char) : Bool := cls Gen.Http.contDigit Gen.Http.contHigh c
def isPlainDigit (c : Char) : Bool := cls Gen.Http.plainIntDigit Gen.Http.plainIntHigh c
def isQDigit (c : Char) : Bool := cls Gen.Http.qDigit Gen.Http.qHigh c

/-- `str.lower()` — exact for U+0000..U+00FF (generated table); identity above (outside the
validated domain: every caller lower-cases header text that arrived as latin-1, or ASCII). -/
def lowerChar (c : Char) : Char :=
  if c.toNat < 256 then Char.ofNat (Gen.Http.lowerTbl.getD c.toNat c.toNat) else c
def pyLower (s : Str) : Str := s.map lowerChar

/-- `str.title()` — exact for U+0000..U+00FF where the result is one character per character. -/
def pyTitle (s : Str) : Str :=
  let rec go : Str → Bool → Str
    | [], _ => []
    | c :: t, prevCased =>
      let cased := c.toNat < 256 && tbl Gen.Http.titleCased c.toNat
      let c' := if prevCased then [lowerChar c]
                else if c.toNat < 256 then (Gen.Http.titleTbl.getD c.toNat [c.toNat]).map Char.ofNat else [c]
      c' ++ go t cased
  go s false

def lstrip (s : Str) : Str := s.dropWhile Py.isSpace
def rstrip (s : Str) : Str := Py.rstripBy Py.isSpace s
def strip (s : Str) : Str := Py.strip s

/-- `s.partition(c)`: (before, found, after) -/
def partition (c : Char) (s : Str) : Str × Bool × Str :=
  let a := s.takeWhile (· != c)
  match s.dropWhile (· != c) with
  | [] => (a, false, [])
  | _ :: r => (a, true, r)

/-- `s.split(c)` for a one-character separator -/
def splitOnChar (c : Char) (s : Str) : List Str :=
  let rec go : Str → Str → List Str
    | [], acc => [acc.reverse]
    | x :: t, acc => if x == c then acc.reverse :: go t [] else go t (x :: acc)
  go s []

/-- `len(s) >= 2 and s[0] == s[-1] == '"'` ⇒ `s[1:-1]` -/
def stripDq? (s : Str) : Option Str :=
  match s with
  | '"' :: rest => if rest.getLast? == some '"' then some rest.dropLast else none
  | _ => none

/-- `s.replace(c, r)` for a one-character pattern -/
def replace1 (c : Char) (r : Str) (s : Str) : Str := s.flatMap fun x => if x == c then r else [x]

/-- `s.replace(a + b, r)` for a two-character pattern (leftmost, non-overlapping) -/
def replace2 (a b : Char) (r : Str) : Str → Str
  | x :: y :: t => if x == a && y == b then r ++ replace2 a b r t else x :: replace2 a b r (y :: t)
  | l => l

/-- `s.replace(a + b + c, r)` for a three-character pattern -/
def replace3 (a b c : Char) (r : Str) : Str → Str
  | x :: y :: z :: t =>
    if x == a && y == b && z == c then r ++ replace3 a b c r t else x :: replace3 a b c r (y :: z :: t)
  | l => l

def join (sep : String) (parts : List Str) : Str := List.intercalate sep.toList parts

/-- `s[0]`; IndexError on the empty string -/
def first! (s : Str) : Except String Char :=
  match s with | [] => .error "IndexError" | c :: _ => .ok c
/-- `s[-1]`; IndexError on the empty string -/
def last! (s : Str) : Except String Char :=
  match s.getLast? with | none => .error "IndexError" | some c => .ok c

/-- `try: body except (classes): handler` -/
def catching (classes : List String) (body : Except String α) (handler : α) : Except String α :=
  match body with
  | .ok a => .ok a
  | .error e => if classes.contains e then .ok handler else .error e

/-! ### decimal integers -/

def natText (n : Nat) : Str := Nat.toDigits 10 n

/-- `str(i)` -/
def intText : Int → Str
  | .ofNat n => natText n
  | .negSucc n => '-' :: natText (n + 1)

/-- value of a non-empty run of ASCII digits -/
def digitsVal (ds : Str) : Nat := Nat.ofDigitChars 10 ds 0

/-- optional leading `-` -/
def signSplit (v : Str) : Bool × Str :=
  match v with
  | '-' :: r => (true, r)
  | _ => (false, v)

/-- `_plain_int(value)`: strip, `-?\d+` (re.ASCII) fullmatch, `int()`; ValueError otherwise.
(CPython's 4300-digit limit of `int()` raises the same ValueError and is not modelled.) -/
def plainInt (value : Str) : Except String Int :=
  let sd := signSplit (strip value)
  if !sd.2.isEmpty && sd.2.all isPlainDigit then
    .ok (if sd.1 then - (digitsVal sd.2 : Int) else (digitsVal sd.2 : Int))
  else .error "ValueError"

def isDecimalCh (c : Char) : Bool := c.toNat < 256 && tbl Gen.Http.decimalTbl c.toNat

/-- digits with single underscores between them (the grammar `int()` accepts after the sign) -/
def intBody? : Str → Option Str
  | [] => none
  | c :: t =>
    if !isDecimalCh c then none else
    let rec go : Str → Str → Option Str
      | [], acc => some acc.reverse
      | '_' :: d :: t, acc => if isDecimalCh d then go t (d :: acc) else none
      | d :: t, acc => if isDecimalCh d then go t (d :: acc) else none
    go t [c]

/-- optional leading `-` or `+` -/
def signSplit2 (v : Str) : Bool × Str :=
  match v with
  | '-' :: r => (true, r)
  | '+' :: r => (false, r)
  | _ => (false, v)

/-- the white space `int()` skips around the number: CPython turns *non-ASCII* `str.isspace`
characters into blanks and then skips C `isspace` (U+0009..U+000D, U+0020) — the ASCII separators
U+001C..U+001F, which `str.strip()` does remove, are not skipped (`int("5\x1f")` raises ValueError) -/
def isIntSpace (c : Char) : Bool := Py.isSpace c && !(28 ≤ c.toNat && c.toNat ≤ 31)
def intStrip (s : Str) : Str := Py.rstripBy isIntSpace (s.dropWhile isIntSpace)

/-- value of a Unicode decimal digit (`unicodedata.decimal`): the regenerated runs of ten -/
def decimalVal? (c : Char) : Option Nat :=
  let n := c.toNat
  match Gen.Http.decimalZeros.find? (fun z => z ≤ n && n < z + 10) with
  | some z => some (n - z)
  | none => (Gen.Http.decimalStray.find? (fun p => p.1 == n)).map (·.2)

/-- `_PyUnicode_TransformDecimalAndSpaceToASCII`, the digit half: `int()` / `float()` first turn every
Unicode decimal digit (Devanagari, Arabic-Indic, full-width, ...) into its ASCII digit -/
def toAsciiDecimal (s : Str) : Str :=
  s.map fun c => match decimalVal? c with
    | some d => Char.ofNat (48 + d)
    | none => c

/-- `int(s)` for text: whitespace stripped, optional sign, decimal digits with `_` separators.
Digits of every script are accepted (generated table of all Unicode decimal digits). -/
def pyInt (s : Str) : Except String Int :=
  let sb := signSplit2 (intStrip (toAsciiDecimal s))
  match intBody? sb.2 with
  | some ds => .ok (if sb.1 then - (digitsVal ds : Int) else (digitsVal ds : Int))
  | none => .error "ValueError"

/-! ### quoting -/

/-- `value.replace("\\", "\\\\").replace('"', '\\"')` -/
def escapeDq (s : Str) : Str := replace1 '"' ['\\', '"'] (replace1 '\\' ['\\', '\\'] s)

/-- `.replace("\\\\", "\\").replace('\\"', '"')` -/
def unescapeDq (s : Str) : Str := replace2 '\\' '"' ['"'] (replace2 '\\' '\\' ['\\'] s)

/-- `quote_header_value(value, allow_token)` for a `str` value -/
def quoteHeaderValue (v : Str) (allowToken : Bool := true) : Str :=
  if v.isEmpty then ['"', '"']
  else if allowToken && v.all isToken then v
  else '"' :: escapeDq v ++ ['"']

/-- `unquote_header_value(value)` -/
def unquoteHeaderValue (v : Str) : Str :=
  match stripDq? v with
  | some inner => unescapeDq inner
  | none => v

/-! ### comma lists (`urllib.request.parse_http_list`, hand-modelled) -/

/-- the scanner loop; `part` is accumulated in reverse -/
def httpListGo : (esc quote : Bool) → Str → (part : Str) → List Str
  | _, _, [], part => if part.isEmpty then [] else [part.reverse]
  | true, q, c :: t, part => httpListGo false q t (c :: part)
  | false, true, c :: t, part =>
    if c == '\\' then httpListGo true true t part
    else if c == '"' then httpListGo false false t (c :: part)
    else httpListGo false true t (c :: part)
  | false, false, c :: t, part =>
    if c == ',' then part.reverse :: httpListGo false false t []
    else if c == '"' then httpListGo false true t (c :: part)
    else httpListGo false false t (c :: part)

def parseHttpList (s : Str) : List Str := (httpListGo false false s []).map strip

/-- `parse_list_header(value)` -/
def parseListHeader (s : Str) : List Str :=
  (parseHttpList s).map fun item => (stripDq? item).getD item

/-- `dump_header(iterable)` for a non-dict iterable of `str` -/
def dumpHeaderList (items : List Str) : Str := join ", " (items.map (quoteHeaderValue ·))

/-! ### dicts (insertion ordered, unique keys) -/

abbrev Dict (ν : Type) := List (Str × ν)

def dictHas (d : Dict ν) (k : Str) : Bool := d.any (·.1 == k)
def dictGet? (d : Dict ν) (k : Str) : Option ν := (d.find? (·.1 == k)).map (·.2)
/-- `d[k] = v` -/
def dictSet (d : Dict ν) (k : Str) (v : ν) : Dict ν :=
  if dictHas d k then d.map fun p => if p.1 == k then (p.1, v) else p else d ++ [(k, v)]
/-- `d.pop(k, None)` -/
def dictPop (d : Dict ν) (k : Str) : Dict ν := d.filter (·.1 != k)

/-! ### urllib.parse.unquote (hand-modelled) -/

inductive Enc where | ascii | utf8 | latin1
  deriving DecidableEq, Repr

/-- the accepted charset names (generated literal); anything else leaves the value untouched -/
def encOfName (n : Str) : Option Enc :=
  let s := String.ofList n
  if !(Gen.Http.safeEncodingsOptions.any (·.contains s)) then none
  else if s == "utf-8" then some .utf8
  else if s == "iso-8859-1" then some .latin1
  else if s == "ascii" || s == "us-ascii" then some .ascii
  else none

def encOfNameDict (n : Str) : Option Enc :=
  let s := String.ofList n
  if !(Gen.Http.safeEncodingsDict.any (·.contains s)) then none else encOfName n

/-- `unquote_to_bytes` on an ASCII run -/
def unquoteToBytes : Str → Bytes
  | '%' :: a :: b :: t =>
    match hexVal? a, hexVal? b with
    | some x, some y => UInt8.ofNat (16 * x + y) :: unquoteToBytes t
    | _, _ => 0x25 :: unquoteToBytes (a :: b :: t)
  | c :: t => UInt8.ofNat c.toNat :: unquoteToBytes t
  | [] => []

/-- `bytes.decode(enc, "replace")` -/
def decodeEnc (enc : Enc) (bs : Bytes) : Str :=
  match enc with
  | .utf8 => Py.decodeReplaceFuel (bs.length + 1) bs   -- the replacing scanner decodes valid input too
  | .latin1 => Py.latin1Dec bs
  | .ascii => bs.map fun b => if b < 0x80 then Char.ofNat b.toNat else Char.ofNat 0xFFFD

/-- decode one maximal ASCII run (accumulated in reverse) -/
def pctFlush (enc : Enc) (run : Str) : Str :=
  if run.isEmpty then [] else decodeEnc enc (unquoteToBytes run.reverse)

def pctGo (enc : Enc) : Str → Str → Str
  | [], run => pctFlush enc run
  | c :: t, run => if c.toNat < 128 then pctGo enc t (c :: run) else pctFlush enc run ++ c :: pctGo enc t []

/-- `urllib.parse.unquote(s, encoding=enc)` (errors="replace"): every maximal ASCII run is
percent-decoded to bytes and decoded with `enc`; non-ASCII text passes through. -/
def pctUnquote (enc : Enc) (s : Str) : Str :=
  if s.contains '%' then pctGo enc s [] else s

/-- `_charset_value_re.match(v)`: (charset, value) — the match is anchored at the start only -/
def charsetValue? (v : Str) : Option (Str × Str) :=
  let cs := v.takeWhile isCharsetCh
  match v.dropWhile isCharsetCh with
  | '\'' :: r1 =>
    match r1.dropWhile isCharsetLangCh with
    | '\'' :: r2 =>
      let val := r2.takeWhile isCharsetValCh
      if val.isEmpty then none else some (cs, val)
    | _ => none
  | _ => none

/-! ### key=value dicts -/

/-- `dump_header(dict)`; values `none` give a bare key; `key[-1]` raises IndexError on an empty key -/
def dumpHeaderDict (d : Dict (Option Str)) : Except String Str := do
  let items ← d.mapM fun (key, value) =>
    match value with
    | none => pure key
    | some v => do
      let l ← last! key
      if l == '*' then pure (key ++ '=' :: v) else pure (key ++ '=' :: quoteHeaderValue v)
  pure (join ", " items)

/-- one item of `parse_dict_header`: `none` = skipped -/
def dictItem (item : Str) : Except String (Option (Str × Option Str)) := do
  let (key0, has, value0) := partition '=' item
  let key := strip key0
  if key.isEmpty then return none
  if !has then return some (key, none)
  let value := strip value0
  let l ← last! key
  let (key, value) ←
    if l == '*' then
      let key := key.dropLast
      if key.isEmpty then return none
      let (encoding, value) := match charsetValue? value with
        | some (e, v) => (some (pyLower e), v)
        | none => (none, value)
      let value := match encoding.bind encOfNameDict with
        | some enc => pctUnquote enc value
        | none => value
      pure (key, value)
    else pure (key, value)
  let value := (stripDq? value).getD value
  return some (key, some value)

/-- loop body of `parse_dict_header` -/
def dictStep (d : Dict (Option Str)) (item : Str) : Except String (Dict (Option Str)) := do
  match ← dictItem item with
  | none => pure d
  | some (k, v) => pure (dictSet d k v)

/-- `parse_dict_header(value)` -/
def parseDictHeader (s : Str) : Except String (Dict (Option Str)) :=
  (parseListHeader s).foldlM dictStep []

/-! ### option headers -/

/-- one `key=value` segment of `dump_options_header`; `none` for a `None` value (skipped) -/
def optionSegment (kv : Str × Option Str) : Except String (Option Str) :=
  match kv.2 with
  | none => pure none
  | some v => do
    let l ← last! kv.1
    if l == '*' then pure (some (kv.1 ++ '=' :: v)) else pure (some (kv.1 ++ '=' :: quoteHeaderValue v))

/-- `dump_options_header(header, options)` -/
def dumpOptionsHeader (header : Option Str) (options : Dict (Option Str)) : Except String Str := do
  let segs ← options.mapM optionSegment
  pure (join "; " ((match header with | some h => [h] | none => []) ++ segs.filterMap id))

/-- the quoted-string scan of `parse_options_header` after the opening quote; `acc` (reversed) starts
as `['"']`. Returns the quoted text including both quotes and the remaining text; `none` when the
closing quote is missing (the code then leaves `rest` untouched and records nothing). -/
def scanQuoted : Str → Str → Option (Str × Str)
  | [], _ => none
  | '\\' :: '\\' :: t, acc => scanQuoted t ('\\' :: '\\' :: acc)
  | '\\' :: '"' :: t, acc => scanQuoted t ('"' :: '\\' :: acc)
  | '"' :: t, acc => some (('"' :: acc).reverse, t)
  | c :: t, acc => scanQuoted t (c :: acc)

/-- `rest.find(";")`: text after the first `;` -/
def afterSemi? (s : Str) : Option Str :=
  match s.dropWhile (· != ';') with
  | [] => none
  | _ :: r => some r

/-- one iteration of the `while True` scanner: (rest after the part, part) -/
def optStep (rest : Str) : Str × Option (Str × Str) :=
  let key := rest.takeWhile isKeyCh
  match key.isEmpty, rest.dropWhile isKeyCh with
  | false, '=' :: r =>
    let pk := pyLower key
    let tv := r.takeWhile isTokValCh
    if !tv.isEmpty then (r, some (pk, tv))
    else
      match r with
      | '"' :: q =>
        match scanQuoted q ['"'] with
        | some (qs, r') => (r', some (pk, qs))
        | none => (r, none)
      | _ => (r, none)
  | _, _ => (rest, none)

/-- the scanner loop, collecting raw `(key, value)` parts (reversed accumulator) -/
def optScan : Nat → Str → List (Str × Str) → List (Str × Str)
  | 0, _, acc => acc.reverse
  | fuel + 1, rest, acc =>
    let (rest1, part) := optStep rest
    let acc1 := match part with | some p => p :: acc | none => acc
    match afterSemi? rest1 with
    | none => acc1.reverse
    | some after => optScan fuel (lstrip after) acc1

/-- `_continuation_re.search(pk)`: the key without its `*N` suffix -/
def continuation? (pk : Str) : Option Str :=
  let r := pk.reverse
  let ds := r.takeWhile isContDigit
  match ds.isEmpty, r.dropWhile isContDigit with
  | false, '*' :: before => some before.reverse
  | _, _ => none

structure OptState where
  options : Dict Str := []
  encoding : Option Str := none
  continued : Option Str := none

/-- RFC 2231 charset handling for a starred key: `(state, value)` after the optional
`charset'lang'` split and percent-decoding -/
def optStar (st : OptState) (pv : Str) : OptState × Str :=
  let sp : OptState × Str := match charsetValue? pv with
    | some (e, v) => ({ st with encoding := some (pyLower e) }, v)
    | none => (st, pv)
  -- `if not encoding: encoding = continued_encoding`
  let st1 : OptState := match sp.1.encoding with
    | some (_ :: _) => sp.1
    | _ => { sp.1 with encoding := sp.1.continued }
  match st1.encoding.bind encOfName with
  | some enc => ({ st1 with continued := st1.encoding }, pctUnquote enc sp.2)
  | none => (st1, sp.2)

/-- `if pv[0] == pv[-1] == '"': pv = pv[1:-1].replace(...)...` — IndexError on an empty value -/
def optUnquote (pv : Str) : Except String Str := do
  let f ← first! pv
  let e ← last! pv
  if f == '"' && e == '"' then
    pure (replace3 '%' '2' '2' ['"'] (unescapeDq (pv.drop 1).dropLast))
  else pure pv

/-- continuation handling and the final `options[pk] = pv` -/
def optStore (st : OptState) (pk pv : Str) : OptState :=
  match continuation? pk with
  | some base =>
    -- `*0=value` has no key: skipped
    if base.isEmpty then st else
    let old := (dictGet? st.options base).getD []
    { st with options := dictSet st.options base (old ++ pv) }
  | none => { st with options := dictSet st.options pk pv }

/-- processing of one collected part (charset, continuation, unquoting) -/
def optPart (st : OptState) (pk pv : Str) : Except String OptState := do
  let l ← last! pk
  if l == '*' then
    let pk := pk.dropLast
    if pk.isEmpty then pure st
    else
      let sp := optStar st pv
      let pv ← optUnquote sp.2
      pure (optStore sp.1 pk pv)
  else
    let pv ← optUnquote pv
    pure (optStore st pk pv)

def optFold (st : OptState) (p : Str × Str) : Except String OptState := optPart st p.1 p.2

/-- `parse_options_header(value)` for a `str` value -/
def parseOptionsHeader (value : Str) : Except String (Str × Dict Str) := do
  let (v0, _, r0) := partition ';' value
  let v := strip v0
  let rest := strip r0
  if v.isEmpty || rest.isEmpty then return (v, [])
  let parts := optScan (rest.length + 1) rest []
  let st ← parts.foldlM optFold {}
  return (v, st.options)

/-! ### sets -/

/-- `parse_set_header(value)`: the list it hands to the `HeaderSet` constructor -/
def parseSetHeader (s : Str) : List Str := if s.isEmpty then [] else parseListHeader s

/-- the loop of the `HeaderSet` constructor (as repaired, F08c: the same loop as `update`): a header
given in two spellings is kept once, in its first spelling; `seen` = the lower-cased members so far -/
def hsDedupGo (seen : List Str) : List Str → List Str
  | [] => []
  | h :: t => if seen.contains (pyLower h) then hsDedupGo seen t else h :: hsDedupGo (pyLower h :: seen) t

/-- `list(HeaderSet(items))`: the `_headers` of the constructed object -/
def headerSetMembers (items : List Str) : List Str := hsDedupGo [] items

/-- `list(parse_set_header(value))` -/
def parseSetMembers (s : Str) : List Str := headerSetMembers (parseSetHeader s)

/-- `HeaderSet.to_header()` over its `_headers` list -/
def headerSetToHeader (items : List Str) : Str := join ", " (items.map (quoteHeaderValue ·))

/-! ### entity tags -/

/-- `quote_etag(etag, weak)`; ValueError when the tag contains `"` -/
def quoteEtag (etag : Str) (weak : Bool := false) : Except String Str :=
  if etag.contains '"' then .error "ValueError"
  else .ok ((if weak then ['W', '/'] else []) ++ '"' :: etag ++ ['"'])

/-- `unquote_etag(etag)` : `(etag, weak)`; `(None, None)` for an empty value -/
def unquoteEtag (etag : Str) : Option (Str × Bool) :=
  if etag.isEmpty then none else
  let e := strip etag
  let (weak, e) := match e with
    | 'W' :: '/' :: r => (true, r)
    | 'w' :: '/' :: r => (true, r)
    | _ => (false, e)
  -- `etag[:1] == etag[-1:] == '"'`
  let e := match e with
    | '"' :: _ => if e.getLast? == some '"' then (e.drop 1).dropLast else e
    | _ => e
  some (e, weak)

/-- `.` of a regex without DOTALL -/
def dotCh (c : Char) : Bool := c != '\n'

/-- `(?:\s*,\s*|$)` at the start of `r`: the text after the terminator. `\s` is the Unicode class
(the pattern is a `str` pattern without re.ASCII); `$` also matches before a final LF. -/
def etagTerm? (r : Str) : Option Str :=
  match r.dropWhile Py.isSpace with
  | ',' :: r2 => some (r2.dropWhile Py.isSpace)
  | _ => if r.isEmpty then some [] else if r == ['\n'] then some r else none

/-- `"(.*?)"` + terminator, after the opening quote -/
def etagAlt1 : Str → Str → Option (Str × Str)
  | [], _ => none
  | c :: t, acc =>
    if c == '"' then
      match etagTerm? t with
      | some rest => some (acc.reverse, rest)
      | none => etagAlt1 t (c :: acc)
    else if dotCh c then etagAlt1 t (c :: acc) else none

/-- `(.*?)` + terminator -/
def etagAlt2 : Str → Str → Option (Str × Str)
  | [], acc => some (acc.reverse, [])
  | c :: t, acc =>
    match etagTerm? (c :: t) with
    | some rest => some (acc.reverse, rest)
    | none => if dotCh c then etagAlt2 t (c :: acc) else none

/-- `(?:"(.*?)"|(.*?))(?:\s*,\s*|$)` at the start of `q`: (quoted, raw, rest) -/
def etagBody (q : Str) : Option (Option Str × Option Str × Str) :=
  let a1 := match q with
    | '"' :: body => (etagAlt1 body []).map fun (b, r) => (some b, none, r)
    | _ => none
  match a1 with
  | some x => some x
  | none => (etagAlt2 q []).map fun (b, r) => (none, some b, r)

/-- `_etag_re.match(value, pos)`: (is_weak, quoted, raw, rest after the match) -/
def etagMatch (s : Str) : Option (Bool × Option Str × Option Str × Str) :=
  let plain := (etagBody s).map fun (a, b, r) => (false, a, b, r)
  match s with
  | w :: '/' :: q =>
    if w == 'W' || w == 'w' then
      match etagBody q with
      | some (a, b, r) => some (true, a, b, r)
      | none => plain
    else plain
  | _ => plain

structure ETags where
  strong : List (Option Str)
  weak : List (Option Str)
  star : Bool
  deriving DecidableEq

/-- the `while pos < end` loop of `parse_etags` (elements are `Option` for Python's `str | None`;
since the repair that keeps the empty tag `""` every stored element is a string) -/
def parseEtagsGo : Nat → Str → List (Option Str) → List (Option Str) → ETags
  | 0, _, strong, weak => ⟨strong.reverse, weak.reverse, false⟩
  | fuel + 1, s, strong, weak =>
    if s.isEmpty then ⟨strong.reverse, weak.reverse, false⟩ else
    match etagMatch s with
    | none => ⟨strong.reverse, weak.reverse, false⟩
    | some (isWeak, quoted, raw, rest) =>
      if raw == some ['*'] then ⟨[], [], true⟩ else
      -- `elif quoted is not None: raw = quoted`
      let raw := match quoted with
        | some q => some q
        | none => raw
      if isWeak then parseEtagsGo fuel rest strong (raw :: weak)
      else parseEtagsGo fuel rest (raw :: strong) weak

/-- `parse_etags(value)` (lists in order of appearance; the class stores them as frozensets) -/
def parseEtags (s : Str) : ETags := parseEtagsGo (s.length + 1) s [] []

def etagElemText : Option Str → Str
  | some e => e
  | none => "None".toList

/-- `ETags.to_header()` for the given iteration order of the two frozensets -/
def etagsToHeader (e : ETags) : Str :=
  if e.star then ['*'] else
  join ", " (e.strong.map (fun x => '"' :: etagElemText x ++ ['"'])
    ++ e.weak.map (fun x => 'W' :: '/' :: '"' :: etagElemText x ++ ['"']))

/-! ### Range / Content-Range -/

structure RangeV where
  units : Str
  ranges : List (Int × Option Int)
  deriving DecidableEq

/-- `end is not None and (start < 0 or start >= end)` -/
def badRange (r : Int × Option Int) : Bool :=
  match r.2 with
  | some e => r.1 < 0 || r.1 ≥ e
  | none => false

/-- the validation loop of `Range.__init__` (ValueError) -/
def rangeCtor (units : Str) (ranges : List (Int × Option Int)) : Except String RangeV :=
  if ranges.any badRange
  then .error "ValueError" else .ok ⟨units, ranges⟩

/-- `Range.to_header()` -/
def rangeToHeader (r : RangeV) : Str :=
  r.units ++ '=' :: join "," (r.ranges.map fun (b, e) =>
    match e with
    | none => if b ≥ 0 then intText b ++ ['-'] else intText b
    | some e => intText b ++ '-' :: intText (e - 1))

/-- the per-item loop of `parse_range_header`; `none` = `return None` -/
def rangeItems : List Str → Int → List (Int × Option Int) → Except String (Option (List (Int × Option Int)))
  | [], _, acc => .ok (some acc.reverse)
  | item0 :: more, lastEnd, acc => do
    let item := strip item0
    if !item.contains '-' then return none
    match item with
    | '-' :: _ =>
      if lastEnd < 0 then return none
      match ← catching ["ValueError"] ((plainInt item).map some) none with
      | none => return none
      | some b =>
        -- a suffix length of zero selects nothing
        if b == 0 then return none
        rangeItems more (-1) ((b, none) :: acc)
    | _ =>
      let (bs, _, es) := partition '-' item
      let bs := strip bs
      let es := strip es
      match ← catching ["ValueError"] ((plainInt bs).map some) none with
      | none => return none
      | some b =>
        if b < lastEnd || lastEnd < 0 then return none
        if !es.isEmpty then
          match ← catching ["ValueError"] ((plainInt es).map some) none with
          | none => return none
          | some e1 =>
            let e := e1 + 1
            if b ≥ e then return none
            rangeItems more e ((b, some e) :: acc)
        else rangeItems more (-1) ((b, none) :: acc)

/-- `parse_range_header(value)` -/
def parseRangeHeader (value : Str) : Except String (Option RangeV) := do
  if value.isEmpty || !value.contains '=' then return none
  let (u, _, rng) := partition '=' value
  let units := pyLower (strip u)
  match ← rangeItems (splitOnChar ',' rng) 0 [] with
  | none => return none
  | some rs => return some (← rangeCtor units rs)

/-- `is_byte_range_valid(start, stop, length)` -/
def isByteRangeValid (start stop length : Option Int) : Bool :=
  match start, stop with
  | none, none => match length with | none => true | some l => l ≥ 0
  | some s, some e =>
    match length with
    | none => 0 ≤ s && s < e
    | some l => if s ≥ e then false else 0 ≤ s && s < l
  | _, _ => false

structure ContentRangeV where
  units : Option Str
  start : Option Int
  stop : Option Int
  length : Option Int
  deriving DecidableEq

/-- the length field of a Content-Range -/
def lenText : Option Int → Str
  | none => ['*']
  | some l => intText l

/-- the length field read back: `some none` for `*`; `none` = `return None` -/
def parseLength (lengthStr : Str) : Except String (Option (Option Int)) :=
  if lengthStr == ['*'] then pure (some none)
  else catching ["ValueError"] ((plainInt lengthStr).map (fun l => some (some l))) none

/-- `ContentRange.to_header()` -/
def contentRangeToHeader (c : ContentRangeV) : Str :=
  match c.units with
  | none => []
  | some u =>
    let len := lenText c.length
    match c.start, c.stop with
    | some s, some e => u ++ ' ' :: intText s ++ '-' :: intText (e - 1) ++ '/' :: len
    | _, _ => u ++ " */".toList ++ len

/-- `s.split(None, 1)` into exactly two fields (else the unpacking raises ValueError) -/
def splitWs2 (s : Str) : Except String (Str × Str) :=
  let s := lstrip s
  let a := s.takeWhile (fun c => !Py.isSpace c)
  let r := lstrip (s.dropWhile (fun c => !Py.isSpace c))
  if a.isEmpty || r.isEmpty then .error "ValueError" else .ok (a, r)

/-- `parse_content_range_header(value)` for a `str` value -/
def parseContentRangeHeader (value : Str) : Except String (Option ContentRangeV) := do
  match ← catching ["ValueError"] ((splitWs2 (strip value)).map some) none with
  | none => return none
  | some (units, rangedef) =>
    if !rangedef.contains '/' then return none
    let (rng, _, lengthStr) := partition '/' rangedef
    match ← parseLength lengthStr with
    | none => return none
    | some length =>
      if rng == ['*'] then
        if !isByteRangeValid none none length then return none
        return some ⟨some units, none, none, length⟩
      if !rng.contains '-' then return none
      let (startStr, _, stopStr) := partition '-' rng
      let se ← catching ["ValueError"] (do
        let s ← plainInt startStr
        let e ← plainInt stopStr
        pure (some (s, e + 1))) none
      match se with
      | none => return none
      | some (s, e) =>
        if isByteRangeValid (some s) (some e) length then return some ⟨some units, some s, some e, length⟩
        return none

/-! ### Age -/

/-- `dump_age(age)` for a non-negative number of seconds -/
def dumpAge (n : Nat) : Str := natText n

/-- `parse_age(value)`: seconds of the resulting timedelta -/
def parseAge (value : Str) : Except String (Option Nat) := do
  if value.isEmpty then return none
  match ← catching ["ValueError"] ((pyInt value).map some) none with
  | none => return none
  | some secs =>
    if secs < 0 then return none
    -- `timedelta(seconds=...)` raises OverflowError beyond timedelta.max; caught
    if secs.toNat > Gen.Http.timedeltaMaxSeconds then return none
    return some secs.toNat

/-! ### Cache-Control -/

inductive CCType where | bool | int | str
  deriving DecidableEq, Repr

inductive CCVal where
  | none | true_ | false_ | int (i : Int) | str (s : Str)
  deriving DecidableEq, Repr

/-- `parse_cache_control_header(value)`: the dict of the resulting object -/
def parseCacheControl (value : Str) : Except String (Dict (Option Str)) :=
  if value.isEmpty then .ok [] else parseDictHeader value

/-- `_CacheControl._get_cache_value(key, empty, type)` -/
def getCacheValue (d : Dict (Option Str)) (key : Str) (empty : CCVal) (ty : CCType) : Except String CCVal :=
  match ty with
  | .bool => .ok (if dictHas d key then .true_ else .false_)
  | .int =>
    match dictGet? d key with
    | none => .ok .none
    | some none => .ok empty
    | some (some v) => catching ["ValueError"] ((pyInt v).map .int) .none
  | .str =>
    match dictGet? d key with
    | none => .ok .none
    | some none => .ok empty
    | some (some v) => .ok (.str v)

/-- Python truthiness of a property value -/
def ccTruthy : CCVal → Bool
  | .none | .false_ => false
  | .true_ => true
  | .int i => i != 0
  | .str s => !s.isEmpty

/-- `_CacheControl._set_cache_value(key, value, type)` (value already of the property's type) -/
def setCacheValue (d : Dict (Option Str)) (key : Str) (value : CCVal) (ty : CCType) : Dict (Option Str) :=
  match ty, value with
  | .bool, v => if ccTruthy v then dictSet d key none else dictPop d key
  | _, .none => dictPop d key
  | _, .false_ => dictPop d key
  | _, .true_ => dictSet d key none
  | _, .int i => dictSet d key (some (intText i))
  | _, .str s => dictSet d key (some s)

/-! ### Content-Security-Policy -/

/-- `dump_csp_header` -/
def dumpCsp (d : Dict Str) : Str := join "; " (d.map fun (k, v) => k ++ ' ' :: v)

/-- `parse_csp_header(value)` for a `str` value: the dict of the resulting object -/
def parseCsp (value : Str) : Dict Str :=
  (splitOnChar ';' value).foldl (init := []) fun d policy =>
    let policy := strip policy
    if policy.contains ' ' then
      let (directive, _, v) := partition ' ' policy
      dictSet d (strip directive) (strip v)
    else d

/-! ### objects built by assignment histories (cache-control, CSP) -/

/-- one step of building a cache-control object -/
inductive CCOp where
  /-- `cc.<property> = v` for the typed property `(key, ty)` (`_set_cache_value`) -/
  | setTyped (key : Str) (ty : CCType) (v : CCVal)
  /-- `del cc.<property>` (`_del_cache_value`: `if key in self: del self[key]`) -/
  | delTyped (key : Str)
  /-- `cc[key] = value` (a string) / `cc[key] = None` -/
  | setItem (key : Str) (v : Option Str)
  /-- `cc.pop(key, None)` / `del cc[key]` for a present key -/
  | popItem (key : Str)
  /-- `cc.clear()` -/
  | clear
  deriving DecidableEq, Repr

def ccStep (d : Dict (Option Str)) : CCOp → Dict (Option Str)
  | .setTyped key ty v => setCacheValue d key v ty
  | .delTyped key => dictPop d key
  | .setItem key v => dictSet d key v
  | .popItem key => dictPop d key
  | .clear => []

def ccRun (d : Dict (Option Str)) (ops : List CCOp) : Dict (Option Str) := ops.foldl ccStep d

/-- one step of building a `ContentSecurityPolicy` -/
inductive CspOp where
  /-- `csp.<property> = value` / `= None` (`_set_value`) and `csp[key] = value` -/
  | set (key : Str) (v : Option Str)
  /-- `del csp.<property>` (`_del_value`), `csp.pop(key, None)` -/
  | del (key : Str)
  | clear
  deriving DecidableEq, Repr

def cspOpStep (d : Dict Str) : CspOp → Dict Str
  | .set key (some v) => dictSet d key v
  | .set key none => dictPop d key
  | .del key => dictPop d key
  | .clear => []

def cspRun (d : Dict Str) (ops : List CspOp) : Dict Str := ops.foldl cspOpStep d

/-! ### base64 (CPython `binascii.a2b_base64` non-strict, `b2a_base64`) -/

def b64Alphabet : List Char :=
  "ABCDEFGHIJKLMNOPQRSTUVWXYZabcdefghijklmnopqrstuvwxyz0123456789+/".toList

def b64Char (n : Nat) : Char := b64Alphabet.getD n 'A'

def b64Val? (c : Char) : Option Nat :=
  let n := c.toNat
  if 65 ≤ n && n ≤ 90 then some (n - 65)
  else if 97 ≤ n && n ≤ 122 then some (n - 71)
  else if 48 ≤ n && n ≤ 57 then some (n + 4)
  else if n == 43 then some 62
  else if n == 47 then some 63
  else none

/-- `base64.b64encode(bs).decode("ascii")` -/
def b64Encode : Bytes → Str
  | a :: b :: c :: t =>
    b64Char (a.toNat / 4) :: b64Char (a.toNat % 4 * 16 + b.toNat / 16)
      :: b64Char (b.toNat % 16 * 4 + c.toNat / 64) :: b64Char (c.toNat % 64) :: b64Encode t
  | [a, b] =>
    [b64Char (a.toNat / 4), b64Char (a.toNat % 4 * 16 + b.toNat / 16), b64Char (b.toNat % 16 * 4), '=']
  | [a] => [b64Char (a.toNat / 4), b64Char (a.toNat % 4 * 16), '=', '=']
  | [] => []

/-- the decoding loop of `a2b_base64` (non-strict): state = position in the quad, left-over bits,
count of pad characters seen since the last data character; output reversed -/
def b64DecodeGo : Str → (quad left pads : Nat) → Bytes → Except String Bytes
  | [], quad, _, _, out =>
    if quad == 0 then .ok out.reverse else .error "binascii.Error"
  | c :: t, quad, left, pads, out =>
    if c == '=' then
      if quad ≥ 2 && quad + (pads + 1) ≥ 4 then .ok out.reverse
      else b64DecodeGo t quad left (if quad ≥ 2 then pads + 1 else pads) out
    else
      match b64Val? c with
      | none => b64DecodeGo t quad left pads out
      | some v =>
        match quad with
        | 0 => b64DecodeGo t 1 v 0 out
        | 1 => b64DecodeGo t 2 (v % 16) 0 (UInt8.ofNat (left * 4 + v / 16) :: out)
        | 2 => b64DecodeGo t 3 (v % 4) 0 (UInt8.ofNat (left * 16 + v / 4) :: out)
        | _ => b64DecodeGo t 0 0 0 (UInt8.ofNat (left * 64 + v) :: out)

/-- `base64.b64decode(s)` for a `str`: ValueError for non-ASCII text, `binascii.Error` for bad
padding / length -/
def b64Decode (s : Str) : Except String Bytes :=
  if s.any (fun c => c.toNat ≥ 128) then .error "ValueError" else b64DecodeGo s 0 0 0 []

/-- `bytes.decode()` (strict UTF-8) -/
def utf8Strict (bs : Bytes) : Except String Str :=
  match utf8Dec? bs with
  | some s => .ok s
  | none => .error "UnicodeDecodeError"

/-! ### Authorization / WWW-Authenticate -/

structure Auth where
  type : Str
  params : Dict (Option Str)
  token : Option Str
  deriving DecidableEq

/-- classes caught by `except (binascii.Error, UnicodeError, ValueError)`; `binascii.Error` and
`UnicodeDecodeError` are subclasses of ValueError -/
def basicCaught : List String := ["binascii.Error", "UnicodeDecodeError", "UnicodeError", "ValueError"]

/-- the scheme-independent tail of both `from_header`s -/
def authRest (scheme rest : Str) : Except String Auth := do
  -- `"=" in rest.rstrip("=")`
  if (Py.rstripBy (· == '=') rest).contains '=' then
    return ⟨scheme, ← parseDictHeader rest, none⟩
  return ⟨scheme, [], some rest⟩

/-- `Authorization.from_header(value)` -/
def authorizationFromHeader (value : Str) : Except String (Option Auth) := do
  if value.isEmpty then return none
  let (s, _, r) := partition ' ' value
  let scheme := pyLower s
  let rest := strip r
  if scheme == "basic".toList then
    let dec ← catching basicCaught (do
      let bs ← b64Decode rest
      let txt ← utf8Strict bs
      pure (some txt)) none
    match dec with
    | none => return none
    | some txt =>
      let (u, _, p) := partition ':' txt
      return some ⟨scheme, [("username".toList, some u), ("password".toList, some p)], none⟩
  return some (← authRest scheme rest)

def optText : Option Str → Str
  | some s => s
  | none => "None".toList

/-- `Authorization.to_header()` -/
def authorizationToHeader (a : Auth) : Except String Str := do
  if a.type == "basic".toList then
    let u := optText ((dictGet? a.params "username".toList).getD none)
    let p := optText ((dictGet? a.params "password".toList).getD none)
    return "Basic ".toList ++ b64Encode (utf8Enc (u ++ ':' :: p))
  match a.token with
  | some t => return pyTitle a.type ++ ' ' :: t
  | none => return pyTitle a.type ++ ' ' :: (← dumpHeaderDict a.params)

/-- `WWWAuthenticate.from_header(value)` -/
def wwwFromHeader (value : Str) : Except String (Option Auth) := do
  if value.isEmpty then return none
  let (s, _, r) := partition ' ' value
  return some (← authRest (pyLower s) (strip r))

def isDigestQuoted (k : Str) : Bool := Gen.Http.digestQuoted.any (·.contains (String.ofList k))

/-- `WWWAuthenticate.to_header()` (the constructor lower-cases the type) -/
def wwwToHeader (a : Auth) : Except String Str := do
  match a.token with
  | some t => return pyTitle a.type ++ ' ' :: t
  | none =>
    if a.type == "digest".toList then
      let items := a.params.map fun (k, v) =>
        k ++ '=' :: quoteHeaderValue (optText v) (allowToken := !isDigestQuoted k)
      return "Digest ".toList ++ join ", " items
    return pyTitle a.type ++ ' ' :: (← dumpHeaderDict a.params)

/-! ### Accept headers (parsing only; matching is modelled in C17) -/

/-- `_q_value_re.fullmatch(s)`: sign, integer digits, fraction digits -/
def qParts? (s : Str) : Option (Bool × Str × Str) :=
  let (neg, r) := match s with | '-' :: r => (true, r) | _ => (false, s)
  let ip := r.takeWhile isQDigit
  if ip.isEmpty then none else
  match r.dropWhile isQDigit with
  | [] => some (neg, ip, [])
  | '.' :: f => if !f.isEmpty && f.all isQDigit then some (neg, ip, f) else none
  | _ => none

/-- does `float(q)` compare `< 0` or `> 1`?  exact rational comparison against the rounding
thresholds of IEEE double (`float()` is correctly rounded): a negative value rounds to `-0.0`
(not `< 0`) iff its magnitude is at most 2^-1075; a value rounds to something above 1 iff it
exceeds 1 + 2^-53. -/
def qOutOfRange (neg : Bool) (ip fp : Str) : Bool :=
  let num := digitsVal (ip ++ fp)          -- value = num / 10^|fp|
  let den := 10 ^ fp.length
  if neg then num * 2 ^ 1075 > den
  else num * 2 ^ 53 > (2 ^ 53 + 1) * den

/-- one item of `parse_accept_header`: `none` = skipped; the quality is returned as its text
(`"1"` for the default) -/
def acceptItem (item : Str) : Except String (Option (Str × Str)) := do
  let (v, options) ← parseOptionsHeader item
  let (q, options) ←
    match dictGet? options ['q'] with
    | some qs =>
      let qs := strip qs
      match qParts? qs with
      | none => return none
      | some (neg, ip, fp) =>
        if qOutOfRange neg ip fp then return none
        pure (qs, dictPop options ['q'])
    | none => pure (['1'], options)
  if !options.isEmpty then
    let item ← dumpOptionsHeader (some v) (options.map fun (k, x) => (k, some x))
    return some (item, q)
  return some (v, q)

/-- `parse_accept_header(value)`: `(item, quality text)` pairs in header order (the class sorts them) -/
def parseAcceptHeader (value : Str) : Except String (List (Str × Str)) := do
  if value.isEmpty then return []
  let items ← (parseListHeader value).mapM acceptItem
  return items.filterMap id

/-! ### lazily parsed `Request` attributes (the descriptor layer) -/

/-- `_DictAccessorProperty.__get__`: missing key ⇒ default; otherwise `load_func(value)` with
`(ValueError, TypeError)` turned into the default -/
def headerProperty {α : Type} (load : Str → Except String α) (dflt : α) (hdr : Option Str) : Except String α :=
  match hdr with
  | none => .ok dflt
  | some v => catching ["ValueError", "TypeError"] (load v) dflt

/-- `Request.max_forwards` = `header_property("Max-Forwards", None, int)` -/
def requestMaxForwards (hdr : Option Str) : Except String (Option Int) :=
  headerProperty (fun v => (pyInt v).map some) none hdr

/-- `sansio.utils.get_content_length` (`Request.content_length`) -/
def getContentLength (contentLength transferEncoding : Option Str) : Except String (Option Int) :=
  if transferEncoding == some "chunked".toList then .ok none else
  match contentLength with
  | none => .ok none
  | some v => catching ["ValueError"] ((plainInt v).map fun n => some (if n < 0 then 0 else n)) (some 0)

/-- `Request.access_control_request_headers` = `header_property(..., load_func=parse_set_header)` -/
def requestAccessControlRequestHeaders (hdr : Option Str) : Except String (Option (List Str)) :=
  headerProperty (fun v => .ok (some (parseSetMembers v))) none hdr

end Wz.Http
