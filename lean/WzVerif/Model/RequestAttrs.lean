/-
The lazily parsed attributes of `werkzeug.sansio.request.Request` / `werkzeug.wrappers.Request`
(property C07) as compositions of the finished models:

* header codecs, Authorization, Cache-Control, Range, ETags, If-Range  — Model/Http.lean, Model/IfRange.lean
* `sansio.http.parse_cookie`                                        — Model/Cookie.lean (C13)
* `urllib.parse.parse_qsl(..., errors="werkzeug.url_quote")`        — Model/Urlencode.lean (C02)
* Accept / MIMEAccept / LanguageAccept / CharsetAccept lookups      — Model/Accept.lean (C17)
* `get_host` / `host_is_trusted`                                    — Model/Debugger.lean (C20)

Every attribute is `environ → Except String value`; the only exception any of them can raise is
`SecurityError` (a `BadRequest`, i.e. an HTTPException) from `Request.host` with `trusted_hosts` set.
Parameters (Python's, not modelled): `pd` = `parse_date` as a total function `text → instant or
None` (it wraps `email.utils` in `except (TypeError, ValueError, OverflowError)`), `idna` = the idna
codec, `aliases` = `codecs.lookup` names.
Not here: `url`, `base_url`, `host_url`, `root_url`, `url_root` (known finding F07d: `urlsplit`
raises ValueError for some Host values), `form` / `files` / `data` / `json` (C01/C02/C10's models).
-/
import WzVerif.Model.Http
import WzVerif.Model.IfRange
import WzVerif.Model.Cookie
import WzVerif.Model.Urlencode
import WzVerif.Model.Accept
import WzVerif.Model.Debugger
namespace Wz.Req
open Wz Wz.Http

/-- the client-controlled part of a WSGI environ (header values as the latin-1 `str` objects WSGI
hands over; `none` = variable absent) plus the server-controlled configuration -/
structure Env where
  -- server controlled
  scheme : Str := "http".toList
  serverName : Str := "localhost".toList
  serverPort : Option Nat := some 80
  remoteAddr : Option Str := none
  trustedHosts : Option (List Str) := none
  -- client controlled
  queryString : Str := []
  host : Option Str := none
  accept : Option Str := none
  acceptCharset : Option Str := none
  acceptEncoding : Option Str := none
  acceptLanguage : Option Str := none
  authorization : Option Str := none
  cacheControl : Option Str := none
  cookie : Option Str := none
  ifMatch : Option Str := none
  ifNoneMatch : Option Str := none
  ifModifiedSince : Option Str := none
  ifUnmodifiedSince : Option Str := none
  ifRange : Option Str := none
  range : Option Str := none
  date : Option Str := none
  contentType : Option Str := none
  contentLength : Option Str := none
  transferEncoding : Option Str := none
  pragma : Option Str := none
  xForwardedFor : Option Str := none
  maxForwards : Option Str := none
  accessControlRequestHeaders : Option Str := none

/-- `environ["QUERY_STRING"].encode("latin1")`; UnicodeEncodeError is impossible for a WSGI environ -/
def queryBytes (e : Env) : Except String Bytes :=
  match Py.latin1Enc e.queryString with
  | some bs => .ok bs
  | none => .error "UnicodeEncodeError"

/-- `Request.args`: `parse_qsl(query_string.decode(errors="werkzeug.url_quote"), keep_blank_values=True,
errors="werkzeug.url_quote")` (pairs in order; the MultiDict groups them) -/
def args (e : Env) : Except String (List (Str × Str)) := do
  let bs ← queryBytes e
  pure (Wz.Urlencode.parseQsl true (Wz.Urlencode.decodeUrlQuote bs))

/-- `Request.cookies`: `parse_cookie(";".join(headers.getlist("Cookie")))` -/
def cookies (e : Env) : List (Str × Str) := Wz.Cookie.parseCookie (e.cookie.getD [])

/-- exact decimal value of a quality text that passed `_q_value_re` and the range check -/
def qOfText (s : Str) : Wz.Accept.Q :=
  match qParts? s with
  | some (neg, ip, fp) => if neg then Wz.Accept.Q.zero else ⟨digitsVal (ip ++ fp), fp.length⟩
  | none => Wz.Accept.Q.zero

/-- `parse_accept_header(value, cls)`: the sorted `(item, quality)` list of the resulting object -/
def acceptOf {σ : Type} (N : Wz.Accept.Neg σ Wz.Accept.Q) (hdr : Option Str) :
    Except String (List (Str × Wz.Accept.Q)) := do
  let items ← parseAcceptHeader (hdr.getD [])
  pure (Wz.Accept.mk N (items.map fun (i, q) => (i, qOfText q)))

def acceptMimetypes (e : Env) := acceptOf Wz.Accept.mimeNeg e.accept
def acceptCharsets (aliases : List (Str × Str)) (e : Env) := acceptOf (Wz.Accept.charsetNeg aliases) e.acceptCharset
def acceptEncodings (e : Env) := acceptOf Wz.Accept.acceptNeg e.acceptEncoding
def acceptLanguages (e : Env) := acceptOf Wz.Accept.langNeg e.acceptLanguage

/-- what the application does with an Accept object (the operations the property lists): membership,
quality and `best_match` over well-formed offers -/
structure AcceptUse where
  contains : List Bool
  quality : List (Option Wz.Accept.Q)
  best : Option Str

def useAccept {σ : Type} (N : Wz.Accept.Neg σ Wz.Accept.Q) (self : List (Str × Wz.Accept.Q)) (offers : List Str) : AcceptUse :=
  ⟨offers.map (Wz.Accept.contains N self), offers.map (Wz.Accept.quality N self), Wz.Accept.bestMatch N self offers⟩

def useLanguages (self : List (Str × Wz.Accept.Q)) (offers : List Str) : AcceptUse :=
  ⟨offers.map (Wz.Accept.contains Wz.Accept.langNeg self), offers.map (Wz.Accept.quality Wz.Accept.langNeg self),
    Wz.Accept.langBestMatch self offers⟩

/-- `Request.cache_control` (dict of the `RequestCacheControl`) -/
def cacheControl (e : Env) : Except String (Dict (Option Str)) := parseCacheControl (e.cacheControl.getD [])

def ifMatch (e : Env) : ETags := parseEtags (e.ifMatch.getD [])
def ifNoneMatch (e : Env) : ETags := parseEtags (e.ifNoneMatch.getD [])

/-- `parse_date(headers.get(name))` -/
def dateOf (pd : Str → Option Nat) (hdr : Option Str) : Option Nat := hdr.bind pd

def ifModifiedSince (pd : Str → Option Nat) (e : Env) := dateOf pd e.ifModifiedSince
def ifUnmodifiedSince (pd : Str → Option Nat) (e : Env) := dateOf pd e.ifUnmodifiedSince
/-- `Request.date` = `header_property("Date", None, parse_date)` -/
def date (pd : Str → Option Nat) (e : Env) : Except String (Option Nat) :=
  headerProperty (fun v => .ok (pd v)) none e.date
def ifRange (pd : Str → Option Nat) (e : Env) : IfRangeV := parseIfRange pd (e.ifRange.getD [])

def range (e : Env) : Except String (Option RangeV) := parseRangeHeader (e.range.getD [])
def authorization (e : Env) : Except String (Option Auth) := authorizationFromHeader (e.authorization.getD [])

/-- `Request._parse_content_type`: `parse_options_header(headers.get("Content-Type", ""))` -/
def parsedContentType (e : Env) : Except String (Str × Dict Str) := parseOptionsHeader (e.contentType.getD [])
def mimetype (e : Env) : Except String Str := (parsedContentType e).map fun r => pyLower r.1
def mimetypeParams (e : Env) : Except String (Dict Str) := (parsedContentType e).map (·.2)
/-- `Request.is_json` -/
def isJson (e : Env) : Except String Bool :=
  (mimetype e).map fun mt =>
    mt == "application/json".toList ||
      ("application/".toList.isPrefixOf mt && "+json".toList.isSuffixOf mt)

def contentLength (e : Env) : Except String (Option Int) := getContentLength e.contentLength e.transferEncoding
def maxForwards (e : Env) : Except String (Option Int) := requestMaxForwards e.maxForwards
def accessControlRequestHeaders (e : Env) := requestAccessControlRequestHeaders e.accessControlRequestHeaders
def pragma (e : Env) : List Str := parseSetMembers (e.pragma.getD [])

/-- `Request.access_route` -/
def accessRoute (e : Env) : List Str :=
  match e.xForwardedFor with
  | some v => parseListHeader v
  | none => match e.remoteAddr with | some a => [a] | none => []

/-- `Request.host`: `get_host(scheme, headers.get("host"), server, trusted_hosts)`;
`.error "SecurityError"` (an HTTPException) when `trusted_hosts` is set and the host is not trusted -/
def host (idna : Wz.Dbg.Idna) (e : Env) : Except String Str :=
  Wz.Dbg.getHost idna e.scheme e.host (some (e.serverName, e.serverPort)) e.trustedHosts

/-- the modelled attributes -/
inductive Attr where
  | args | cookies | acceptMimetypes | acceptCharsets | acceptEncodings | acceptLanguages
  | cacheControl | ifMatch | ifNoneMatch | ifModifiedSince | ifUnmodifiedSince | ifRange | date
  | range | authorization | mimetype | mimetypeParams | isJson | contentLength | maxForwards
  | accessControlRequestHeaders | pragma | accessRoute | host
  deriving DecidableEq, Repr

/-- the parameters that are Python's -/
structure Ext where
  pd : Str → Option Nat
  idna : Wz.Dbg.Idna
  aliases : List (Str × Str)

/-- outcome of reading attribute `a` (the value is dropped: only whether, and with what, it raises) -/
def outcome (x : Ext) (e : Env) : Attr → Except String Unit
  | .args => (args e).map fun _ => ()
  | .cookies => .ok ((fun _ => ()) (cookies e))
  | .acceptMimetypes => (acceptMimetypes e).map fun _ => ()
  | .acceptCharsets => (acceptCharsets x.aliases e).map fun _ => ()
  | .acceptEncodings => (acceptEncodings e).map fun _ => ()
  | .acceptLanguages => (acceptLanguages e).map fun _ => ()
  | .cacheControl => (cacheControl e).map fun _ => ()
  | .ifMatch => .ok ((fun _ => ()) (ifMatch e))
  | .ifNoneMatch => .ok ((fun _ => ()) (ifNoneMatch e))
  | .ifModifiedSince => .ok ((fun _ => ()) (ifModifiedSince x.pd e))
  | .ifUnmodifiedSince => .ok ((fun _ => ()) (ifUnmodifiedSince x.pd e))
  | .ifRange => .ok ((fun _ => ()) (ifRange x.pd e))
  | .date => (date x.pd e).map fun _ => ()
  | .range => (range e).map fun _ => ()
  | .authorization => (authorization e).map fun _ => ()
  | .mimetype => (mimetype e).map fun _ => ()
  | .mimetypeParams => (mimetypeParams e).map fun _ => ()
  | .isJson => (isJson e).map fun _ => ()
  | .contentLength => (contentLength e).map fun _ => ()
  | .maxForwards => (maxForwards e).map fun _ => ()
  | .accessControlRequestHeaders => (accessControlRequestHeaders e).map fun _ => ()
  | .pragma => .ok ((fun _ => ()) (pragma e))
  | .accessRoute => .ok ((fun _ => ()) (accessRoute e))
  | .host => (host x.idna e).map fun _ => ()

end Wz.Req
