/-
Model of the WSGI side of `werkzeug.wrappers.response.Response` (C05):
`_clean_status`, the header effects of `__init__` / `set_data`, `get_wsgi_headers`,
`get_app_iter`, `make_sequence`, `close`, `wsgi.ClosingIterator` as a small effect model that logs
which close actions run.

Opaque (computed by the harness with the same library calls): `iri_to_uri` / `urljoin` of the
Location and Content-Location values (C15).
-/
import WzVerif.Util.Bytes
import WzVerif.Model.Headers
import WzVerif.Model.Views
import WzVerif.Model.Url
import WzVerif.Gen.Response
namespace Wz.Resp
open Wz Hdr

/-! ### status -/

inductive StatusArg where
  /-- an `int` or `HTTPStatus` -/
  | code (i : Int)
  /-- a string -/
  | text (s : Str)
deriving Repr, DecidableEq

def upper (s : Str) : Str := s.map Char.toUpper

/-- `f"{code} {HTTP_STATUS_CODES[code].upper()}"` or `"{code} UNKNOWN"` -/
def codeLine (i : Int) : Str :=
  let phrase : Str :=
    match (if i < 0 then none else Gen.Response.statusCodes.find? (fun e => e.1 == i.toNat)) with
    | some e => upper e.2.toList
    | none => "UNKNOWN".toList
  Views.CC.intText i ++ ' ' :: phrase

/-- `Response._clean_status` : (status line, status code) -/
def cleanStatus : StatusArg → Except String (Str × Int)
  | .code i => .ok (codeLine i, i)
  | .text s =>
    let v := Views.strip s
    if v.isEmpty then .error "ValueError"
    else
      let p := Views.partitionCh ' ' v
      -- `int(code_str)`: C06's model of `int()` on text (surrounding white space, sign, `_` separators)
      match Http.pyInt p.1 with
      | .error _ => .ok ("0 ".toList ++ v, 0)
      | .ok i => if p.2.1 then .ok (v, i) else .ok (codeLine i, i)

/-! ### body -/

inductive Item where
  | text (s : Str)
  | bytes (b : Bytes)
deriving Repr, DecidableEq

/-- `_iter_encoded`: text items are UTF-8 encoded -/
def Item.encode : Item → Bytes
  | .text s => utf8Enc s
  | .bytes b => b

inductive BodyKind where
  /-- a list or tuple (`is_sequence`) -/
  | seq
  /-- any other iterable; `closable` = it has a `close` method (generator, file wrapper, …) -/
  | stream (closable : Bool)
deriving Repr, DecidableEq

structure Body where
  kind : BodyKind
  items : List Item
deriving Repr, DecidableEq

/-- the close actions that can run -/
inductive CloseEv where
  /-- `close()` of the iterable the application supplied -/
  | wrapped
  /-- a `call_on_close` callback -/
  | cb (n : Nat)
deriving Repr, DecidableEq

structure R where
  headers : HList
  statusLine : Str
  status : Int
  body : Body
  directPassthrough : Bool
  onClose : List CloseEv
deriving Repr, DecidableEq

def totalLen (items : List Item) : Nat := (items.map (fun i => i.encode.length)).sum

/-- header effects of `Response.__init__(response, status, headers)`; `dataLen` is the byte length
when the body was given as a single `str` / `bytes` (`set_data`) -/
def construct (hinit : HList) (status : StatusArg) (body : Body) (dataLen : Option Nat) (dp : Bool) :
    Except String R :=
  match Hdr.construct (some (.pairs hinit)) with
  | .error e => .error e
  | .ok h0 =>
    let h1 := if Hdr.contains h0 "content-type".toList then h0
      else (Hdr.set h0 "Content-Type".toList "text/plain; charset=utf-8".toList).1
    match cleanStatus status with
    | .error e => .error e
    | .ok (line, code) =>
      let h2 := match dataLen with
        | some n => (Hdr.set h1 "Content-Length".toList (Views.CC.natText n)).1
        | none => h1
      .ok ⟨h2, line, code, body, dp, []⟩

/-- `Response.call_on_close(cb n)` -/
def callOnClose (r : R) (n : Nat) : R := { r with onClose := r.onClose ++ [.cb n] }

/-- `Response.make_sequence` (what `get_data()` triggers for a streamed body) -/
def makeSequence (r : R) : R :=
  match r.body.kind with
  | .seq => r
  | .stream c =>
    { r with body := ⟨.seq, r.body.items.map (fun i => .bytes i.encode)⟩,
             onClose := r.onClose ++ (if c then [.wrapped] else []) }

/-- `Response.close` -/
def respClose (r : R) : List CloseEv :=
  (match r.body.kind with | .stream true => [.wrapped] | _ => []) ++ r.onClose

/-- no body must be sent: HEAD, 1xx, 204, 304 -/
def bodyless (status : Int) (method : Str) : Bool :=
  method == "HEAD".toList || (100 ≤ status && status < 200) || status == 204 || status == 304

/-- the iterable handed to the WSGI server: the chunks it yields and what its `close()` runs -/
structure AppIter where
  chunks : List Bytes
  closeActs : List CloseEv
deriving Repr, DecidableEq

/-- `Response.get_app_iter` -/
def getAppIter (r : R) (method : Str) : AppIter :=
  if bodyless r.status method then ⟨[], respClose r⟩
  else if r.directPassthrough then
    ⟨r.body.items.map Item.encode, match r.body.kind with | .stream true => [.wrapped] | _ => []⟩
  else
    -- `ClosingIterator(iter_encoded(), self.close)`: also closes the internal `_iter_encoded`
    -- generator, which has no observable effect and is not part of the log
    ⟨r.body.items.map Item.encode, respClose r⟩

def isEntity (key : Str) : Bool := Gen.Response.entityHeaders.contains (String.ofList (lower key))

/-- `remove_entity_headers(headers)` with the default `allowed` -/
def removeEntityHeaders (h : HList) : HList :=
  h.filter fun p => !isEntity p.1 || lower p.1 == "expires".toList || lower p.1 == "content-location".toList

/-- `Response.get_wsgi_headers`; `locOut` / `clocOut` are the already converted Location /
Content-Location values (used only when such a header is present) -/
def getWsgiHeaders (r : R) (locOut clocOut : Str) : HList :=
  let h := r.headers
  let contentLength := (getlist h "content-length".toList).getLast?
  let h := if (getlist h "location".toList).isEmpty then h else (Hdr.set h "Location".toList locOut).1
  let h := if (getlist r.headers "content-location".toList).isEmpty then h
    else (Hdr.set h "Content-Location".toList clocOut).1
  let status := r.status
  let informational := 100 ≤ status && status < 200
  let h := if informational || status == 204 then delKey h "Content-Length".toList
    else if status == 304 then removeEntityHeaders h else h
  if r.body.kind == .seq && contentLength.isNone && !(status == 204 || status == 304) && !informational then
    (Hdr.set h "Content-Length".toList (Views.CC.natText (totalLen r.body.items))).1
  else h

/-! ### Location / Content-Location on top of the C15 model of `iri_to_uri`

`urlsplit` (+ the IDNA step on the host), `urlunsplit` and `urljoin` are opaque parameters; the
quoting in between is `Url.iriToUri` (C15). -/

structure UrlOps where
  /-- `urlsplit(url)` with `hostname.encode("idna").decode("ascii")` applied to the host -/
  split : Str → Url.Parts
  /-- `urlunsplit(5-tuple)` -/
  unsplit : Url.Split → Str
  /-- `urljoin(base, url)` -/
  join : Str → Str → Str

/-- `werkzeug.urls.iri_to_uri(url)` -/
def iriToUriStr (U : UrlOps) (url : Str) : Str := U.unsplit (Url.iriToUri (U.split url))

/-- the Location value `get_wsgi_headers` stores: `iri_to_uri(location)`, then - with
`autocorrect_location_header` - `urljoin(iri_to_uri(current_url), location)`. Both arguments of
`urljoin` have been through `iri_to_uri` before the join (in this order in the code). -/
def locationOut (U : UrlOps) (autocorrect : Bool) (currentUrl location : Str) : Str :=
  let loc := iriToUriStr U location
  if autocorrect then U.join (iriToUriStr U currentUrl) loc else loc

/-- `get_wsgi_headers` with the URL conversions spelled out: the values used are the *last*
Location / Content-Location entries of the response headers -/
def getWsgiHeadersU (U : UrlOps) (autocorrect : Bool) (currentUrl : Str) (r : R) : HList :=
  let loc := ((getlist r.headers "location".toList).getLast?).getD []
  let cloc := ((getlist r.headers "content-location".toList).getLast?).getD []
  getWsgiHeaders r (locationOut U autocorrect currentUrl loc) (iriToUriStr U cloc)

/-- the close log after the server iterated (any prefix) and closed the iterable -/
def closeLog (r : R) (method : Str) : List CloseEv := (getAppIter r method).closeActs

/-- what must have run exactly once: the wrapped iterable's `close` when it has one, and every
registered callback -/
def expectedClose (r : R) : List CloseEv :=
  (match r.body.kind with | .stream true => [.wrapped] | _ => []) ++ r.onClose

/-! ### histories on one response object

The life of a `Response` between construction and the moment the server closes the iterable it was
handed: registering close callbacks, `get_data()` / `make_sequence()` / `freeze()` / `set_data()`,
explicit `close()` (also the `with` statement), `get_wsgi_response(environ)`, the server pulling
chunks and closing. A streamed body is consumed in place (everything that iterates it shares it);
`Response.close` looks at the response *when it runs*, so callbacks registered after
`get_wsgi_response` still run. -/

structure Cfg where
  /-- `implicit_sequence_conversion` -/
  implicitConv : Bool := true
  /-- `automatically_set_content_length` -/
  autoLength : Bool := true
deriving Repr, DecidableEq

/-- the iterable the server holds -/
inductive Held where
  | none
  /-- `ClosingIterator(iter_encoded(), self.close)` over a list / tuple: its remaining chunks -/
  | seqIter (rest : List Bytes)
  /-- … over the streamed iterable that is still the response's body (shared, consumed in place) -/
  | streamIter
  /-- … over a streamed iterable that is no longer the response's body: consumed by
  `make_sequence` / `freeze` (nothing left) or replaced by `set_data` (its remaining items) -/
  | ownStream (rest : List Item)
  /-- `ClosingIterator((), self.close)` for HEAD / 1xx / 204 / 304 -/
  | emptyIter
  /-- direct passthrough of a list / tuple: the list itself (no `close`) -/
  | rawSeq (rest : List Bytes)
  /-- direct passthrough of a streamed iterable; `shared` = it is still the response's body -/
  | rawStream (closable : Bool) (shared : Bool) (rest : List Item)
deriving Repr, DecidableEq

structure St where
  r : R
  cfg : Cfg
  held : Held
  /-- chunks the server received so far -/
  sent : List Bytes
  /-- close actions that ran, in order -/
  log : List CloseEv
  /-- status line and header list of the last `get_wsgi_response` -/
  wsgi : Option (Str × HList)
deriving Repr, DecidableEq

inductive REv where
  | callOnClose (n : Nat)
  | getData
  | makeSequence
  /-- `freeze()`; `etag` is `generate_etag(data)` (SHA-1, opaque) -/
  | freeze (etag : Str)
  | setData (b : Bytes)
  /-- `response.stream.write(b)` (`ResponseStream`): the body is made a mutable list, `b` is
  appended and a Content-Length header is dropped -/
  | streamWrite (b : Bytes)
  /-- `response.close()` / leaving `with response:` -/
  | close
  | getWsgi (method : Str) (locOut clocOut : Str)
  /-- the server pulls up to `n` chunks -/
  | take (n : Nat)
  /-- the server calls `close()` on the iterable when it has one -/
  | iterClose
deriving Repr, DecidableEq

inductive Out where
  | unit
  | data (b : Bytes)
deriving Repr, DecidableEq

def allBytes (items : List Item) : Bytes := (items.map Item.encode).flatten

/-- the held iterable loses the streamed body it shared with the response -/
def detach (held : Held) (rest : List Item) : Held :=
  match held with
  | .streamIter => .ownStream rest
  | .rawStream c true _ => .rawStream c false rest
  | h => h

/-- `_ensure_sequence()` -/
def ensureSequence (s : St) : Except String St :=
  match s.r.body.kind with
  | .seq => .ok s
  | .stream _ =>
    if s.r.directPassthrough then .error "RuntimeError"
    else if !s.cfg.implicitConv then .error "RuntimeError"
    else .ok { s with r := makeSequence s.r, held := detach s.held [] }

/-- `get_wsgi_headers` honouring `automatically_set_content_length` -/
def getWsgiHeadersCfg (auto : Bool) (r : R) (locOut clocOut : Str) : HList :=
  if auto then getWsgiHeaders r locOut clocOut
  else getWsgiHeaders { r with body := ⟨.stream false, r.body.items⟩ } locOut clocOut

def nextEv (s : St) : REv → St × Except String Out
  | .callOnClose n => ({ s with r := callOnClose s.r n }, .ok .unit)
  | .getData =>
    match ensureSequence s with
    | .error e => (s, .error e)
    | .ok s' => (s', .ok (.data (allBytes s'.r.body.items)))
  | .makeSequence =>
    match s.r.body.kind with
    | .seq => (s, .ok .unit)
    | .stream _ => ({ s with r := makeSequence s.r, held := detach s.held [] }, .ok .unit)
  | .freeze etag =>
    let items : List Item := s.r.body.items.map fun i => .bytes i.encode
    let h1 := (Hdr.set s.r.headers "Content-Length".toList (Views.CC.natText (totalLen items))).1
    let h2 := if Hdr.contains h1 "etag".toList then h1 else (Hdr.set h1 "ETag".toList ('"' :: etag ++ ['"'])).1
    -- as repaired by 41b0631: like `make_sequence`, the close of a consumed iterable is handed
    -- over to the close callbacks
    let onClose := s.r.onClose ++ (match s.r.body.kind with | .stream true => [.wrapped] | _ => [])
    ({ s with r := { s.r with body := ⟨.seq, items⟩, headers := h2, onClose := onClose },
              held := match s.r.body.kind with | .stream _ => detach s.held [] | .seq => s.held }, .ok .unit)
  | .setData b =>
    let h := if s.cfg.autoLength then (Hdr.set s.r.headers "Content-Length".toList (Views.CC.natText b.length)).1
      else s.r.headers
    ({ s with r := { s.r with body := ⟨.seq, [.bytes b]⟩, headers := h },
              held := match s.r.body.kind with | .stream _ => detach s.held s.r.body.items | .seq => s.held }, .ok .unit)
  | .streamWrite b =>
    match ensureSequence s with
    | .error e => (s, .error e)
    | .ok s' =>
      ({ s' with r := { s'.r with body := ⟨.seq, s'.r.body.items ++ [.bytes b]⟩,
                                  headers := (popKey s'.r.headers "Content-Length".toList (some [])).1 } }, .ok .unit)
  | .close => ({ s with log := s.log ++ respClose s.r }, .ok .unit)
  | .getWsgi method lo co =>
    let headers := getWsgiHeadersCfg s.cfg.autoLength s.r lo co
    let held : Held :=
      if bodyless s.r.status method then .emptyIter
      else match s.r.body.kind, s.r.directPassthrough with
        | .seq, true => .rawSeq (s.r.body.items.map Item.encode)
        | .stream c, true => .rawStream c true []
        | .seq, false => .seqIter (s.r.body.items.map Item.encode)
        | .stream _, false => .streamIter
    ({ s with held := held, wsgi := some (s.r.statusLine, headers) }, .ok .unit)
  | .take n =>
    match s.held with
    | .seqIter rest => ({ s with held := .seqIter (rest.drop n), sent := s.sent ++ rest.take n }, .ok .unit)
    | .rawSeq rest => ({ s with held := .rawSeq (rest.drop n), sent := s.sent ++ rest.take n }, .ok .unit)
    | .streamIter =>
      ({ s with r := { s.r with body := ⟨s.r.body.kind, s.r.body.items.drop n⟩ },
                sent := s.sent ++ (s.r.body.items.take n).map Item.encode }, .ok .unit)
    | .rawStream c true _ =>
      ({ s with r := { s.r with body := ⟨s.r.body.kind, s.r.body.items.drop n⟩ },
                sent := s.sent ++ (s.r.body.items.take n).map Item.encode, held := .rawStream c true [] }, .ok .unit)
    | .rawStream c false rest =>
      ({ s with held := .rawStream c false (rest.drop n), sent := s.sent ++ (rest.take n).map Item.encode }, .ok .unit)
    | .ownStream rest =>
      ({ s with held := .ownStream (rest.drop n), sent := s.sent ++ (rest.take n).map Item.encode }, .ok .unit)
    | .emptyIter => (s, .ok .unit)
    | .none => (s, .ok .unit)
  | .iterClose =>
    match s.held with
    | .none => (s, .ok .unit)
    | .rawSeq _ => (s, .ok .unit)
    | .rawStream c _ _ => ({ s with log := s.log ++ (if c then [.wrapped] else []) }, .ok .unit)
    -- `ClosingIterator.close`: the `iter_encoded` generator is closed (it yields nothing any more),
    -- then `Response.close` runs
    | _ => ({ s with log := s.log ++ respClose s.r, held := .emptyIter }, .ok .unit)

def runEvs (s : St) : List REv → St
  | [] => s
  | e :: t => runEvs (nextEv s e).1 t

def initSt (r : R) (cfg : Cfg) : St := ⟨r, cfg, .none, [], [], none⟩

end Wz.Resp
