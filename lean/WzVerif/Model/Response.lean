/-
Model of the WSGI side of `werkzeug.wrappers.response.Response` (C05):
`_clean_status`, the header effects of `__init__` / `set_data`, `get_wsgi_headers`,
`get_app_iter`, `make_sequence`, `close`, `wsgi.ClosingIterator` as a small effect model that logs
which close actions run.

Opaque (computed by the harness with the same library calls): `iri_to_uri` / `urljoin` of the
Location and Content-Location values (C15).
-/
import WzVerif.Util.Bytes
import WzVerif.Model.Headers
import WzVerif.Model.Views
import WzVerif.Model.Url
import WzVerif.Gen.Response
namespace Wz.Resp
open Wz Hdr

/-! ### status -/

inductive StatusArg where
  /-- an `int` or `HTTPStatus` -/
  | code (i : Int)
  /-- a string -/
  | text (s : Str)
deriving Repr, DecidableEq

def upper (s : Str) : Str := s.map Char.toUpper

/-- `f"{code} {HTTP_STATUS_CODES[code].upper()}"` or `"{code} UNKNOWN"` -/
def codeLine (i : Int) : Str :=
  let phrase : Str :=
    match (if i < 0 then none else Gen.Response.statusCodes.find? (fun e => e.1 == i.toNat)) with
    | some e => upper e.2.toList
    | none => "UNKNOWN".toList
  Views.CC.intText i ++ ' ' :: phrase

/-- `Response._clean_status` : (status line, status code) -/
def cleanStatus : StatusArg → Except String (Str × Int)
  | .code i => .ok (codeLine i, i)
  | .text s =>
    let v := Views.strip s
    if v.isEmpty then .error "ValueError"
    else
      let (codeStr, sep, _) := Views.partitionCh ' ' v
      match Views.CC.pyInt codeStr with
      | none => .ok ("0 ".toList ++ v, 0)
      | some i => if sep then .ok (v, i) else .ok (codeLine i, i)

/-! ### body -/

inductive Item where
  | text (s : Str)
  | bytes (b : Bytes)
deriving Repr, DecidableEq

/-- `_iter_encoded`: text items are UTF-8 encoded -/
def Item.encode : Item → Bytes
  | .text s => utf8Enc s
  | .bytes b => b

inductive BodyKind where
  /-- a list or tuple (`is_sequence`) -/
  | seq
  /-- any other iterable; `closable` = it has a `close` method (generator, file wrapper, …) -/
  | stream (closable : Bool)
deriving Repr, DecidableEq

structure Body where
  kind : BodyKind
  items : List Item
deriving Repr, DecidableEq

/-- the close actions that can run -/
inductive CloseEv where
  /-- `close()` of the iterable the application supplied -/
  | wrapped
  /-- a `call_on_close` callback -/
  | cb (n : Nat)
deriving Repr, DecidableEq

structure R where
  headers : HList
  statusLine : Str
  status : Int
  body : Body
  directPassthrough : Bool
  onClose : List CloseEv
deriving Repr, DecidableEq

def totalLen (items : List Item) : Nat := (items.map (fun i => i.encode.length)).sum

/-- header effects of `Response.__init__(response, status, headers)`; `dataLen` is the byte length
when the body was given as a single `str` / `bytes` (`set_data`) -/
def construct (hinit : HList) (status : StatusArg) (body : Body) (dataLen : Option Nat) (dp : Bool) :
    Except String R :=
  match Hdr.construct (some (.pairs hinit)) with
  | .error e => .error e
  | .ok h0 =>
    let h1 := if Hdr.contains h0 "content-type".toList then h0
      else (Hdr.set h0 "Content-Type".toList "text/plain; charset=utf-8".toList).1
    match cleanStatus status with
    | .error e => .error e
    | .ok (line, code) =>
      let h2 := match dataLen with
        | some n => (Hdr.set h1 "Content-Length".toList (Views.CC.natText n)).1
        | none => h1
      .ok ⟨h2, line, code, body, dp, []⟩

/-- `Response.call_on_close(cb n)` -/
def callOnClose (r : R) (n : Nat) : R := { r with onClose := r.onClose ++ [.cb n] }

/-- `Response.make_sequence` (what `get_data()` triggers for a streamed body) -/
def makeSequence (r : R) : R :=
  match r.body.kind with
  | .seq => r
  | .stream c =>
    { r with body := ⟨.seq, r.body.items.map (fun i => .bytes i.encode)⟩,
             onClose := r.onClose ++ (if c then [.wrapped] else []) }

/-- `Response.close` -/
def respClose (r : R) : List CloseEv :=
  (match r.body.kind with | .stream true => [.wrapped] | _ => []) ++ r.onClose

/-- no body must be sent: HEAD, 1xx, 204, 304 -/
def bodyless (status : Int) (method : Str) : Bool :=
  method == "HEAD".toList || (100 ≤ status && status < 200) || status == 204 || status == 304

/-- the iterable handed to the WSGI server: the chunks it yields and what its `close()` runs -/
structure AppIter where
  chunks : List Bytes
  closeActs : List CloseEv
deriving Repr, DecidableEq

/-- `Response.get_app_iter` -/
def getAppIter (r : R) (method : Str) : AppIter :=
  if bodyless r.status method then ⟨[], respClose r⟩
  else if r.directPassthrough then
    ⟨r.body.items.map Item.encode, match r.body.kind with | .stream true => [.wrapped] | _ => []⟩
  else
    -- `ClosingIterator(iter_encoded(), self.close)`: also closes the internal `_iter_encoded`
    -- generator, which has no observable effect and is not part of the log
    ⟨r.body.items.map Item.encode, respClose r⟩

def isEntity (key : Str) : Bool := Gen.Response.entityHeaders.contains (String.ofList (lower key))

/-- `remove_entity_headers(headers)` with the default `allowed` -/
def removeEntityHeaders (h : HList) : HList :=
  h.filter fun p => !isEntity p.1 || lower p.1 == "expires".toList || lower p.1 == "content-location".toList

/-- `Response.get_wsgi_headers`; `locOut` / `clocOut` are the already converted Location /
Content-Location values (used only when such a header is present) -/
def getWsgiHeaders (r : R) (locOut clocOut : Str) : HList :=
  let h := r.headers
  let contentLength := (getlist h "content-length".toList).getLast?
  let h := if (getlist h "location".toList).isEmpty then h else (Hdr.set h "Location".toList locOut).1
  let h := if (getlist r.headers "content-location".toList).isEmpty then h
    else (Hdr.set h "Content-Location".toList clocOut).1
  let status := r.status
  let informational := 100 ≤ status && status < 200
  let h := if informational || status == 204 then delKey h "Content-Length".toList
    else if status == 304 then removeEntityHeaders h else h
  if r.body.kind == .seq && contentLength.isNone && !(status == 204 || status == 304) && !informational then
    (Hdr.set h "Content-Length".toList (Views.CC.natText (totalLen r.body.items))).1
  else h

/-! ### Location / Content-Location on top of the C15 model of `iri_to_uri`

`urlsplit` (+ the IDNA step on the host), `urlunsplit` and `urljoin` are opaque parameters; the
quoting in between is `Url.iriToUri` (C15). -/

structure UrlOps where
  /-- `urlsplit(url)` with `hostname.encode("idna").decode("ascii")` applied to the host -/
  split : Str → Url.Parts
  /-- `urlunsplit(5-tuple)` -/
  unsplit : Url.Split → Str
  /-- `urljoin(base, url)` -/
  join : Str → Str → Str

/-- `werkzeug.urls.iri_to_uri(url)` -/
def iriToUriStr (U : UrlOps) (url : Str) : Str := U.unsplit (Url.iriToUri (U.split url))

/-- the Location value `get_wsgi_headers` stores: `iri_to_uri(location)`, then - with
`autocorrect_location_header` - `urljoin(iri_to_uri(current_url), location)`. Both arguments of
`urljoin` have been through `iri_to_uri` before the join (in this order in the code). -/
def locationOut (U : UrlOps) (autocorrect : Bool) (currentUrl location : Str) : Str :=
  let loc := iriToUriStr U location
  if autocorrect then U.join (iriToUriStr U currentUrl) loc else loc

/-- `get_wsgi_headers` with the URL conversions spelled out: the values used are the *last*
Location / Content-Location entries of the response headers -/
def getWsgiHeadersU (U : UrlOps) (autocorrect : Bool) (currentUrl : Str) (r : R) : HList :=
  let loc := ((getlist r.headers "location".toList).getLast?).getD []
  let cloc := ((getlist r.headers "content-location".toList).getLast?).getD []
  getWsgiHeaders r (locationOut U autocorrect currentUrl loc) (iriToUriStr U cloc)

/-- the close log after the server iterated (any prefix) and closed the iterable -/
def closeLog (r : R) (method : Str) : List CloseEv := (getAppIter r method).closeActs

/-- what must have run exactly once: the wrapped iterable's `close` when it has one, and every
registered callback -/
def expectedClose (r : R) : List CloseEv :=
  (match r.body.kind with | .stream true => [.wrapped] | _ => []) ++ r.onClose

end Wz.Resp
