/-
The `HeaderSet` constructor as repaired (F08c, 1a2e0e6): `_headers` / `_set` are built by the same
loop as `update()`, so the object is consistent for every input. Stated over C08's model of the class
(Model/Containers.lean, read-only here; `str.lower` is ASCII case folding there).
-/
import WzVerif.Model.Containers
import WzVerif.Model.Http
namespace Wz.Http
open Wz

/-- `HeaderSet(headers)` -/
def hsCtor (headers : List Str) : HS.St := (HS.updateLoop ⟨[], []⟩ headers).1

/-- the object `parse_set_header(text)` builds -/
def parseSetObj (s : Str) : HS.St := hsCtor (parseSetHeader s)

end Wz.Http
