/-
Shared byte / text utilities for the executable models (core Lean only, no Mathlib:
everything here is linked into the native driver).
-/
namespace Wz

abbrev Bytes := List UInt8

/-- UTF-8 encoding of a list of Unicode scalar values (Python: `str.encode()`). -/
def utf8Enc (cs : List Char) : Bytes := cs.flatMap String.utf8EncodeChar

/-- Strict UTF-8 decoding (Python: `bytes.decode()`), `none` = `UnicodeDecodeError`. -/
def utf8Dec? (bs : Bytes) : Option (List Char) :=
  (ByteArray.utf8Decode? bs.toByteArray).map Array.toList

theorem utf8Dec_utf8Enc (cs : List Char) : utf8Dec? (utf8Enc cs) = some cs := by
  have h := @List.utf8Decode?_utf8Encode cs
  simp only [List.utf8Encode] at h
  simp [utf8Dec?, utf8Enc, h]

def hexDigit (n : Nat) : Char :=
  if n < 10 then Char.ofNat (48 + n) else Char.ofNat (87 + n)

def hexVal? (c : Char) : Option Nat :=
  if '0' ≤ c ∧ c ≤ '9' then some (c.toNat - 48)
  else if 'a' ≤ c ∧ c ≤ 'f' then some (c.toNat - 87)
  else if 'A' ≤ c ∧ c ≤ 'F' then some (c.toNat - 55)
  else none

/-- Hex text -> bytes (driver protocol). `-` denotes the empty byte string. -/
def unhex (s : String) : Option Bytes :=
  let rec go : List Char → Bytes → Option Bytes
    | [], acc => some acc.reverse
    | [_], _ => none
    | a :: b :: t, acc =>
      match hexVal? a, hexVal? b with
      | some x, some y => go t (UInt8.ofNat (16 * x + y) :: acc)
      | _, _ => none
  if s == "-" then some [] else go s.toList []

def hex (bs : Bytes) : String :=
  if bs.isEmpty then "-" else
  String.ofList (bs.flatMap fun b => [hexDigit (b.toNat / 16), hexDigit (b.toNat % 16)])

/-- Code points (as hex of UTF-32-ish: space separated not needed) are transported as UTF-8 hex. -/
def unhexStr (s : String) : Option (List Char) := (unhex s).bind utf8Dec?

def hexStr (cs : List Char) : String := hex (utf8Enc cs)

end Wz
