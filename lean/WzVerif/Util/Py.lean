/-
Models of a few CPython primitives that several werkzeug models share.
They are *modelled, not verified*: each is validated against CPython by a
correspondence stream (see harness/kernels.py).
-/
import WzVerif.Util.Bytes
namespace Wz.Py

/-- code points for which `str.isspace()` holds (checked against the generated table in Gen/Cookie). -/
def isSpace (c : Char) : Bool :=
  let n := c.toNat
  (9 ≤ n && n ≤ 13) || (28 ≤ n && n ≤ 32) || n == 133 || n == 160 || n == 5760 ||
  (8192 ≤ n && n ≤ 8202) || n == 8232 || n == 8233 || n == 8239 || n == 8287 || n == 12288

/-- `\s` under `re.ASCII` -/
def isReSpaceA (c : Char) : Bool :=
  let n := c.toNat
  (9 ≤ n && n ≤ 13) || n == 32

def rstripBy (p : Char → Bool) (s : List Char) : List Char :=
  (s.reverse.dropWhile p).reverse

/-- `str.strip()` -/
def strip (s : List Char) : List Char := rstripBy isSpace (s.dropWhile isSpace)

/-- Is `b` a UTF-8 continuation byte within `[lo, hi]`? -/
@[inline] def inRange (b lo hi : UInt8) : Bool := lo ≤ b && b ≤ hi

/-- `bytes.decode("utf-8", errors="replace")`: CPython replaces each maximal invalid
subpart by one U+FFFD. -/
def decodeReplaceFuel : Nat → Bytes → List Char
  | 0, _ => []
  | _, [] => []
  | fuel + 1, b0 :: t =>
    let bad (rest : Bytes) := Char.ofNat 0xFFFD :: decodeReplaceFuel fuel rest
    if b0 < 0x80 then Char.ofNat b0.toNat :: decodeReplaceFuel fuel t
    else if inRange b0 0xC2 0xDF then
      match t with
      | b1 :: t1 =>
        if inRange b1 0x80 0xBF then
          Char.ofNat ((b0.toNat - 0xC0) * 64 + (b1.toNat - 0x80)) :: decodeReplaceFuel fuel t1
        else bad t
      | [] => bad t
    else if inRange b0 0xE0 0xEF then
      let lo : UInt8 := if b0 == 0xE0 then 0xA0 else 0x80
      let hi : UInt8 := if b0 == 0xED then 0x9F else 0xBF
      match t with
      | b1 :: t1 =>
        if inRange b1 lo hi then
          match t1 with
          | b2 :: t2 =>
            if inRange b2 0x80 0xBF then
              Char.ofNat ((b0.toNat - 0xE0) * 4096 + (b1.toNat - 0x80) * 64 + (b2.toNat - 0x80))
                :: decodeReplaceFuel fuel t2
            else bad t1
          | [] => bad t1
        else bad t
      | [] => bad t
    else if inRange b0 0xF0 0xF4 then
      let lo : UInt8 := if b0 == 0xF0 then 0x90 else 0x80
      let hi : UInt8 := if b0 == 0xF4 then 0x8F else 0xBF
      match t with
      | b1 :: t1 =>
        if inRange b1 lo hi then
          match t1 with
          | b2 :: t2 =>
            if inRange b2 0x80 0xBF then
              match t2 with
              | b3 :: t3 =>
                if inRange b3 0x80 0xBF then
                  Char.ofNat ((b0.toNat - 0xF0) * 262144 + (b1.toNat - 0x80) * 4096 +
                    (b2.toNat - 0x80) * 64 + (b3.toNat - 0x80)) :: decodeReplaceFuel fuel t3
                else bad t2
              | [] => bad t2
            else bad t1
          | [] => bad t1
        else bad t
      | [] => bad t
    else bad t

/-- `bytes.decode(errors="replace")`. On valid UTF-8 this is the strict decoder of Lean core
(for which `utf8Dec_utf8Enc` is proved); the replacing scanner is only used on invalid input. -/
def decodeReplace (bs : Bytes) : List Char :=
  match utf8Dec? bs with
  | some s => s
  | none => decodeReplaceFuel (bs.length + 1) bs

theorem decodeReplace_utf8Enc (cs : List Char) : decodeReplace (utf8Enc cs) = cs := by
  simp [decodeReplace, utf8Dec_utf8Enc]

/-- `str.encode("latin1")`; `none` = UnicodeEncodeError. -/
def latin1Enc : List Char → Option Bytes
  | [] => some []
  | c :: t => if c.toNat < 256 then (latin1Enc t).map (UInt8.ofNat c.toNat :: ·) else none

/-- `bytes.decode("latin1")` -/
def latin1Dec (bs : Bytes) : List Char := bs.map fun b => Char.ofNat b.toNat

end Wz.Py
