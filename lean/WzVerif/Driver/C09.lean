import WzVerif.Driver.Proto
namespace Wz.Driver.C09
open Wz Wz.Proto

/-- stub: no model commands yet -/
def handle : Handler
  | _, _ => none

end Wz.Driver.C09
