import WzVerif.Driver.Proto
import WzVerif.Model.LimitedStream
import WzVerif.Driver.PyPrelude
namespace Wz.Driver.C09
open Wz Wz.Proto Wz.LS

/-- `g3,e,r` / `[]` -/
def parseScript (s : String) : Option (List Beh) :=
  if s == "[]" then some [] else
  (s.splitOn ",").mapM fun t =>
    match t.toList with
    | ['e'] => some Beh.eof
    | ['r'] => some Beh.raise
    | 'g' :: ds => (String.ofList ds).toNat?.map Beh.give
    | _ => none

def optNat (ds : List Char) : Option (Option Nat) :=
  if ds.isEmpty then some none else (String.ofList ds).toNat?.map some

/-- `r5` read(5), `a` read(), `l` readline(), `l3` readline(3), `L` readlines(), `L9` readlines(9),
`i4` readinto(bytearray(4)), `n` next(), `x` exhaust() -/
def parseOps (s : String) : Option (List Op) :=
  if s == "[]" then some [] else
  (s.splitOn ",").mapM fun t =>
    match t.toList with
    | ['a'] => some Op.readall
    | ['n'] => some Op.next
    | ['x'] => some Op.exhaust
    | 'r' :: ds => (String.ofList ds).toNat?.map Op.read
    | 'i' :: ds => (String.ofList ds).toNat?.map Op.readinto
    | 'l' :: ds => (optNat ds).map Op.readline
    | 'L' :: ds => (optNat ds).map Op.readlines
    | _ => none

def showRes : LRes → String
  | .ok bs => "ok:" ++ ",".intercalate (bs.map hex)
  | .error e => "EXC:" ++ e

def showChoice : Choice → String
  | .tooLarge => "EXC:RequestEntityTooLarge"
  | .limited n m => "limited:" ++ toString n ++ ":" ++ outBool m
  | .raw => "raw"
  | .empty => "empty"

def handle : Handler
  | "ls.run", [data, script, limit, isMax, hasRi, ops] =>
    match unhex data, parseScript script, natArg limit, boolArg isMax, boolArg hasRi, parseOps ops with
    | some data, some script, some limit, some isMax, some hasRi, some ops =>
      let s0 : St := { limit := limit, isMax := isMax, hasReadinto := hasRi, u := { data := data, script := script } }
      let (rs, s) := runOps s0 ops
      let log := s.u.log.reverse.map fun (c, n) => toString c ++ "+" ++ toString n
      some (";".intercalate (rs.map showRes) ++ "|" ++ toString s.u.taken.length ++ "|" ++ toString s.pos
        ++ "|" ++ ",".intercalate log)
    | _, _, _, _, _, _ => some badArgs
  | "ls.choice", [cl, chunked, term, max, safe] =>
    match optArg unhexStr cl, boolArg chunked, boolArg term, optArg natArg max, boolArg safe with
    | some cl, some chunked, some term, some max, some safe =>
      some (showChoice (getInputStream cl chunked term max safe))
    | _, _, _, _, _ => some badArgs
  | "ls.clen", [cl, chunked] =>
    match optArg unhexStr cl, boolArg chunked with
    | some cl, some chunked => some (outOpt toString (getContentLength cl chunked))
    | _, _ => some badArgs
  | cmd, args => Wz.Driver.PyPrelude.handle cmd args  -- `pre.*`: primitives of Util/PyPrelude

end Wz.Driver.C09
