import WzVerif.Driver.Proto
import WzVerif.Model.LimitedStream
import WzVerif.Model.InputStreamReq
import WzVerif.Driver.PyPrelude
namespace Wz.Driver.C09
open Wz Wz.Proto Wz.LS

/-- `g3,e,r` / `[]` -/
def parseScript (s : String) : Option (List Beh) :=
  if s == "[]" then some [] else
  (s.splitOn ",").mapM fun t =>
    match t.toList with
    | ['e'] => some Beh.eof
    | ['r'] => some Beh.raise
    | 'g' :: ds => (String.ofList ds).toNat?.map Beh.give
    | _ => none

def optNat (ds : List Char) : Option (Option Nat) :=
  if ds.isEmpty then some none else (String.ofList ds).toNat?.map some

/-- `r5` read(5), `a` read(), `l` readline(), `l3` readline(3), `L` readlines(), `L9` readlines(9),
`i4` readinto(bytearray(4)), `n` next(), `x` exhaust() -/
def parseOp (t : String) : Option Op :=
  match t.toList with
  | ['a'] => some Op.readall
  | ['n'] => some Op.next
  | ['x'] => some Op.exhaust
  | 'r' :: ds => (String.ofList ds).toNat?.map Op.read
  | 'i' :: ds => (String.ofList ds).toNat?.map Op.readinto
  | 'l' :: ds => (optNat ds).map Op.readline
  | 'L' :: ds => (optNat ds).map Op.readlines
  | _ => none

/-- an operation, or an observer / the `for` loop: `t` tell(), `e` is_exhausted, `R` readable(),
`I` `for line in stream` -/
inductive Tok where
  | op (o : Op)
  | tell | exhausted | readable | iter

def parseToks (s : String) : Option (List Tok) :=
  if s == "[]" then some [] else
  (s.splitOn ",").mapM fun t =>
    match t with
    | "t" => some Tok.tell
    | "e" => some Tok.exhausted
    | "R" => some Tok.readable
    | "I" => some Tok.iter
    | _ => (parseOp t).map Tok.op

def parseOpsSep (sep : String) (s : String) : Option (List Op) :=
  if s == "[]" || s == "" then some [] else (s.splitOn sep).mapM parseOp

def showRes : LRes → String
  | .ok bs => "ok:" ++ ",".intercalate (bs.map hex)
  | .error e => "EXC:" ++ e

/-- `for line in stream`: the lines, then the exception that ended the loop -/
def showIter (rs : List LRes) : String :=
  let lines := rs.filterMap fun r => match r with | .ok [l] => some (hex l) | _ => none
  let last := match rs.getLast? with | some (.error e) => e | _ => "NO-END"
  "iter:" ++ ",".intercalate lines ++ "!" ++ last

def runToks (s : St) : List Tok → List String × St
  | [] => ([], s)
  | .op o :: rest =>
    let (r, s') := runOp s o
    let (rs, s'') := runToks s' rest
    (showRes r :: rs, s'')
  | .tell :: rest => let (rs, s') := runToks s rest; (("val:" ++ toString (tell s)) :: rs, s')
  | .exhausted :: rest => let (rs, s') := runToks s rest; (("val:" ++ outBool (isExhausted s)) :: rs, s')
  | .readable :: rest => let (rs, s') := runToks s rest; (("val:" ++ outBool (readable s)) :: rs, s')
  | .iter :: rest =>
    let (r, s') := iterAll s
    let (rs, s'') := runToks s' rest
    (showIter r :: rs, s'')

/-- `Sr5` request.stream.read(5) · `D10:` get_data(cache=True, parse_form_data=False) ·
`D11:r9+r9` the same with parse_form_data=True and a parser that issues read(9), read(9) ·
`F:a` request.form with a parser that issues read() · `C` close() -/
def parseROp (t : String) : Option RB.ROp :=
  match t.toList with
  | ['C'] => some .close
  | 'S' :: rest => (parseOp (String.ofList rest)).map .stream
  | 'F' :: ':' :: rest => (parseOpsSep "+" (String.ofList rest)).map .form
  | 'D' :: c :: p :: ':' :: rest =>
    match boolArg (String.singleton c), boolArg (String.singleton p), parseOpsSep "+" (String.ofList rest) with
    | some c, some p, some ops => some (.getData c p ops)
    | _, _, _ => none
  | _ => none

def parseHist (s : String) : Option (List RB.ROp) :=
  if s == "[]" then some [] else (s.splitOn ";").mapM parseROp

def showChoice : Choice → String
  | .tooLarge => "EXC:RequestEntityTooLarge"
  | .limited n m => "limited:" ++ toString n ++ ":" ++ outBool m
  | .raw => "raw"
  | .empty => "empty"

def handle : Handler
  | "ls.run", [data, script, limit, isMax, hasRi, ops] =>
    match unhex data, parseScript script, natArg limit, boolArg isMax, boolArg hasRi, parseToks ops with
    | some data, some script, some limit, some isMax, some hasRi, some ops =>
      let s0 : St := { limit := limit, isMax := isMax, hasReadinto := hasRi, u := { data := data, script := script } }
      let (rs, s) := runToks s0 ops
      let log := s.u.log.reverse.map fun (c, n) => toString c ++ "+" ++ toString n
      some (";".intercalate rs ++ "|" ++ toString s.u.taken.length ++ "|" ++ toString s.pos
        ++ "|" ++ ",".intercalate log)
    | _, _, _, _, _, _ => some badArgs
  | "req.run", [cl, chunked, term, max, hasRi, wantForm, data, script, hist] =>
    match optArg unhexStr cl, boolArg chunked, boolArg term, optArg natArg max, boolArg hasRi, boolArg wantForm,
      unhex data, parseScript script, parseHist hist with
    | some cl, some chunked, some term, some max, some hasRi, some wantForm, some data, some script, some hist =>
      let (rs, r) := RB.runROps (RB.freshReq cl chunked term max hasRi wantForm data script) hist
      let log := r.input.log.reverse.map fun (c, n) => toString c ++ "+" ++ toString n
      some (";".intercalate (rs.map showRes) ++ "|" ++ toString (RB.consumed r) ++ "|" ++ ",".intercalate log)
    | _, _, _, _, _, _, _, _, _ => some badArgs
  | "ls.choice", [cl, chunked, term, max, safe] =>
    match optArg unhexStr cl, boolArg chunked, boolArg term, optArg natArg max, boolArg safe with
    | some cl, some chunked, some term, some max, some safe =>
      some (showChoice (getInputStream cl chunked term max safe))
    | _, _, _, _, _ => some badArgs
  | "ls.clen", [cl, chunked] =>
    match optArg unhexStr cl, boolArg chunked with
    | some cl, some chunked => some (outOpt toString (getContentLength cl chunked))
    | _, _ => some badArgs
  | cmd, args => Wz.Driver.PyPrelude.handle cmd args  -- `pre.*`: primitives of Util/PyPrelude

end Wz.Driver.C09
