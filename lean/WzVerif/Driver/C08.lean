import WzVerif.Driver.Proto
import WzVerif.Model.Wire
import WzVerif.Model.Containers
import WzVerif.Model.ContainersHeap
import WzVerif.Driver.PyPrelude
namespace Wz.Driver.C08
open Wz Wz.Proto Wz.Wire Wz.Hdr

/-- harness op name -> Python method name -/
def pyName (n : String) : String :=
  if n == "setitem" then "__setitem__" else if n == "delitem" then "__delitem__" else if n == "ior" then "__ior__" else n

/-! ### Headers -/

def hdrIdxProbes : List Int := [0, 1, -1]
def hdrSliceProbes : List Slice := [⟨some 1, none⟩, ⟨none, some 1⟩, ⟨some (-1), none⟩, ⟨some 0, some (-1)⟩]

def hdrDump (probes : List Str) (l : HList) : String :=
  let perKey := probes.map fun k =>
    "k" ++ oS k ++ "=" ++ oExcept oS (getKey l k) ++ "/" ++ oOpt oInt (getTyped pyInt l k) ++ "/" ++
      oStrs (getlist l k) ++ "/" ++ oList oInt (getlistTyped pyInt l k) ++ "/" ++ oBool (contains l k)
  let perIdx := hdrIdxProbes.map fun i =>
    "i" ++ oInt i ++ "=" ++ (match pyIdx l.length i with
      | some n => (match l[n]? with | some p => oPair p | none => oExc "IndexError")
      | none => oExc "IndexError")
  let perSlice := hdrSliceProbes.map fun s => "s=" ++ oPairs (getSlice l s)
  "|".intercalate (["len=" ++ oNat l.length, "list=" ++ oPairs l, "lower=" ++ oPairs (items l true),
    "keys=" ++ oStrs (keys l false), "values=" ++ oStrs (values l), "str=" ++ oS (toText l)]
    ++ perKey ++ perIdx ++ perSlice)

/-- `h | other` (not a mutator): answer the list of the new object -/
def hdrOr (l : HList) (tag body : String) : Option String := do
  match ← pArg tag body with
  | some (.mapping m) =>
    let r := update l (some (.mapping m)) []
    pure (match r.2 with | .ok _ => oPairs r.1 | .error e => oExc e)
  | _ => pure (oExc "TypeError")

/-- run the ops; `all` = dump after every step -/
def hdrRun (all : Bool) (probes : List Str) (l : HList) (ops : List String) : Option (List String) :=
  match ops with
  | [] => some []
  | o :: t =>
    match o.splitOn "," with
    | ["or", tag, body] => do
      let r ← hdrOr l tag body
      let here := if all || t.isEmpty then r ++ "#" ++ hdrDump probes l else r
      let rest ← hdrRun all probes l t
      pure (here :: rest)
    | _ => do
      let op ← pHdrOp o
      let r := Hdr.step l op
      let here := oExcept oHdrRet r.2
      let here := if all || t.isEmpty then here ++ "#" ++ hdrDump probes r.1 else here
      let rest ← hdrRun all probes r.1 t
      pure (here :: rest)

def handleHdr (all probes tag body : String) (ops : List String) : Option String := do
  let probes ← pAtoms probes
  let arg ← pArg tag body
  match construct arg with
  | .error e => pure (oExc e)
  | .ok l =>
    let outs ← hdrRun (all == "1") probes l ops
    pure (";".intercalate (("#" ++ (if all == "1" || ops.isEmpty then hdrDump probes l else "")) :: outs))

/-! ### MultiDict -/

abbrev MDS := MD.St Str Str

def pMVal : Hdr.MVal → MD.MVal Str
  | .one v => .one v
  | .many vs => .many vs

def pMDArg (tag body : String) : Option (Option (MD.Arg Str Str)) :=
  if tag == "N" then some none
  else if tag == "P" then (pPairs body).map (fun l => some (.pairs l))
  else if tag == "D" then (pMap body).map (fun m => some (.mapping (m.map fun e => (e.1, pMVal e.2))))
  else if tag == "M" then ((pMap body).bind manyOnly).map (fun m => some (.multi m))
  else none

def pMDOp (s : String) : Option (MD.Op Str Str) :=
  match s.splitOn "," with
  | ["setitem", k, v] => do pure (.setitem (← pAtom k) (← pAtom v))
  | ["delitem", k] => do pure (.delitem (← pAtom k))
  | ["add", k, v] => do pure (.add (← pAtom k) (← pAtom v))
  | ["setlist", k, vs] => do pure (.setlist (← pAtom k) (← pAtoms vs))
  | ["setdefault", k, v] => do pure (.setdefault (← pAtom k) (← pAtom v))
  | ["setlistdefault", k, vs] => do pure (.setlistdefault (← pAtom k) (← pAtoms vs))
  | ["update", tag, body] => do
    match ← pMDArg tag body with
    | some a => pure (.update a)
    | none => none
  | ["ior", tag, body] => do
    match ← pMDArg tag body with
    | some a => pure (.ior a)
    | none => none
  | ["pop", k, d] => do pure (.pop (← pAtom k) (← pOptAtom d))
  | ["popitem"] => some .popitem
  | ["poplist", k] => do pure (.poplist (← pAtom k))
  | ["popitemlist"] => some .popitemlist
  | ["clear"] => some .clear
  | _ => none

def oMDRet : MD.Ret Str Str → String
  | .none => "~"
  | .val v => oS v
  | .vals vs => oStrs vs
  | .item k v => oPair (k, v)
  | .itemlist k vs => "(" ++ oS k ++ "," ++ oStrs vs ++ ")"

def mdDump (probes : List Str) (c : MDS) : String :=
  let perKey := probes.map fun k =>
    "k" ++ oS k ++ "=" ++ oExcept oS (MD.getitem c k) ++ "/" ++ oOpt oInt (MD.getTyped pyInt c k) ++ "/" ++
      oStrs (MD.getlist c k) ++ "/" ++ oList oInt (MD.getlistTyped pyInt c k) ++ "/" ++ oBool (PyDict.has c k)
  "|".intercalate (["len=" ++ oNat c.length, "keys=" ++ oStrs (PyDict.keys c),
    "values=" ++ oExcept oStrs (MD.values c), "items=" ++ oExcept oPairs (MD.itemsFirst c),
    "itemsm=" ++ oPairs (MD.itemsMulti c), "lists=" ++ oKList (MD.lists c),
    "listvalues=" ++ oList oStrs (MD.listvalues c), "todict=" ++ oExcept oPairs (MD.toDictFlat c),
    "todictl=" ++ oKList (MD.lists c)] ++ perKey)

/-- `d | other`: a new MultiDict, `other` must be a Mapping -/
def mdOr (c : MDS) (tag body : String) : Option String := do
  match ← pMDArg tag body with
  | some (.mapping m) => pure (oKList (MD.addAll c (MD.iterMultiItems (.mapping m))))
  | some (.multi m) => pure (oKList (MD.addAll c (MD.iterMultiItems (.multi m))))
  | _ => pure (oExc "TypeError")

def mdRun (immutable all : Bool) (probes : List Str) (c : MDS) (ops : List String) : Option (List String) :=
  match ops with
  | [] => some []
  | o :: t =>
    match o.splitOn "," with
    | ["or", tag, body] => do
      let r ← mdOr c tag body
      let here := if all || t.isEmpty then r ++ "#" ++ mdDump probes c else r
      let rest ← mdRun immutable all probes c t
      pure (here :: rest)
    | _ => do
      let op ← pMDOp o
      let r : MD.Res Str Str (MD.Ret Str Str) := if immutable then Imm.mdStep "ImmutableMultiDict" c op else MD.step c op
      let here := oExcept oMDRet r.2
      let here := if all || t.isEmpty then here ++ "#" ++ mdDump probes r.1 else here
      let rest ← mdRun immutable all probes r.1 t
      pure (here :: rest)

def handleMD (immutable : Bool) (all probes tag body : String) (ops : List String) : Option String := do
  let probes ← pAtoms probes
  let arg ← pMDArg tag body
  let c := MD.construct arg
  let outs ← mdRun immutable (all == "1") probes c ops
  pure (";".intercalate (("#" ++ (if all == "1" || ops.isEmpty then mdDump probes c else "")) :: outs))

/-! ### CombinedMultiDict -/

def cmdDump (probes : List Str) (c : CMD.St Str Str) : String :=
  let perKey := probes.map fun k =>
    "k" ++ oS k ++ "=" ++ oExcept oS (CMD.getitem c k) ++ "/" ++ oExcept (oOpt oS) (CMD.get c k) ++ "/" ++
      oExcept (oOpt oInt) (CMD.getTyped pyInt c k) ++ "/" ++
      oStrs (CMD.getlist c k) ++ "/" ++ oList oInt (CMD.getlistTyped pyInt c k) ++ "/" ++ oBool (CMD.contains c k)
  let items := CMD.itemsFirst c
  "|".intercalate (["len=" ++ oNat (CMD.len c),
    "keys=" ++ "[" ++ ",".intercalate (sortStrs ((CMD.keys c).map oS)) ++ "]",
    "values=" ++ oExcept (fun l => oStrs (l.map (·.2))) items, "items=" ++ oExcept oPairs items,
    "itemsm=" ++ oPairs (CMD.itemsMulti c), "lists=" ++ oKList (CMD.lists c),
    "listvalues=" ++ oList oStrs ((CMD.lists c).map (·.2)),
    "todict=" ++ oExcept oPairs items, "todictl=" ++ oKList (CMD.lists c)] ++ perKey)

def setNth (l : List α) (i : Nat) (x : α) : List α := l.set i x

def cmdRun (all : Bool) (probes : List Str) (c : CMD.St Str Str) (ops : List String) : Option (List String) :=
  match ops with
  | [] => some []
  | o :: t =>
    match o.splitOn "," with
    | "c" :: name :: _ => do
      -- a mutator on the combined dict itself: refused iff the generated table lists it as blocked
      let r : Unit × Except String String := Imm.call "CombinedMultiDict" (pyName name) (fun u => (u, .ok "NOT-BLOCKED")) ()
      let here := oExcept id r.2
      let here := if all || t.isEmpty then here ++ "#" ++ cmdDump probes c else here
      let rest ← cmdRun all probes c t
      pure (here :: rest)
    | "d" :: i :: rest => do
      let i ← i.toNat?
      let d ← c[i]?
      let op ← pMDOp (",".intercalate rest)
      let r := MD.step d op
      let c' := setNth c i r.1
      let here := oExcept oMDRet r.2
      let here := if all || t.isEmpty then here ++ "#" ++ cmdDump probes c' else here
      let rest ← cmdRun all probes c' t
      pure (here :: rest)
    | _ => none

/-- args: all, probes, n, then n pairs (tag, body), then ops -/
def handleCMD (all probes : String) (n : Nat) (rest : List String) : Option String := do
  let probes ← pAtoms probes
  let rec inits : Nat → List String → Option (List MDS × List String)
    | 0, r => some ([], r)
    | k + 1, tag :: body :: r => do
      let a ← pMDArg tag body
      let (ds, r') ← inits k r
      pure (MD.construct a :: ds, r')
    | _, _ => none
  let (c, ops) ← inits n rest
  let outs ← cmdRun (all == "1") probes c ops
  pure (";".intercalate (("#" ++ (if all == "1" || ops.isEmpty then cmdDump probes c else "")) :: outs))

/-! ### HeaderSet -/

def pHSOp (s : String) : Option HS.Op :=
  match s.splitOn "," with
  | ["add", h] => do pure (.add (← pAtom h))
  | ["remove", h] => do pure (.remove (← pAtom h))
  | ["discard", h] => do pure (.discard (← pAtom h))
  | ["update", hs] => do pure (.update (← pAtoms hs))
  | ["clear"] => some .clear
  | ["delitem", i] => do pure (.delitem (← pInt i))
  | ["setitem", i, v] => do pure (.setitem (← pInt i) (← pAtom v))
  | _ => none

def hsIdxProbes : List Int := [0, 1, -1]

def hsDump (probes : List Str) (c : HS.St) : String :=
  let perKey := probes.map fun k =>
    "k" ++ oS k ++ "=" ++ oBool (HS.contains c k) ++ "/" ++ oInt (HS.find c k) ++ "/" ++ oExcept oInt (HS.index c k)
  let perIdx := hsIdxProbes.map fun i => "i" ++ oInt i ++ "=" ++ oExcept oS (HS.getitem c i)
  "|".intercalate (["len=" ++ oNat (HS.len c), "list=" ++ oStrs c.headers, "bool=" ++ oBool (!c.set.isEmpty),
    "asset=" ++ "[" ++ ",".intercalate (sortStrs (c.set.map oS)) ++ "]",
    "assetp=" ++ "[" ++ ",".intercalate (sortStrs (c.headers.eraseDups.map oS)) ++ "]",
    "header=" ++ oS (HS.toHeader c)] ++ perKey ++ perIdx)

def hsRun (all : Bool) (probes : List Str) (c : HS.St) (ops : List String) : Option (List String) :=
  match ops with
  | [] => some []
  | o :: t => do
    let op ← pHSOp o
    let r := HS.step c op
    let here := oExcept (fun _ => "~") r.res ++ "/" ++ oBool r.notified
    let here := if all || t.isEmpty then here ++ "#" ++ hsDump probes r.st else here
    let rest ← hsRun all probes r.st t
    pure (here :: rest)

def handleHS (all probes init : String) (ops : List String) : Option String := do
  let probes ← pAtoms probes
  let init ← pAtoms init
  let c := HS.construct init
  let outs ← hsRun (all == "1") probes c ops
  pure (";".intercalate (("#" ++ (if all == "1" || ops.isEmpty then hsDump probes c else "")) :: outs))

/-! ### EnvironHeaders -/

def ehDump (probes : List Str) (env : EH.Env) : String :=
  let l := EH.iter env
  let perKey := probes.map fun k =>
    "k" ++ oS k ++ "=" ++ oExcept oS (EH.getKey env k) ++ "/" ++ oStrs (EH.getlist env k) ++ "/" ++ oBool (EH.contains env k)
  "|".intercalate (["len=" ++ oNat (EH.len env), "list=" ++ oPairs l, "keys=" ++ oStrs (keys l false),
    "values=" ++ oStrs (values l), "str=" ++ oS (toText l)] ++ perKey)

def ehRun (all : Bool) (probes : List Str) (env : EH.Env) (ops : List String) : Option (List String) :=
  match ops with
  | [] => some []
  | o :: t => do
    let (env', here) ← (match o.splitOn "," with
      | ["envset", k, v] => do
        let k ← pAtom k
        let v ← pAtom v
        pure (PyDict.set env k v, "~")
      | ["envdel", k] => do
        let k ← pAtom k
        pure (PyDict.erase env k, "~")
      | ["m", name] =>
        let r : Unit × Except String String := Imm.call "EnvironHeaders" (pyName name) (fun u => (u, .ok "NOT-BLOCKED")) ()
        pure (env, oExcept id r.2)
      | _ => none : Option (EH.Env × String))
    let here := if all || t.isEmpty then here ++ "#" ++ ehDump probes env' else here
    let rest ← ehRun all probes env' t
    pure (here :: rest)

def handleEH (all probes init : String) (ops : List String) : Option String := do
  let probes ← pAtoms probes
  let init ← pPairs init
  let env : EH.Env := init.foldl (fun e p => PyDict.set e p.1 p.2) []
  let outs ← ehRun (all == "1") probes env ops
  pure (";".intercalate (("#" ++ (if all == "1" || ops.isEmpty then ehDump probes env else "")) :: outs))

/-! ### TypeConversionDict / ImmutableTypeConversionDict -/

def pDictOp (s : String) : Option (PyDict.Op Str Str) :=
  match s.splitOn "," with
  | ["setitem", k, v] => do pure (.setitem (← pAtom k) (← pAtom v))
  | ["delitem", k] => do pure (.delitem (← pAtom k))
  | ["clear"] => some .clear
  | ["popitem"] => some .popitem
  | ["update", ps] => do pure (.update (← pPairs ps))
  | ["setdefault", k, v] => do pure (.setdefault (← pAtom k) (← pAtom v))
  | ["pop", k, d] => do pure (.pop (← pAtom k) (← pOptAtom d))
  | _ => none

def tcdDump (probes : List Str) (d : PyDict.Dict Str Str) : String :=
  let perKey := probes.map fun k =>
    "k" ++ oS k ++ "=" ++ oOpt oS (TCD.getPlain d k none) ++ "/" ++ oOpt oInt (TCD.get pyInt d k none) ++ "/" ++
      oOpt oInt (TCD.get pyInt d k (some (-1))) ++ "/" ++ oBool (PyDict.has d k)
  "|".intercalate (["len=" ++ oNat d.length, "items=" ++ oPairs d] ++ perKey)

def tcdRun (immutable all : Bool) (probes : List Str) (d : PyDict.Dict Str Str) (ops : List String) : Option (List String) :=
  match ops with
  | [] => some []
  | o :: t => do
    let op ← pDictOp o
    let r := if immutable then Imm.dictStep "ImmutableTypeConversionDict" d op else PyDict.step d op
    let here := oExcept (oOpt oS) r.2
    let here := if all || t.isEmpty then here ++ "#" ++ tcdDump probes r.1 else here
    let rest ← tcdRun immutable all probes r.1 t
    pure (here :: rest)

def handleTCD (cls all probes init : String) (ops : List String) : Option String := do
  let probes ← pAtoms probes
  let init ← pPairs init
  let d : PyDict.Dict Str Str := Pickle.dictOf [] init
  let outs ← tcdRun (cls == "I") (all == "1") probes d ops
  pure (";".intercalate (("#" ++ (if all == "1" || ops.isEmpty then tcdDump probes d else "")) :: outs))

/-! ### MultiDict with object identity: an original and its copy on one heap

request: `heap <probes> <init tag> <init body> op…`, ops `o,<i>,<multidict op>` (i = 0 the original,
1 the copy) and `via,<i>,<key>,<values>` = `d.setlistdefault(key).extend(values)` (mutation through
the live list). The copy is made by `HeapMD.copyObj` (copy() / copy.copy / deepcopy / pickle). -/

def heapOf (c : MDS) : HeapMD.Heap Str × HeapMD.Obj Str :=
  (c.map (·.2), c.mapIdx fun i e => (e.1, i))

def heapDump (probes : List Str) (h : HeapMD.Heap Str) (os : HeapMD.Obj Str × HeapMD.Obj Str) : String :=
  mdDump probes (HeapMD.abs h os.1) ++ "@" ++ mdDump probes (HeapMD.abs h os.2)

def heapRun (probes : List Str) (h : HeapMD.Heap Str) (os : HeapMD.Obj Str × HeapMD.Obj Str) :
    List String → Option (List String)
  | [] => some []
  | o :: t => do
    let (h', os', ret) ← (match o.splitOn "," with
      | "o" :: i :: rest => do
        let op ← pMDOp (",".intercalate rest)
        let obj := if i == "0" then os.1 else os.2
        let r := HeapMD.step h obj op
        let res := oExcept oMDRet (HeapMD.result h obj op)
        pure (r.1, if i == "0" then (r.2, os.2) else (os.1, r.2), res)
      | ["via", i, k, vs] => do
        let k ← pAtom k
        let vs ← pAtoms vs
        let obj := if i == "0" then os.1 else os.2
        let r1 := HeapMD.step h obj (.setlistdefault k [])
        let r2 := HeapMD.next r1.1 r1.2 (.via k vs)
        pure (r2.1, if i == "0" then (r2.2, os.2) else (os.1, r2.2), "~")
      | _ => none : Option (HeapMD.Heap Str × (HeapMD.Obj Str × HeapMD.Obj Str) × String))
    let rest ← heapRun probes h' os' t
    pure ((ret ++ "#" ++ heapDump probes h' os') :: rest)

def handleHeap (probes tag body : String) (ops : List String) : Option String := do
  let probes ← pAtoms probes
  let arg ← pMDArg tag body
  let (h0, o0) := heapOf (MD.construct arg)
  let (h1, o1) := HeapMD.copyObj h0 o0
  let outs ← heapRun probes h1 (o0, o1) ops
  pure (";".intercalate (("#" ++ heapDump probes h1 (o0, o1)) :: outs))

def orBad (o : Option String) : Option String := some (o.getD badArgs)

def handle : Handler
  | "hdr", all :: probes :: tag :: body :: ops => orBad (handleHdr all probes tag body ops)
  | "md", all :: probes :: tag :: body :: ops => orBad (handleMD false all probes tag body ops)
  | "imd", all :: probes :: tag :: body :: ops => orBad (handleMD true all probes tag body ops)
  | "cmd", all :: probes :: n :: rest => orBad (n.toNat?.bind fun n => handleCMD all probes n rest)
  | "hs", all :: probes :: init :: ops => orBad (handleHS all probes init ops)
  | "eh", all :: probes :: init :: ops => orBad (handleEH all probes init ops)
  | "tcd", cls :: all :: probes :: init :: ops => orBad (handleTCD cls all probes init ops)
  | "heap", probes :: tag :: body :: ops => orBad (handleHeap probes tag body ops)
  | cmd, args => Wz.Driver.PyPrelude.handle cmd args  -- `pre.*`: primitives of Util/PyPrelude

end Wz.Driver.C08
