import WzVerif.Driver.Proto
import WzVerif.Model.Paths
import WzVerif.Model.StaticFiles
import WzVerif.Driver.PyPrelude
namespace Wz.Driver.C14
open Wz Wz.Proto Wz.Paths

/-- `os.path.isfile` for the harness's tree: `files` are absolute and normalised, `cwd` absolute.
A path whose last component is empty, `.` or `..` (`f/`, `f/.`: what `safe_join(f, "")` /
`safe_join(f, ".")` yield) never names a regular file - `stat` demands a directory there - although
its lexical normalisation may (met with a directory export whose value is a regular file). -/
def isfileIn (cwd : Str) (files : List Str) (p : Str) : Bool :=
  let b := basename p
  !(b == [] || b == dot || b == dotdot) && files.contains (normpath (join cwd [p]))

/-- `<search> <kind> <a> <b>` groups: kind `v` = a str value `a` (file or directory, decided with the
same file list as `__init__` would), kind `p` = package export (`a` = package directory, `b` =
package_path) -/
def parseExports : Nat → List String → Option (List (Str × ExportSpec) × List String)
  | 0, rest => some ([], rest)
  | n + 1, s :: k :: a :: b :: rest =>
    match unhexStr s, unhexStr a, unhexStr b, parseExports n rest with
    | some s, some a, some b, some (es, rest') =>
      if k == "v" then some ((s, .path a) :: es, rest')
      else if k == "p" then some ((s, .package a b) :: es, rest')
      else none
    | _, _, _, _ => none
  | _, _ => none

def handle : Handler
  | "normpath", [p] =>
    match unhexStr p with
    | some p => some (hexStr (normpath p))
    | none => some badArgs
  | "join", a :: ps =>
    match unhexStr a, ps.mapM unhexStr with
    | some a, some ps => some (hexStr (join a ps))
    | _, _ => some badArgs
  | "basename", [p] =>
    match unhexStr p with
    | some p => some (hexStr (basename p))
    | none => some badArgs
  | "safejoin", d :: ps =>
    match unhexStr d, ps.mapM unhexStr with
    | some d, some ps => some (outOpt hexStr (safeJoin d ps))
    | _, _ => some badArgs
  -- sfd <cwd> <directory> <path> <existing file>...   (files: absolute, normalised)
  | "sfd", cwd :: d :: path :: files =>
    match unhexStr cwd, unhexStr d, unhexStr path, files.mapM unhexStr with
    | some cwd, some d, some path, some files =>
      some (outOpt hexStr (sendFromDirectory (isfileIn cwd files) d path))
    | _, _, _, _ => some badArgs
  -- sfdroot <cwd> <_root_path or ~> <directory> <path> <existing file>...  ->  <tested> <opened>
  | "sfdroot", cwd :: root :: d :: path :: files =>
    match unhexStr cwd, optArg unhexStr root, unhexStr d, unhexStr path, files.mapM unhexStr with
    | some cwd, some root, some d, some path, some files =>
      some (outOpt (fun (r : Str × Str) => hexStr r.1 ++ " " ++ hexStr r.2)
        (sendFromDirectoryRoot (isfileIn cwd files) root d path))
    | _, _, _, _, _ => some badArgs
  -- sdm <cwd> <path> <n> (<search> <kind> <a> <b>)*n <m> <disallowed real_filename>*m <existing file>...
  | "sdm", cwd :: path :: n :: rest =>
    match unhexStr cwd, unhexStr path, natArg n with
    | some cwd, some path, some n =>
      match parseExports n rest with
      | some (specs, m :: rest') =>
        match natArg m with
        | some m =>
          match (rest'.take m).mapM unhexStr, (rest'.drop m).mapM unhexStr with
          | some dis, some files =>
            let isfile := isfileIn cwd files
            some (outOpt hexStr
              (sharedData isfile (fun name => !dis.contains name) (mkExports isfile specs) path))
          | _, _ => some badArgs
        | none => some badArgs
      | _ => some badArgs
    | _, _, _ => some badArgs
  -- sdmlate <cwd> <path> <n> (<search> <kind> <a> <b>)*n <m> <disallowed>*m <k> <late file>*k <existing file>...
  -- two file-system states: the `late` files exist at request time only (`os.path.isfile(value)` in
  -- `__init__` sees the existing files, the loaders see existing ++ late)
  | "sdmlate", cwd :: path :: n :: rest =>
    match unhexStr cwd, unhexStr path, natArg n with
    | some cwd, some path, some n =>
      match parseExports n rest with
      | some (specs, m :: rest') =>
        match natArg m, (rest'.drop ((natArg m).getD 0)) with
        | some m, k :: rest'' =>
          match natArg k with
          | some k =>
            match (rest'.take m).mapM unhexStr, (rest''.take k).mapM unhexStr, (rest''.drop k).mapM unhexStr with
            | some dis, some late, some files =>
              some (outOpt hexStr
                (sharedData (isfileIn cwd (late ++ files)) (fun name => !dis.contains name)
                  (mkExports (isfileIn cwd files) specs) path))
            | _, _, _ => some badArgs
          | none => some badArgs
        | _, _ => some badArgs
      | _ => some badArgs
    | _, _, _ => some badArgs
  | "secure", [s] =>
    match unhexStr s with
    | some s => some (hexStr (secureAscii s))
    | none => some badArgs
  -- securewith <os.sep, os.path.altsep characters> <nt> <name after the Unicode fold>
  | "securewith", [seps, nt, s] =>
    match unhexStr seps, boolArg nt, unhexStr s with
    | some seps, some nt, some s => some (hexStr (secureAsciiWith seps nt s))
    | _, _, _ => some badArgs
  | cmd, args => Wz.Driver.PyPrelude.handle cmd args  -- `pre.*`: primitives of Util/PyPrelude

end Wz.Driver.C14
