import WzVerif.Driver.Proto
import WzVerif.Model.Paths
import WzVerif.Model.StaticFiles
import WzVerif.Driver.PyPrelude
namespace Wz.Driver.C14
open Wz Wz.Proto Wz.Paths

def handle : Handler
  | "normpath", [p] =>
    match unhexStr p with
    | some p => some (hexStr (normpath p))
    | none => some badArgs
  | "join", a :: ps =>
    match unhexStr a, ps.mapM unhexStr with
    | some a, some ps => some (hexStr (join a ps))
    | _, _ => some badArgs
  | "safejoin", d :: ps =>
    match unhexStr d, ps.mapM unhexStr with
    | some d, some ps => some (outOpt hexStr (safeJoin d ps))
    | _, _ => some badArgs
  -- sfd <cwd> <directory> <path> <existing file>...   (files: absolute, normalised)
  | "sfd", cwd :: d :: path :: files =>
    match unhexStr cwd, unhexStr d, unhexStr path, files.mapM unhexStr with
    | some cwd, some d, some path, some files =>
      some (outOpt hexStr (sendFromDirectory (fun p => files.contains (normpath (join cwd [p]))) d path))
    | _, _, _, _ => some badArgs
  -- sdm <cwd> <path> <search_path> <directory> <existing file>...   (one directory export)
  | "sdm", cwd :: path :: search :: d :: files =>
    match unhexStr cwd, unhexStr path, unhexStr search, unhexStr d, files.mapM unhexStr with
    | some cwd, some path, some search, some d, some files =>
      some (outOpt hexStr
        (sharedData (fun p => files.contains (normpath (join cwd [p]))) [(search, .dir d)] path))
    | _, _, _, _, _ => some badArgs
  -- sdmpkg <package dir> <path> <search_path> <package_path> <existing file>...   (one package export)
  | "sdmpkg", cwd :: path :: search :: pp :: files =>
    match unhexStr cwd, unhexStr path, unhexStr search, unhexStr pp, files.mapM unhexStr with
    | some cwd, some path, some search, some pp, some files =>
      some (outOpt hexStr
        (sharedData (fun p => files.contains (normpath (join cwd [p]))) [(search, .pkg pp)] path))
    | _, _, _, _, _ => some badArgs
  | "secure", [s] =>
    match unhexStr s with
    | some s => some (hexStr (secureAscii s))
    | none => some badArgs
  | cmd, args => Wz.Driver.PyPrelude.handle cmd args  -- `pre.*`: primitives of Util/PyPrelude

end Wz.Driver.C14
