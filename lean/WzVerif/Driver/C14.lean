import WzVerif.Driver.Proto
import WzVerif.Model.Paths
namespace Wz.Driver.C14
open Wz Wz.Proto Wz.Paths

def handle : Handler
  | "normpath", [p] =>
    match unhexStr p with
    | some p => some (hexStr (normpath p))
    | none => some badArgs
  | "join", a :: ps =>
    match unhexStr a, ps.mapM unhexStr with
    | some a, some ps => some (hexStr (join a ps))
    | _, _ => some badArgs
  | "safejoin", d :: ps =>
    match unhexStr d, ps.mapM unhexStr with
    | some d, some ps => some (outOpt hexStr (safeJoin d ps))
    | _, _ => some badArgs
  | "secure", [s] =>
    match unhexStr s with
    | some s => some (hexStr (secureAscii s))
    | none => some badArgs
  | _, _ => none

end Wz.Driver.C14
