import WzVerif.Driver.PyPrelude
import WzVerif.Driver.Proto
import WzVerif.Model.Multipart
namespace Wz.Driver.C01
open Wz Wz.Proto Wz.Multipart

/-! Line protocol of the form-parsing models (shared by C01 / C10 / C02 drivers).

`mp.kernels  bnd buf pos`             regex kernels on one buffer
`mp.decode   bnd maxMem maxParts chunks`   events of `decodeChunks` (+ buffer length after each receive)
`mp.form     bnd maxMem maxParts bufSize sched body`   `MultiPartParser.parse`
`mp.encode   bnd events`              `MultipartEncoder.send_event` over a list of events
`mp.options  value`                   `parse_options_header`
-/

def listArg (f : String → Option α) (s : String) : Option (List α) :=
  if s == "[]" then some [] else (s.splitOn ",").mapM f

def outStr (s : Str) : String := hexStr s
def outOptStr : Option Str → String := outOpt outStr

def outHeaders (h : Headers) : String :=
  if h.isEmpty then "[]" else "&".intercalate (h.map fun (k, v) => outStr k ++ "=" ++ outStr v)

def outEvent : Event → String
  | .preamble d => "P:" ++ hex d
  | .field n h => "F:" ++ outOptStr n ++ ":" ++ outHeaders h
  | .file n f h => "U:" ++ outOptStr n ++ ":" ++ outStr f ++ ":" ++ outHeaders h
  | .data d m => "D:" ++ hex d ++ ":" ++ outBool m
  | .epilogue d => "E:" ++ hex d
  | .needData => "N"

def outErr : Option String → String
  | none => "ok"
  | some e => "EXC:" ++ e

def outTriple : Option (Nat × Nat × Bool) → String
  | none => "~"
  | some (s, e, f) => s!"{s}.{e}.{outBool f}"

def outPair : Option (Nat × Nat) → String
  | none => "~"
  | some (s, e) => s!"{s}.{e}"

/-- buffer length after each successful `receive_data` (what `len(decoder.buffer)` shows) -/
def bufLens : Decoder → List Bytes → List Nat
  | _, [] => []
  | d, c :: cs =>
    match receive d (some c) with
    | .error _ => []
    | .ok d' =>
      let r := drain (drainFuel d') d' []
      d'.buffer.length :: (if r.err.isSome then [] else bufLens r.dec cs)

def parseEvent (s : String) : Option Event :=
  match s.splitOn ":" with
  | ["P", d] => (unhex d).map .preamble
  | ["F", n, h] => do
    let n ← optArg unhexStr n
    let h ← hdrs h
    pure (.field n h)
  | ["U", n, f, h] => do
    let n ← optArg unhexStr n
    let f ← unhexStr f
    let h ← hdrs h
    pure (.file n f h)
  | ["D", d, m] => do
    let d ← unhex d
    let m ← boolArg m
    pure (.data d m)
  | ["E", d] => (unhex d).map .epilogue
  | _ => none
where
  hdrs (h : String) : Option Headers :=
    if h == "[]" then some [] else
    (h.splitOn "&").mapM fun kv =>
      match kv.splitOn "=" with
      | [k, v] => do
        let k ← unhexStr k
        let v ← unhexStr v
        pure (k, v)
      | _ => none

def handle : Handler
  | "mp.kernels", [bnd, buf, pos] =>
    match unhex bnd, unhex buf, natArg pos with
    | some bnd, some buf, some pos =>
      some (";".intercalate [
        "pre=" ++ outTriple (searchDelimFrom bnd true pos buf),
        "bnd=" ++ outTriple (searchDelimFrom bnd false pos buf),
        "blank=" ++ outPair (searchBlankFrom pos buf),
        "lb=" ++ toString (lbLen buf),
        "fold=" ++ hex (foldContinuations buf),
        "ln=" ++ toString (lastNewline buf),
        "lnpy=" ++ toString (lastNewlinePy buf),
        "lines=" ++ outList hex (splitLines buf),
        "strip=" ++ hex (stripBytes buf),
        "find=" ++ outBool (containsSub (45 :: 45 :: bnd) buf),
        "rfind=" ++ (match rfindFrom (45 :: 45 :: bnd) buf 0 pos with | some p => toString p | none => "~"),
        "nsp=" ++ (match searchDelimFrom bnd true pos buf with
                   | none => toString (nextSearchPos bnd buf pos)
                   | some _ => "~")])
    | _, _, _ => some badArgs
  | "mp.dataphase", [bnd, start, buf, chunks] =>
    match unhex bnd, boolArg start, unhex buf, listArg unhex chunks with
    | some bnd, some start, some buf, some chunks =>
      let spec := match dataSpec bnd start (buf ++ chunks.flatten) with
        | some (p, f, r) => hex p ++ ":" ++ outBool f ++ ":" ++ hex r
        | none => "~"
      some (match dataPhase bnd start buf [] chunks with
        | .ok (p, some (f, r)) => hex p ++ ":" ++ outBool f ++ ":" ++ hex r ++ "|" ++ spec
        | .ok (p, none) => hex p ++ ":~|" ++ spec
        | .error e => "EXC:" ++ e)
    | _, _, _, _ => some badArgs
  | "mp.decode", [bnd, mm, mp, chunks] =>
    match unhex bnd, optArg natArg mm, optArg natArg mp, listArg unhex chunks with
    | some bnd, some mm, some mp, some chunks =>
      let r := decodeChunks bnd mm mp chunks
      some (outList outEvent r.events ++ "|" ++ outErr r.err ++ "|" ++
        outList toString (bufLens (mkDecoder bnd mm mp) chunks))
    | _, _, _, _ => some badArgs
  | "mp.form", [bnd, mm, mp, bs, sched, body] =>
    match unhex bnd, optArg natArg mm, optArg natArg mp, natArg bs, listArg natArg sched, unhex body with
    | some bnd, some mm, some mp, some bs, some sched, some body =>
      match formParse bnd mm mp bs sched body with
      | .error e => some ("EXC:" ++ e)
      | .ok (fields, files) =>
        some (outList (fun (n, v) => outOptStr n ++ "=" ++ outStr v) fields ++ "|" ++
          outList (fun (f : FileItem) => outOptStr f.name ++ ":" ++ outStr f.filename ++ ":" ++
            outHeaders f.headers ++ ":" ++ hex f.content) files)
    | _, _, _, _, _, _ => some badArgs
  | "mp.encode", [bnd, evs] =>
    match unhex bnd, listArg parseEvent evs with
    | some bnd, some evs =>
      some (match encodeEvents bnd .preamble evs with | .ok b => hex b | .error e => "EXC:" ++ e)
    | _, _ => some badArgs
  | "mp.options", [v] =>
    match unhexStr v with
    | some v =>
      some (match FormOptions.parseOptionsHeader v with
        | .ok (val, opts) => outStr val ++ "|" ++ outHeaders opts
        | .error e => "EXC:" ++ e)
    | none => some badArgs
  | cmd, args => Wz.Driver.PyPrelude.handle cmd args

end Wz.Driver.C01
