import WzVerif.Driver.Proto
import WzVerif.Model.Cookie
namespace Wz.Driver.C13
open Wz Wz.Proto Wz.Cookie

def pairs (l : List (List Char × List Char)) : String :=
  outList (fun (k, v) => hexStr k ++ ":" ++ hexStr v) l

def handle : Handler
  | "cookie.dumpvalue", [v] =>
    match unhexStr v with
    | some v => some (match dumpValue v with | .ok r => hexStr r | .error e => "EXC:" ++ e)
    | none => some badArgs
  | "cookie.dump", [k, v, dom, exp, ma, sec, ho, path, ss, part] =>
    match unhexStr k, unhexStr v, optArg unhexStr dom, optArg unhexStr exp, optArg intArg ma,
        boolArg sec, boolArg ho, optArg unhexStr path, optArg unhexStr ss, boolArg part with
    | some k, some v, some dom, some exp, some ma, some sec, some ho, some path, some ss, some part =>
      let a : Attrs := { domain := dom, expires := exp, maxAge := ma, secure := sec, httponly := ho,
                         path := path, samesite := ss, partitioned := part }
      some (match dumpCookie k v a with | .ok r => hexStr r | .error e => "EXC:" ++ e)
    | _, _, _, _, _, _, _, _, _, _ => some badArgs
  | "cookie.parse", [h] =>
    match unhexStr h with
    | some h => some (pairs (parseCookie h))
    | none => some badArgs
  | "cookie.parseenv", [h] =>
    match unhexStr h with
    | some h => some (match parseCookieEnviron h with | some r => pairs r | none => "EXC:UnicodeEncodeError")
    | none => some badArgs
  | _, _ => none

end Wz.Driver.C13
