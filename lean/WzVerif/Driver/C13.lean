import WzVerif.Driver.Proto
import WzVerif.Model.Cookie
import WzVerif.Model.CookieJar
namespace Wz.Driver.C13
open Wz Wz.Proto Wz.Cookie

def pairs (l : List (List Char × List Char)) : String :=
  outList (fun (k, v) => hexStr k ++ ":" ++ hexStr v) l

/-- names in order of first occurrence (the key order of the `MultiDict` the parsers return) -/
def distinctKeys (l : List (Str × Str)) : List Str :=
  l.foldl (fun acc p => if acc.contains p.1 then acc else acc ++ [p.1]) []

/-- `MultiDict.items(multi=True)`: values grouped by name, names in order of first occurrence -/
def grouped (l : List (Str × Str)) : List (Str × Str) :=
  (distinctKeys l).flatMap fun k => l.filter (·.1 == k)

/-- per distinct name: `md.get(name)` and `md.getlist(name)` -/
def mdView (l : List (Str × Str)) : String :=
  outList (fun k => hexStr k ++ ":" ++ outOpt hexStr (cookiesGet l k) ++ ":" ++
    "+".intercalate ((cookiesGetList l k).map hexStr)) (distinctKeys l)

/-! ### sub-encodings (see harness/c13.py): lists use one separator per nesting level -/

def splitList (sep : String) (s : String) : List String :=
  if s == "[]" then [] else s.splitOn sep

/-- table `hexkey=payload,...` -/
def table (s : String) : Option (List (Str × String)) :=
  (splitList "," s).mapM fun e =>
    match e.splitOn "=" with
    | [k, v] => (unhexStr k).map (·, v)
    | _ => none

def lookup (t : List (Str × String)) (k : Str) : Option String := (t.find? (·.1 == k)).map (·.2)

/-- payload `!Class` = the call raises, else hex text -/
def payload (p : String) : Except String Str :=
  if p.startsWith "!" then .error (p.drop 1).toString
  else match unhexStr p with
    | some s => .ok s
    | none => .error "BAD-TABLE"

def mkLib (idna date sync iri pdate : String) : Option Lib := do
  let ti ← table idna
  let td ← table date
  let ts := (splitList "," sync).filterMap fun e =>
    match e.splitOn "=" with
    | [k, v] => k.toInt?.map (·, v)
    | _ => none
  let tr ← table iri
  let tp ← table pdate
  pure {
    idna := fun s => match lookup ti s with | some p => payload p | none => .error "OPAQUE-MISS-idna"
    httpDate := fun s => match lookup td s with | some p => payload p | none => .error "OPAQUE-MISS-date"
    syncDate := fun m => match (ts.find? (·.1 == m)).map (·.2) with
      | some p => payload p
      | none =>
        -- placeholder of the length of a real http_date (29 characters)
        let t := "@now+".toList ++ (toString m).toList
        .ok (t ++ List.replicate (29 - t.length) '_')
    iri := fun s => match lookup tr s with
      | some p => (match unhexStr p with | some r => r | none => "OPAQUE-BAD-iri".toList)
      | none => "OPAQUE-MISS-iri".toList
    parseDate := fun s => (lookup tp s).bind String.toInt? }

def maxAgeArg (s : String) : Option (Option MaxAgeArg) :=
  if s == "~" then some none
  else if s.startsWith "i" then (s.drop 1).toString.toInt?.map (fun i => some (.int i))
  else if s.startsWith "t" then (s.drop 1).toString.toInt?.map (fun i => some (.td i))
  else none

def expiresArg (s : String) : Option (Option ExpiresArg) :=
  if s == "~" then some none
  else if s.startsWith "s" then (unhexStr (s.drop 1).toString).map (fun x => some (.str x))
  else if s.startsWith "o" then (unhexStr (s.drop 1).toString).map (fun x => some (.obj x))
  else none

def dumpArgs (sep : String) (s : String) : Option DumpArgs :=
  match s.splitOn sep with
  | [k, v, ma, ex, path, dom, sec, ho, sync, msz, ss, part] => do
    pure { key := ← unhexStr k, value := ← unhexStr v, maxAge := ← maxAgeArg ma, expires := ← expiresArg ex,
           path := ← optArg unhexStr path, domain := ← optArg unhexStr dom, secure := ← boolArg sec,
           httponly := ← boolArg ho, syncExpires := ← boolArg sync, maxSize := ← intArg msz,
           samesite := ← optArg unhexStr ss, partitioned := ← boolArg part }
  | _ => none

def setArgs (sep : String) (s : String) : Option SetArgs :=
  match s.splitOn sep with
  | [k, v, ma, ex, path, dom, sec, ho, ss, part] => do
    pure { key := ← unhexStr k, value := ← unhexStr v, maxAge := ← maxAgeArg ma, expires := ← expiresArg ex,
           path := ← optArg unhexStr path, domain := ← optArg unhexStr dom, secure := ← boolArg sec,
           httponly := ← boolArg ho, samesite := ← optArg unhexStr ss, partitioned := ← boolArg part }
  | _ => none

def delArgs (sep : String) (s : String) : Option DeleteArgs :=
  match s.splitOn sep with
  | [k, path, dom, sec, ho, ss, part] => do
    pure { key := ← unhexStr k, path := ← optArg unhexStr path, domain := ← optArg unhexStr dom,
           secure := ← boolArg sec, httponly := ← boolArg ho, samesite := ← optArg unhexStr ss,
           partitioned := ← boolArg part }
  | _ => none

inductive Action where
  | set (a : SetArgs) | del (a : DeleteArgs)

def action (sep : String) (s : String) : Option Action :=
  if s.startsWith "S" then (setArgs sep (s.drop 1).toString).map .set
  else if s.startsWith "D" then (delArgs sep (s.drop 1).toString).map .del
  else none

/-- run a list of `set_cookie` / `delete_cookie` calls on one Response (a failing call leaves the
headers as they were): per call result, final header list -/
def runActions (lib : Lib) (mcs : Int) : List Action → HeaderList → List String → HeaderList × List String
  | [], h, out => (h, out.reverse)
  | a :: t, h, out =>
    let r := match a with
      | .set x => responseSetCookie lib mcs h x
      | .del x => responseDeleteCookie lib mcs h x
    match r with
    | .ok (h', w) => runActions lib mcs t h' ((if w then "ok:W" else "ok:-") :: out)
    | .error e => runActions lib mcs t h (("EXC:" ++ e) :: out)

def setCookieValues (h : HeaderList) : List Str := (h.filter (·.1 == setCookieName)).map (·.2)

def showCookie (c : JarCookie) : String :=
  "^".intercalate [hexStr c.key, hexStr c.value, hexStr c.decodedKey, hexStr c.decodedValue,
    (match c.expires with | none => "~" | some e => if e == 0 then "0" else "T"), outOpt toString c.maxAge, hexStr c.domain, outBool c.originOnly,
    hexStr c.path, outBool c.secure, outBool c.httpOnly, outOpt hexStr c.sameSite]

/-- what the app sees on a request: raw Cookie header and `Request.cookies` -/
def seen (j : Jar) (server path : Str) : String :=
  outOpt hexStr (j.cookieHeader server path) ++ "|" ++ pairs (grouped (j.requestCookies server path))

def jarOp (lib : Lib) (j : Jar) (op : String) : Option (Jar × String) :=
  let body := (op.drop 1).toString
  if op.startsWith "R" then
    match body.splitOn "|" with
    | [srv, path, mcs, acts] => do
      let srv ← unhexStr srv
      let path ← unhexStr path
      let mcs ← intArg mcs
      let acts ← (splitList "&" acts).mapM (action "^")
      let (h, res) := runActions lib mcs acts [] []
      let (_, err) := j.update lib srv path (setCookieValues h)
      let j' := j.step lib (.response srv path (setCookieValues h))
      pure (j', seen j srv path ++ "|" ++ outList id res ++ "|" ++ (match err with | none => "ok" | some e => "EXC:" ++ e))
    | _ => none
  else if op.startsWith "H" then
    match body.splitOn "|" with
    | [srv, path, hdrs] => do
      let srv ← unhexStr srv
      let path ← unhexStr path
      let hdrs ← (splitList "&" hdrs).mapM unhexStr
      let (_, err) := j.update lib srv path hdrs
      let j' := j.step lib (.response srv path hdrs)
      pure (j', seen j srv path ++ "|" ++ (match err with | none => "ok" | some e => "EXC:" ++ e))
    | _ => none
  else if op.startsWith "C" then
    match body.splitOn "|" with
    | [dom, oo, path, da] => do
      let dom ← unhexStr dom
      let oo ← boolArg oo
      let path ← unhexStr path
      let da ← dumpArgs "^" da
      pure (j.step lib (.clientSet dom oo path da),
        match clientSetCookie lib j dom oo path da with
        | .ok _ => "ok"
        | .error e => "EXC:" ++ e)
    | _ => none
  else if op.startsWith "X" then
    match body.splitOn "|" with
    | [k, dom, path] => do
      pure (j.step lib (.clientDelete (← unhexStr k) (← unhexStr dom) (← unhexStr path)), "ok")
    | _ => none
  else if op.startsWith "G" then
    match body.splitOn "|" with
    | [k, dom, path] => do
      pure (j, outOpt showCookie (clientGetCookie j (← unhexStr k) (← unhexStr dom) (← unhexStr path)))
    | _ => none
  else none

def jarRun (lib : Lib) : List String → Jar → List String → Option (List String)
  | [], _, out => some out.reverse
  | op :: t, j, out =>
    match jarOp lib j op with
    | some (j', r) => jarRun lib t j' (r :: out)
    | none => none

def handle : Handler
  | "cookie.dumpvalue", [v] =>
    match unhexStr v with
    | some v => some (match dumpValue v with | .ok r => hexStr r | .error e => "EXC:" ++ e)
    | none => some badArgs
  | "cookie.dump", [k, v, dom, exp, ma, sec, ho, path, ss, part] =>
    match unhexStr k, unhexStr v, optArg unhexStr dom, optArg unhexStr exp, optArg intArg ma,
        boolArg sec, boolArg ho, optArg unhexStr path, optArg unhexStr ss, boolArg part with
    | some k, some v, some dom, some exp, some ma, some sec, some ho, some path, some ss, some part =>
      let a : Attrs := { domain := dom, expires := exp, maxAge := ma, secure := sec, httponly := ho,
                         path := path, samesite := ss, partitioned := part }
      some (match dumpCookie k v a with | .ok r => hexStr r | .error e => "EXC:" ++ e)
    | _, _, _, _, _, _, _, _, _, _ => some badArgs
  | "cookie.dumpfull", [idna, date, sync, da] =>
    match mkLib idna date sync "[]" "[]", dumpArgs "|" da with
    | some lib, some a =>
      some (match dumpCookieFull lib a with
        | .ok (h, w) => hexStr h ++ (if w then ":W" else ":-")
        | .error e => "EXC:" ++ e)
    | _, _ => some badArgs
  | "cookie.quotepath", [p] =>
    match unhexStr p with
    | some p => some (hexStr (quotePath p))
    | none => some badArgs
  | "resp.run", [idna, date, sync, mcs, acts] =>
    match mkLib idna date sync "[]" "[]", intArg mcs, (splitList ";" acts).mapM (action "|") with
    | some lib, some mcs, some acts =>
      let (h, res) := runActions lib mcs acts [] []
      some (outList id res ++ "#" ++ outList hexStr (setCookieValues h))
    | _, _, _ => some badArgs
  | "jar.run", [idna, date, sync, iri, pdate, ops] =>
    match mkLib idna date sync iri pdate with
    | some lib =>
      some (match jarRun lib (splitList ";" ops) [] [] with
        | some outs => ";".intercalate outs
        | none => badArgs)
    | none => some badArgs
  | "jar.match", [cdom, oo, cpath, srv, path] =>
    match unhexStr cdom, boolArg oo, unhexStr cpath, unhexStr srv, unhexStr path with
    | some cdom, some oo, some cpath, some srv, some path =>
      some (outBool (domainMatch cdom oo srv) ++ outBool (pathMatch cpath path))
    | _, _, _, _, _ => some badArgs
  -- jar.int <text>: `int(text.strip() or 0)` as `_from_response_header` evaluates a present Max-Age value
  | "jar.int", [t] =>
    match unhexStr t with
    | some t =>
      let v := Py.strip t
      some (if v.isEmpty then "0" else match pyInt v with
        | some i => toString i
        | none => "EXC:ValueError")
    | none => some badArgs
  | "cookie.parsemd", [h, env] =>
    match unhexStr h, boolArg env with
    | some h, some env =>
      some (match (if env then parseCookieEnviron h else some (parseCookie h)) with
        | some r => pairs r ++ "#" ++ mdView r
        | none => "EXC:UnicodeEncodeError")
    | _, _ => some badArgs
  | "cookie.parse", [h] =>
    match unhexStr h with
    | some h => some (pairs (parseCookie h))
    | none => some badArgs
  | "cookie.parseenv", [h] =>
    match unhexStr h with
    | some h => some (match parseCookieEnviron h with | some r => pairs r | none => "EXC:UnicodeEncodeError")
    | none => some badArgs
  | _, _ => none

end Wz.Driver.C13
