import WzVerif.Driver.Proto
import WzVerif.Model.Wire
import WzVerif.Model.Response
namespace Wz.Driver.C05
open Wz Wz.Proto Wz.Wire Wz.Hdr Wz.Resp

/-! request:
`wsgi <status> <method> <dp> <body> <take> <ncb> <getdata> <locOut> <clocOut> <hinit pairs> op…`
answer: `ops=[r,…]|status=<hex>|headers=<pairs>|body=<hex bytes>|close=<sorted events>` or `!Exc` -/

def pStatus (s : String) : Option StatusArg :=
  match s.toList with
  | 'i' :: r => (String.ofList r).toInt?.map .code
  | 's' :: r => (pAtom (String.ofList r)).map .text
  | _ => none

def pItem (s : String) : Option Item :=
  match s.toList with
  | 't' :: r => (pAtom (String.ofList r)).map .text
  | 'b' :: r => (unhex (String.ofList r)).map .bytes
  | _ => none

/-- `<kind>:<item>/<item>…`; kinds S str, B bytes, L list, T tuple, G generator, C closable
iterator, F file wrapper, I plain iterator without close, N None.
Returns the body and the `set_data` length for S / B. -/
def pBody (s : String) : Option (Body × Option Nat) :=
  match s.splitOn ":" with
  | [kind, items] => do
    let its ← if items == "" then some [] else (items.splitOn "/").mapM pItem
    if kind == "S" || kind == "B" then
      pure (⟨.seq, its.map (fun i => .bytes i.encode)⟩, some (totalLen its))
    else if kind == "L" || kind == "T" || kind == "N" then pure (⟨.seq, its⟩, none)
    else if kind == "G" || kind == "C" || kind == "F" then pure (⟨.stream true, its⟩, none)
    else if kind == "I" then pure (⟨.stream false, its⟩, none)
    else none
  | _ => none

def oEv : CloseEv → String
  | .wrapped => "wrapped"
  | .cb n => "cb" ++ toString n

def runOps (h : HList) : List String → Option (HList × List String)
  | [] => some (h, [])
  | o :: t => do
    let op ← pHdrOp o
    let r := Hdr.step h op
    let (h', outs) ← runOps r.1 t
    pure (h', oExcept oHdrRet r.2 :: outs)

def handleWsgi (status method dp body take ncb getdata locOut clocOut hinit : String) (ops : List String) :
    Option String := do
  let status ← pStatus status
  let dp ← boolArg dp
  let (body, dataLen) ← pBody body
  let take ← optArg natArg take
  let ncb ← natArg ncb
  let getdata ← boolArg getdata
  let locOut ← pOptAtom locOut
  let clocOut ← pOptAtom clocOut
  let hinit ← pPairs hinit
  match construct hinit status body dataLen dp with
  | .error e => pure (oExc e)
  | .ok r0 =>
    let (h, outs) ← runOps r0.headers ops
    let r1 := { r0 with headers := h }
    let r2 := (List.range ncb).foldl callOnClose r1
    let r3 := if getdata then makeSequence r2 else r2
    let m := method.toList
    let headers := getWsgiHeaders r3 (locOut.getD []) (clocOut.getD [])
    let it := getAppIter r3 m
    let chunks := match take with | none => it.chunks | some n => it.chunks.take n
    let bodyBytes : Bytes := chunks.flatten
    let log := sortStrs ((closeLog r3 m).map oEv)
    pure ("ops=[" ++ ",".intercalate outs ++ "]|status=" ++ oS r3.statusLine ++ "|headers=" ++ oPairs headers ++
      "|body=" ++ hex bodyBytes ++ "|close=[" ++ ",".intercalate log ++ "]")

/-! request: `hist <status> <dp> <body> <implicitConv> <autoLength> <hinit pairs> ev…` with events
`cb,<n>` `getdata` `makeseq` `freeze,<etag>` `setdata,<hex>` `close` `wsgi,<method>,<locOut>,<clocOut>`
`take,<n>` `iterclose`; answer: `<result per event>;…|status=…|headers=…|sent=<hex>|close=[ev x count,…]` -/

def pREv (s : String) : Option REv :=
  match s.splitOn "," with
  | ["cb", n] => n.toNat?.map .callOnClose
  | ["getdata"] => some .getData
  | ["makeseq"] => some .makeSequence
  | ["freeze", e] => (pAtom e).map .freeze
  | ["setdata", b] => (unhex (if b == "-" then "" else b)).map .setData
  | ["swrite", b] => (unhex (if b == "-" then "" else b)).map .streamWrite
  | ["close"] => some .close
  | ["wsgi", m, lo, co] => do pure (.getWsgi m.toList ((← pOptAtom lo).getD []) ((← pOptAtom co).getD []))
  | ["take", n] => n.toNat?.map .take
  | ["iterclose"] => some .iterClose
  | _ => none

def oOut : Except String Out → String
  | .ok .unit => "~"
  | .ok (.data b) => "d" ++ hex b
  | .error e => oExc e

def runHist (s : St) : List String → Option (St × List String)
  | [] => some (s, [])
  | e :: t => do
    let ev ← pREv e
    let r := nextEv s ev
    let (s', outs) ← runHist r.1 t
    pure (s', oOut r.2 :: outs)

def countEvs (log : List CloseEv) : List String :=
  let names := sortStrs (log.map oEv)
  names.eraseDups.map fun n => n ++ "x" ++ toString (names.count n)

def handleHist (status dp body implicit auto hinit : String) (evs : List String) : Option String := do
  let status ← pStatus status
  let dp ← boolArg dp
  let (body, dataLen) ← pBody body
  let implicit ← boolArg implicit
  let auto ← boolArg auto
  let hinit ← pPairs hinit
  match construct hinit status body (if auto then dataLen else none) dp with
  | .error e => pure (oExc e)
  | .ok r0 =>
    let (s, outs) ← runHist (initSt r0 ⟨implicit, auto⟩) evs
    let (line, headers) := match s.wsgi with
      | some (l, h) => (oS l, oPairs h)
      | none => ("~", "~")
    pure (";".intercalate outs ++ "|status=" ++ line ++ "|headers=" ++ headers ++ "|sent=" ++ hex s.sent.flatten ++
      "|close=[" ++ ",".intercalate (countEvs s.log) ++ "]")

/-! request: `fromapp <inner status> <inner body> <inner ncb> <buffered> <inner method> <outer ncb>
<outer method> <take>`: `outer = Response.from_app(inner, environ, buffered)` (also
`force_type(app, environ)`), callbacks on both, `outer.get_wsgi_response`, the server pulls `take`
chunks and closes. In the model the outer body is a closable stream whose `close` is the close of the
inner `ClosingIterator` (`run_wsgi_app`). -/

def handleFromApp (statusI bodyI ncbI buffered methodI ncbO methodO take : String) : Option String := do
  let statusI ← pStatus statusI
  let (bodyI, dataLen) ← pBody bodyI
  let ncbI ← natArg ncbI
  let buffered ← boolArg buffered
  let ncbO ← natArg ncbO
  let take ← optArg natArg take
  match construct [] statusI bodyI dataLen false with
  | .error e => pure (oExc e)
  | .ok rI =>
    let sI0 := initSt ((List.range ncbI).foldl callOnClose rI) {}
    let sI1 := (nextEv sI0 (.getWsgi methodI.toList [] [])).1
    let (lineI, headersI) := sI1.wsgi.getD ([], [])
    -- the inner iterable is drained (and, when buffering, closed) by `run_wsgi_app`
    let sI2 := (nextEv sI1 (.take 1000000)).1
    let chunks : List Item := sI2.sent.map .bytes
    let sI3 := if buffered then (nextEv sI2 .iterClose).1 else sI2
    let bodyO : Body := if buffered then ⟨.seq, chunks⟩ else ⟨.stream true, chunks⟩
    match construct headersI (.text lineI) bodyO none false with
    | .error e => pure (oExc e)
    | .ok rO =>
      let sO0 := initSt ((List.range ncbO).foldl (fun r n => callOnClose r (100 + n)) rO) {}
      let sO1 := (nextEv sO0 (.getWsgi methodO.toList [] [])).1
      let sO2 := (nextEv sO1 (.take (take.getD 1000000))).1
      let sO3 := (nextEv sO2 .iterClose).1
      -- every `wrapped` of the outer response is one `close()` of the inner ClosingIterator
      let k := sO3.log.count .wrapped
      let sI4 := (List.range (if buffered then 0 else k)).foldl (fun s _ => (nextEv s .iterClose).1) sI3
      let (lineO, headersO) := sO3.wsgi.getD ([], [])
      pure ("status=" ++ oS lineO ++ "|headers=" ++ oPairs headersO ++ "|sent=" ++ hex sO3.sent.flatten ++
        "|outer=[" ++ ",".intercalate (countEvs (sO3.log.filter (· != .wrapped))) ++ "]|inner=[" ++
        ",".intercalate (countEvs sI4.log) ++ "]")

def handle : Handler
  | "fromapp", [statusI, bodyI, ncbI, buffered, methodI, ncbO, methodO, take] =>
    some ((handleFromApp statusI bodyI ncbI buffered methodI ncbO methodO take).getD badArgs)
  | "hist", status :: dp :: body :: implicit :: auto :: hinit :: evs =>
    some ((handleHist status dp body implicit auto hinit evs).getD badArgs)
  | "wsgi", status :: method :: dp :: body :: take :: ncb :: getdata :: locOut :: clocOut :: hinit :: ops =>
    some ((handleWsgi status method dp body take ncb getdata locOut clocOut hinit ops).getD badArgs)
  | _, _ => none

end Wz.Driver.C05
