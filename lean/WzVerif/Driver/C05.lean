import WzVerif.Driver.Proto
import WzVerif.Model.Wire
import WzVerif.Model.Response
namespace Wz.Driver.C05
open Wz Wz.Proto Wz.Wire Wz.Hdr Wz.Resp

/-! request:
`wsgi <status> <method> <dp> <body> <take> <ncb> <getdata> <locOut> <clocOut> <hinit pairs> op…`
answer: `ops=[r,…]|status=<hex>|headers=<pairs>|body=<hex bytes>|close=<sorted events>` or `!Exc` -/

def pStatus (s : String) : Option StatusArg :=
  match s.toList with
  | 'i' :: r => (String.ofList r).toInt?.map .code
  | 's' :: r => (pAtom (String.ofList r)).map .text
  | _ => none

def pItem (s : String) : Option Item :=
  match s.toList with
  | 't' :: r => (pAtom (String.ofList r)).map .text
  | 'b' :: r => (unhex (String.ofList r)).map .bytes
  | _ => none

/-- `<kind>:<item>/<item>…`; kinds S str, B bytes, L list, T tuple, G generator, C closable
iterator, F file wrapper, I plain iterator without close, N None.
Returns the body and the `set_data` length for S / B. -/
def pBody (s : String) : Option (Body × Option Nat) :=
  match s.splitOn ":" with
  | [kind, items] => do
    let its ← if items == "" then some [] else (items.splitOn "/").mapM pItem
    if kind == "S" || kind == "B" then
      pure (⟨.seq, its.map (fun i => .bytes i.encode)⟩, some (totalLen its))
    else if kind == "L" || kind == "T" || kind == "N" then pure (⟨.seq, its⟩, none)
    else if kind == "G" || kind == "C" || kind == "F" then pure (⟨.stream true, its⟩, none)
    else if kind == "I" then pure (⟨.stream false, its⟩, none)
    else none
  | _ => none

def oEv : CloseEv → String
  | .wrapped => "wrapped"
  | .cb n => "cb" ++ toString n

def runOps (h : HList) : List String → Option (HList × List String)
  | [] => some (h, [])
  | o :: t => do
    let op ← pHdrOp o
    let r := Hdr.step h op
    let (h', outs) ← runOps r.1 t
    pure (h', oExcept oHdrRet r.2 :: outs)

def handleWsgi (status method dp body take ncb getdata locOut clocOut hinit : String) (ops : List String) :
    Option String := do
  let status ← pStatus status
  let dp ← boolArg dp
  let (body, dataLen) ← pBody body
  let take ← optArg natArg take
  let ncb ← natArg ncb
  let getdata ← boolArg getdata
  let locOut ← pOptAtom locOut
  let clocOut ← pOptAtom clocOut
  let hinit ← pPairs hinit
  match construct hinit status body dataLen dp with
  | .error e => pure (oExc e)
  | .ok r0 =>
    let (h, outs) ← runOps r0.headers ops
    let r1 := { r0 with headers := h }
    let r2 := (List.range ncb).foldl callOnClose r1
    let r3 := if getdata then makeSequence r2 else r2
    let m := method.toList
    let headers := getWsgiHeaders r3 (locOut.getD []) (clocOut.getD [])
    let it := getAppIter r3 m
    let chunks := match take with | none => it.chunks | some n => it.chunks.take n
    let bodyBytes : Bytes := chunks.flatten
    let log := sortStrs ((closeLog r3 m).map oEv)
    pure ("ops=[" ++ ",".intercalate outs ++ "]|status=" ++ oS r3.statusLine ++ "|headers=" ++ oPairs headers ++
      "|body=" ++ hex bodyBytes ++ "|close=[" ++ ",".intercalate log ++ "]")

def handle : Handler
  | "wsgi", status :: method :: dp :: body :: take :: ncb :: getdata :: locOut :: clocOut :: hinit :: ops =>
    some ((handleWsgi status method dp body take ncb getdata locOut clocOut hinit ops).getD badArgs)
  | _, _ => none

end Wz.Driver.C05
