import WzVerif.Driver.Proto
namespace Wz.Driver
open Wz.Proto

def dispatch (h : Handler) (line : String) : String :=
  match line.splitOn "\t" with
  | [] => "BAD-LINE"
  | cmd :: args =>
    match h cmd args with
    | some r => r
    | none => "UNKNOWN-CMD " ++ cmd

partial def loop (h : Handler) (hin hout : IO.FS.Stream) : IO Unit := do
  let line ← hin.getLine
  if line.isEmpty then return ()
  let l := if line.endsWith "\n" then String.ofList line.toList.dropLast else line
  hout.putStrLn (dispatch h l)
  loop h hin hout

/-- one request per line on stdin, one answer per line on stdout -/
def run (h : Handler) : IO Unit := do
  let hin ← IO.getStdin
  let hout ← IO.getStdout
  loop h hin hout
  hout.flush

end Wz.Driver
