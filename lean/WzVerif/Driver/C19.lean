import WzVerif.Driver.Proto
import WzVerif.Model.Chunked
import WzVerif.Model.DevServer
import WzVerif.Model.DevServerRun
import WzVerif.Driver.PyPrelude
namespace Wz.Driver.C19
open Wz Wz.Proto Wz.Chunked Wz.DevServer

def natList (s : String) : Option (List Nat) :=
  if s == "[]" then some [] else (s.splitOn ",").mapM String.toNat?

def showRes : Res → String
  | .ok b => "ok:" ++ hex b
  | .error e => "EXC:" ++ e

/-- `hexdata:c|l:u|d,...` -/
def chunkList (s : String) : Option (List (Bytes × Term × Bool)) :=
  if s == "[]" then some [] else
  (s.splitOn ",").mapM fun p =>
    match p.splitOn ":" with
    | [d, t, u] =>
      match unhex d, (if t == "c" then some Term.crlf else if t == "l" then some Term.lf else none),
          (if u == "u" then some true else if u == "d" then some false else none) with
      | some d, some t, some u => some (d, t, u)
      | _, _, _ => none
    | _ => none

def bytesList (s : String) : Option (List Bytes) :=
  if s == "[]" then some [] else (s.splitOn ",").mapM unhex

def pairList (hs : String) : Option (List (Str × Str)) :=
  if hs == "[]" then some [] else
  (hs.splitOn ",").mapM fun p =>
    match p.splitOn ":" with
    | [k, v] => match unhexStr k, unhexStr v with
      | some k, some v => some (k, v)
      | _, _ => none
    | _ => none

/-- headers inside an event: `k=v&k=v` (hex), `-` = the empty list -/
def evHeaders (s : String) : Option (List (Str × Str)) :=
  if s == "-" then some [] else
  (s.splitOn "&").mapM fun p =>
    match p.splitOn "=" with
    | [k, v] => match unhexStr k, unhexStr v with
      | some k, some v => some (k, v)
      | _, _ => none
    | _ => none

/-- events separated by `;`: `S<0|1>:<status hex>:<headers>` start_response (1 = with exc_info),
`E<data hex>` write / yielded piece -/
def evList (s : String) : Option (List RunWsgi.Ev) :=
  if s == "[]" then some [] else
  (s.splitOn ";").mapM fun t =>
    match t.toList with
    | 'E' :: d => (unhex (String.ofList d)).map RunWsgi.Ev.emit
    | 'S' :: rest =>
      match (String.ofList rest).splitOn ":" with
      | [x, st, hs] =>
        match boolArg x, unhexStr st, evHeaders hs with
        | some x, some st, some hs => some (RunWsgi.Ev.start st hs x)
        | _, _, _ => none
      | _ => none
    | _ => none

def showEnv (env : Env) : String := outList (fun (k, v) => hexStr k ++ ":" ++ hexStr v) env

def handle : Handler
  | "dechunk.run", [wire, sizes] =>
    match unhex wire, natList sizes with
    | some wire, some sizes =>
      let (rs, st) := readMany { wire := wire } sizes
      some (";".intercalate (rs.map showRes) ++ "|" ++ toString st.len ++ "|" ++ outBool st.done ++ "|"
        ++ toString st.wire.length)
    | _, _ => some badArgs
  | "chunk.len", [line] =>
    match unhex line with
    | some line => some (match chunkLenOf line with | .ok n => toString n | .error e => "EXC:" ++ e)
    | none => some badArgs
  | "chunk.encode", [chunks, tf] =>
    match chunkList chunks, (if tf == "c" then some Term.crlf else if tf == "l" then some Term.lf else none) with
    | some chunks, some tf => some (hex (encode chunks tf))
    | _, _ => some badArgs
  | "frame.decide", [p11, hasCl, isHead, code] =>
    match boolArg p11, boolArg hasCl, boolArg isHead, natArg code with
    | some p11, some hasCl, some isHead, some code => some (outBool (chunkedDecision p11 hasCl isHead code))
    | _, _, _, _ => some badArgs
  | "resp.frame", [p11, hasCl, isHead, code, pieces] =>
    match boolArg p11, boolArg hasCl, boolArg isHead, natArg code, bytesList pieces with
    | some p11, some hasCl, some isHead, some code, some pieces =>
      let c := chunkedDecision p11 hasCl isHead code
      some (outBool c ++ "|" ++ hex (bodyWire c pieces))
    | _, _, _, _, _ => some badArgs
  | "env.fold", [hs] =>
    let parsed : Option (List (Str × Str)) :=
      if hs == "[]" then some [] else
      (hs.splitOn ",").mapM fun p =>
        match p.splitOn ":" with
        | [k, v] => match unhexStr k, unhexStr v with
          | some k, some v => some (k, v)
          | _, _ => none
        | _ => none
    match parsed with
    | some hs => some (outList (fun (k, v) => hexStr k ++ ":" ++ hexStr v) (foldHeaders hs))
    | none => some badArgs
  | "env.make", [cmd, path, version, hs] =>
    match unhexStr cmd, unhexStr path, unhexStr version, pairList hs with
    | some cmd, some path, some version, some hs =>
      some (match makeEnviron cmd path version hs with
        | none => "OUT-OF-DOMAIN"
        | some e => "|".intercalate [hexStr e.method, hexStr e.pathInfo, hexStr e.query, hexStr e.protocol,
            hexStr e.rawUri, outBool e.terminated, showEnv e.headers])
    | _, _, _, _ => some badArgs
  | "env.hspath", [target] =>
    match unhexStr target with
    | some t => some (hexStr (httpServerPath t))
    | none => some badArgs
  | "resp.wire", [proto, status, shs, hs, isHead, written, yielded] =>
    match unhexStr proto, unhexStr status, pairList shs, pairList hs, boolArg isHead, bytesList written,
        bytesList yielded with
    | some proto, some status, some shs, some hs, some isHead, some written, some yielded =>
      let r : Resp := { protocol := proto, status := status, serverHeaders := shs, headers := hs, isHead := isHead }
      some (hex (runWsgi r written yielded))
    | _, _, _, _, _, _, _ => some badArgs
  | "run.wsgi", [proto, shs, isHead, pre, expectHs, call, callRaises, iter, iterRaises, closable, fcall, fiter] =>
    match unhexStr proto, pairList shs, boolArg isHead, unhex pre, pairList expectHs, evList call, boolArg callRaises,
        evList iter, boolArg iterRaises, boolArg closable, evList fcall, evList fiter with
    | some proto, some shs, some isHead, some pre, some reqHs, some call, some callRaises, some iter, some iterRaises,
        some closable, some fcall, some fiter =>
      let o := RunWsgi.runHandler ⟨proto, shs, isHead⟩ pre (RunWsgi.expectsContinue reqHs)
        { call := call, callRaises := callRaises, iter := iter, iterRaises := iterRaises, closable := closable }
        { call := fcall, iter := fiter }
      some (hex o.wire ++ "|" ++ toString o.closeCalls ++ "|" ++ outBool o.failed)
    | _, _, _, _, _, _, _, _, _, _, _, _ => some badArgs
  | "resp.body", [chunked, pieces] =>
    match boolArg chunked, bytesList pieces with
    | some chunked, some pieces => some (hex (bodyWire chunked pieces))
    | _, _ => some badArgs
  | cmd, args => Wz.Driver.PyPrelude.handle cmd args  -- `pre.*`: primitives of Util/PyPrelude

end Wz.Driver.C19
