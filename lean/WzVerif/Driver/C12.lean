import WzVerif.Driver.Proto
import WzVerif.Driver.C03
import WzVerif.Model.RoutingFollow
namespace Wz.Driver.C12
open Wz Wz.Proto Wz.Routing Wz.Routing.Wire

def outChain (r : List Outcome × Option String) : String :=
  " > ".intercalate (r.1.map outOutcome) ++ (match r.2 with | some e => " > " ++ e | none => "")

/-- request action `F<hex path>:<hex method>` -/
def predictFollow (m : RMap) (a : Adapter) (qa : QueryArgs) (hops : Nat) (act : String) : String :=
  match (act.drop 1).toString.splitOn ":" with
  | [p, meth] =>
    match unhexStr p, unhexStr meth with
    | some p, some meth => outChain (follow m a (some meth) none hops p qa [])
    | _, _ => badArgs
  | _ => badArgs

def handle : Handler
  | "route.sched", [m, a, qa, hops, acts, grants] =>
    match mapArg m, adapterArg a, qaArg qa, natArg hops with
    | some (some m), some a, some qa, some hops =>
      some (Wz.Driver.C03.schedCmd (predictFollow m a qa hops) m.rules.length acts grants)
    | some none, _, _, _ => some "UNSUPPORTED"
    | _, _, _, _ => some badArgs
  | "route.follow", [m, a, qa, ws, hops, probes] =>
    match mapArg m, adapterArg a, qaArg qa, optArg boolArg ws, natArg hops with
    | some (some m), some a, some qa, some ws, some hops =>
      let outs := (splitStr probes ",").map fun pr =>
        match pr.splitOn ":" with
        | [p, meth] =>
          match unhexStr p, unhexStr meth with
          | some p, some meth => outChain (follow m a (some meth) ws hops p qa [])
          | _, _ => badArgs
        | _ => badArgs
      some ("|".intercalate outs)
    | some none, _, _, _, _ => some "UNSUPPORTED"
    | _, _, _, _, _ => some badArgs
  | cmd, args => Wz.Driver.C03.routing cmd args

end Wz.Driver.C12
