import WzVerif.Driver.Proto
import WzVerif.Model.Http
import WzVerif.Model.Date
import WzVerif.Model.Containers
import WzVerif.Model.HeaderSetCtor
import WzVerif.Driver.PyPrelude
namespace Wz.Driver.C06
open Wz Wz.Proto Wz.Http

/-! wire formats: text = hex of UTF-8 (`-` empty, `~` None); lists joined by `,` (`[]` empty);
dict pairs `k:v`; exceptions `EXC:<Class>` -/

def exc (f : α → String) : Except String α → String
  | .ok a => f a
  | .error e => "EXC:" ++ e

def strList (l : List Str) : String := outList hexStr l
def optStr : Option Str → String := outOpt hexStr
def pairsOpt (d : Dict (Option Str)) : String := outList (fun (k, v) => hexStr k ++ ":" ++ optStr v) d
def pairsStr (d : Dict Str) : String := outList (fun (k, v) => hexStr k ++ ":" ++ hexStr v) d

def listArg (s : String) : Option (List Str) :=
  if s == "[]" then some [] else (s.splitOn ",").mapM unhexStr

def pairsOptArg (s : String) : Option (Dict (Option Str)) :=
  if s == "[]" then some [] else
  (s.splitOn ",").mapM fun p =>
    match p.splitOn ":" with
    | [k, v] => do
      let k ← unhexStr k
      let v ← optArg unhexStr v
      pure (k, v)
    | _ => none

def pairsStrArg (s : String) : Option (Dict Str) :=
  (pairsOptArg s).bind fun d => d.mapM fun (k, v) => v.map (k, ·)

def optListStr (l : List (Option Str)) : String := outList optStr l
def optListArg (s : String) : Option (List (Option Str)) :=
  if s == "[]" then some [] else (s.splitOn ",").mapM (optArg unhexStr)

def etagsOut (e : ETags) : String :=
  "S=" ++ optListStr e.strong ++ ";W=" ++ optListStr e.weak ++ ";*=" ++ outBool e.star

def optInt : Option Int → String := outOpt toString

def rangeOut : Option RangeV → String
  | none => "~"
  | some r => hexStr r.units ++ "|" ++ outList (fun (b, e) => toString b ++ ":" ++ optInt e) r.ranges

def rangesArg (s : String) : Option (List (Int × Option Int)) :=
  if s == "[]" then some [] else
  (s.splitOn ",").mapM fun p =>
    match p.splitOn ":" with
    | [b, e] => do
      let b ← intArg b
      let e ← optArg intArg e
      pure (b, e)
    | _ => none

def crangeOut : Option ContentRangeV → String
  | none => "~"
  | some c => optStr c.units ++ "|" ++ optInt c.start ++ "|" ++ optInt c.stop ++ "|" ++ optInt c.length

def ccValOut : CCVal → String
  | .none => "none" | .true_ => "true" | .false_ => "false"
  | .int i => "i:" ++ toString i | .str s => "s:" ++ hexStr s

def ccValArg (s : String) : Option CCVal :=
  if s == "none" then some .none else if s == "true" then some .true_ else if s == "false" then some .false_
  else if s.startsWith "i:" then (intArg (s.drop 2).toString).map .int
  else if s.startsWith "s:" then (unhexStr (s.drop 2).toString).map .str
  else none

def ccTypeArg (s : String) : Option CCType :=
  if s == "bool" then some .bool else if s == "int" then some .int else if s == "none" then some .str else none

def authOut : Option Auth → String
  | none => "~"
  | some a => hexStr a.type ++ "|" ++ pairsOpt a.params ++ "|" ++ optStr a.token

def authArg (ty ps tok : String) : Option Auth := do
  let ty ← unhexStr ty
  let ps ← pairsOptArg ps
  let tok ← optArg unhexStr tok
  pure ⟨ty, ps, tok⟩

def acceptOut (l : List (Str × Str)) : String := outList (fun (i, q) => hexStr i ++ ":" ++ hexStr q) l

def optionsOut (r : Str × Dict Str) : String := hexStr r.1 ++ "|" ++ pairsStr r.2

/-- `wire ++ "|" ++ parsed` for the dump→parse pairs -/
def pair (wire : Str) (parsed : String) : String := hexStr wire ++ "|" ++ parsed

def withStr (a : String) (f : Str → String) : Option String :=
  match unhexStr a with | some s => some (f s) | none => some badArgs


/-! histories: header sets (C08's model of the mutators), cache-control and CSP assignment histories -/

def plusListArg (s : String) : Option (List Str) :=
  if s == "[]" then some [] else (s.splitOn "+").mapM unhexStr

def hsOpArg (s : String) : Option HS.Op :=
  match s.splitOn ":" with
  | ["a", h] => (unhexStr h).map .add
  | ["r", h] => (unhexStr h).map .remove
  | ["d", h] => (unhexStr h).map .discard
  | ["u", l] => (plusListArg l).map .update
  | ["c"] => some .clear
  | ["x", i] => (intArg i).map .delitem
  | ["s", i, v] => do let i ← intArg i; let v ← unhexStr v; pure (.setitem i v)
  | _ => none

def hsOpsArg (s : String) : Option (List HS.Op) :=
  if s == "[]" then some [] else (s.splitOn ",").mapM hsOpArg

/-- run a history, collecting the exception class of every step (`ok` when none) -/
def hsRunLog (c : HS.St) : List HS.Op → HS.St × List String
  | [] => (c, [])
  | op :: t =>
    let o := HS.step c op
    let r := hsRunLog o.st t
    (r.1, (match o.res with | .ok _ => "ok" | .error e => e) :: r.2)

def hsOut (c : HS.St) : String := strList c.headers ++ "|" ++ strList c.set ++ "|" ++ toString (HS.len c)

def ccVal2Out : CCVal → String
  | .none => "none" | .true_ => "true" | .false_ => "false"
  | .int i => "i" ++ toString i | .str s => "s" ++ hexStr s

def ccVal2Arg (s : String) : Option CCVal :=
  if s == "none" then some .none else if s == "true" then some .true_ else if s == "false" then some .false_
  else if s.startsWith "i" then (intArg (s.drop 1).toString).map .int
  else if s.startsWith "s" then (unhexStr (s.drop 1).toString).map .str
  else none

def ccHOpArg (s : String) : Option CCOp :=
  match s.splitOn ":" with
  | ["t", k, ty, v] => do let k ← unhexStr k; let ty ← ccTypeArg ty; let v ← ccVal2Arg v; pure (.setTyped k ty v)
  | ["i", k, v] => do let k ← unhexStr k; let v ← optArg unhexStr v; pure (.setItem k v)
  | ["p", k] => (unhexStr k).map .popItem
  | ["x", k] => (unhexStr k).map .delTyped
  | ["c"] => some .clear
  | _ => none

def ccQueryArg (s : String) : Option (Str × CCVal × CCType) :=
  match s.splitOn ":" with
  | [k, e, ty] => do let k ← unhexStr k; let e ← ccVal2Arg e; let ty ← ccTypeArg ty; pure (k, e, ty)
  | _ => none

def cspHOpArg (s : String) : Option CspOp :=
  match s.splitOn ":" with
  | ["s", k, v] => do let k ← unhexStr k; let v ← optArg unhexStr v; pure (.set k v)
  | ["d", k] => (unhexStr k).map .del
  | ["c"] => some .clear
  | _ => none

def opsArg {α : Type} (f : String → Option α) (s : String) : Option (List α) :=
  if s == "[]" then some [] else (s.splitOn ",").mapM f

def handle : Handler
  -- single functions (hostile text)
  | "quote", [v, allow] =>
    match unhexStr v, boolArg allow with
    | some v, some allow => some (hexStr (quoteHeaderValue v allow))
    | _, _ => some badArgs
  | "unquote", [v] => withStr v fun v => hexStr (unquoteHeaderValue v)
  | "list.parse", [h] => withStr h fun h => strList (parseListHeader h)
  | "dict.parse", [h] => withStr h fun h => exc pairsOpt (parseDictHeader h)
  | "opt.parse", [h] => withStr h fun h => exc optionsOut (parseOptionsHeader h)
  | "set.parse", [h] => withStr h fun h => strList (parseSetMembers h)
  | "etags.parse", [h] => withStr h fun h => etagsOut (parseEtags h)
  | "etag.unquote", [h] => withStr h fun h =>
    match unquoteEtag h with | none => "~" | some (e, w) => hexStr e ++ "|" ++ outBool w
  | "range.parse", [h] => withStr h fun h => exc rangeOut (parseRangeHeader h)
  | "crange.parse", [h] => withStr h fun h => exc crangeOut (parseContentRangeHeader h)
  | "age.parse", [h] => withStr h fun h => exc (outOpt toString) (parseAge h)
  | "cc.parse", [h] => withStr h fun h => exc pairsOpt (parseCacheControl h)
  | "csp.parse", [h] => withStr h fun h => pairsStr (parseCsp h)
  | "auth.parse", [h] => withStr h fun h => exc authOut (authorizationFromHeader h)
  | "www.parse", [h] => withStr h fun h => exc authOut (wwwFromHeader h)
  | "accept.parse", [h] => withStr h fun h => exc acceptOut (parseAcceptHeader h)
  | "b64.dec", [h] => withStr h fun h => exc hex (b64Decode h)
  | "pyint", [h] => withStr h fun h => exc toString (pyInt h)
  | "plainint", [h] => withStr h fun h => exc toString (plainInt h)
  | "lower", [h] => withStr h fun h => hexStr (pyLower h)
  | "title", [h] => withStr h fun h => hexStr (pyTitle h)
  | "strip", [h] => withStr h fun h => hexStr (strip h)
  -- dump -> parse pairs
  | "pair.quote", [v, allow] =>
    match unhexStr v, boolArg allow with
    | some v, some allow =>
      let w := quoteHeaderValue v allow
      some (pair w (hexStr (unquoteHeaderValue w)))
    | _, _ => some badArgs
  | "pair.list", [l] =>
    match listArg l with
    | some l => let w := dumpHeaderList l; some (pair w (strList (parseListHeader w)))
    | none => some badArgs
  | "pair.set", [l] =>
    match listArg l with
    | some l => let w := headerSetToHeader (headerSetMembers l); some (pair w (strList (parseSetMembers w)))
    | none => some badArgs
  | "pair.dict", [d] =>
    match pairsOptArg d with
    | some d => some (exc id (do let w ← dumpHeaderDict d; pure (pair w (exc pairsOpt (parseDictHeader w)))))
    | none => some badArgs
  | "pair.options", [h, d] =>
    match optArg unhexStr h, pairsOptArg d with
    | some h, some d =>
      some (exc id (do let w ← dumpOptionsHeader h d; pure (pair w (exc optionsOut (parseOptionsHeader w)))))
    | _, _ => some badArgs
  | "pair.etag", [e, w] =>
    match unhexStr e, boolArg w with
    | some e, some w =>
      some (exc id (do
        let q ← quoteEtag e w
        pure (pair q (match unquoteEtag q with | none => "~" | some (e, w) => hexStr e ++ "|" ++ outBool w))))
    | _, _ => some badArgs
  | "pair.etags", [s, w, star] =>
    match optListArg s, optListArg w, boolArg star with
    | some s, some w, some star =>
      let h := etagsToHeader ⟨s, w, star⟩
      some (pair h (etagsOut (parseEtags h)))
    | _, _, _ => some badArgs
  | "pair.range", [u, rs] =>
    match unhexStr u, rangesArg rs with
    | some u, some rs =>
      some (exc id (do
        let r ← rangeCtor u rs
        let w := rangeToHeader r
        pure (pair w (exc rangeOut (parseRangeHeader w)))))
    | _, _ => some badArgs
  | "pair.crange", [u, s, e, l] =>
    match optArg unhexStr u, optArg intArg s, optArg intArg e, optArg intArg l with
    | some u, some s, some e, some l =>
      if !isByteRangeValid s e l then some "EXC:AssertionError" else
      let w := contentRangeToHeader ⟨u, s, e, l⟩
      some (pair w (exc crangeOut (parseContentRangeHeader w)))
    | _, _, _, _ => some badArgs
  | "pair.age", [n] =>
    match natArg n with
    | some n => let w := dumpAge n; some (pair w (exc (outOpt toString) (parseAge w)))
    | none => some badArgs
  | "pair.cc", [d, key, empty, ty, val] =>
    -- set a typed property on a dict, dump, parse, get it back; answer: wire | dict | value
    match pairsOptArg d, unhexStr key, ccValArg empty, ccTypeArg ty, ccValArg val with
    | some d, some key, some empty, some ty, some val =>
      let d' := setCacheValue d key val ty
      some (exc id (do
        let w ← dumpHeaderDict d'
        let p ← parseCacheControl w
        let g ← getCacheValue p key empty ty
        pure (pair w (pairsOpt p ++ "|" ++ ccValOut g))))
    | _, _, _, _, _ => some badArgs
  | "cc.get", [d, key, empty, ty] =>
    match pairsOptArg d, unhexStr key, ccValArg empty, ccTypeArg ty with
    | some d, some key, some empty, some ty => some (exc ccValOut (getCacheValue d key empty ty))
    | _, _, _, _ => some badArgs
  | "pair.csp", [d] =>
    match pairsStrArg d with
    | some d => let w := dumpCsp d; some (pair w (pairsStr (parseCsp w)))
    | none => some badArgs
  | "pair.auth", [ty, ps, tok] =>
    match authArg ty ps tok with
    | some a =>
      some (exc id (do let w ← authorizationToHeader a; pure (pair w (exc authOut (authorizationFromHeader w)))))
    | none => some badArgs
  | "pair.www", [ty, ps, tok] =>
    match authArg ty ps tok with
    | some a => some (exc id (do let w ← wwwToHeader a; pure (pair w (exc authOut (wwwFromHeader w)))))
    | none => some badArgs
  | "hist.set", [init, ops] =>
    -- HeaderSet(init), the history, to_header, parse_set_header: log | final | wire | parsed
    match listArg init, hsOpsArg ops with
    | some init, some ops =>
      let r := hsRunLog (hsCtor init) ops
      let w := HS.toHeader r.1
      let p := parseSetObj w
      some (outList id r.2 ++ "|" ++ hsOut r.1 ++ "|" ++ hexStr w ++ "|" ++ hsOut p)
    | _, _ => some badArgs
  | "hist.cc", [d, ops, queries] =>
    match pairsOptArg d, opsArg ccHOpArg ops, opsArg ccQueryArg queries with
    | some d, some ops, some qs =>
      let d' := ccRun d ops
      some (exc id (do
        let w ← dumpHeaderDict d'
        let p ← parseCacheControl w
        let gs ← qs.mapM fun (k, e, ty) => getCacheValue p k e ty
        pure (pair w (pairsOpt p ++ "|" ++ outList ccVal2Out gs))))
    | _, _, _ => some badArgs
  | "hist.csp", [d, ops] =>
    match pairsStrArg d, opsArg cspHOpArg ops with
    | some d, some ops =>
      let w := dumpCsp (cspRun d ops)
      some (pair w (pairsStr (parseCsp w)))
    | _, _ => some badArgs
  | "b64.enc", [b] =>
    match unhex b with
    | some b => some (hexStr (b64Encode b))
    | none => some badArgs
  | "attr.maxfwd", [h] =>
    match optArg unhexStr h with
    | some h => some (exc (outOpt toString) (requestMaxForwards h))
    | none => some badArgs
  | "attr.clen", [cl, te] =>
    match optArg unhexStr cl, optArg unhexStr te with
    | some cl, some te => some (exc (outOpt toString) (getContentLength cl te))
    | _, _ => some badArgs
  | "attr.acrh", [h] =>
    match optArg unhexStr h with
    | some h => some (exc (outOpt strList) (requestAccessControlRequestHeaders h))
    | none => some badArgs
  | "nf.etags", [h] => withStr h fun h =>
    let p := parseEtags h
    etagsOut p ++ "#" ++ etagsOut (parseEtags (etagsToHeader p))
  | "nf.list", [h] => withStr h fun h =>
    let p := parseListHeader h
    strList p ++ "#" ++ strList (parseListHeader (dumpHeaderList p))
  | "nf.range", [h] => withStr h fun h =>
    exc (fun p => rangeOut p ++ "#" ++ (match p with
      | some r => exc rangeOut (parseRangeHeader (rangeToHeader r))
      | none => "~")) (parseRangeHeader h)
  | "nf.crange", [h] => withStr h fun h =>
    exc (fun p => crangeOut p ++ "#" ++ (match p with
      | some c => exc crangeOut (parseContentRangeHeader (contentRangeToHeader c))
      | none => "~")) (parseContentRangeHeader h)
  | "nf.csp", [h] => withStr h fun h =>
    let p := parseCsp h
    pairsStr p ++ "#" ++ pairsStr (parseCsp (dumpCsp p))
  | "nf.dict", [h] => withStr h fun h =>
    exc (fun p => pairsOpt p ++ "#" ++ exc pairsOpt (dumpHeaderDict p >>= parseDictHeader)) (parseDictHeader h)
  | "date.fmt", [t] =>
    match natArg t with
    | some t => some (hexStr (Wz.Date.httpDate t))
    | none => some badArgs
  | "date.parse", [h] => withStr h fun h => outOpt toString (Wz.Date.parseDate h)
  | "pair.date", [t] =>
    match natArg t with
    | some t => let w := Wz.Date.httpDate t; some (pair w (outOpt toString (Wz.Date.parseDate w)))
    | none => some badArgs
  | "pair.dateaware", [y, mo, d, hh, mi, ss, off] =>
    match natArg y, natArg mo, natArg d, natArg hh, natArg mi, natArg ss, intArg off with
    | some y, some mo, some d, some hh, some mi, some ss, some off =>
      match Wz.Date.httpDateAware ⟨y, mo, d, hh, mi, ss⟩ off with
      | some w => some (pair w (outOpt toString (Wz.Date.parseDate w)))
      | none => some "EXC:OverflowError"
    | _, _, _, _, _, _, _ => some badArgs
  | cmd, args => Wz.Driver.PyPrelude.handle cmd args  -- `pre.*`: primitives of Util/PyPrelude

end Wz.Driver.C06
