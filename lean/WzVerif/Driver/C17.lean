import WzVerif.Driver.Proto
import WzVerif.Model.Accept
import WzVerif.Driver.PyPrelude
namespace Wz.Driver.C17
open Wz Wz.Proto Wz.Accept

def listArg (f : String → Option α) (s : String) : Option (List α) :=
  if s == "[]" then some [] else (s.splitOn ",").mapM f

def pairArg (s : String) : Option (Str × Str) :=
  match s.splitOn ":" with
  | [a, b] => match unhexStr a, unhexStr b with
    | some a, some b => some (a, b)
    | _, _ => none
  | _ => none

def outQ (q : Q) : String := let n := q.norm; toString n.num ++ "/" ++ toString n.scale

def outItems (l : List (Str × Q)) : String := outList (fun (v, q) => hexStr v ++ "=" ++ outQ q) l

/-- answer: `items|best|quality per offer|find per offer|contains per offer` -/
def answer (self : List (Str × Q)) (best : Option Str) (offers : List Str)
    (qual : Str → String) (fnd : Str → String) (cont : Str → String) : String :=
  "|".intercalate [outItems self, outOpt hexStr best, outList qual offers, outList fnd offers,
    outList cont offers]

def outFind : Option Nat → String
  | none => "-1"
  | some i => toString i

def generic (N : Neg (List Bool) Q) (header : Str) (offers : List Str) : String :=
  match parseAccept N header with
  | .error e => e
  | .ok self =>
    answer self (bestMatch N self offers) offers
      (fun o => outQ ((quality N self o).getD Q.zero))
      (fun o => outFind (find N self o))
      (fun o => outBool (contains N self o))

def handle : Handler
  | "neg", [cls, header, offers, aliases] =>
    match unhexStr header, listArg unhexStr offers, listArg pairArg aliases with
    | some header, some offers, some aliases =>
      match cls with
      | "accept" => some (generic acceptNeg header offers)
      | "charset" => some (generic (charsetNeg aliases) header offers)
      | "lang" =>
        some (match parseAccept langNeg header with
          | .error e => e
          | .ok self =>
            answer self (langBestMatch self offers) offers
              (fun o => outQ ((quality langNeg self o).getD Q.zero))
              (fun o => outFind (find langNeg self o))
              (fun o => outBool (contains langNeg self o)))
      | "mime" =>
        some (match parseAccept mimeNeg header with
          | .error e => e
          | .ok self =>
            let r (o : Str) (s : String) : String := if mimeRaises self o then "E" else s
            let best := if offers.any (mimeRaises self) then "E" else outOpt hexStr (bestMatch mimeNeg self offers)
            "|".intercalate [outItems self, best,
              outList (fun o => r o (outQ ((quality mimeNeg self o).getD Q.zero))) offers,
              outList (fun o => if mimeRaises self o then "-1" else outFind (find mimeNeg self o)) offers,
              outList (fun o => r o (outBool (contains mimeNeg self o))) offers])
      | _ => some badArgs
    | _, _, _ => some badArgs
  | "api", [attr, hdrs, offers, aliases, default, idx] =>
    -- a Request attribute and the whole Accept API on it:
    -- items|best_match(offers, default)|best|values|to_header|index per offer|self[offer] per offer|self[idx]|html,xhtml,json
    let a : Option AcceptAttr :=
      match attr with
      | "accept_mimetypes" => some .mimetypes
      | "accept_charsets" => some .charsets
      | "accept_encodings" => some .encodings
      | "accept_languages" => some .languages
      | _ => none
    match a, listArg pairArg hdrs, listArg unhexStr offers, listArg pairArg aliases,
        optArg unhexStr default, natArg idx with
    | some a, some hdrs, some offers, some aliases, some default, some idx =>
      some (match requestAccept aliases a hdrs with
        | .error e => e
        | .ok self =>
          let c := a.spec.2.2
          let N := c.neg aliases
          "|".intercalate [outItems self,
            outOpt hexStr (clsBestMatch aliases c self offers default),
            outOpt hexStr (best self),
            outList hexStr (values self),
            (match toHeader self with | some h => hexStr h | none => "UNSUPPORTED"),
            outList (fun o => match index N self o with | .ok i => toString i | .error e => e) offers,
            outList (fun o => outQ (getItemStr N self o)) offers,
            outOpt (fun (v, q) => hexStr v ++ "=" ++ outQ q) (getItemIdx self idx),
            if c == .mime then outBool (acceptHtml self) ++ "," ++ outBool (acceptXhtml self) ++ "," ++
              outBool (acceptJson self) else "~"])
    | _, _, _, _, _, _ => some badArgs
  | "parseq", [s] =>
    match unhexStr s with
    | some s => some (outOpt outQ (parseQ s))
    | none => some badArgs
  | "mimesplit", [s] =>
    match unhexStr s with
    | some s => some (outList hexStr (mimeSplit s))
    | none => some badArgs
  | cmd, args => Wz.Driver.PyPrelude.handle cmd args  -- `pre.*`: primitives of Util/PyPrelude

end Wz.Driver.C17
