/-
Line protocol shared by all driver handlers.
A request line is `cmd<TAB>arg<TAB>arg...`; the answer is one line.
Text and byte strings travel as lowercase hex of their UTF-8 / raw bytes, `-` is the empty
string, `~` is Python's `None`. Integers are decimal.
-/
import WzVerif.Util.Bytes
namespace Wz.Proto
open Wz

def optArg (f : String → Option α) (s : String) : Option (Option α) :=
  if s == "~" then some none else (f s).map some

def boolArg (s : String) : Option Bool :=
  if s == "1" then some true else if s == "0" then some false else none

def intArg (s : String) : Option Int := s.toInt?
def natArg (s : String) : Option Nat := s.toNat?

def outOpt (f : α → String) : Option α → String
  | none => "~"
  | some a => f a

def outBool (b : Bool) : String := if b then "1" else "0"

/-- list of items joined by `,`; an empty list is `[]` -/
def outList (f : α → String) (l : List α) : String :=
  if l.isEmpty then "[]" else ",".intercalate (l.map f)

def badArgs : String := "BAD-ARGS"

abbrev Handler := String → List String → Option String

end Wz.Proto
