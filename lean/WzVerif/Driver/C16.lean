import WzVerif.Driver.Proto
namespace Wz.Driver.C16
open Wz Wz.Proto

/-- stub: no model commands yet -/
def handle : Handler
  | _, _ => none

end Wz.Driver.C16
