import WzVerif.Driver.Proto
import WzVerif.Model.Wire
import WzVerif.Model.Views
namespace Wz.Driver.C16
open Wz Wz.Proto Wz.Wire Wz.Hdr Wz.Views Wz.PyDict

/-! request: `view <family> <prop> <init pairs> op…`; answer: `#dump;ret#dump;…`
dump = `H=<all header pairs>|V=<held view>|R=<re-read view>` -/

def oOptS : Option Str → String := oOpt oS
def oOptI : Option Int → String := oOpt oInt
def oODict (d : ODict) : String := oList (fun e => "(" ++ oS e.1 ++ "," ++ oOptS e.2 ++ ")") d
def oSDict (d : Dict Str Str) : String := oPairs d

/-- `k=v` pairs with optional values: `k=~` is None -/
def pOKV (s : String) : Option ODict :=
  if s == "[]" then some [] else (s.splitOn "+").mapM fun e =>
    match e.splitOn "=" with
    | [k, v] => do pure (← pAtom k, ← pOptAtom v)
    | _ => none

/-- a header edit applied directly to `response.headers` -/
def directEdit (h : HList) (fields : List String) : Option (HList × String) := do
  let op ← pHdrOp (",".intercalate fields)
  let r := Hdr.step h op
  pure (r.1, oExcept oHdrRet r.2)

/-! ### generic loop -/

structure Fam (σ : Type) where
  /-- the property getter: the view and the headers afterwards (reading `content_range` writes) -/
  load : HList → σ × HList
  show_ : σ → String
  /-- view op: fields → (new headers, new view, result) -/
  vop : HList → σ → List String → Option (HList × σ × String)
  /-- whole-property assignment: fields → (new headers, optional new held view, result) -/
  assign : HList → List String → Option (HList × Option σ × String)
  /-- `del response.prop` -/
  delete : HList → Option (HList × String)
  /-- `response.prop = <held view object>`: new headers and result; `none` = the property has no
  setter (AttributeError) -/
  assignView : HList → σ → Option (HList × String) := fun _ _ => none
  /-- the setter re-binds the object's `on_update` to the assigned-to response -/
  rebinds : Bool := false

/-- the dump reads the property once more (after the header list was printed) -/
def dumpAll {σ : Type} (f : Fam σ) (h : HList) (v : σ) : String × HList :=
  let r := f.load h
  ("H=" ++ oPairs h ++ "|V=" ++ f.show_ v ++ "|R=" ++ f.show_ r.1, r.2)

def runOps {σ : Type} (f : Fam σ) (h : HList) (v : σ) : List String → Option (List String)
  | [] => some []
  | o :: t => do
    let (h', v', ret) ← (match o.splitOn "," with
      | ["f"] => some ((f.load h).2, (f.load h).1, "~")
      | "h" :: fields => (directEdit h fields).map fun (h', r) => (h', v, r)
      | "v" :: fields => f.vop h v fields
      | "as" :: fields => (f.assign h fields).map fun (h', nv, r) => (h', nv.getD v, r)
      | ["del"] => (f.delete h).map fun (h', r) => (h', v, r)
      | _ => none : Option (HList × σ × String))
    let d := dumpAll f h' v'
    let rest ← runOps f d.2 v' t
    pure ((ret ++ "#" ++ d.1) :: rest)

def runFam {σ : Type} (f : Fam σ) (init : String) (ops : List String) : Option String := do
  let ps ← pPairs init
  let h0 : HList := ps
  let (v, h) := f.load h0
  let d := dumpAll f h v
  let outs ← runOps f d.2 v ops
  pure (";".intercalate (("#" ++ d.1) :: outs))

/-! ### two responses sharing view objects

request: `view2 <family> <prop> <init0> <init1> op…` with ops
`f,<j>,<i>` (held[j] = r_i.prop), `v,<j>,<view op…>`, `av,<j>,<i>` (r_i.prop = held[j]),
`h,<i>,<header op…>`, `hr,<i>,<pairs>` (r_i.headers = Headers(pairs)), `as,<i>,<raw assignment…>`,
`del,<i>`. A held object carries the index of the response its `on_update` writes to. -/

def getH (hs : HList × HList) (i : Nat) : HList := if i == 0 then hs.1 else hs.2
def setH (hs : HList × HList) (i : Nat) (h : HList) : HList × HList := if i == 0 then (h, hs.2) else (hs.1, h)

def dumpAll2 {σ : Type} (f : Fam σ) (hs : HList × HList) (held : List (σ × Nat)) : String × (HList × HList) :=
  let r0 := f.load hs.1
  let r1 := f.load hs.2
  ("H0=" ++ oPairs hs.1 ++ "|H1=" ++ oPairs hs.2 ++ "|" ++
    "|".intercalate (held.mapIdx fun j x => "V" ++ toString j ++ "=" ++ f.show_ x.1) ++
    "|R0=" ++ f.show_ r0.1 ++ "|R1=" ++ f.show_ r1.1, (r0.2, r1.2))

def idx01 (s : String) : Option Nat := do
  let n ← s.toNat?
  if n < 2 then some n else none

def runOps2 {σ : Type} (f : Fam σ) (hs : HList × HList) (held : List (σ × Nat)) : List String → Option (List String)
  | [] => some []
  | o :: t => do
    let (hs', held', ret) ← (match o.splitOn "," with
      | ["f", j, i] => do
        let j ← idx01 j
        let i ← idx01 i
        let r := f.load (getH hs i)
        pure (setH hs i r.2, held.set j (r.1, i), "~")
      | "v" :: j :: fields => do
        let j ← idx01 j
        let x ← held[j]?
        let (h', v', res) ← f.vop (getH hs x.2) x.1 fields
        pure (setH hs x.2 h', held.set j (v', x.2), res)
      | ["av", j, i] => do
        let j ← idx01 j
        let i ← idx01 i
        let x ← held[j]?
        match f.assignView (getH hs i) x.1 with
        | none => pure (hs, held, oExc "AttributeError")
        | some (h', res) =>
          pure (setH hs i h', if f.rebinds && !res.startsWith "!" then held.set j (x.1, i) else held, res)
      | "h" :: i :: fields => do
        let i ← idx01 i
        let (h', r) ← directEdit (getH hs i) fields
        pure (setH hs i h', held, r)
      | ["hr", i, ps] => do
        let i ← idx01 i
        let ps ← pPairs ps
        match Hdr.construct (some (.pairs ps)) with
        | .ok l => pure (setH hs i l, held, "~")
        | .error e => pure (hs, held, oExc e)
      | "as" :: i :: fields => do
        let i ← idx01 i
        let (h', _, r) ← f.assign (getH hs i) fields
        pure (setH hs i h', held, r)
      | ["del", i] => do
        let i ← idx01 i
        let (h', r) ← f.delete (getH hs i)
        pure (setH hs i h', held, r)
      | _ => none : Option ((HList × HList) × List (σ × Nat) × String))
    let d := dumpAll2 f hs' held'
    let rest ← runOps2 f d.2 held' t
    pure ((ret ++ "#" ++ d.1) :: rest)

def runFam2 {σ : Type} (f : Fam σ) (init0 init1 : String) (ops : List String) : Option String := do
  let h0 ← pPairs init0
  let h1 ← pPairs init1
  let r0 := f.load h0
  let r1 := f.load h1
  let held := [(r0.1, 0), (r1.1, 1)]
  let d := dumpAll2 f (r0.2, r1.2) held
  let outs ← runOps2 f d.2 held ops
  pure (";".intercalate (("#" ++ d.1) :: outs))

/-! ### HeaderSet views -/

def pHSOp (fields : List String) : Option HS.Op :=
  match fields with
  | ["add", h] => do pure (.add (← pAtom h))
  | ["remove", h] => do pure (.remove (← pAtom h))
  | ["discard", h] => do pure (.discard (← pAtom h))
  | ["update", hs] => do pure (.update (← pAtoms hs))
  | ["clear"] => some .clear
  | ["delitem", i] => do pure (.delitem (← pInt i))
  | ["setitem", i, v] => do pure (.setitem (← pInt i) (← pAtom v))
  | _ => none

def showSet (c : HS.St) : String :=
  "list=" ++ oStrs c.headers ++ "/set=[" ++ ",".intercalate (sortStrs (c.set.map oS)) ++ "]/len=" ++
    oNat (HS.len c) ++ "/hdr=" ++ oS (SetView.dump c)

def resOf : Except String Unit → String
  | .ok _ => "~"
  | .error e => oExc e

/-- `response.<set property> = value` -/
def assignRaw (h : HList) (name : Str) (fields : List String) (dictDump : ODict → Except String Str) : Option (HList × String) :=
  match fields with
  | ["none"] => some (delKey h name, "~")
  | ["str", s] => do
    let s ← pAtom s
    if s.isEmpty then pure (delKey h name, "~") else
    let r := Hdr.set h name s
    pure (r.1, resOf r.2)
  | ["list", l] => do
    let l ← pAtoms l
    if l.isEmpty then pure (delKey h name, "~") else
    let r := Hdr.set h name (Http.dumpHeaderList l)
    pure (r.1, resOf r.2)
  | ["dict", d] => do
    let d ← pOKV d
    if d.isEmpty then pure (delKey h name, "~") else
    let r := writeText h name (dictDump d)
    pure (r.1, resOf r.2)
  | _ => none

def famSet (name : Str) : Fam HS.St where
  load h := (SetView.load h name, h)
  show_ := showSet
  vop h v fields := do
    -- `selfupdate`: `view.update(view)` (the argument is the set itself)
    let op ← if fields == ["selfupdate"] then some (HS.Op.update v.headers) else pHSOp fields
    let r := HS.step v op
    let h' := if r.notified then SetView.write h name r.st else h
    pure (h', r.st, resOf r.res)
  assign h fields := (assignRaw h name fields Http.dumpHeaderDict).map fun (h', r) => (h', none, r)
  delete _ := none
  assignView h v := let r := SetView.assign h name v; some (r.1, resOf r.2)

/-! ### Cache-Control -/

def ccRow (attr : String) : Option (Str × Bool × CC.Ty) :=
  (Gen.Views.cacheControlProps.find? (·.1 == attr)).map fun (_, key, empty, ty) =>
    (key.toList, empty == "true", if ty == "bool" then CC.Ty.bool else if ty == "int" then CC.Ty.int else CC.Ty.str)

def pCCVal (s : String) : Option CC.Val :=
  if s == "~" then some .none
  else if s == "t" then some (.bool true)
  else if s == "f" then some (.bool false)
  else match s.toList with
    | 'i' :: r => (String.ofList r).toInt?.map .int
    | 's' :: r => (pAtom (String.ofList r)).map .str
    | _ => none

def oGot : CC.Got → String
  | .none => "~"
  | .bool b => oBool b
  | .int i => oInt i
  | .str s => oS s

def showCC (d : ODict) : String :=
  "items=" ++ oODict d ++ "/hdr=" ++ oExcept oS (CC.dump d) ++ "/" ++
    ",".intercalate (Gen.Views.cacheControlProps.map fun (attr, key, empty, ty) =>
      attr ++ "=" ++ oGot (CC.getValue d key.toList (empty == "true")
        (if ty == "bool" then .bool else if ty == "int" then .int else .str)))

def pDOp {β : Type} (pv : String → Option β) (fields : List String) : Option (DOp β) :=
  match fields with
  | ["setitem", k, v] => do pure (.setitem (← pAtom k) (← pv v))
  | ["delitem", k] => do pure (.delitem (← pAtom k))
  | ["clear"] => some .clear
  | ["popitem"] => some .popitem
  | ["update", l] =>
    if l == "[]" then some (.update []) else do
      let items ← (l.splitOn "+").mapM fun e =>
        match e.splitOn "=" with
        | [k, v] => do pure (← pAtom k, ← pv v)
        | _ => none
      pure (.update items)
  | ["setdefault", k, v] => do pure (.setdefault (← pAtom k) (← pv v))
  | ["pop", k, d] => do
    let k ← pAtom k
    if d == "!" then pure (.pop k none) else pure (.pop k (some (← pv d)))
  | _ => none

def oDRes {β : Type} (f : β → String) : Except String (Option β) → String
  | .ok none => "~"
  | .ok (some x) => f x
  | .error e => oExc e

/-- combine the mutator's result with what `on_update` did (its exception wins) -/
def afterWrite (notified : Bool) (h : HList) (w : HList × Except String Unit) (res : String) : HList × String :=
  if notified then (w.1, match w.2 with | .ok _ => res | .error e => oExc e) else (h, res)

def famCC : Fam ODict where
  load h := (CC.load h, h)
  show_ := showCC
  vop h v fields :=
    match fields with
    | ["attr", attr, val] => do
      let (key, _, ty) ← ccRow attr
      let val ← pCCVal val
      let r := CC.step v (.attr key ty val)
      let a := afterWrite r.notified h (CC.write h r.st) (oDRes oOptS r.res)
      pure (a.1, r.st, a.2)
    | ["delattr", attr] => do
      let (key, _, _) ← ccRow attr
      let r := CC.step v (.delattr key)
      let a := afterWrite r.notified h (CC.write h r.st) (oDRes oOptS r.res)
      pure (a.1, r.st, a.2)
    | _ => do
      let op ← pDOp pOptAtom fields
      let r := CC.step v (.dict op)
      let a := afterWrite r.notified h (CC.write h r.st) (oDRes oOptS r.res)
      pure (a.1, r.st, a.2)
  assign _ _ := none
  delete _ := none

/-! ### CSP -/

def cspKey (attr : String) : Option Str := (Gen.Views.cspProps.find? (·.1 == attr)).map (·.2.toList)

def showCSP (d : CSP.St) : String := "items=" ++ oSDict d ++ "/hdr=" ++ oS (CSP.dump d)

def famCSP (name writeName : Str) : Fam CSP.St where
  load h := (CSP.load h name, h)
  show_ := showCSP
  vop h v fields :=
    match fields with
    | ["attr", attr, val] => do
      let key ← cspKey attr
      let val ← pOptAtom val
      let r := CSP.step v (.attr key val)
      pure (if r.notified then CSP.write h name writeName r.st else h, r.st, oDRes oS r.res)
    | ["delattr", attr] => do
      let key ← cspKey attr
      let r := CSP.step v (.delattr key)
      pure (if r.notified then CSP.write h name writeName r.st else h, r.st, oDRes oS r.res)
    | _ => do
      let op ← pDOp pAtom fields
      let r := CSP.step v (.dict op)
      pure (if r.notified then CSP.write h name writeName r.st else h, r.st, oDRes oS r.res)
  assign h fields :=
    match fields with
    | ["none"] => some (delKey h name, none, "~")
    | ["str", s] => do
      let s ← pAtom s
      if s.isEmpty then pure (delKey h name, none, "~") else
      let r := Hdr.set h writeName s
      pure (r.1, none, resOf r.2)
    | ["view", ps] => do
      let ps ← pPairs ps
      let d : CSP.St := ps.foldl (fun a e => PyDict.set a e.1 e.2) []
      if d.isEmpty then pure (delKey h name, none, "~") else
      let r := Hdr.set h writeName (CSP.dump d)
      pure (r.1, none, resOf r.2)
    | _ => none
  delete _ := none
  assignView h v := let r := CSP.assign h name writeName v; some (r.1, resOf r.2)

/-! ### Content-Range -/

def showCR (c : CR.St) : String :=
  "(" ++ oOptS c.units ++ "," ++ oOptI c.start ++ "," ++ oOptI c.stop ++ "," ++ oOptI c.length ++ ")/bool=" ++
    oBool c.units.isSome ++ "/hdr=" ++ oExcept oS (CR.toHeader c)

def pCROp (fields : List String) : Option CR.Op :=
  match fields with
  | ["units", u] => do pure (.setUnits (← pOptAtom u))
  | ["start", i] => do pure (.setStart (← pOptInt i))
  | ["stop", i] => do pure (.setStop (← pOptInt i))
  | ["length", i] => do pure (.setLength (← pOptInt i))
  | ["set", a, b, l, u] => do pure (.set (← pOptInt a) (← pOptInt b) (← pOptInt l) (← pOptAtom u))
  | ["unset"] => some .unset
  | _ => none

def famCR : Fam CR.St where
  load h := CR.fetch h
  show_ := showCR
  vop h v fields := do
    let op ← pCROp fields
    let r := CR.step v op
    if r.notified then
      let w := CR.write h r.st
      pure (w.1, r.st, match w.2 with | .ok _ => resOf r.res | .error e => oExc e)
    else pure (h, r.st, resOf r.res)
  assign h fields :=
    let name := "content-range".toList
    match fields with
    | ["none"] => some (delKey h name, none, "~")
    | ["str", s] => do
      let s ← pAtom s
      if s.isEmpty then pure (delKey h name, none, "~") else
      let r := Hdr.set h "Content-Range".toList s
      pure (r.1, none, resOf r.2)
    | ["view", u, a, b, l] => do
      let c : CR.St := ⟨← pOptAtom u, ← pOptInt a, ← pOptInt b, ← pOptInt l⟩
      if c.units.isNone then pure (delKey h name, none, "~") else
      match CR.toHeader c with
      | .error e => pure (h, none, oExc e)
      | .ok t =>
        let r := Hdr.set h "Content-Range".toList t
        pure (r.1, none, resOf r.2)
    | _ => none
  delete _ := none
  assignView h v := let r := CR.write h v; some (r.1, resOf r.2)

/-! ### WWW-Authenticate -/

def showAuth (c : Auth.St) : String :=
  "type=" ++ oS c.type ++ "/token=" ++ oOptS c.token ++ "/params=" ++ oODict c.params ++ "/hdr=" ++ oExcept oS (Auth.toHeader c)

def pAuthOp (fields : List String) : Option Auth.Op :=
  match fields with
  | ["type", s] => do pure (.setType (← pAtom s))
  | ["token", t] => do pure (.setToken (← pOptAtom t))
  | ["params", d] => do pure (.setParams (← pOKV d))
  | ["setitem", k, v] => do pure (.setitem (← pAtom k) (← pOptAtom v))
  | ["setattr", k, v] => do pure (.setitem (← pAtom k) (← pOptAtom v))
  | ["delitem", k] => do pure (.delitem (← pAtom k))
  | ["delattr", k] => do pure (.delitem (← pAtom k))
  | "p" :: rest => (pDOp pOptAtom rest).map .pdict
  | _ => none

def pAuthView (t tok ps : String) : Option Auth.St := do
  pure ⟨lower (← pAtom t), ← pOKV ps, ← pOptAtom tok⟩

def famAuth : Fam Auth.St where
  load h := (Auth.load h, h)
  show_ := showAuth
  vop h v fields := do
    -- `selfparams`: `view.parameters = view.parameters` (the assigned value is the view's own dict)
    let op ← if fields == ["selfparams"] then some (Auth.Op.setParams v.params) else pAuthOp fields
    let r := Auth.step v op
    let a := afterWrite r.notified h (Auth.write h r.st) (oDRes oOptS r.res)
    pure (a.1, r.st, a.2)
  assign h fields :=
    let name := "WWW-Authenticate".toList
    match fields with
    | ["none"] => some (if Hdr.contains h name then delKey h name else h, none, "~")
    | ["view", t, tok, ps] => do
      let c ← pAuthView t tok ps
      let w := Auth.write h c
      pure (w.1, some c, resOf w.2)
    | ["list", t1, tok1, ps1, t2, tok2, ps2] => do
      let c1 ← pAuthView t1 tok1 ps1
      let c2 ← pAuthView t2 tok2 ps2
      let w1 := Auth.write h c1
      match w1.2, Auth.toHeader c2 with
      | .ok _, .ok t2 =>
        let r := Hdr.add w1.1 name t2
        pure (r.1, none, resOf r.2)
      | .error e, _ => pure (w1.1, none, oExc e)
      | _, .error e => pure (w1.1, none, oExc e)
    | _ => none
  delete h :=
    let name := "WWW-Authenticate".toList
    some (if Hdr.contains h name then delKey h name else h, "~")
  assignView h v := let r := Auth.write h v; some (r.1, resOf r.2)
  rebinds := true

/-! ### mimetype_params -/

def famMP : Fam MP.St where
  load h := (MP.load h, h)
  show_ d := "items=" ++ oSDict d
  vop h v fields := do
    let op ← pDOp pAtom fields
    let r := dstep v op
    if r.notified then
      let w := MP.write h r.st
      pure (w.1, r.st, match w.2 with | .ok _ => oDRes oS r.res | .error e => oExc e)
    else pure (h, r.st, oDRes oS r.res)
  assign _ _ := none
  delete _ := none

/-! ### scalar typed properties -/

inductive SVal where
  | none
  | int (i : Int)
  | str (s : Str)
  | strs (l : List Str)

def oSVal : SVal → String
  | .none => "~"
  | .int i => oInt i
  | .str s => oS s
  | .strs l => oStrs l

/-- (header name, load kind, default text) of a `header_property` attribute -/
def scalarRow (attr : String) : Option (Str × String × String) :=
  (Gen.Views.headerProps.find? (·.1 == attr)).map fun (_, name, lf, _, dflt, _) => (name.toList, lf, dflt)

def scalarGet (h : HList) (attr : String) : Option SVal := do
  let (name, lf, dflt) ← scalarRow attr
  let enumVals := if attr == "cross_origin_opener_policy" then Gen.Views.coopValues else Gen.Views.coepValues
  match getKey h name with
  | .error _ => pure (if dflt == "none" then .none else .str dflt.toList)
  | .ok v =>
    if lf == "none" || lf == "parse_date" then pure (.str v)
    else if lf == "int" then pure (match CC.pyInt v with | some i => .int i | none => .none)
    else if lf == "parse_age" then pure (match Scalar.parseAge v with | some i => .int i | none => .none)
    else if lf == "parse_set_header" then pure (.strs (Http.parseSetHeader v))
    else if lf == "<lambda>" then
      pure (if enumVals.contains (String.ofList v) then .str v else .str dflt.toList)
    else none

/-- `response.<attr> = value`; the value arrives as `~`, `i<int>`, `s<text>`, `l<atoms>` -/
def scalarSet (h : HList) (attr val : String) : Option (HList × String) := do
  let (name, lf, _) ← scalarRow attr
  let text : Except String Str ← (match val.toList with
    | ['~'] => some (.ok "None".toList)
    | 'i' :: r => do
      let i ← (String.ofList r).toInt?
      if lf == "parse_age" && i < 0 then pure (.error "ValueError") else pure (.ok (CC.intText i))
    | 's' :: r => (pAtom (String.ofList r)).map .ok
    | 'l' :: r => (pAtoms (String.ofList r)).map fun l => .ok (Http.dumpHeaderList l)
    | _ => none : Option (Except String Str))
  match text with
  | .error e => pure (h, oExc e)
  | .ok t =>
    let r := Scalar.set h name t
    pure (r.1, resOf r.2)

/-! #### typed properties that are not `header_property` descriptors -/

def specialAttrs : List String := ["retry_after", "mimetype", "access_control_allow_credentials", "etag"]

def specialGet (h : HList) (attr : String) : Option String :=
  if attr == "retry_after" then
    some (match Scalar.retryAfterGet h with
      | .none => "~"
      | .seconds i => "sec:" ++ oInt i
      | .date t => oS t)
  else if attr == "mimetype" then some (oOptS (MP.mimetype h))
  else if attr == "access_control_allow_credentials" then some (oBool (Scalar.credentialsGet h))
  else if attr == "etag" then
    some (match Scalar.getEtag h with
      | none => "~"
      | some (e, w) => "(" ++ oS e ++ "," ++ oBool w ++ ")")
  else none

/-- value forms: `~` None, `t` / `f` booleans, `i<int>`, `s<text>`, `e<0|1><text>` (etag, weak) -/
def specialSet (h : HList) (attr val : String) : Option (HList × String) :=
  let fin (r : Hdr.Res Unit) : Option (HList × String) := some (r.1, resOf r.2)
  if attr == "retry_after" then
    match val.toList with
    | ['~'] => fin (Scalar.retryAfterSet h none)
    | 'i' :: r => (String.ofList r).toInt?.bind fun i => fin (Scalar.retryAfterSet h (some (CC.intText i)))
    | 's' :: r => (pAtom (String.ofList r)).bind fun t => fin (Scalar.retryAfterSet h (some t))
    | _ => none
  else if attr == "mimetype" then
    match val.toList with
    | 's' :: r => (pAtom (String.ofList r)).bind fun t => fin (Scalar.mimetypeSet h t)
    | _ => none
  else if attr == "access_control_allow_credentials" then
    fin (Scalar.credentialsSet h (val == "t"))
  else if attr == "etag" then
    match val.toList with
    | 'e' :: w :: r => (pAtom (String.ofList r)).bind fun t => fin (Scalar.setEtag h t (w == '1'))
    | _ => none
  else none

def runSpecial (attr : String) (h : HList) : List String → Option (List String)
  | [] => some []
  | o :: t => do
    let (h', ret) ← (match o.splitOn "," with
      | "h" :: fields => directEdit h fields
      | ["set", v] => specialSet h attr v
      | ["del"] => some (h, oExc "AttributeError")
      | _ => none : Option (HList × String))
    let g ← specialGet h' attr
    let rest ← runSpecial attr h' t
    pure ((ret ++ "#H=" ++ oPairs h' ++ "|G=" ++ g) :: rest)

def handleSpecial (attr init : String) (ops : List String) : Option String := do
  let h ← pPairs init
  let g ← specialGet h attr
  let outs ← runSpecial attr h ops
  pure (";".intercalate (("#H=" ++ oPairs h ++ "|G=" ++ g) :: outs))

def runScalar (attr : String) (h : HList) : List String → Option (List String)
  | [] => some []
  | o :: t => do
    let (h', ret) ← (match o.splitOn "," with
      | "h" :: fields => directEdit h fields
      | ["set", v] => scalarSet h attr v
      | ["del"] => do
        let (name, _, _) ← scalarRow attr
        pure (Scalar.delete h name, "~")
      | _ => none : Option (HList × String))
    let g ← scalarGet h' attr
    let rest ← runScalar attr h' t
    pure ((ret ++ "#H=" ++ oPairs h' ++ "|G=" ++ oSVal g) :: rest)

def handleScalar (attr init : String) (ops : List String) : Option String := do
  let h ← pPairs init
  let g ← scalarGet h attr
  let outs ← runScalar attr h ops
  pure (";".intercalate (("#H=" ++ oPairs h ++ "|G=" ++ oSVal g) :: outs))

def orBad (o : Option String) : Option String := some (o.getD badArgs)

def handle : Handler
  | "view", fam :: prop :: init :: ops =>
    orBad (match unhexStr prop with
      | none => none
      | some p =>
        if fam == "set" then runFam (famSet p) init ops
        else if fam == "cc" then runFam famCC init ops
        else if fam == "csp" then
          runFam (famCSP (lower p) (if lower p == "content-security-policy".toList then "Content-Security-Policy".toList
            else "Content-Security-policy-report-only".toList)) init ops
        else if fam == "cr" then runFam famCR init ops
        else if fam == "auth" then runFam famAuth init ops
        else if fam == "mp" then runFam famMP init ops
        else if fam == "scalar" then
          (if specialAttrs.contains (String.ofList p) then handleSpecial (String.ofList p) init ops
           else handleScalar (String.ofList p) init ops)
        else none)
  | "view2", fam :: prop :: init0 :: init1 :: ops =>
    orBad (match unhexStr prop with
      | none => none
      | some p =>
        if fam == "set" then runFam2 (famSet p) init0 init1 ops
        else if fam == "cc" then runFam2 famCC init0 init1 ops
        else if fam == "csp" then
          runFam2 (famCSP (lower p) (if lower p == "content-security-policy".toList then "Content-Security-Policy".toList
            else "Content-Security-policy-report-only".toList)) init0 init1 ops
        else if fam == "cr" then runFam2 famCR init0 init1 ops
        else if fam == "auth" then runFam2 famAuth init0 init1 ops
        else if fam == "mp" then runFam2 famMP init0 init1 ops
        else none)
  | _, _ => none

end Wz.Driver.C16
