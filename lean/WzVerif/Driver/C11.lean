import WzVerif.Driver.Proto
import WzVerif.Model.Conditional
import WzVerif.Driver.PyPrelude
namespace Wz.Driver.C11
open Wz Wz.Proto Wz.Cond

def listArg (f : String → Option α) (s : String) : Option (List α) :=
  if s == "[]" then some [] else (s.splitOn ",").mapM f

def optStr := optArg unhexStr
def optInt := optArg intArg

def outInt (i : Int) : String := toString i

def outTags (l : List (Option Str)) : String := outList (outOpt hexStr) l

def outRange (r : Range) : String :=
  hexStr r.units ++ ":" ++ outList (fun (b, e) => outInt b ++ ".." ++ outOpt outInt e) r.ranges

def mkReq (range ifRange : Option Str) (ifRangeDate ims : Option Int) (inm im : Option Str) : CondReq :=
  { range := range, ifRange := ifRange, ifRangeDate := ifRangeDate, ims := ims, inm := inm, im := im }

def outBody (l : List Bytes) : String := outList hex l

/-- `status|Content-Range|Content-Length|body|Accept-Ranges`; a 416 carries `Content-Range: bytes */length` -/
def outResp (clen : Option Int) : Option WsgiOut → String
  | none => "416|*/" ++ outOpt outInt clen
  | some o =>
    "|".intercalate [toString o.status,
      outOpt (fun (a, b, l) => outInt a ++ "-" ++ outInt b ++ "/" ++ outInt l) o.contentRange,
      outOpt outInt o.contentLength,
      if o.status == 206 then outBody o.body else hex o.body.flatten,
      outBool o.acceptRanges]

def handle : Handler
  | "condt", [ign, range, ifRange, ims, inm, im, etag, lmSec, lmMicro] =>
    -- date headers as text, parsed by the C06 model (IMF-fixdate); instants count from 0001-01-01
    match boolArg ign, optStr range, optStr ifRange, optStr ims, optStr inm,
        optStr im, optStr etag, optInt lmSec, natArg lmMicro with
    | some ign, some range, some ifRange, some ims, some inm, some im, some etag,
        some lmSec, some lmMicro =>
      some (outBool (isResourceModified (mkReqText range ifRange ims inm im) etag
        (lmSec.map fun s => (s, lmMicro)) ign))
    | _, _, _, _, _, _, _, _, _ => some badArgs
  | "respt", [method, range, ifRange, ims, inm, im, etag, lm, clen, accept, chunks, seek, pass] =>
    match unhexStr method, optStr range, optStr ifRange, optStr ims, optStr inm,
        optStr im, optStr etag, optStr lm, optInt clen, boolArg accept, listArg unhex chunks,
        optArg natArg seek, natArg pass with
    | some method, some range, some ifRange, some ims, some inm, some im, some etag,
        some lm, some clen, some accept, some chunks, some seek, some pass =>
      some (outResp clen (respond method (mkReqText range ifRange ims inm im)
          (mkRespText etag lm) clen accept chunks seek pass))
    | _, _, _, _, _, _, _, _, _, _, _, _, _ => some badArgs
  | "cond", [ign, range, ifRange, ifRangeDate, ims, inm, im, etag, lmSec, lmMicro] =>
    match boolArg ign, optStr range, optStr ifRange, optInt ifRangeDate, optInt ims, optStr inm,
        optStr im, optStr etag, optInt lmSec, natArg lmMicro with
    | some ign, some range, some ifRange, some ifRangeDate, some ims, some inm, some im, some etag,
        some lmSec, some lmMicro =>
      some (outBool (isResourceModified (mkReq range ifRange ifRangeDate ims inm im) etag
        (lmSec.map fun s => (s, lmMicro)) ign))
    | _, _, _, _, _, _, _, _, _, _ => some badArgs
  | "resp", [method, range, ifRange, ifRangeDate, ims, inm, im, etag, lm, clen, accept, chunks, seek, pass] =>
    match unhexStr method, optStr range, optStr ifRange, optInt ifRangeDate, optInt ims, optStr inm,
        optStr im, optStr etag, optInt lm, optInt clen, boolArg accept, listArg unhex chunks,
        optArg natArg seek, natArg pass with
    | some method, some range, some ifRange, some ifRangeDate, some ims, some inm, some im, some etag,
        some lm, some clen, some accept, some chunks, some seek, some pass =>
      some (outResp clen (respond method (mkReq range ifRange ifRangeDate ims inm im)
          { etag := etag, lastModified := lm } clen accept chunks seek pass))
    | _, _, _, _, _, _, _, _, _, _, _, _, _, _ => some badArgs
  | "mcf", [method, range, ifRange, ims, inm, im, etag, lm, clen, accept, chunks, seek, pass] =>
    -- make_conditional with every form of the accept_ranges argument: `0` False, `1` True, `u<hex>` a unit string
    let acc : Option AcceptArg :=
      if accept == "0" then some .no else if accept == "1" then some .yes
      else if accept.startsWith "u" then (unhexStr (accept.drop 1).toString).map .unit else none
    match unhexStr method, optStr range, optStr ifRange, optStr ims, optStr inm,
        optStr im, optStr etag, optStr lm, optInt clen, acc, listArg unhex chunks,
        optArg natArg seek, natArg pass with
    | some method, some range, some ifRange, some ims, some inm, some im, some etag,
        some lm, some clen, some acc, some chunks, some seek, some pass =>
      let res := makeConditionalFull method (mkReqText range ifRange ims inm im)
          (mkRespText etag lm) clen acc chunks seek pass
      some (outResp clen (res.map (·.1)) ++ "|" ++
        (match res with
          | none => "~"
          | some (_, h) => outOpt hexStr h))
    | _, _, _, _, _, _, _, _, _, _, _, _, _ => some badArgs
  | "sendfile", [method, range, ifRange, ims, inm, im, isPath, size, mtimeSec, mtimeMicro, mtimeRepr,
      check, etagArg, lastMod, conditional, data, seekable, maxAge] =>
    -- etagArg: `A` auto, `O` off, `g<hex>` given; instants count from 0001-01-01
    let ea : Option EtagArg :=
      if etagArg == "A" then some .auto else if etagArg == "O" then some .off
      else if etagArg.startsWith "g" then (unhexStr (etagArg.drop 1).toString).map .given else none
    match unhexStr method, optStr range, optStr ifRange, optStr ims, optStr inm, optStr im,
        boolArg isPath, optArg natArg size, optInt mtimeSec, natArg mtimeMicro, unhexStr mtimeRepr,
        natArg check, ea, optInt lastMod, boolArg conditional, unhex data, boolArg seekable, optInt maxAge with
    | some method, some range, some ifRange, some ims, some inm, some im, some isPath, some size,
        some mtimeSec, some mtimeMicro, some mtimeRepr, some check, some ea, some lastMod,
        some conditional, some data, some seekable, some maxAge =>
      let mt : Option (Int × Nat) := mtimeSec.map fun s => (s, mtimeMicro)
      let a : SendFile := ⟨isPath, size, mt, mtimeRepr, check, ea, lastMod, conditional⟩
      some (match sendFile a method (mkReqText range ifRange ims inm im) data seekable with
        | .error e => "EXC:" ++ e
        | .ok res =>
          outResp (size.map fun n => (n : Int)) res ++ "|" ++
            (match a.etagHeader with
              | .ok et => outOpt hexStr et
              | .error _ => "~") ++ "|" ++ outOpt outInt a.lastMod ++ "|" ++
            hexStr (sendFileCacheControl maxAge) ++ "|" ++ outBool (sendFileExpires maxAge 0).isSome)
    | _, _, _, _, _, _, _, _, _, _, _, _, _, _, _, _, _, _ => some badArgs
  | "prange", [v] =>
    match optStr v with
    | some v => some (outOpt outRange (parseRangeHeader v))
    | none => some badArgs
  | "rfl", [v, len] =>
    match optStr v, optInt len with
    | some v, some len =>
      some (match parseRangeHeader v with
        | none => "noparse"
        | some r => outOpt (fun (a, b) => outInt a ++ ".." ++ outInt b) (rangeForLength r len))
    | _, _ => some badArgs
  | "petags", [v] =>
    match optStr v with
    | some v =>
      let e := parseEtags v
      some (outTags e.strong ++ ";" ++ outTags e.weak ++ ";" ++ outBool e.star)
    | none => some badArgs
  | "unquote", [v] =>
    match unhexStr v with
    | some v => some (outOpt (fun (e, w) => hexStr e ++ ":" ++ outBool w) (unquoteEtag v))
    | none => some badArgs
  | "brv", [a, b, c] =>
    match optInt a, optInt b, optInt c with
    | some a, some b, some c => some (outBool (isByteRangeValid a b c))
    | _, _, _ => some badArgs
  | "rwrap", [chunks, start, len, seek] =>
    match listArg unhex chunks, natArg start, natArg len, optArg natArg seek with
    | some chunks, some start, some len, some seek =>
      some (outBody (match seek with
        | some b => rangeWrapSeek chunks.flatten b start len
        | none => rangeWrapIter chunks start len))
    | _, _, _, _ => some badArgs
  | cmd, args => Wz.Driver.PyPrelude.handle cmd args  -- `pre.*`: primitives of Util/PyPrelude

end Wz.Driver.C11
