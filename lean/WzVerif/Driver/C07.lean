import WzVerif.Driver.Proto
import WzVerif.Driver.C06
import WzVerif.Model.RequestAttrs
import WzVerif.Model.RequestBody
import WzVerif.Model.Multipart
namespace Wz.Driver.C07
open Wz Wz.Proto Wz.Http Wz.Driver.C06

/-! C07 uses the exception-aware parsers of Model/Http.lean through the same commands as C06, plus
the composed `Request` attributes of Model/RequestAttrs.lean (`req.*`). -/

def pairArg (s : String) : Option (Str × Str) :=
  match s.splitOn ":" with
  | [a, b] => match unhexStr a, unhexStr b with
    | some a, some b => some (a, b)
    | _, _ => none
  | _ => none

def pairsArg (s : String) : Option (List (Str × Str)) :=
  if s == "[]" then some [] else (s.splitOn ",").mapM pairArg

def outQ (q : Wz.Accept.Q) : String := let n := q.norm; toString n.num ++ "/" ++ toString n.scale

def outItems (l : List (Str × Wz.Accept.Q)) : String := outList (fun (v, q) => hexStr v ++ "=" ++ outQ q) l

def outUse (u : Wz.Req.AcceptUse) : String :=
  outList outBool u.contains ++ "|" ++ outList (fun q => outQ (q.getD Wz.Accept.Q.zero)) u.quality ++ "|" ++ outOpt hexStr u.best

/-- the idna codec as an association list supplied by the harness (`~` = UnicodeError) -/
def idnaOf (tbl : List (Str × Option Str)) : Wz.Dbg.Idna := fun s =>
  match tbl.find? (fun p => p.1 == s) with
  | some (_, some r) => .ok r
  | some (_, none) => .error "UnicodeError"
  | none => .error "MISSING-IDNA"

def acceptCmd {σ : Type} (N : Wz.Accept.Neg σ Wz.Accept.Q) (hdr : Option Str) (offers : List Str)
    (use : List (Str × Wz.Accept.Q) → List Str → Wz.Req.AcceptUse) : String :=
  match Wz.Req.acceptOf N hdr with
  | .error e => "EXC:" ++ e
  | .ok self => outItems self ++ "|" ++ outUse (use self offers)


def bodyAttrArg : String → Option Wz.Req.BodyAttr
  | "form" => some .form | "files" => some .files | "values" => some .values | "data" => some .data
  | "get_data" => some .getData | "json" => some .json | "get_json" => some .getJsonSilent | "stream" => some .stream
  | "want_form_data_parsed" => some .wantFormDataParsed
  | _ => none

def formOut (r : Wz.Req.FormResult) : String :=
  outList (fun (k, v) => outOpt hexStr k ++ ":" ++ hexStr v) r.fields ++ "|" ++
  outList (fun (k, fnm, c) => outOpt hexStr k ++ ":" ++ hexStr fnm ++ ":" ++ hex c) r.files

def handle : Handler
  | "req.args", [qs] =>
    match unhexStr qs with
    | some qs => some (exc pairsStr (Wz.Req.args { queryString := qs }))
    | none => some badArgs
  | "req.cookies", [h] =>
    match optArg unhexStr h with
    | some h => some (pairsStr (Wz.Req.cookies { cookie := h }))
    | none => some badArgs
  | "req.mimetype", [h] =>
    match optArg unhexStr h with
    | some h =>
      let e : Wz.Req.Env := { contentType := h }
      some (exc id (do
        let mt ← Wz.Req.mimetype e
        let ps ← Wz.Req.mimetypeParams e
        let j ← Wz.Req.isJson e
        pure (hexStr mt ++ "|" ++ pairsStr ps ++ "|" ++ outBool j)))
    | none => some badArgs
  | "req.host", [scheme, h, name, port, trusted, idna] =>
    match unhexStr scheme, optArg unhexStr h, unhexStr name, optArg natArg port,
        optArg listArg trusted, pairsOptArg idna with
    | some scheme, some h, some name, some port, some trusted, some idna =>
      let e : Wz.Req.Env := { scheme := scheme, host := h, serverName := name, serverPort := port, trustedHosts := trusted }
      some (exc hexStr (Wz.Req.host (idnaOf idna) e))
    | _, _, _, _, _, _ => some badArgs
  | "req.accept", [cls, h, offers, aliases] =>
    match optArg unhexStr h, listArg offers, pairsArg aliases with
    | some h, some offers, some aliases =>
      match cls with
      | "accept" => some (acceptCmd Wz.Accept.acceptNeg h offers (Wz.Req.useAccept Wz.Accept.acceptNeg))
      | "mime" => some (acceptCmd Wz.Accept.mimeNeg h offers (Wz.Req.useAccept Wz.Accept.mimeNeg))
      | "charset" => some (acceptCmd (Wz.Accept.charsetNeg aliases) h offers (Wz.Req.useAccept (Wz.Accept.charsetNeg aliases)))
      | "lang" => some (acceptCmd Wz.Accept.langNeg h offers Wz.Req.useLanguages)
      | _ => some badArgs
    | _, _, _ => some badArgs
  | "req.body", [attr, method, ct, cl, te, qs, body, disc, jl, maxcl] =>
    -- first access of a body attribute: `jl` is what json.loads answered for this body (`ok` or a class)
    match bodyAttrArg attr, unhexStr method, optArg unhexStr ct, optArg unhexStr cl, optArg unhexStr te, unhexStr qs,
        unhex body, boolArg disc, optArg natArg maxcl with
    | some attr, some method, some ct, some cl, some te, some qs, some body, some disc, some maxcl =>
      let e : Wz.Req.Env := { contentType := ct, contentLength := cl, transferEncoding := te, queryString := qs }
      let bx : Wz.Req.BodyExt := ⟨Wz.Req.mpModel, fun _ => if jl == "ok" then .ok () else .error jl⟩
      let cfg : Wz.Req.BodyCfg := { maxContentLength := maxcl }
      let w : Wz.Req.Wire := ⟨body, disc⟩
      match attr with
      | .form | .files =>
        some (exc formOut (Wz.Req.formValue bx cfg e w))
      | a => some (exc (fun _ => "ok") (Wz.Req.bodyOutcome bx cfg e method w a))
    | _, _, _, _, _, _, _, _, _ => some badArgs
  | "req.ifrange", [h, dateOf] =>
    -- `parse_date` is Python's: the harness passes what it answered for this value (`~` = None)
    match optArg unhexStr h, optArg natArg dateOf with
    | some h, some d =>
      some (match Wz.Req.ifRange (fun _ => d) { ifRange := h } with
        | .empty => "~|~" | .etag e => hexStr e ++ "|~" | .date t => "~|" ++ toString t)
    | _, _ => some badArgs
  | cmd, args => Wz.Driver.C06.handle cmd args

end Wz.Driver.C07
