import WzVerif.Driver.Proto
import WzVerif.Driver.C06
namespace Wz.Driver.C07
open Wz Wz.Proto

/-- C07 uses the exception-aware parsers of Model/Http.lean through the same commands as C06 -/
def handle : Handler := Wz.Driver.C06.handle

end Wz.Driver.C07
