/-
Driver commands for the CPython primitives of `Util/PyPrelude.lean` (stream `prelude-kernels`,
harness/pyprelude.py). Per-property handlers delegate commands they do not know to `handle`.
-/
import WzVerif.Driver.Proto
import WzVerif.Util.PyPrelude
namespace Wz.Driver.PyPrelude
open Wz Wz.Proto Wz.Pre

def strList (s : String) : Option (List Str) :=
  if s == "[]" then some [] else (s.splitOn ",").mapM unhexStr

def outInt (i : Int) : String := toString i

def outExc (f : α → String) : Except String α → String
  | .ok a => f a
  | .error e => "EXC:" ++ e

def out3 (p : Str × Str × Str) : String := hexStr p.1 ++ "|" ++ hexStr p.2.1 ++ "|" ++ hexStr p.2.2
def out3b (p : Bytes × Bytes × Bytes) : String := hex p.1 ++ "|" ++ hex p.2.1 ++ "|" ++ hex p.2.2

def str1 (f : Str → String) : List String → Option String
  | [a] => some (match unhexStr a with | some a => f a | none => badArgs)
  | _ => some badArgs

def str2 (f : Str → Str → String) : List String → Option String
  | [a, b] => some (match unhexStr a, unhexStr b with | some a, some b => f a b | _, _ => badArgs)
  | _ => some badArgs

def str3 (f : Str → Str → Str → String) : List String → Option String
  | [a, b, c] =>
    some (match unhexStr a, unhexStr b, unhexStr c with
      | some a, some b, some c => f a b c
      | _, _, _ => badArgs)
  | _ => some badArgs

def bytes2 (f : Bytes → Bytes → String) : List String → Option String
  | [a, b] => some (match unhex a, unhex b with | some a, some b => f a b | _, _ => badArgs)
  | _ => some badArgs

def handle : Handler
  | "pre.slice", [s, lo, hi] =>
    match unhexStr s, optArg intArg lo, optArg intArg hi with
    | some s, some lo, some hi => some (hexStr (slice s lo hi))
    | _, _, _ => some badArgs
  | "pre.bslice", [s, lo, hi] =>
    match unhex s, optArg intArg lo, optArg intArg hi with
    | some s, some lo, some hi => some (hex (slice s lo hi))
    | _, _, _ => some badArgs
  | "pre.getitem", [s, i] =>
    match unhexStr s, intArg i with
    | some s, some i => some (outExc hexStr (getItemStr s i))
    | _, _ => some badArgs
  | "pre.listitem", [l, i] =>
    match strList l, intArg i with
    | some l, some i => some (outExc hexStr (getItem l i))
    | _, _ => some badArgs
  | "pre.startswith", args => str2 (fun s p => outBool (startswith s p)) args
  | "pre.endswith", args => str2 (fun s p => outBool (endswith s p)) args
  | "pre.find", args => str2 (fun s p => outInt (find s p)) args
  | "pre.rfind", args => str2 (fun s p => outInt (rfind s p)) args
  | "pre.rfindfrom", [s, p, i] =>
    match unhexStr s, unhexStr p, intArg i with
    | some s, some p, some i => some (outInt (rfindFrom s p i))
    | _, _, _ => some badArgs
  | "pre.contains", args => str2 (fun s p => outBool (contains s p)) args
  | "pre.partition", args => str2 (fun s p => out3 (partition s p)) args
  | "pre.rpartition", args => str2 (fun s p => out3 (rpartition s p)) args
  | "pre.bfind", args => bytes2 (fun s p => outInt (find s p)) args
  | "pre.brfind", args => bytes2 (fun s p => outInt (rfind s p)) args
  | "pre.bstartswith", args => bytes2 (fun s p => outBool (startswith s p)) args
  | "pre.bendswith", args => bytes2 (fun s p => outBool (endswith s p)) args
  | "pre.bcontains", args => bytes2 (fun s p => outBool (contains s p)) args
  | "pre.bpartition", args => bytes2 (fun s p => out3b (partition s p)) args
  | "pre.spliton", args => str2 (fun s p => outList hexStr (splitOn s p)) args
  | "pre.splitonce", args =>
    str2 (fun s p => outExc (fun (a, b) => hexStr a ++ "|" ++ hexStr b) (splitOnce s p)) args
  | "pre.rsplitonce", args =>
    str2 (fun s p => outExc (fun (a, b) => hexStr a ++ "|" ++ hexStr b) (rsplitOnce s p)) args
  | "pre.rsplit1", args => str2 (fun s p => outList hexStr (rsplit1 s p)) args
  | "pre.replace", args => str3 (fun s a b => hexStr (replace s a b)) args
  | "pre.stripc", args => str2 (fun s c => hexStr (stripChars s c)) args
  | "pre.lstripc", args => str2 (fun s c => hexStr (lstripChars s c)) args
  | "pre.rstripc", args => str2 (fun s c => hexStr (rstripChars s c)) args
  | "pre.strip", args => str1 (fun s => hexStr (strip s)) args
  | "pre.lstrip", args => str1 (fun s => hexStr (lstrip s)) args
  | "pre.rstrip", args => str1 (fun s => hexStr (rstrip s)) args
  | "pre.lower", args => str1 (fun s => hexStr (lower s)) args
  | "pre.upper", args => str1 (fun s => hexStr (upper s)) args
  | "pre.title", args => str1 (fun s => hexStr (title s)) args
  | "pre.asciiignore", args => str1 (fun s => hexStr (asciiIgnore s)) args
  | "pre.newlinere", args => str1 (fun s => outBool (newlineReSearch s).isSome) args
  | "pre.isascii", args => str1 (fun s => outBool (isascii s)) args
  | "pre.splitws", args => str1 (fun s => outList hexStr (splitWs s)) args
  | "pre.join", [sep, l] =>
    match unhexStr sep, strList l with
    | some sep, some l => some (hexStr (join sep l))
    | _, _ => some badArgs
  | "pre.strofint", [i] => some (match intArg i with | some i => hexStr (strOfInt i) | none => badArgs)
  | "pre.zfill", [s, w] =>
    some (match unhexStr s, intArg w with | some s, some w => hexStr (zfill s w) | _, _ => badArgs)
  | "pre.setitem", [l, i, v] =>
    some (match strList l, intArg i, unhexStr v with
      | some l, some i, some v => outExc (outList hexStr) (setItem l i v)
      | _, _, _ => badArgs)
  | "pre.delitem", [l, i] =>
    some (match strList l, intArg i with
      | some l, some i => outExc (outList hexStr) (delItem l i)
      | _, _ => badArgs)
  | "pre.setslice", [l, lo, hi, ys] =>
    some (match strList l, optArg intArg lo, optArg intArg hi, strList ys with
      | some l, some lo, some hi, some ys => outList hexStr (setSlice l lo hi ys)
      | _, _, _, _ => badArgs)
  | "pre.setops", [l, ops] =>
    -- a sequence of set operations `a<hex>` add, `r<hex>` remove, `d<hex>` discard on the set built from l
    some (match strList l, (if ops == "[]" then some [] else (ops.splitOn ",").mapM fun o =>
        match o.toList with
        | c :: rest => (unhexStr (String.ofList rest)).map fun v => (c, v)
        | [] => none) with
      | some l, some ops =>
        let start : List Str := l.foldl setAdd []
        let r : Except String (List Str) := ops.foldl (fun acc (cv : Char × Str) =>
          match acc with
          | .error e => .error e
          | .ok s =>
            if cv.1 == 'a' then .ok (setAdd s cv.2)
            else if cv.1 == 'd' then .ok (setDiscard s cv.2)
            else setRemove s cv.2) (.ok start)
        outExc (outList hexStr) r
      | _, _ => badArgs)
  | "pre.dictops", [l, ops] =>
    -- dict built from the `k=v` pairs of l by item assignment, then a sequence of operations:
    -- `s<k>=<v>` d[k] = v, `d<k>` d.pop(k, None) / del, `p<k>` d.pop(k) (KeyError), `g<k>` d[k] (KeyError),
    -- `P<k>` d.pop(k, "?"), `i<k>` d.popitem() (KeyError), `o<k>` d = dict(list(d.items()) + [(k, "1"), (k, "2")]);
    -- output: the results of g / p followed by the final items
    some (match (if l == "[]" then some [] else (l.splitOn ",").mapM fun kv =>
        match kv.splitOn "=" with
        | [k, v] => match unhexStr k, unhexStr v with | some k, some v => some (k, v) | _, _ => none
        | _ => none),
      (if ops == "[]" then some [] else (ops.splitOn ",").mapM fun o =>
        match o.toList with
        | c :: rest =>
          match (String.ofList rest).splitOn "=" with
          | [k] => (unhexStr k).map fun k => (c, k, ([] : Str))
          | [k, v] => match unhexStr k, unhexStr v with | some k, some v => some (c, k, v) | _, _ => none
          | _ => none
        | [] => none) with
      | some l, some ops =>
        let start : List (Str × Str) := l.foldl (fun d kv => dictSet d kv.1 kv.2) []
        let r : Except String (List String × List (Str × Str)) := ops.foldl (fun acc (o : Char × Str × Str) =>
          match acc with
          | .error e => .error e
          | .ok (outs, d) =>
            if o.1 == 's' then .ok (outs, dictSet d o.2.1 o.2.2)
            else if o.1 == 'd' then .ok (outs, dictDel d o.2.1)
            else if o.1 == 'h' then .ok (outs ++ [outBool (dictHas d o.2.1)], d)
            else if o.1 == 'q' then .ok (outs ++ [hexStr (dictGetD d o.2.1 ['?'])], d)
            else if o.1 == 'p' then
              match dictPop d o.2.1 with
              | .ok (v, d') => .ok (outs ++ [hexStr v], d')
              | .error e => .error e
            else if o.1 == 'P' then
              let r := dictPopD d o.2.1 ['?']
              .ok (outs ++ [hexStr r.1], r.2)
            else if o.1 == 'i' then
              match dictPopitem d with
              | .ok (kv, d') => .ok (outs ++ [hexStr kv.1 ++ "=" ++ hexStr kv.2], d')
              | .error e => .error e
            else if o.1 == 'u' then .ok (outs, dictUpdate d [(o.2.1, o.2.2), (['n', 'e', 'w'], o.2.2), (o.2.1, ['z'])])
            else if o.1 == 'o' then .ok (outs, dictOfPairs (d ++ [(o.2.1, ['1']), (o.2.1, ['2'])]))
            else
              match dictGetItem d o.2.1 with
              | .ok v => .ok (outs ++ [hexStr v], d)
              | .error e => .error e) (.ok ([], start))
        outExc (fun (p : List String × List (Str × Str)) =>
          outList id p.1 ++ "|" ++ outList (fun (kv : Str × Str) => hexStr kv.1 ++ "=" ++ hexStr kv.2) (dictItems p.2)
            ++ "|" ++ outList hexStr (dictKeys p.2) ++ "|" ++ outList hexStr (dictValues p.2)) r
      | _, _ => badArgs)
  | "pre.encutf8", args => str1 (fun s => hex (encodeUtf8 s)) args
  | "pre.enclatin1", args => str1 (fun s => outExc hex (encodeLatin1 s)) args
  | "pre.utf8latin1", args => str1 (fun s => hexStr (utf8ThenLatin1 s)) args
  | "pre.decutf8replace", [b] => some (match unhex b with | some b => hexStr (decodeUtf8Replace b) | none => badArgs)
  | "pre.sorted", [l] => some (match strList l with | some l => outList hexStr (sortedStr l) | none => badArgs)
  | "pre.frozenset", [l] => some (match strList l with | some l => outList hexStr (frozenset l) | none => badArgs)
  | "pre.splitwsonce", args =>
    str1 (fun s => outExc (fun (a, b) => hexStr a ++ "|" ++ hexStr b) (splitWsOnce s)) args
  | "pre.enumerate", [l] =>
    some (match strList l with
      | some l => outList (fun (p : Int × Str) => toString p.1 ++ ":" ++ hexStr p.2) (enumerate l)
      | none => badArgs)
  | "pre.unpack", [l, n] =>
    some (match strList l, intArg n with
      | some l, some n =>
        if n == 2 then outExc (fun (p : Str × Str) => hexStr p.1 ++ "|" ++ hexStr p.2) (unpack2 l)
        else outExc out3 (unpack3 l)
      | _, _ => badArgs)
  | "pre.bytearray", [n, b] =>
    some (match intArg n, unhex b with
      | some n, some b => hex (bytesExtend (bytearrayZeros n) b)
      | _, _ => badArgs)
  | "pre.plainint", args => str1 (fun s => outExc outInt (plainInt s)) args
  | "pre.plainintre", args => str1 (fun s => outBool (plainIntReFullmatch s).isSome) args
  | "pre.pyint", args => str1 (fun s => outExc outInt (pyIntPlain s)) args
  | _, _ => none

end Wz.Driver.PyPrelude
