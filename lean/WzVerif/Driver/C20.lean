import WzVerif.Driver.Proto
import WzVerif.Model.Debugger
import WzVerif.Driver.PyPrelude
namespace Wz.Driver.C20
open Wz Wz.Proto Wz.Dbg

/-- comma separated hex strings, `[]` = empty list -/
def strList (s : String) : Option (List (List Char)) :=
  if s == "[]" then some [] else (s.splitOn ",").mapM unhexStr

/-- `in:out,in:!,...` — the answers of CPython's idna codec for the strings of this case -/
def idnaTable (s : String) : Option (List (List Char × Option (List Char))) :=
  if s == "[]" then some [] else
  (s.splitOn ",").mapM fun p =>
    match p.splitOn ":" with
    | [a, b] =>
      match unhexStr a with
      | some a => if b == "!" then some (a, none) else (unhexStr b).map fun b => (a, some b)
      | none => none
    | _ => none

def idnaOf (tbl : List (List Char × Option (List Char))) : Idna := fun s =>
  match tbl.find? (fun p => p.1 == s) with
  | some (_, some r) => .ok r
  | some (_, none) => .error "UnicodeError"
  | none => .error "MISSING-IDNA"

def attempts (s : String) : Option (List Attempt) :=
  if s == "-" then some [] else
  s.toList.mapM fun c =>
    if c == 'r' then some Attempt.right else if c == 'w' then some .wrong
    else if c == 's' then some .stale else none

def acts (s : String) : Option (List Act) :=
  if s == "-" then some [] else
  s.toList.mapM fun c =>
    match c with
    | 'r' => some Act.right | 'w' => some .wrong | 's' => some .stale | 'c' => some .change
    | 'u' => some .reuse | 'e' => some .eval | _ => none

def showPin (r : PinResult) : Char :=
  if r.auth then 'a' else if r.exhausted then 'x' else 'f'

def cmdArg : String → Option Cmd
  | "none" => some .none | "resource" => some .resource | "pinauth" => some .pinauth
  | "printpin" => some .printpin | "other" => some .other | _ => none

def secretArg : String → Option Secret
  | "right" => some .right | "wrong" => some .wrong | "absent" => some .absent | _ => none

def cookieArg : String → Option Cookie
  | "valid" => some .valid | "expired" => some .expired | "wronghash" => some .wrongHash
  | "malformed" => some .malformed | "absent" => some .absent | _ => none

def handle : Handler
  | "host.trusted", [host, trusted, tbl] =>
    match optArg unhexStr host, strList trusted, idnaTable tbl with
    | some host, some trusted, some tbl => some (outBool (hostIsTrusted (idnaOf tbl) host trusted))
    | _, _, _ => some badArgs
  | "host.get", [scheme, host, sname, sport, trusted, tbl] =>
    match unhexStr scheme, optArg unhexStr host, optArg unhexStr sname, optArg natArg sport,
        optArg strList trusted, idnaTable tbl with
    | some scheme, some host, some sname, some sport, some trusted, some tbl =>
      let server := sname.map fun n => (n, sport)
      some (match getHost (idnaOf tbl) scheme host server trusted with
        | .ok h => hexStr h
        | .error e => "EXC:" ++ e)
    | _, _, _, _, _, _ => some badArgs
  | "pin.history", [start, h] =>
    match natArg start, attempts h with
    | some start, some h =>
      let (rs, f) := runHistory failPinAuth (UInt8.ofNat start) h
      some (String.ofList (rs.map showPin) ++ "|" ++ toString f.toNat)
    | _, _ => some badArgs
  | "pin.session", [h] =>
    match acts h with
    | some h =>
      let (os, st) := runSession {} h
      let showObs : Obs → Char
        | .pin r => showPin r
        | .evalRan true => 'E'
        | .evalRan false => 'e'
        | .changed => 'c'
      some (String.ofList (os.map showObs) ++ "|" ++ toString st.failed.toNat)
    | none => some badArgs
  | "dbg.dispatch", [evalex, pinOn, failed, dbg, cmd, hasArg, secret, frame, hostOk, cookie, pinRight, atConsole] =>
    match boolArg evalex, boolArg pinOn, natArg failed, boolArg dbg, cmdArg cmd, boolArg hasArg, secretArg secret,
        boolArg frame, boolArg hostOk, cookieArg cookie, boolArg pinRight, boolArg atConsole with
    | some evalex, some pinOn, some failed, some dbg, some cmd, some hasArg, some secret, some frame, some hostOk,
        some cookie, some pinRight, some atConsole =>
      let (o, f) := dispatch { evalex := evalex, pinOn := pinOn } (UInt8.ofNat failed)
        { debugger := dbg, cmd := cmd, hasArg := hasArg, secret := secret, frameKnown := frame,
          hostTrusted := hostOk, cookie := cookie, pinRight := pinRight, atConsole := atConsole }
      some (toString (outcomeCode o) ++ "|" ++ toString f.toNat)
    | _, _, _, _, _, _, _, _, _, _, _, _ => some badArgs
  | "dbg.pintrust", [pinTime, pinHash, cookie, now, tsval] =>
    -- `tsval`: what Python's int() makes of the text before the first `|` (`!` = ValueError, `~` = not asked)
    match intArg pinTime, optArg unhexStr pinHash, optArg unhexStr cookie, intArg now,
        (if tsval == "!" || tsval == "~" then some none else (intArg tsval).map some) with
    | some pinTime, some pinHash, some cookie, some now, some tsval =>
      some (match checkPinTrustRaw (fun _ => tsval) pinTime pinHash cookie now with
        | .yes => "True" | .no => "False" | .bad => "None")
    | _, _, _, _, _ => some badArgs
  | cmd, args => Wz.Driver.PyPrelude.handle cmd args  -- `pre.*`: primitives of Util/PyPrelude

end Wz.Driver.C20
