import WzVerif.Driver.Proto
import WzVerif.Model.Local
import WzVerif.Model.LocalLife
import WzVerif.Model.LocalProxy
namespace Wz.Driver.C18
open Wz Wz.Proto Wz.Local

/-
`trace <op> <op> ...` replays an interleaving on the heap model and prints, after every step, the
step's result and what every context observes. Ops are comma separated:
  set,c,v,k,b   get,c,v,k   del,c,v,k   iter,c,v   push,c,v,b   pop,c,v   top,c,v   rel,c,v
  spawn,p   fresh   pnew,c,attr,v,k | pnew,c,top,v   pget,c,i   pmut,c,i,f   pdrop,c,i
  pnew,c,topattr,v | pnew,c,cvar,j | pnew,c,cvarattr,j | pnew,c,const,b | pnew,c,constattr,b |
  pnew,c,via,i | pnew,c,viaattr,i      cvset,c,j,b      plook,c,i,<special method name>
  new,c,v   drop,c,v   gc,c   cleanup,c[,variant]   mnew,c,form,v...   mclean,c,k,how
`v` names a *slot*: slots 0 and 2 hold `Local`s, slot 1 a `LocalStack`; `new` puts a newly constructed
instance into the slot (the previous one is dropped), `drop` empties it. Instances are created with
the policy of the constructor extracted from local.py (`Gen.LocalOps.localCtor` / `stackCtor`).
Values are box ids; a box has one mutable field (driver-level state: the model's values are opaque
tokens).
-/

def ctorPolicy (isStack : Bool) : VarPolicy :=
  (if isStack then Gen.LocalOps.stackCtor else Gen.LocalOps.localCtor).policy

def isStack (v : Nat) : Bool := v == 1

/-- three instances in three slots; addresses are the handles (never re-used by the driver: under
the extracted policy the address is irrelevant - `fresh_local_unbound`) -/
def lwInit : LWorld :=
  lrun LWorld.init [.create (ctorPolicy false) 0 false, .create (ctorPolicy true) 1 true,
    .create (ctorPolicy false) 2 false]

structure St where
  lw : LWorld := lwInit
  slots : List (Option Nat) := [some 0, some 1, some 2]
  fields : List (Nat × Nat) := []
  proxies : Array (Option PSrc) := #[]
  /-- `LocalManager` objects: the instances in `.locals` -/
  managers : Array (List Nat) := #[]

def St.w (st : St) : World := st.lw.w

def St.handle (st : St) (slot : Nat) : Option Nat := (st.slots[slot]?).join

/-- the storage cell behind a slot -/
def St.var (st : St) (slot : Nat) : Option Nat := do
  let h ← st.handle slot
  let i ← st.lw.inst? h
  pure i.var

def field (st : St) (b : Nat) : Nat := fieldOf st.fields b

/-- value tokens stand for payload objects of eight kinds (`b % 8`, mirrored in harness/c18.py):
0 Box, 1 `{}`, 2 `[]`, 3 a Box whose `__bool__` is False, 4 an object with `__len__() == 0`,
5 falsy immutable scalars, 6 empty immutable containers, 7 equal-but-distinct truthy scalars -/
def kind (b : Nat) : Nat := b % 8

def isScalar (b : Nat) : Bool := kind b ≥ 5

/-- canonical name of a value: its id, or the pool slot of an (identity-less) scalar -/
def vname (b : Nat) : String :=
  if isScalar b then s!"s{(b / 8) % 4 + (kind b - 5) * 4}" else toString b

/-- is the payload object falsy right now? (an emptied-or-never-filled dict / list is, a filled one
is not; kinds 3-6 always are) -/
def falsyOf (st : St) (b : Nat) : Bool :=
  match kind b with
  | 0 => false
  | 1 => field st b == 0
  | 2 => field st b == 0
  | 7 => false
  | _ => true

/-- `attrgetter("peer")` on a payload: boxes (kinds 0, 3, 4) have a peer (id + 64), nothing else has -/
def attrOf (b : Nat) : Option Nat := if kind b == 0 || kind b == 3 || kind b == 4 then some (b + 64) else none

def box (st : St) (b : Nat) : String := s!"{vname b}:{if isScalar b then 0 else field st b}"

/-- mutate a payload object in place (attribute / item / append); scalars are immutable -/
def mutateVal (st : St) (b f : Nat) : St × String :=
  if isScalar b then (st, "immutable") else ({ st with fields := (b, f) :: st.fields }, "ok")

def items (st : St) (kv : List (Nat × Nat)) : String :=
  if kv.isEmpty then "-" else ",".intercalate (kv.map fun (k, b) => s!"{k}={box st b}")

def boxes (st : St) (xs : List Nat) : String :=
  if xs.isEmpty then "-" else "+".intercalate (xs.map (box st))

def res (st : St) : Res → String
  | .none => "None"
  | .val b => box st b
  | .items kv => items st kv
  | .list xs => boxes st xs
  | .attrError => "AttributeError"
  | .stuck => "STUCK"

/-- a method call through the instance in slot `v` -/
def call (st : St) (c v : Nat) (p : Prog) (a : Args) : St × String :=
  match st.handle v, st.var v with
  | some h, some x =>
    let r := (runProg st.w c x a p).2
    ({ st with lw := lstep st.lw (.call c h p a) }, res st r)
  | _, _ => (st, "nolocal")

def obsCtx (st : St) (c : Nat) : String :=
  let l0 := if (st.handle 0).isSome then (call st c 0 Gen.LocalOps.localIter {}).2 else "~"
  let l2 := if (st.handle 2).isSome then (call st c 2 Gen.LocalOps.localIter {}).2 else "~"
  let s1 := if (st.handle 1).isSome then (call st c 1 Gen.LocalOps.stackTop {}).2 else "~"
  s!"L{l0}M{l2}S{s1}"

def setSlot (st : St) (slot : Nat) (h : Option Nat) : St :=
  { st with slots := st.slots.set slot h }

/-- the slot gives up its instance; the instance is gone (`drop`: last reference) unless a
`LocalManager` still holds it (proxies refer to the storage cell and keep working either way) -/
def dropSlot (st : St) (slot : Nat) : St :=
  match st.handle slot with
  | some h =>
    if st.managers.any (·.contains h) then setSlot st slot none
    else setSlot { st with lw := lstep st.lw (.drop h) } slot none
  | none => st

def releaseSlot (st : St) (c slot : Nat) : St :=
  (call st c slot (if isStack slot then Gen.LocalOps.stackRelease else Gen.LocalOps.localRelease) {}).1

def obsAll (st : St) : String := "/".intercalate ((List.range st.w.nctx).map (obsCtx st))

def step (st : St) (op : List String) : Option (St × String) :=
  match op with
  | ["set", c, v, k, b] => do
    let c ← c.toNat?; let v ← v.toNat?; let k ← k.toNat?; let b ← b.toNat?
    let (st, r) := call st c v Gen.LocalOps.localSetattr { key := k, val := b }
    pure (st, if r == "None" then "ok" else r)
  | ["get", c, v, k] => do
    let c ← c.toNat?; let v ← v.toNat?; let k ← k.toNat?
    pure (call st c v Gen.LocalOps.localGetattr { key := k })
  | ["del", c, v, k] => do
    let c ← c.toNat?; let v ← v.toNat?; let k ← k.toNat?
    let (st, r) := call st c v Gen.LocalOps.localDelattr { key := k }
    pure (st, if r == "None" then "ok" else r)
  | ["iter", c, v] => do
    let c ← c.toNat?; let v ← v.toNat?
    pure (call st c v Gen.LocalOps.localIter {})
  | ["push", c, v, b] => do
    let c ← c.toNat?; let v ← v.toNat?; let b ← b.toNat?
    pure (call st c v Gen.LocalOps.stackPush { val := b })
  | ["pop", c, v] => do
    let c ← c.toNat?; let v ← v.toNat?
    pure (call st c v Gen.LocalOps.stackPop {})
  | ["top", c, v] => do
    let c ← c.toNat?; let v ← v.toNat?
    pure (call st c v Gen.LocalOps.stackTop {})
  | ["rel", c, v] => do
    let c ← c.toNat?; let v ← v.toNat?
    if (st.handle v).isNone then pure (st, "nolocal") else
    pure (releaseSlot st c v, "ok")
  | ["cleanup", c] => do
    -- LocalManager.cleanup: release_local on every managed local (here: every live slot)
    let c ← c.toNat?
    pure (releaseSlot (releaseSlot (releaseSlot st c 0) c 1) c 2, "ok")
  | ["cleanup", c, variant] => do
    let c ← c.toNat?; let variant ← variant.toNat?
    -- variant 3: `LocalManager(<the Local in slot 0>)` manages that single local
    if variant == 3 then pure (releaseSlot st c 0, "ok") else
    pure (releaseSlot (releaseSlot (releaseSlot st c 0) c 1) c 2, "ok")
  | "mnew" :: _ :: _form :: slots => do
    -- LocalManager(<one Local> | <list> | <tuple> | <iterator>) / LocalManager() + .locals.append:
    -- in every form the manager holds exactly the instances passed (`manager_constructor_forms`)
    let hs ← slots.mapM fun s => do let v ← s.toNat?; st.handle v
    pure ({ st with managers := st.managers.push hs }, s!"m{st.managers.size}")
  | ["mclean", c, k, _how] => do
    -- manager.cleanup(), directly or when the response iterable of the WSGI middleware is closed
    let c ← c.toNat?; let k ← k.toNat?
    let hs ← st.managers[k]?
    if c < st.w.nctx then pure ({ st with lw := cleanupRun st.lw c hs }, "ok") else none
  | ["new", _, v] => do
    let v ← v.toNat?
    let st := dropSlot st v
    let h := st.lw.insts.length
    let st := { st with lw := lstep st.lw (.create (ctorPolicy (isStack v)) h (isStack v)) }
    pure (setSlot st v (some h), s!"h{h}")
  | ["drop", _, v] => do
    let v ← v.toNat?
    if (st.handle v).isNone then pure (st, "nolocal") else
    pure (dropSlot st v, "ok")
  | ["gc", _] => pure ({ st with lw := lstep st.lw .gc }, "ok")
  | ["spawn", p] => do
    let p ← p.toNat?
    pure ({ st with lw := lstep st.lw (.copyCtx p) }, s!"ctx{st.w.nctx}")
  | ["fresh"] => pure ({ st with lw := lstep st.lw .freshCtx }, s!"ctx{st.w.nctx}")
  | ["pnew", _, "attr", v, k] => do
    let v ← v.toNat?; let k ← k.toNat?
    let x ← st.var v
    pure ({ st with proxies := st.proxies.push (some (.localAttr x k)) }, s!"p{st.proxies.size}")
  | ["pnew", _, how, a] => do
    let a ← a.toNat?
    let src : PSrc ← match how with
      | "top" => (st.var a).map (.stackTop · false)
      | "topattr" => (st.var a).map (.stackTop · true)
      | "cvar" => some (.cvar a false)
      | "cvarattr" => some (.cvar a true)
      | "const" => some (.const a false)
      | "constattr" => some (.const a true)
      | "via" => ((st.proxies[a]?).join).map (.via · false)
      | "viaattr" => ((st.proxies[a]?).join).map (.via · true)
      | _ => none
    pure ({ st with proxies := st.proxies.push (some src) }, s!"p{st.proxies.size}")
  | ["pdrop", _, i] => do
    let i ← i.toNat?
    let _ ← (st.proxies[i]?).join
    pure ({ st with proxies := st.proxies.set! i none }, "ok")
  | ["cvset", c, j, b] => do
    let c ← c.toNat?; let j ← j.toNat?; let b ← b.toNat?
    pure ({ st with lw := lstep st.lw (.cvSet c j b) }, "ok")
  | ["pget", c, i] => do
    let c ← c.toNat?; let i ← i.toNat?
    let p ← (st.proxies[i]?).join
    match resolveP attrOf (falsyOf st) st.lw c p with
    | .obj b => pure (st, s!"{box st b},{if falsyOf st b then "False" else "True"},Box")
    | .unbound => pure (st, "RuntimeError,False,unbound")
    | .attrError => pure (st, "AttributeError")
  | ["pmut", c, i, f] => do
    let c ← c.toNat?; let i ← i.toNat?; let f ← f.toNat?
    let p ← (st.proxies[i]?).join
    match mutateVia attrOf (falsyOf st) st.lw st.fields c p f with
    | (fs, .obj b) => pure (if isScalar b then (st, "immutable") else ({ st with fields := fs }, "ok"))
    | (_, .unbound) => pure (st, "RuntimeError")
    | (_, .attrError) => pure (st, "AttributeError")
  | ["plook", c, i, name] => do
    let c ← c.toNat?; let i ← i.toNat?
    let p ← (st.proxies[i]?).join
    let e ← findEntry name
    let r := resolveP attrOf (falsyOf st) st.lw c p
    let unboundOnly := ["__repr__", "__bool__", "__doc__", "__wrapped__", "__class__"].contains name
    match lookupGet e r with
    | .runtimeError => pure (st, "RuntimeError")
    | .attrError => pure (st, "AttributeError")
    | .fallback v => pure (st, s!"fallback:{v}")
    | .forward b =>
      pure (st, if unboundOnly || (attrOf b).isNone then "skip" else s!"fwd:{box st b}")
    | .forwardKeepProxy b =>
      pure (st, if unboundOnly || (attrOf b).isNone then "skip" else s!"keep:{box st b}")
  | ["amut", c, v, k, f] => do
    -- mutate through the attribute value that was read
    let c ← c.toNat?; let v ← v.toNat?; let k ← k.toNat?; let f ← f.toNat?
    let some v := st.var v | pure (st, "nolocal")
    match (runProg st.w c v { key := k } Gen.LocalOps.localGetattr).2 with
    | .val b => pure (mutateVal st b f)
    | _ => pure (st, "AttributeError")
  | ["tmut", c, v, f] => do
    -- mutate through what `top` returned
    let c ← c.toNat?; let v ← v.toNat?; let f ← f.toNat?
    let some v := st.var v | pure (st, "nolocal")
    match (runProg st.w c v {} Gen.LocalOps.stackTop).2 with
    | .val b => pure (mutateVal st b f)
    | _ => pure (st, "None")
  | _ => none

def drainCtx (st : St) (c : Nat) : Nat → St → List String → St × List String
  | 0, s, acc => (s, acc.reverse)
  | fuel + 1, s, acc =>
    let (s', r) := call s c 1 Gen.LocalOps.stackPop {}
    if r == "None" || r == "nolocal" then (s', acc.reverse) else drainCtx st c fuel s' (r :: acc)

def trace (ops : List String) : String := Id.run do
  let mut st : St := {}
  let mut out : Array String := #[]
  for o in ops do
    match step st (o.splitOn ",") with
    | some (st', r) =>
      st := st'
      out := out.push (r ++ "|" ++ obsAll st)
    | none => return "BAD-OP " ++ o
  -- finally pop every stack empty, context by context
  let mut drains : Array String := #[]
  for c in List.range st.w.nctx do
    let (st', ds) := drainCtx st c 64 st []
    st := st'
    drains := drains.push (if ds.isEmpty then "-" else "+".intercalate ds)
  out := out.push ("drain|" ++ "/".intercalate drains.toList)
  return ";".intercalate out.toList

def handle : Handler
  | "trace", ops => some (trace ops)
  | _, _ => none

end Wz.Driver.C18
