import WzVerif.Driver.Proto
import WzVerif.Model.Local
namespace Wz.Driver.C18
open Wz Wz.Proto Wz.Local

/-
`trace <op> <op> ...` replays an interleaving on the heap model and prints, after every step, the
step's result and what every context observes. Ops are comma separated:
  set,c,v,k,b   get,c,v,k   del,c,v,k   iter,c,v   push,c,v,b   pop,c,v   top,c,v   rel,c,v
  spawn,p   fresh   pnew,c,attr,v,k | pnew,c,top,v   pget,c,i   pmut,c,i,f
Vars: 0 and 2 are `Local`s, 1 is a `LocalStack`. Values are box ids; a box has one mutable field
(driver-level state: the model's values are opaque tokens).
-/

structure St where
  w : World := World.init
  fields : List (Nat × Nat) := []
  proxies : Array Proxy := #[]

def field (st : St) (b : Nat) : Nat := ((st.fields.find? fun p => p.1 == b).map (·.2)).getD 0

/-- value tokens stand for payload objects of eight kinds (`b % 8`, mirrored in harness/c18.py):
0 Box, 1 `{}`, 2 `[]`, 3 a Box whose `__bool__` is False, 4 an object with `__len__() == 0`,
5 falsy immutable scalars, 6 empty immutable containers, 7 equal-but-distinct truthy scalars -/
def kind (b : Nat) : Nat := b % 8

def isScalar (b : Nat) : Bool := kind b ≥ 5

/-- canonical name of a value: its id, or the pool slot of an (identity-less) scalar -/
def vname (b : Nat) : String :=
  if isScalar b then s!"s{(b / 8) % 4 + (kind b - 5) * 4}" else toString b

/-- is the payload object falsy right now? (an emptied-or-never-filled dict / list is, a filled one
is not; kinds 3-6 always are) -/
def falsyOf (st : St) (b : Nat) : Bool :=
  match kind b with
  | 0 => false
  | 1 => field st b == 0
  | 2 => field st b == 0
  | 7 => false
  | _ => true

def box (st : St) (b : Nat) : String := s!"{vname b}:{if isScalar b then 0 else field st b}"

/-- mutate a payload object in place (attribute / item / append); scalars are immutable -/
def mutateVal (st : St) (b f : Nat) : St × String :=
  if isScalar b then (st, "immutable") else ({ st with fields := (b, f) :: st.fields }, "ok")

def items (st : St) (kv : List (Nat × Nat)) : String :=
  if kv.isEmpty then "-" else ",".intercalate (kv.map fun (k, b) => s!"{k}={box st b}")

def boxes (st : St) (xs : List Nat) : String :=
  if xs.isEmpty then "-" else "+".intercalate (xs.map (box st))

def res (st : St) : Res → String
  | .none => "None"
  | .val b => box st b
  | .items kv => items st kv
  | .list xs => boxes st xs
  | .attrError => "AttributeError"
  | .stuck => "STUCK"

def isStack (v : Nat) : Bool := v == 1

def call (st : St) (c v : Nat) (p : Prog) (a : Args) : St × String :=
  let r := (runProg st.w c v a p).2
  ({ st with w := stepEvent st.w (.call c v p a) }, res st r)

def obsCtx (st : St) (c : Nat) : String :=
  let l0 := (call st c 0 Gen.LocalOps.localIter {}).2
  let l2 := (call st c 2 Gen.LocalOps.localIter {}).2
  let s1 := (call st c 1 Gen.LocalOps.stackTop {}).2
  s!"L{l0}M{l2}S{s1}"

def obsAll (st : St) : String := "/".intercalate ((List.range st.w.nctx).map (obsCtx st))

def step (st : St) (op : List String) : Option (St × String) :=
  match op with
  | ["set", c, v, k, b] => do
    let c ← c.toNat?; let v ← v.toNat?; let k ← k.toNat?; let b ← b.toNat?
    let (st, _) := call st c v Gen.LocalOps.localSetattr { key := k, val := b }
    pure (st, "ok")
  | ["get", c, v, k] => do
    let c ← c.toNat?; let v ← v.toNat?; let k ← k.toNat?
    pure (call st c v Gen.LocalOps.localGetattr { key := k })
  | ["del", c, v, k] => do
    let c ← c.toNat?; let v ← v.toNat?; let k ← k.toNat?
    let (st, r) := call st c v Gen.LocalOps.localDelattr { key := k }
    pure (st, if r == "None" then "ok" else r)
  | ["iter", c, v] => do
    let c ← c.toNat?; let v ← v.toNat?
    pure (call st c v Gen.LocalOps.localIter {})
  | ["push", c, v, b] => do
    let c ← c.toNat?; let v ← v.toNat?; let b ← b.toNat?
    pure (call st c v Gen.LocalOps.stackPush { val := b })
  | ["pop", c, v] => do
    let c ← c.toNat?; let v ← v.toNat?
    pure (call st c v Gen.LocalOps.stackPop {})
  | ["top", c, v] => do
    let c ← c.toNat?; let v ← v.toNat?
    pure (call st c v Gen.LocalOps.stackTop {})
  | ["rel", c, v] => do
    let c ← c.toNat?; let v ← v.toNat?
    let (st, _) := call st c v (if isStack v then Gen.LocalOps.stackRelease else Gen.LocalOps.localRelease) {}
    pure (st, "ok")
  | ["cleanup", c] => do
    -- LocalManager.cleanup: release_local on every managed local
    let c ← c.toNat?
    let (st, _) := call st c 0 Gen.LocalOps.localRelease {}
    let (st, _) := call st c 1 Gen.LocalOps.stackRelease {}
    let (st, _) := call st c 2 Gen.LocalOps.localRelease {}
    pure (st, "ok")
  | ["spawn", p] => do
    let p ← p.toNat?
    pure ({ st with w := stepEvent st.w (.copyCtx p) }, s!"ctx{st.w.nctx}")
  | ["fresh"] => pure ({ st with w := stepEvent st.w .freshCtx }, s!"ctx{st.w.nctx}")
  | ["pnew", _, "attr", v, k] => do
    let v ← v.toNat?; let k ← k.toNat?
    pure ({ st with proxies := st.proxies.push (.attr v k) }, s!"p{st.proxies.size}")
  | ["pnew", _, "top", v] => do
    let v ← v.toNat?
    pure ({ st with proxies := st.proxies.push (.top v) }, s!"p{st.proxies.size}")
  | ["pget", c, i] => do
    let c ← c.toNat?; let i ← i.toNat?
    let p ← st.proxies[i]?
    let pv := proxyViewSrc (falsyOf st) st.w c p
    let o := match pv.obj with | some b => box st b | none => "RuntimeError"
    pure (st, s!"{o},{if pv.truthy then "True" else "False"},{if pv.fallbackRepr then "unbound" else "Box"}")
  | ["pmut", c, i, f] => do
    let c ← c.toNat?; let i ← i.toNat?; let f ← f.toNat?
    let p ← st.proxies[i]?
    match resolveSrc (falsyOf st) st.w c p with
    | some b => pure (mutateVal st b f)
    | none => pure (st, "RuntimeError")
  | ["amut", c, v, k, f] => do
    -- mutate through the attribute value that was read
    let c ← c.toNat?; let v ← v.toNat?; let k ← k.toNat?; let f ← f.toNat?
    match (runProg st.w c v { key := k } Gen.LocalOps.localGetattr).2 with
    | .val b => pure (mutateVal st b f)
    | _ => pure (st, "AttributeError")
  | ["tmut", c, v, f] => do
    -- mutate through what `top` returned
    let c ← c.toNat?; let v ← v.toNat?; let f ← f.toNat?
    match (runProg st.w c v {} Gen.LocalOps.stackTop).2 with
    | .val b => pure (mutateVal st b f)
    | _ => pure (st, "None")
  | _ => none

def drainCtx (st : St) (c : Nat) : Nat → St → List String → St × List String
  | 0, s, acc => (s, acc.reverse)
  | fuel + 1, s, acc =>
    let (s', r) := call s c 1 Gen.LocalOps.stackPop {}
    if r == "None" then (s', acc.reverse) else drainCtx st c fuel s' (r :: acc)

def trace (ops : List String) : String := Id.run do
  let mut st : St := {}
  let mut out : Array String := #[]
  for o in ops do
    match step st (o.splitOn ",") with
    | some (st', r) =>
      st := st'
      out := out.push (r ++ "|" ++ obsAll st)
    | none => return "BAD-OP " ++ o
  -- finally pop every stack empty, context by context
  let mut drains : Array String := #[]
  for c in List.range st.w.nctx do
    let (st', ds) := drainCtx st c 64 st []
    st := st'
    drains := drains.push (if ds.isEmpty then "-" else "+".intercalate ds)
  out := out.push ("drain|" ++ "/".intercalate drains.toList)
  return ";".intercalate out.toList

def handle : Handler
  | "trace", ops => some (trace ops)
  | _, _ => none

end Wz.Driver.C18
