import WzVerif.Driver.Proto
import WzVerif.Model.RoutingWire
import WzVerif.Model.RoutingSched
namespace Wz.Driver.C03
open Wz Wz.Proto Wz.Routing Wz.Routing.Wire

def outPartOn (target : Str) : Part → String
  | .static c => "S:" ++ hexStr c
  | .dyn pre kind post final suffixed w =>
    "D:" ++ outBool final ++ ":" ++ outBool suffixed ++ ":" ++ outWeight w ++ ":" ++
      (match matchDyn pre kind post suffixed target with
       | some (v, sl) => hexStr v ++ "/" ++ outBool sl
       | none => "~")

/-- forced schedule over the generated `Map.update` / `Map.add` programs. `acts`: one action per thread (separated by `!`),
`A<n>` = `add()` of a factory with `n` rules (the last rules of the map, in thread order), anything else
a request whose single-threaded outcome `predict` computes. Answer: the events of the grants, then per
thread `A` | `~` (still inside `update()`) | the predicted outcome when the thread left `update()` with
both structures sorted | `UNSORTED`; then whether every thread has finished. -/
def schedCmd (predict : String → String) (nrules : Nat) (acts grants : String) : String :=
  let as := splitStr acts "!"
  let kinds : List (Option Nat) := as.map fun a =>
    if a.startsWith "A" then some ((a.drop 1).toString.toNat?.getD 0) else none
  let added := (kinds.map (·.getD 0)).foldl (· + ·) 0
  let gs := (splitStr grants ",").filterMap (·.toNat?)
  let (evs, res, fin) := Wz.RoutingLock.schedRun (nrules - added) kinds gs
  let outs := (as.zip res).map fun (a, r) =>
    if a.startsWith "A" then "A"
    else match r with
      | none => "~"
      | some true => predict a
      | some false => "UNSORTED"
  outList id evs ++ " ; " ++ "|".intercalate outs ++ " ; " ++ outBool fin

/-- request action `M<hex path>:<hex method>` -/
def predictMatch (m : RMap) (a : Adapter) (qa : QueryArgs) (ws : Option Bool) (act : String) : String :=
  match (act.drop 1).toString.splitOn ":" with
  | [p, meth] =>
    match unhexStr p, unhexStr meth with
    | some p, some meth => outOutcome (matchAdapter m a p (some meth) qa ws)
    | _, _ => badArgs
  | _ => badArgs

/-- shared routing commands (also used by the C04 / C12 drivers) -/
def routing : Handler
  | "route.match", [m, a, path, method, qa, ws] =>
    match mapArg m, adapterArg a, unhexStr path, optArg unhexStr method, qaArg qa, optArg boolArg ws with
    | some (some m), some a, some path, some method, some qa, some ws =>
      some (outOutcome (matchAdapter m a path method qa ws))
    | some none, _, _, _, _, _ => some "UNSUPPORTED"
    | _, _, _, _, _, _ => some badArgs
  | "route.matchn", [m, a, qa, ws, probes] =>
    match mapArg m, adapterArg a, qaArg qa, optArg boolArg ws with
    | some (some m), some a, some qa, some ws =>
      let outs := (splitStr probes ",").map fun pr =>
        match pr.splitOn ":" with
        | [p, meth] =>
          match unhexStr p, unhexStr meth with
          | some p, some meth => outOutcome (matchAdapter m a p (some meth) qa ws)
          | _, _ => badArgs
        | _ => badArgs
      some ("|".intercalate outs)
    | some none, _, _, _ => some "UNSUPPORTED"
    | _, _, _, _ => some badArgs
  | "route.sched", [m, a, qa, ws, acts, grants] =>
    match mapArg m, adapterArg a, qaArg qa, optArg boolArg ws with
    | some (some m), some a, some qa, some ws =>
      some (schedCmd (predictMatch m a qa ws) m.rules.length acts grants)
    | some none, _, _, _ => some "UNSUPPORTED"
    | _, _, _, _ => some badArgs
  | "route.kernel", [m, target] =>
    match mapArg m, unhexStr target with
    | some (some m), some target =>
      some (outList (fun r => ";".intercalate (r.parts.map (outPartOn target))) m.rules)
    | some none, _ => some "UNSUPPORTED"
    | _, _ => some badArgs
  | "route.conv", [c, text] =>
    match convArg c, unhexStr text with
    | some c, some text =>
      some (outBool (regexAccepts c text) ++ " " ++ outOpt outValue (toPython c text))
    | _, _ => some badArgs
  | "route.build", [m, a, ep, vals, method, fe, au] =>
    match mapArg m, adapterArg a, unhexStr ep, valuesArg vals, optArg unhexStr method, boolArg fe, boolArg au with
    | some (some m), some a, some ep, some vals, some method, some fe, some au =>
      some (match adapterBuild m.cfg a m.rules ep vals method fe au with
            | .ok url => "U " ++ hexStr url
            | .error e => "EXC:" ++ e)
    | some none, _, _, _, _, _, _ => some "UNSUPPORTED"
    | _, _, _, _, _, _, _ => some badArgs
  | _, _ => none

def handle : Handler := routing

end Wz.Driver.C03
