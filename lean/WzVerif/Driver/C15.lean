import WzVerif.Driver.Proto
import WzVerif.Model.Url
import WzVerif.Model.UrlSplit
import WzVerif.Model.UrlEnviron
namespace Wz.Driver.C15
open Wz Wz.Proto Wz.Url

def keepOf (which : String) : Option (List Bool) :=
  match which with
  | "path" => some Gen.UrlTables.keepPath
  | "query" => some Gen.UrlTables.keepQuery
  | "fragment" => some Gen.UrlTables.keepFragment
  | "user" => some Gen.UrlTables.keepUser
  | _ => none

def parts (args : List String) : Option Parts :=
  match args with
  | [scheme, user, pw, host, port, path, query, fragment] => do
    let scheme ← unhexStr scheme
    let user ← optArg unhexStr user
    let pw ← optArg unhexStr pw
    let host ← unhexStr host
    let port ← optArg natArg port
    let path ← unhexStr path
    let query ← unhexStr query
    let fragment ← unhexStr fragment
    pure { scheme, username := user, password := pw, host, port, path, query, fragment }
  | _ => none

def split (s : Split) : String :=
  ",".intercalate [hexStr s.scheme, hexStr s.netloc, hexStr s.path, hexStr s.query, hexStr s.fragment]

/-- the opaque parameters as the harness evaluated them for this one URL: constant verdicts of
`_check_bracketed_host` / the NFKC test, and the host conversion at the raw host text -/
def opaqueOf (bracketOk nfkcOk : Bool) (raw : Str) (conv : Option Str) : UrlOpaque :=
  { bracketOk := fun _ => bracketOk, nfkcOk := fun _ => nfkcOk,
    hostToAscii := fun h => if h == raw then conv else none,
    hostToUnicode := fun h => if h == raw then conv else none }

def exc (r : Except String String) : String :=
  match r with
  | .ok s => s
  | .error e => "EXC:" ++ e

def handle : Handler
  | "urlsplit", [url, b, n] =>
    match unhexStr url, boolArg b, boolArg n with
    | some url, some b, some n =>
      let o := opaqueOf b n [] none
      some (exc (do
        let sp ← urlsplit o url
        let ui := userinfo sp.netloc
        let hi := hostinfo sp.netloc
        let port := match portOf sp.netloc with
          | .ok p => outOpt toString p
          | .error e => "EXC:" ++ e
        pure (split sp ++ "|" ++ outOpt hexStr ui.1 ++ "," ++ outOpt hexStr ui.2 ++ "," ++ hexStr hi.1
          ++ "," ++ port)))
    | _, _, _ => some badArgs
  -- environ <path> <base_url> <qs> <raw host of base_url> <its IDNA form|~> <raw host of HTTP_HOST> <its decoded form|~>
  | "environ", [path, base, qs, ra, ca, ru, cu, bo, no] =>
    match unhexStr path, unhexStr base, unhexStr qs, unhexStr ra, optArg unhexStr ca, unhexStr ru,
        optArg unhexStr cu, boolArg bo, boolArg no with
    | some path, some base, some qs, some ra, some ca, some ru, some cu, some bo, some no =>
      let o : UrlOpaque :=
        { bracketOk := fun _ => bo, nfkcOk := fun _ => no,
          hostToAscii := fun h => if h == ra then ca else if h == ru then some ru else none,
          hostToUnicode := fun h => if h == ru then cu else none }
      some (exc (do
        let e ← builderEnviron o path base qs
        let r ← requestView o e
        -- wsgi.get_current_url(environ) for the flag combinations, and the Request properties
        let w1 ← wsgiCurrentUrl o e false false false
        let w2 ← wsgiCurrentUrl o e false true false
        let w3 ← wsgiCurrentUrl o e true false false
        let w4 ← wsgiCurrentUrl o e false false true
        let w5 ← wsgiCurrentUrl o e true true true
        let (u1, u2, u3, u4) ← requestUrls o e
        pure (",".intercalate [hexStr e.pathInfo, hexStr e.scriptName, hexStr e.queryString, hexStr e.httpHost,
          hexStr e.urlScheme] ++ "|" ++ ",".intercalate [hexStr r.path, hexStr r.rootPath, hexStr r.host, hexStr r.url]
          ++ "|" ++ ",".intercalate [hexStr w1, hexStr w2, hexStr w3, hexStr w4, hexStr w5]
          ++ "|" ++ ",".intercalate [hexStr u1, hexStr u2, hexStr u3, hexStr u4])))
    | _, _, _, _, _, _, _, _, _ => some badArgs
  | "urlunsplit", [a, b, c, d, e] =>
    match unhexStr a, unhexStr b, unhexStr c, unhexStr d, unhexStr e with
    | some a, some b, some c, some d, some e =>
      some (hexStr (urlunsplit { scheme := a, netloc := b, path := c, query := d, fragment := e }))
    | _, _, _, _, _ => some badArgs
  | "iri2uri-url", [url, b, n, raw, conv] =>
    match unhexStr url, boolArg b, boolArg n, unhexStr raw, optArg unhexStr conv with
    | some url, some b, some n, some raw, some conv =>
      some (exc ((iriToUriText (opaqueOf b n raw conv) url).map hexStr))
    | _, _, _, _, _ => some badArgs
  | "uri2iri-url", [url, b, n, raw, conv] =>
    match unhexStr url, boolArg b, boolArg n, unhexStr raw, optArg unhexStr conv with
    | some url, some b, some n, some raw, some conv =>
      some (exc ((uriToIriText (opaqueOf b n raw conv) url).map hexStr))
    | _, _, _, _, _ => some badArgs
  | "quote", [safe, s] =>
    match unhexStr safe, unhexStr s with
    | some safe, some s => some (hexStr (quote safe s))
    | _, _ => some badArgs
  | "quotebytes", [safe, s] =>
    match unhexStr safe, unhex s with
    | some safe, some s => some (hexStr (quoteBytes safe s))
    | _, _ => some badArgs
  | "unquote", [s] =>
    match unhexStr s with
    | some s => some (hexStr (unquote s))
    | none => some badArgs
  | "unquoter", [s] =>
    match unhexStr s with
    | some s => some (hexStr (unquoteReplace s))
    | none => some badArgs
  | "envpath", [s] =>
    match unhexStr s with
    | some s =>
      let pi := environPathInfo s
      some (hexStr pi ++ "," ++ (match requestPath pi with | some r => hexStr r | none => "EXC:UnicodeEncodeError"))
    | none => some badArgs
  | "unquotepart", [which, s] =>
    match keepOf which, unhexStr s with
    | some k, some s => some (hexStr (unquotePartial k s))
    | _, _ => some badArgs
  | "iri2uri", args =>
    match parts args with
    | some p => some (split (iriToUri p))
    | none => some badArgs
  | "uri2iri", args =>
    match parts args with
    | some p => some (split (uriToIri p))
    | none => some badArgs
  | "encdance", [s] =>
    match unhexStr s with
    | some s => some (hexStr (encodingDance s))
    | none => some badArgs
  | "decdance", [s] =>
    match unhexStr s with
    | some s => some (match decodingDance s with | some r => hexStr r | none => "EXC:UnicodeEncodeError")
    | none => some badArgs
  | "dispatch", pi :: mounts =>
    match unhexStr pi, mounts.mapM unhexStr with
    | some pi, some ms =>
      let d := dispatch ms pi
      some (hexStr d.script ++ "," ++ hexStr d.pathInfo ++ "," ++ outOpt hexStr d.mount)
    | _, _ => some badArgs
  | _, _ => none

end Wz.Driver.C15
