import WzVerif.Driver.Proto
import WzVerif.Model.Url
import WzVerif.Model.UrlSplit
import WzVerif.Model.UrlEnviron
import WzVerif.Model.UrlBuilder
import WzVerif.Model.UrlProxyFix
import WzVerif.Model.UrlHostServer
namespace Wz.Driver.C15
open Wz Wz.Proto Wz.Url

def keepOf (which : String) : Option (List Bool) :=
  match which with
  | "path" => some Gen.UrlTables.keepPath
  | "query" => some Gen.UrlTables.keepQuery
  | "fragment" => some Gen.UrlTables.keepFragment
  | "user" => some Gen.UrlTables.keepUser
  | _ => none

def parts (args : List String) : Option Parts :=
  match args with
  | [scheme, user, pw, host, port, path, query, fragment] => do
    let scheme ← unhexStr scheme
    let user ← optArg unhexStr user
    let pw ← optArg unhexStr pw
    let host ← unhexStr host
    let port ← optArg natArg port
    let path ← unhexStr path
    let query ← unhexStr query
    let fragment ← unhexStr fragment
    pure { scheme, username := user, password := pw, host, port, path, query, fragment }
  | _ => none

def split (s : Split) : String :=
  ",".intercalate [hexStr s.scheme, hexStr s.netloc, hexStr s.path, hexStr s.query, hexStr s.fragment]

/-- the opaque parameters as the harness evaluated them for this one URL: constant verdicts of
`_check_bracketed_host` / the NFKC test, and the host conversion at the raw host text -/
def opaqueOf (bracketOk nfkcOk : Bool) (raw : Str) (conv : Option Str) : UrlOpaque :=
  { bracketOk := fun _ => bracketOk, nfkcOk := fun _ => nfkcOk,
    hostToAscii := fun h => if h == raw then conv else none,
    hostToUnicode := fun h => if h == raw then conv else none }

def exc (r : Except String String) : String :=
  match r with
  | .ok s => s
  | .error e => "EXC:" ++ e

/-- `k=v;k=v` (hex), `[]` for the empty list -/
def outPairs (l : List (Str × Str)) : String :=
  if l.isEmpty then "[]" else ";".intercalate (l.map fun (k, v) => hexStr k ++ "=" ++ hexStr v)

def pairsArg (s : String) : Option (List (Str × Str)) :=
  if s == "[]" then some [] else
    (s.splitOn ";").mapM fun kv =>
      match kv.splitOn "=" with
      | [k, v] => do pure ((← unhexStr k), (← unhexStr v))
      | _ => none

/-- `~` | `s:<hex>` | `m:<pairs>` -/
def queryArg (s : String) : Option QueryArg :=
  if s == "~" then some .absent
  else if s.startsWith "s:" then (unhexStr (s.drop 2).copy).map .text
  else if s.startsWith "m:" then (pairsArg (s.drop 2).copy).map .items
  else none

def listArg (s : String) : Option (Option (List Str)) :=
  if s == "~" then some none
  else if s == "[]" then some (some [])
  else ((s.splitOn ",").mapM unhexStr).map some

def excE (r : Except String String) : String :=
  match r with
  | .ok s => s
  | .error e => "EXC:" ++ e

/-- everything the streams compare for one builder: environ keys | builder properties | request -/
def builderReport (o : UrlOpaque) (b : Builder) : Except String String := do
  let e := b.environ
  let r ← requestView o e.toEnviron
  let (u1, u2, u3, u4) ← requestUrls o e.toEnviron
  let args := match requestArgs e.toEnviron with | some l => outPairs l | none => "EXC:UnicodeEncodeError"
  let fp := match requestFullPath e.toEnviron with | some s => hexStr s | none => "EXC:UnicodeEncodeError"
  pure (",".intercalate [hexStr e.pathInfo, hexStr e.scriptName, hexStr e.queryString, hexStr e.httpHost,
      hexStr e.urlScheme, hexStr e.requestUri, hexStr e.rawUri, hexStr e.serverName, hexStr e.serverPort]
    ++ "|" ++ ",".intercalate [hexStr b.queryText,
        (match b.argsProp with | .ok l => outPairs l | .error x => "EXC:" ++ x), hexStr b.baseUrl]
    ++ "|" ++ ",".intercalate [hexStr r.path, hexStr r.rootPath, hexStr r.host, hexStr u1, hexStr u2, hexStr u3,
        hexStr u4, fp, args])

def handle : Handler
  -- builder <path> <base|~> <query> <raw host of base> <its IDNA form|~> <raw host of HTTP_HOST> <decoded|~> <bracketOk> <nfkcOk> <fromenv 0|1>
  | "builder", [path, base, q, ra, ca, ru, cu, bo, no, fe] =>
    match unhexStr path, optArg unhexStr base, queryArg q, unhexStr ra, optArg unhexStr ca, unhexStr ru,
        optArg unhexStr cu, boolArg bo, boolArg no, boolArg fe with
    | some path, some base, some q, some ra, some ca, some ru, some cu, some bo, some no, some fe =>
      let o : UrlOpaque :=
        { bracketOk := fun _ => bo, nfkcOk := fun _ => no,
          hostToAscii := fun h => if h == ra then ca else if h == ru then some ru else none,
          hostToUnicode := fun h => if h == ru then cu else none }
      some (excE (do
        let b ← builderInit o path base q
        let b ← if fe then fromEnviron o b.environ.toEnviron else pure b
        builderReport o b))
    | _, _, _, _, _, _, _, _, _, _ => some badArgs
  -- gethost3 <scheme> <Host header|~> <server name|~> <server port|~>
  | "gethost3", [scheme, host, name, port] =>
    match unhexStr scheme, optArg unhexStr host, optArg unhexStr name, optArg natArg port with
    | some scheme, some host, some name, some port =>
      some (hexStr (getHostFull scheme host (name.map fun n => (n, port))))
    | _, _, _, _ => some badArgs
  | "gethost", [scheme, host] =>
    match unhexStr scheme, unhexStr host with
    | some scheme, some host => some (hexStr (getHost scheme host))
    | _, _ => some badArgs
  -- proxyfix <x_for> <x_proto> <x_host> <x_port> <x_prefix> <REMOTE_ADDR|~> <scheme> <HTTP_HOST|~> <SERVER_NAME> <SERVER_PORT> <SCRIPT_NAME> <PATH_INFO> <5 header value lists>
  | "proxyfix", [xf, xp, xh, xo, xx, ra, sch, hh, sn, sp, scr, pi, hf, hp, hho, hpo, hpx] =>
    match natArg xf, natArg xp, natArg xh, natArg xo, natArg xx, optArg unhexStr ra, unhexStr sch,
        optArg unhexStr hh, unhexStr sn, unhexStr sp, unhexStr scr, unhexStr pi with
    | some xf, some xp, some xh, some xo, some xx, some ra, some sch, some hh, some sn, some sp, some scr, some pi =>
      match listArg hf, listArg hp, listArg hho, listArg hpo, listArg hpx with
      | some hf, some hp, some hho, some hpo, some hpx =>
        let r := proxyFix ⟨xf, xp, xh, xo, xx⟩ ⟨hf, hp, hho, hpo, hpx⟩
          { remoteAddr := ra, urlScheme := sch, httpHost := hh, serverName := sn, serverPort := sp,
            scriptName := scr, pathInfo := pi }
        some (",".intercalate [outOpt hexStr r.remoteAddr, hexStr r.urlScheme, outOpt hexStr r.httpHost,
          hexStr r.serverName, hexStr r.serverPort, hexStr r.scriptName, hexStr r.pathInfo])
      | _, _, _, _, _ => some badArgs
    | _, _, _, _, _, _, _, _, _, _, _, _ => some badArgs
  | "urlsplit", [url, b, n] =>
    match unhexStr url, boolArg b, boolArg n with
    | some url, some b, some n =>
      let o := opaqueOf b n [] none
      some (exc (do
        let sp ← urlsplit o url
        let ui := userinfo sp.netloc
        let hi := hostinfo sp.netloc
        let port := match portOf sp.netloc with
          | .ok p => outOpt toString p
          | .error e => "EXC:" ++ e
        pure (split sp ++ "|" ++ outOpt hexStr ui.1 ++ "," ++ outOpt hexStr ui.2 ++ "," ++ hexStr hi.1
          ++ "," ++ port)))
    | _, _, _ => some badArgs
  -- environ <path> <base_url> <qs> <raw host of base_url> <its IDNA form|~> <raw host of HTTP_HOST> <its decoded form|~>
  | "environ", [path, base, qs, ra, ca, ru, cu, bo, no] =>
    match unhexStr path, unhexStr base, unhexStr qs, unhexStr ra, optArg unhexStr ca, unhexStr ru,
        optArg unhexStr cu, boolArg bo, boolArg no with
    | some path, some base, some qs, some ra, some ca, some ru, some cu, some bo, some no =>
      let o : UrlOpaque :=
        { bracketOk := fun _ => bo, nfkcOk := fun _ => no,
          hostToAscii := fun h => if h == ra then ca else if h == ru then some ru else none,
          hostToUnicode := fun h => if h == ru then cu else none }
      some (exc (do
        let e ← builderEnviron o path base qs
        let r ← requestView o e
        -- wsgi.get_current_url(environ) for the flag combinations, and the Request properties
        let w1 ← wsgiCurrentUrl o e false false false
        let w2 ← wsgiCurrentUrl o e false true false
        let w3 ← wsgiCurrentUrl o e true false false
        let w4 ← wsgiCurrentUrl o e false false true
        let w5 ← wsgiCurrentUrl o e true true true
        let (u1, u2, u3, u4) ← requestUrls o e
        pure (",".intercalate [hexStr e.pathInfo, hexStr e.scriptName, hexStr e.queryString, hexStr e.httpHost,
          hexStr e.urlScheme] ++ "|" ++ ",".intercalate [hexStr r.path, hexStr r.rootPath, hexStr r.host, hexStr r.url]
          ++ "|" ++ ",".intercalate [hexStr w1, hexStr w2, hexStr w3, hexStr w4, hexStr w5]
          ++ "|" ++ ",".intercalate [hexStr u1, hexStr u2, hexStr u3, hexStr u4])))
    | _, _, _, _, _, _, _, _, _ => some badArgs
  | "urlunsplit", [a, b, c, d, e] =>
    match unhexStr a, unhexStr b, unhexStr c, unhexStr d, unhexStr e with
    | some a, some b, some c, some d, some e =>
      some (hexStr (urlunsplit { scheme := a, netloc := b, path := c, query := d, fragment := e }))
    | _, _, _, _, _ => some badArgs
  | "iri2uri-url", [url, b, n, raw, conv] =>
    match unhexStr url, boolArg b, boolArg n, unhexStr raw, optArg unhexStr conv with
    | some url, some b, some n, some raw, some conv =>
      some (exc ((iriToUriText (opaqueOf b n raw conv) url).map hexStr))
    | _, _, _, _, _ => some badArgs
  | "uri2iri-url", [url, b, n, raw, conv] =>
    match unhexStr url, boolArg b, boolArg n, unhexStr raw, optArg unhexStr conv with
    | some url, some b, some n, some raw, some conv =>
      some (exc ((uriToIriText (opaqueOf b n raw conv) url).map hexStr))
    | _, _, _, _, _ => some badArgs
  | "quote", [safe, s] =>
    match unhexStr safe, unhexStr s with
    | some safe, some s => some (hexStr (quote safe s))
    | _, _ => some badArgs
  | "quotebytes", [safe, s] =>
    match unhexStr safe, unhex s with
    | some safe, some s => some (hexStr (quoteBytes safe s))
    | _, _ => some badArgs
  | "unquote", [s] =>
    match unhexStr s with
    | some s => some (hexStr (unquote s))
    | none => some badArgs
  | "unquoter", [s] =>
    match unhexStr s with
    | some s => some (hexStr (unquoteReplace s))
    | none => some badArgs
  | "envpath", [s] =>
    match unhexStr s with
    | some s =>
      let pi := environPathInfo s
      some (hexStr pi ++ "," ++ (match requestPath pi with | some r => hexStr r | none => "EXC:UnicodeEncodeError"))
    | none => some badArgs
  | "unquotepart", [which, s] =>
    match keepOf which, unhexStr s with
    | some k, some s => some (hexStr (unquotePartial k s))
    | _, _ => some badArgs
  | "iri2uri", args =>
    match parts args with
    | some p => some (split (iriToUri p))
    | none => some badArgs
  | "uri2iri", args =>
    match parts args with
    | some p => some (split (uriToIri p))
    | none => some badArgs
  | "encdance", [s] =>
    match unhexStr s with
    | some s => some (hexStr (encodingDance s))
    | none => some badArgs
  | "decdance", [s] =>
    match unhexStr s with
    | some s => some (match decodingDance s with | some r => hexStr r | none => "EXC:UnicodeEncodeError")
    | none => some badArgs
  | "dispatch", pi :: mounts =>
    match unhexStr pi, mounts.mapM unhexStr with
    | some pi, some ms =>
      let d := dispatch ms pi
      some (hexStr d.script ++ "," ++ hexStr d.pathInfo ++ "," ++ outOpt hexStr d.mount)
    | _, _ => some badArgs
  | _, _ => none

end Wz.Driver.C15
