import WzVerif.Driver.Proto
import WzVerif.Driver.C03
import WzVerif.Model.RoutingRoundtrip
import WzVerif.Driver.PyPrelude
namespace Wz.Driver.C04
open Wz Wz.Proto Wz.Routing Wz.Routing.Wire

def outBuilt : Except String Str → String
  | .ok u => "U " ++ hexStr u
  | .error e => "EXC:" ++ e

/-- request action `B<hex endpoint>:<values>:<method|~>:<match method|~>:<force_external>` -/
def predictBuild (m : RMap) (a : Adapter) (act : String) : String :=
  match (act.drop 1).toString.splitOn ":" with
  | [ep, vals, method, mm, fe] =>
    match unhexStr ep, valuesArg vals, optArg unhexStr method, optArg unhexStr mm, boolArg fe with
    | some ep, some vals, some method, some mm, some fe =>
      let (b1, o, b2) := roundtrip m a ep vals method mm fe
      outBuilt b1 ++ " / " ++ outOpt outOutcome o ++ " / " ++ outOpt outBuilt b2
    | _, _, _, _, _ => badArgs
  | _ => badArgs

def handle : Handler
  | "route.sched", [m, a, acts, grants] =>
    match mapArg m, adapterArg a with
    | some (some m), some a => some (Wz.Driver.C03.schedCmd (predictBuild m a) m.rules.length acts grants)
    | some none, _ => some "UNSUPPORTED"
    | _, _ => some badArgs
  | "route.roundtrip", [m, a, ep, vals, method, mm, fe] =>
    match mapArg m, adapterArg a, unhexStr ep, valuesArg vals, optArg unhexStr method, optArg unhexStr mm, boolArg fe with
    | some (some m), some a, some ep, some vals, some method, some mm, some fe =>
      let (b1, o, b2) := roundtrip m a ep vals method mm fe
      some (outBuilt b1 ++ " ; " ++ outOpt outOutcome o ++ " ; " ++ outOpt outBuilt b2)
    | some none, _, _, _, _, _, _ => some "UNSUPPORTED"
    | _, _, _, _, _, _, _ => some badArgs
  | "route.toconv", [c, v] =>
    match convArg c, valueArg v with
    | some c, some v =>
      some (match toUrl c v with
            | .ok u => "U " ++ hexStr u ++ " " ++ outOpt outValue (toPython c (unquote u)) ++ " " ++ outBool (regexAccepts c (unquote u))
            | .error e => "EXC:" ++ e)
    | _, _ => some badArgs
  | cmd, args =>
    -- `pre.*`: primitives of Util/PyPrelude
    Wz.Driver.C03.routing cmd args <|> Wz.Driver.PyPrelude.handle cmd args

end Wz.Driver.C04
