import WzVerif.Driver.Proto
import WzVerif.Driver.C01
import WzVerif.Model.Urlencode
import WzVerif.Model.MultipartClient
namespace Wz.Driver.C02
open Wz Wz.Proto Wz.Urlencode

/-! Line protocol of the URL-encoded form model (used by the C02 and C10 drivers); the multipart
commands (`mp.*`) are those of Driver/C01.

`url.quoteplus  safe bytes`        `quote_plus(bytes, safe)`
`url.urlencode  k:v,k:v…`          `werkzeug.urls._urlencode(items)`
`url.unquote    text`              `unquote(text, errors="werkzeug.url_quote")`
`url.parseqsl   keepBlank text`    `parse_qsl(text, keep_blank_values, errors="werkzeug.url_quote")`
`url.form       maxMem contentLength sched body`   `FormDataParser._parse_urlencoded`
`mp.client      bnd items`         `stream_encode_multipart(data, boundary)`: items are `T:key:text` or
                                   `U:key:filename|~:guessed type|~:headers:content`
-/

def pairsOut (l : List (Str × Str)) : String :=
  outList (fun (k, v) => hexStr k ++ ":" ++ hexStr v) l

def pairArg (s : String) : Option (Str × Str) :=
  match s.splitOn ":" with
  | [k, v] => do
    let k ← unhexStr k
    let v ← unhexStr v
    pure (k, v)
  | _ => none

def urlHandle : Handler
  | "url.quoteplus", [safe, bs] =>
    match unhex safe, unhex bs with
    | some safe, some bs => some (hex (quotePlus safe bs))
    | _, _ => some badArgs
  | "url.urlencode", [items] =>
    match C01.listArg pairArg items with
    | some items => some (hex (wzUrlencode items))
    | none => some badArgs
  | "url.unquote", [s] =>
    match unhexStr s with
    | some s => some (hexStr (unquote s))
    | none => some badArgs
  | "url.parseqsl", [kb, s] =>
    match boolArg kb, unhexStr s with
    | some kb, some s => some (pairsOut (parseQsl kb s))
    | _, _ => some badArgs
  | "url.form", [mm, cl, sched, body] =>
    match optArg natArg mm, optArg natArg cl, C01.listArg natArg sched, unhex body with
    | some mm, some cl, some sched, some body =>
      some ((match parseUrlencoded mm cl sched body with
        | .ok items => pairsOut items
        | .error e => "EXC:" ++ e) ++ "|" ++ toString (urlencodedRead mm cl sched body).2)
    | _, _, _, _ => some badArgs
  | _, _ => none

/-- one (key, value) pair of the client's data mapping, with what `mimetypes.guess_type` says about
its file name -/
def clientItemArg (s : String) : Option ((Multipart.Str × Multipart.ClientValue) × Option (Multipart.Str × Multipart.Str)) :=
  match s.splitOn ":" with
  | ["T", k, v] => do
    let k ← unhexStr k
    let v ← unhexStr v
    pure ((k, .text v), none)
  | ["U", k, fn, g, h, c] => do
    let k ← unhexStr k
    let fn ← optArg unhexStr fn
    let g ← optArg unhexStr g
    let h ← C01.parseEvent.hdrs h
    let c ← unhex c
    pure ((k, .file c fn h), match fn, g with | some f, some g => some (f, g) | _, _ => none)
  | _ => none

def clientHandle : Handler
  | "mp.client", [bnd, items] =>
    match unhex bnd, C01.listArg clientItemArg items with
    | some bnd, some items =>
      let table := items.filterMap (·.2)
      let guess : Multipart.Str → Option Multipart.Str := fun f => (table.find? (·.1 == f)).map (·.2)
      some (match Multipart.clientEncode guess bnd (items.map (·.1)) with
        | .ok b => hex b
        | .error e => "EXC:" ++ e)
    | _, _ => some badArgs
  | _, _ => none

def handle : Handler := fun cmd args =>
  match C01.handle cmd args with
  | some r => some r
  | none =>
    match urlHandle cmd args with
    | some r => some r
    | none => clientHandle cmd args

end Wz.Driver.C02
