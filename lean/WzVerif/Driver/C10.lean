import WzVerif.Driver.Proto
import WzVerif.Driver.C02
namespace Wz.Driver.C10
open Wz Wz.Proto

/-- C10 uses the multipart commands of Driver/C01 (`mp.decode` reports the buffer length after every
`receive_data`; limits are arguments) and the URL-encoded commands of Driver/C02 (`url.form`). -/
def handle : Handler := Wz.Driver.C02.handle

end Wz.Driver.C10
