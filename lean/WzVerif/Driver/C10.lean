import WzVerif.Driver.Proto
import WzVerif.Driver.C02
import WzVerif.Model.FormLimitsRequest
namespace Wz.Driver.C10
open Wz Wz.Proto Wz.FormReq

/-! C10 uses the multipart commands of Driver/C01 (`mp.decode` reports the buffer length after every
`receive_data`; limits are arguments), the URL-encoded commands of Driver/C02 (`url.form`) and

`req.history  mcl mm mp mime boundary declared terminated ops body`
    an access history on one `Request` object (Model/FormLimitsRequest.lean): `mime` is one of
    `mp` `url` `other` `absent`; `ops` a `,`-list of `g<cache><parse>` (get_data), `d` (.data),
    `s` (.stream.read()), `f` (.form), `u` (.files), `v` (.values), `j<cache>` (get_json);
    answer: one observation per access joined by `;`, then `#` and the bytes taken from wsgi.input -/

def parseOp (s : String) : Option Op :=
  match s with
  | "g00" => some (.getData false false)
  | "g01" => some (.getData false true)
  | "g10" => some (.getData true false)
  | "g11" => some (.getData true true)
  | "d" => some .data
  | "s" => some .streamRead
  | "f" => some .form
  | "u" => some .files
  | "v" => some .values
  | "j0" => some (.json false)
  | "j1" => some (.json true)
  | _ => none

def outObs : Obs → String
  | .bytes b => "B:" ++ hex b
  | .fields f => "F:" ++ outList (fun (n, v) => C01.outOptStr n ++ "=" ++ C01.outStr v) f
  | .files f => "U:" ++ outList (fun (x : Multipart.FileItem) => C01.outOptStr x.name ++ ":" ++ C01.outStr x.filename ++ ":" ++
      C01.outHeaders x.headers ++ ":" ++ hex x.content) f
  | .json => "J"
  | .exc e => "EXC:" ++ e

def reqHandle : Handler
  | "req.history", [mcl, mm, mp, mime, bnd, declared, term, ops, body] =>
    match optArg natArg mcl, optArg natArg mm, optArg natArg mp, unhex bnd, optArg natArg declared,
        boolArg term, C01.listArg parseOp ops, unhex body with
    | some mcl, some mm, some mp, some bnd, some declared, some term, some ops, some body =>
      let mime? : Option Mime := match mime with
        | "mp" => some (.multipart bnd)
        | "url" => some .urlencoded
        | "other" => some .other
        | "absent" => some .absent
        | _ => none
      match mime? with
      | none => some badArgs
      | some mime =>
        let c : Cfg := { mcl := mcl, mm := mm, mp := mp, mime := mime, declared := declared, terminated := term }
        let r := run c (fresh body) ops
        some (";".intercalate (r.1.map outObs) ++ "#" ++ toString (taken body r.2))
    | _, _, _, _, _, _, _, _ => some badArgs
  | _, _ => none

def handle : Handler := fun cmd args =>
  match Wz.Driver.C02.handle cmd args with
  | some r => some r
  | none => reqHandle cmd args

end Wz.Driver.C10
