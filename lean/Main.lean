import WzVerif.Driver.Proto
import WzVerif.Driver.C13
open Wz Wz.Proto

def handlers : List Handler := [
  Wz.Driver.C13.handle
]

def dispatch (line : String) : String :=
  match line.splitOn "\t" with
  | [] => "BAD-LINE"
  | cmd :: args =>
    match handlers.findSome? (fun h => h cmd args) with
    | some r => r
    | none => "UNKNOWN-CMD " ++ cmd

partial def loop (hin : IO.FS.Stream) (hout : IO.FS.Stream) : IO Unit := do
  let line ← hin.getLine
  if line.isEmpty then return ()
  let l := if line.endsWith "\n" then String.ofList line.toList.dropLast else line
  hout.putStrLn (dispatch l)
  loop hin hout

def main : IO Unit := do
  let hin ← IO.getStdin
  let hout ← IO.getStdout
  loop hin hout
  hout.flush
