"""py2lean: translate small pure Python functions of werkzeug into Lean 4 definitions.

The translated definitions are regenerated from `$WZ_REPO/src/werkzeug` on every check run
(tools/gen/pyfns.py) and proved, in Lean, equal to the hand-written model functions for *all*
inputs (Props/C<NN>T.lean). A change of the source changes the generated Lean term and breaks
the proof obligation.

The translator accepts a small, explicitly enumerated subset of Python and raises
`Untranslatable` (with file, function, line and the offending source text) on anything else.
It never guesses: whatever it cannot express exactly is an error, and an error in a generator
is a broken obligation of the check (tools/extract.py exits non-zero).

Subset
------
statements   assignment to local names (also `a, b = <pair>` and `a, b = X.split(sep, 1)`), augmented
             assignment on ints, `xs.append(e)` on a local list, `self.attr = e` in a constructor
             whose spec lists the attribute in `fields`, if / elif / else, return, raise <ExceptionClass>
             (constructor arguments of the exception are ignored), `pass`, docstrings,
             `for x in <list expr>:` with early return / continue / break (translated to a
             structurally recursive auxiliary definition; variables assigned in the body that were
             defined before the loop are threaded through as loop state), `for x in (a, b):` over a
             tuple / list literal (unrolled),
             `try: <one assignment or return> except <classes>: ...` where the statement contains
             calls that can raise (each is bound by a `match` on its `Except` result).
expressions  names, int / str / bytes / bool / None literals, f-strings whose fields are str or int
             expressions without conversion / format spec, tuples,
             list literals, `and` / `or` / `not` in boolean meaning, comparisons incl. chained ones,
             `is None`, `is not None`, `in` / `not in` on tuple / set / list literals, substring and
             list membership, int arithmetic (+ - * and // % by a non-zero literal, unary -),
             `min` / `max` / `len` / `bool` / `str` (of str / int) / `any(<genexp>)` / `all(<genexp>)`,
             `isinstance(x, cls)` decided by the declared type, constant subscripts of tuples, slices
             `s[a:b]`, indexing `xs[i]` (raises IndexError: bound like a raising call), conditional
             expressions, `s.startswith((a, b))`, and calls that appear in the METHODS / FUNCS
             tables, in the spec's `calls` (other translated functions / opaque parameters) or
             `patterns` (e.g. `X.encode("idna").decode("ascii")`), `f(*xs)` for table entries "f(*)".
types        Int, Bool, Str (= List Char), Bytes (= List UInt8), CharSet (= Char → Bool), Option T,
             List T, tuples. `None`-able values are `Option`; Python's flow typing is reproduced by
             *case splitting*: when an `Option`-typed name occurs in a `is None` / `is not None` /
             truthiness test, the translator emits `match x with | none => … | some x => …` around
             the statement and its continuation and folds the tests that became constant in each
             arm, so that every use of `x` as a plain value is type-checked by Lean. Branch
             conditions are remembered as facts (until a variable they read is re-assigned), so a
             later syntactically equal test - `elif "-" in item` after `if "-" not in item: return` -
             is decided the way Python's control flow guarantees.
             An `Option`-typed name used as a plain value without such a test is a possible
             `TypeError`: in a `raises=True` function it becomes `.error "TypeError"` for the
             whole statement (a conservative over-approximation: proving `f x = .ok v` shows the
             absence of that error), in a pure function it is `Untranslatable`.
errors       functions that can raise have result type `Except String T`, the error string is the
             Python exception class name. A raising call that Python evaluates only conditionally
             (right operand of `and` / `or`, later part of a chained comparison) is supported in
             the test of an `if`, which is first rewritten to nested ifs (evaluation order made
             explicit). Primitives whose Lean model covers only part of the Python domain
             (`int(str)`) answer with a marker error outside it and may not be called inside `try`.
output       one `def` per function (plus one auxiliary `def` per loop), the Python source of every
             statement as a `--` comment above its translation.
"""
from __future__ import annotations

import ast
import os
from dataclasses import dataclass, field

REPO = os.environ.get("WZ_REPO", "/repo")


class Untranslatable(Exception):
    pass


# --------------------------------------------------------------------------
# types


@dataclass(frozen=True)
class Ty:
    kind: str  # Int Bool Str Bytes None Opt List Tup Char
    args: tuple = ()

    def __str__(self):
        try:
            return lean_ty(self)
        except Untranslatable:
            return f"<{self.kind}>"


INT, BOOL, STR, BYTES, NONE = Ty("Int"), Ty("Bool"), Ty("Str"), Ty("Bytes"), Ty("None")
#: an object of which only `is None` / truthiness is ever asked (e.g. a regex match object)
OBJ = Ty("Obj")
#: a set of characters of which only membership / `issuperset(str)` is asked (e.g. a frozenset constant)
CHARSET = Ty("CharSet")


def Opt(t):
    return Ty("Opt", (t,))


def Lst(t):
    return Ty("List", (t,))


def Tup(*ts):
    return Ty("Tup", tuple(ts))


def Dct(k, v):
    return Ty("Dict", (k, v))


def lean_ty(t: Ty, top=True) -> str:
    if t.kind in ("Int", "Bool"):
        return t.kind
    if t.kind == "Str":
        return "Pre.Str"
    if t.kind == "Bytes":
        return "Bytes"
    if t.kind in ("None", "Obj", "Tup0"):
        return "Unit"
    if t.kind == "CharSet":
        return "Char → Bool" if top else "(Char → Bool)"
    if t.kind == "Abs":
        return t.args[0]
    if t.kind == "Opt":
        s = "Option " + lean_ty(t.args[0], False)
    elif t.kind in ("List", "Set"):
        # a Python set is modelled as a list (insertion order, kept duplicate-free by `Pre.setAdd`)
        s = "List " + lean_ty(t.args[0], False)
    elif t.kind == "Tup":
        s = " × ".join(lean_ty(a, False) for a in t.args)
    elif t.kind == "Unb":
        # a local variable that may still be unbound (Spec.maybe_unbound): `none` = unbound
        s = "Option " + lean_ty(t.args[0], False)
    elif t.kind == "Rec":
        # an object of a simple class: the tuple of its attributes, in the order RECORDS lists them
        fs = RECORDS[t.args[0]]
        if len(fs) == 1:
            return lean_ty(fs[0][1], top)
        s = " × ".join(lean_ty(ft, False) for _, ft in fs)
    elif t.kind == "Dict":
        # a Python dict is modelled as the list of its (key, value) pairs in insertion order, keys
        # unique (kept so by `Pre.dictSet`)
        s = f"List ({lean_ty(t.args[0], False)} × {lean_ty(t.args[1], False)})"
    else:
        raise Untranslatable(f"internal: unknown type {t}")
    return s if top else f"({s})"


#: record types: class name -> [(attribute name, Ty)] (registered by `record`); a value of the class is
#: the tuple of its attributes
RECORDS = {}


def record(name, fields):
    """declare the class `name` as a record with these [(attribute, Lean type text)]"""
    RECORDS[name] = [(f, parse_ty(t) if isinstance(t, str) else t) for f, t in fields]
    return Ty("Rec", (name,))


def rec_proj(lean: str, rec_name: str, fld: str):
    """(Lean term of attribute `fld` of the record value `lean`, its type)"""
    fs = RECORDS[rec_name]
    names = [f for f, _ in fs]
    if fld not in names:
        return None
    k, m = names.index(fld), len(fs)
    if m == 1:
        return lean, fs[0][1]
    return lean + ".2" * k + (".1" if k < m - 1 else ""), fs[k][1]


#: names of abstract types (type parameters of a spec: e.g. a quality type with an order supplied
#: by the hand model); registered by Translator.__init__ from Spec.type_params
ABSTRACT_TYPES = set()


def Abs(name):
    return Ty("Abs", (name,))


def parse_ty(text: str) -> Ty:
    """the Lean type texts a signature spec may use"""
    toks = text.replace("(", " ( ").replace(")", " ) ").replace("×", " × ").split()
    pos = 0

    def atom():
        nonlocal pos
        if pos >= len(toks):
            raise Untranslatable(f"bad type text {text!r}")
        tk = toks[pos]
        pos += 1
        if tk == "(":
            t = prod()
            if pos >= len(toks) or toks[pos] != ")":
                raise Untranslatable(f"bad type text {text!r}")
            pos += 1
            return t
        if tk in ("Int", "Bool"):
            return Ty(tk)
        if tk in ("Str", "Pre.Str"):
            return STR
        if tk == "Bytes":
            return BYTES
        if tk == "CharSet":
            return CHARSET
        if tk in ABSTRACT_TYPES:
            return Abs(tk)
        if tk in RECORDS:
            return Ty("Rec", (tk,))
        if tk == "Unit":
            return NONE
        if tk == "Obj":
            return OBJ  # an object of which only `is None` / truthiness is asked
        raise Untranslatable(f"bad type text {text!r} at {tk!r}")

    def app():
        nonlocal pos
        if pos < len(toks) and toks[pos] == "Option":
            pos += 1
            return Opt(app())
        if pos < len(toks) and toks[pos] == "List":
            pos += 1
            return Lst(app())
        if pos < len(toks) and toks[pos] == "Set":
            pos += 1
            return Ty("Set", (app(),))
        if pos < len(toks) and toks[pos] == "Dict":
            pos += 1
            k = atom()
            return Ty("Dict", (k, atom_or_app()))
        return atom()

    def atom_or_app():
        if pos < len(toks) and toks[pos] in ("Option", "List", "Set", "Dict"):
            return app()
        return atom()

    def prod():
        nonlocal pos
        ts = [app()]
        while pos < len(toks) and toks[pos] == "×":
            pos += 1
            ts.append(app())
        return ts[0] if len(ts) == 1 else Tup(*ts)

    t = prod()
    if pos != len(toks):
        raise Untranslatable(f"bad type text {text!r}")
    return t


# --------------------------------------------------------------------------
# signatures of callable things


@dataclass
class Fn:
    """a Lean function a Python call is mapped to"""

    lean: str
    params: list  # [Ty]
    result: Ty
    raises: tuple = ()  # Python exception class names; () = total
    #: leading Lean arguments that are not Python arguments (opaque parameters)
    extra: tuple = ()
    #: indices (into params) of arguments that must be non-empty str/bytes literals
    nonempty_lit: tuple = ()
    #: a call on an abstract collaborator (e.g. `self._rfile.readline()`): the collaborator's state
    #: is this env key; the Lean function takes that state first and returns `(result, new state)`
    effect_key: str | None = None
    #: a translated stateful method of the same object: the call passes the current values of these
    #: state keys (e.g. "self._headers") first and gets them back: the result is `State`,
    #: `State × R` or `State × Except String R` as described at Spec.state
    state: tuple = ()
    #: for polymorphic entries: params may contain None (= any plain type, no coercion) and the
    #: result type is computed from the argument types
    result_of: object = None
    #: the Lean model covers only part of the Python function's domain and answers with a marker
    #: error outside it: such a call must not sit inside `try` (a handler would swallow the marker)
    partial_model: bool = False
    #: (module path below src/werkzeug, qualname) of the Python function this entry stands for: a
    #: call with fewer positional arguments than `params` takes the missing trailing ones from the
    #: *default values in the current source* (constants only)
    defaults_from: tuple | None = None
    #: for a method of a record (Spec.methods key ("Rec:<Class>", name)): the attributes of the
    #: receiver the Lean function takes first, in this order
    recv_fields: tuple = ()
    #: for a raising call with an effect on a collaborator (`effect_key` and `raises`): the Lean
    #: function answers `(Except String result, new state)` - the collaborator's state advances also
    #: when the call raises. (Without this flag: `Except String (result × new state)`, the state is
    #: unchanged by a raising call.)
    error_keeps_state: bool = False
    #: trailing Lean arguments that are not Python arguments (e.g. attributes of `self` the callee
    #: reads but does not change: `("self_limit",)`)
    suffix: tuple = ()


EXC_PARENT = {
    "UnicodeEncodeError": "UnicodeError",
    "UnicodeDecodeError": "UnicodeError",
    "UnicodeError": "ValueError",
    "ValueError": "Exception",
    # werkzeug.routing.converters.ValidationError(ValueError)
    "ValidationError": "ValueError",
    "TypeError": "Exception",
    "IndexError": "LookupError",
    "KeyError": "LookupError",
    "LookupError": "Exception",
    "OverflowError": "ArithmeticError",
    "ZeroDivisionError": "ArithmeticError",
    "ArithmeticError": "Exception",
    "AttributeError": "Exception",
    "NameError": "Exception",
    "UnboundLocalError": "NameError",
    "AssertionError": "Exception",
    "StopIteration": "Exception",
    "OSError": "Exception",
    "Exception": "BaseException",
    # werkzeug.exceptions
    "HTTPException": "Exception",
    "BadRequest": "HTTPException",
    "SecurityError": "BadRequest",
    "RequestedRangeNotSatisfiable": "HTTPException",
    "RequestEntityTooLarge": "HTTPException",
    "ClientDisconnected": "BadRequest",
    # werkzeug.exceptions.BadRequestKeyError(BadRequest, KeyError): handlers for KeyError catch it
    "BadRequestKeyError": "KeyError",
}


def exc_is(cls: str, handler: str) -> bool:
    while cls is not None:
        if cls == handler:
            return True
        if cls not in EXC_PARENT and cls != "BaseException":
            raise Untranslatable(f"exception class {cls!r} is not in py2lean's hierarchy table")
        cls = EXC_PARENT.get(cls)
    return False


#: methods of typed receivers: (receiver kind, method name) -> Fn  (receiver is the first Lean argument)
METHODS = {
    ("Str", "startswith"): Fn("Pre.startswith", [STR, STR], BOOL),
    ("Str", "endswith"): Fn("Pre.endswith", [STR, STR], BOOL),
    ("Str", "find"): Fn("Pre.find", [STR, STR], INT),
    ("Str", "rfind"): Fn("Pre.rfind", [STR, STR], INT),
    ("Bytes", "find"): Fn("Pre.find", [BYTES, BYTES], INT),
    ("Bytes", "rfind"): Fn("Pre.rfind", [BYTES, BYTES], INT),
    ("Bytes", "rfind/2"): Fn("Pre.rfindFrom", [BYTES, BYTES, INT], INT),
    ("Bytes", "startswith"): Fn("Pre.startswith", [BYTES, BYTES], BOOL),
    ("Bytes", "endswith"): Fn("Pre.endswith", [BYTES, BYTES], BOOL),
    ("Str", "partition"): Fn("Pre.partition", [STR, STR], Tup(STR, STR, STR), nonempty_lit=(1,)),
    ("Str", "rpartition"): Fn("Pre.rpartition", [STR, STR], Tup(STR, STR, STR), nonempty_lit=(1,)),
    ("Str", "lower"): Fn("Pre.lower", [STR], STR),
    # `s.encode()` (UTF-8, strict): total on the texts the model can hold (a Lean `Char` is never a surrogate)
    ("Str", "encode"): Fn("Pre.encodeUtf8", [STR], BYTES),
    ("Str", "upper"): Fn("Pre.upper", [STR], STR),
    ("Str", "replace"): Fn("Pre.replace", [STR, STR, STR], STR),
    ("Str", "isascii"): Fn("Pre.isascii", [STR], BOOL),
    ("Str", "zfill"): Fn("Pre.zfill", [STR, INT], STR),
    ("Str", "title"): Fn("Pre.title", [STR], STR),
    ("CharSet", "issuperset"): Fn("Pre.issuperset", [CHARSET, STR], BOOL),
    ("Str", "split/0"): Fn("Pre.splitWs", [STR], Lst(STR)),
    ("Str", "split/1"): Fn("Pre.splitOn", [STR, STR], Lst(STR), nonempty_lit=(1,)),
    ("Str", "join"): Fn("Pre.join", [STR, Lst(STR)], STR),
    ("Str", "strip/0"): Fn("Pre.strip", [STR], STR),
    ("Str", "lstrip/0"): Fn("Pre.lstrip", [STR], STR),
    ("Str", "rstrip/0"): Fn("Pre.rstrip", [STR], STR),
    ("Str", "strip/1"): Fn("Pre.stripChars", [STR, STR], STR),
    ("Str", "lstrip/1"): Fn("Pre.lstripChars", [STR, STR], STR),
    ("Str", "rstrip/1"): Fn("Pre.rstripChars", [STR, STR], STR),
    # dict (see lean_ty): the receiver is the first argument
    ("Dict", "items"): Fn("Pre.dictItems", [None], None, result_of=lambda ts: Lst(Tup(*ts[0].args)) if ts[0].kind == "Dict" else None),
    ("Dict", "keys"): Fn("Pre.dictKeys", [None], None, result_of=lambda ts: Lst(ts[0].args[0]) if ts[0].kind == "Dict" else None),
    ("Dict", "values"): Fn("Pre.dictValues", [None], None, result_of=lambda ts: Lst(ts[0].args[1]) if ts[0].kind == "Dict" else None),
    ("Dict", "get/1"): Fn("Pre.dictGet?", [None, None], None, result_of=lambda ts: Opt(ts[0].args[1]) if ts[0].kind == "Dict" and ts[0].args[0] == ts[1] and ts[0].args[1].kind != "Opt" else None),
    ("Dict", "get/2"): Fn("Pre.dictGetD", [None, None, None], None, result_of=lambda ts: ts[0].args[1] if ts[0].kind == "Dict" and ts[0].args[0] == ts[1] and ts[0].args[1] == ts[2] else None),
}

#: mutating methods of containers (locals or state attributes): (kind, method) ->
#: (Lean function taking the container first and returning the new one, argument types, raises)
MUTATORS = {
    ("List", "append"): ("Pre.listAppend", ["elt"], ()),
    ("List", "clear"): ("Pre.clear", [], ()),
    ("Set", "add"): ("Pre.setAdd", ["elt"], ()),
    ("Set", "discard"): ("Pre.setDiscard", ["elt"], ()),
    ("Set", "remove"): ("Pre.setRemove", ["elt"], ("KeyError",)),
    ("Set", "clear"): ("Pre.clear", [], ()),
    # a bytearray
    ("Bytes", "extend"): ("Pre.bytesExtend", [BYTES], ()),
}

#: module-level functions and bound methods of module-level objects, by dotted source name
FUNCS = {
    "_plain_int": Fn("Pre.plainInt", [STR], INT, raises=("ValueError",)),
    # re.compile(r"-?\d+", re.ASCII).fullmatch - the generator pins the pattern source
    "_plain_int_re.fullmatch": Fn("Pre.plainIntReFullmatch", [STR], Opt(OBJ)),
    # int(str): modelled on -?[0-9]+ only, marker error elsewhere
    "int": Fn("Pre.pyIntPlain", [STR], INT, raises=("ValueError",), partial_model=True),
    # synthetic: `a, b = X.split(sep, 1)` (see Translator.stmt)
    "<split-once>": Fn("Pre.splitOnce", [STR, STR], Tup(STR, STR), raises=("ValueError",), nonempty_lit=(1,)),
    "<splitws-once>": Fn("Pre.splitWsOnce", [STR], Tup(STR, STR), raises=("ValueError",)),
    # synthetic: `a, b = X.rsplit(sep, 1)`
    "<rsplit-once>": Fn("Pre.rsplitOnce", [STR, STR], Tup(STR, STR), raises=("ValueError",), nonempty_lit=(1,)),
    "posixpath.normpath": Fn("Wz.Paths.normpath", [STR], STR),
    "posixpath.isabs": Fn("Wz.Paths.isabs", [STR], BOOL),
    # posixpath.join(a, *p) called as join(*parts): TypeError when parts is empty
    "posixpath.join(*)": Fn("Pre.starCall1 Wz.Paths.join", [Lst(STR)], STR, raises=("TypeError",)),
}


# --------------------------------------------------------------------------
# spec


@dataclass
class Spec:
    """what to translate and with which types.

    module     path below src/werkzeug, e.g. "http.py"
    qualname   "func" or "Class.method"
    name       Lean name of the result
    params     [(python name, Lean type text)] - in Python order; for methods, attributes of `self`
               are given as ("self.attr", type) and become ordinary parameters
    result     Lean type text of the value (without `Except`)
    raises     True: the result type is `Except String <result>`
    opaque     [(Lean binder name, Lean type text)] - extra leading parameters (opaque functions)
    calls      {python dotted name: Fn} - other translated functions / opaque parameters
    patterns   [(matcher(node) -> [arg nodes] | None, Fn)] - call shapes mapped to one function,
               e.g. `X.encode("idna").decode("ascii")`
    consts     {python dotted name: (Lean term, Lean type text)} - module-level constants
    static     {source text of an expression: bool} - tests decided by the signature
               (e.g. "os.name == 'nt'"); used only when the source text matches exactly
    """

    module: str
    qualname: str
    name: str
    params: list
    result: str
    raises: bool = False
    opaque: list = field(default_factory=list)
    calls: dict = field(default_factory=dict)
    patterns: list = field(default_factory=list)
    consts: dict = field(default_factory=dict)
    static: dict = field(default_factory=dict)
    #: {python name: Lean type text} - local variables whose first value does not determine the type
    #: (an empty list literal)
    locals: dict = field(default_factory=dict)
    #: for `Class.__init__`: the attributes the constructor stores (`self.a = ...`), in order; the
    #: translated function returns them as a tuple (the object). Other attribute stores are refused.
    fields: list = field(default_factory=list)
    #: abstract types: names usable in type texts; emitted as implicit binders `{a b : Type}`
    type_params: list = field(default_factory=list)
    #: {abstract type name: Lean term of its `≤` (α → α → Bool)}: `a <= b` is `le a b`, `a < b` is
    #: `!(le b a)` (the order is total on the values that occur - an assumption of the spec)
    orders: dict = field(default_factory=dict)
    #: {(abstract type name, int literal): Lean term}: what an int literal means in that type
    abs_lits: dict = field(default_factory=dict)
    #: {source text of an expression: (Lean term, Lean type text)}: literals of abstract types that
    #: are not ints, e.g. "(-1,)"
    literals: dict = field(default_factory=dict)
    #: {(receiver kind, method name): Fn}: methods of typed local receivers specific to this function
    methods: dict = field(default_factory=dict)
    #: a method that reads and writes attributes of `self`: the attribute names (each also listed in
    #: `params` as ("self.<name>", type)) whose final values the translated function returns, in
    #: this order. Result: `State` (or `State × R`) for a pure method, `State × Except String R` for
    #: a raising one - the state *at the moment of the raise*, as in Python.
    state: list = field(default_factory=list)
    #: {source text of an expression statement: [(env key, python expression text)]}: calls on
    #: abstract collaborators whose only modelled effect is to set state flags,
    #: e.g. {"self.on_update(self)": [("self.notified", "True")]}
    effects: dict = field(default_factory=dict)
    #: abstract types (names of `type_params`) whose values are always true in a boolean context
    #: (Python objects without `__bool__` / `__len__`, e.g. datetime)
    truthy_types: list = field(default_factory=list)
    #: share the statements after an `if` inside a `for` body through a local function (as outside
    #: loops) instead of one copy per branch
    join_in_loops: bool = False
    #: source texts of context-manager expressions whose `with` block is just its body in the
    #: (sequential) model, e.g. "self._failed_pin_auth.get_lock()"
    with_noop: list = field(default_factory=list)
    #: decorators the function may carry besides `staticmethod` (e.g. "property": the getter is
    #: translated as a function of the attributes it reads)
    decorators: list = field(default_factory=list)
    #: local names that may be re-assigned a value of another type (e.g. `bool | str` parameters)
    retype: list = field(default_factory=list)
    #: ("*": every local may be retyped - for unrolled loops over heterogeneous tuples)
    #: nested helper functions `def f(x): ...` inside the function: {name: ([(param, type text)],
    #: result type text)} - pure ones only (no raise escapes, no assignment to enclosing variables);
    #: they become local Lean functions and may read the enclosing variables
    nested: dict = field(default_factory=dict)
    #: {abstract type name: Lean function}: `str(x)` / an f-string field of that type
    abs_str: dict = field(default_factory=dict)
    #: {python name: Fn}: `x in <name>` for an object with its own `__contains__` (the Fn takes x)
    in_ops: dict = field(default_factory=dict)
    #: abstract types that are enumerations with decidable equality (e.g. an `enum.Enum` modelled as
    #: a Lean inductive): `==` between their values is Lean's `==`
    eq_types: list = field(default_factory=list)
    #: abstract types whose `==` is a function handed to the translation: {type: Lean function name}
    eq_fns: dict = field(default_factory=dict)
    #: {abstract type name: Fn}: calling a local variable of that type, `f(args)` (the Fn takes f first)
    callables: dict = field(default_factory=dict)
    #: translate only a prefix of the function: (source text of a statement - as `ast.unparse` prints
    #: it -, python expression text): when control reaches that statement the translated function
    #: returns the value of the expression instead of going on
    stop_at: tuple | None = None
    #: keys of dict displays whose entries are left out of the translation (values outside the subset)
    dict_skip_keys: tuple = ()
    #: `x == ""` / `x == b""` / `x == []` are spelled `x.isEmpty`, the way `not x` is (so the two Python
    #: spellings give the same Lean text); off for the translations that predate the option
    canon_empty: bool = True
    #: `if not c: A else: B` (a plain `else`, not `elif`) is translated as `if c: B else: A`
    canon_not_if: bool = True
    #: parameters of shared continuations (`k1_ …`) in a canonical order (see stmt_if_joined)
    canon_join_order: bool = True
    #: loop state (locals) in the order of first assignment in the function
    canon_loop_order: bool = False
    #: `s.find(x) >= 0` / `!= -1` / `> -1` are spelled like `x in s` (and `== -1` / `< 0` like `x not in s`)
    canon_find: bool = False
    #: model-only locals with their initial value {name: (Lean term, type text)}: flags written by
    #: declared effects (e.g. "the environ entry wsgi.input_terminated was set")
    init_locals: dict = field(default_factory=dict)
    #: {local name: type text}: variables that some path reaches without having assigned them (e.g.
    #: assigned only inside a loop body and read after the loop): they start unbound; reading one
    #: that is still unbound is the error "UnboundLocalError", as in Python
    maybe_unbound: dict = field(default_factory=dict)
    #: give the function a `(fuel : Nat)` parameter although it has no `while` loop of its own (it
    #: calls translated functions that take fuel: `Fn(..., extra=("fuel",))`)
    needs_fuel: bool = False
    #: loops take every `self.<attr>` parameter along (for specs whose patterns / table entries
    #: mention attributes that the Python text of the loop body does not)
    capture_self: bool = False
    doc: str = ""


LEAN_KEYWORDS = {
    "end", "at", "from", "in", "do", "then", "else", "if", "fun", "match", "with", "have", "show", "open", "local",
    "prefix", "section", "namespace", "instance", "where", "deriving", "universe", "variable", "theorem", "def",
    "let", "return", "import", "export", "mutual", "structure", "class", "inductive", "private", "protected",
    "partial", "unsafe", "for", "by", "suffices", "calc", "Type", "Prop", "Sort", "set_option", "macro", "syntax",
    "notation", "infix", "infixl", "infixr", "postfix", "attribute", "abbrev", "example", "axiom", "opaque",
    "extends", "using", "nomatch", "nofun", "try", "catch", "finally", "unless", "break", "continue", "mut",
    "rest_", "e_", "some", "none", "true", "false", "matches", "instance", "show", "from", "fun",
}


def lean_name(py: str) -> str:
    n = py
    if n in LEAN_KEYWORDS or not n.isidentifier():
        n = n.replace(".", "_") + "_"
    return n


def lean_char(ch: str) -> str:
    o = ord(ch)
    if ch == "'":
        return "'\\''"
    if ch == "\\":
        return "'\\\\'"
    if 32 <= o < 127:
        return f"'{ch}'"
    if 0xD800 <= o <= 0xDFFF:
        raise Untranslatable("lone surrogate in a string literal")
    return f"(Char.ofNat {o})"


def lean_str_lit(s: str) -> str:
    return "[" + ", ".join(lean_char(c) for c in s) + "]"


def lean_bytes_lit(b: bytes) -> str:
    return "[" + ", ".join(str(x) for x in b) + "]"


# --------------------------------------------------------------------------
# expressions


@dataclass
class E:
    lean: str
    ty: Ty
    const: object = None  # True / False when the expression is a known Bool constant
    atomic: bool = False
    var: str | None = None  # python name when the expression is a plain variable


def P(e: E) -> str:
    return e.lean if e.atomic else f"({e.lean})"


TRUE = E("true", BOOL, True, True)
FALSE = E("false", BOOL, False, True)


def bconst(b):
    return TRUE if b else FALSE


class JoinMismatch(Exception):
    """the branches of an `if` reach the following statements with different variable types"""


#: an `if` whose following statements are reached from several branches and translate to at least
#: this many lines gets them as one local function instead of one copy per branch
JOIN_MIN_LINES = 8


class PlainTooBig(Exception):
    """translating an `if` with one copy of the following statements per branch grows too large:
    the following statements are shared through a local function instead"""


class NeedUnwrap(Exception):
    """an Option-typed variable is used as a plain value"""

    def __init__(self, name, node):
        self.name, self.node = name, node


class NoneUsed(Exception):
    """a variable known to be None is used as a plain value (TypeError at run time)"""

    def __init__(self, name, node):
        self.name, self.node = name, node


@dataclass
class Var:
    lean: str
    ty: Ty
    #: for an iterator (`it = iter(xs)`, modelled as the list of items not yet consumed): the env key
    #: of the container it runs over, whether it is known to be used up, and - inside a loop over
    #: `enumerate(it)` - the name of the index variable
    iter_of: str | None = None
    exhausted: bool = False
    index_name: str | None = None
    #: for a variable narrowed to None by a case split: its declared (Optional) type
    was: object = None


@dataclass
class LoopCtx:
    fname: str  # Lean name of the auxiliary definition
    head: str  # leading arguments of a recursive call (captured variables)
    state: list  # python names threaded through
    state_tys: list
    #: loops with `break`: the result type is `Pre.LoopB` and `.brk` carries, besides the state, the
    #: variables of the body that the statements after the loop read (`exports`) and - for a loop
    #: over an iterator - the items not yet consumed
    has_break: bool = False
    exports: list = field(default_factory=list)
    export_tys: list | None = None
    rest_expr: str | None = None
    #: for a loop nested in another one: the enclosing loop; `.ret` of the inner loop carries a
    #: result of the enclosing loop's body (so a `return` inside is `.ret (.ret r)`)
    parent: object = None
    #: Lean type of the auxiliary definition's result
    result_ty: str | None = None



# --------------------------------------------------------------------------
# templates: source texts of a Spec (effect keys, static keys, stop_at, pattern texts) may contain
# metavariables `$x` standing for an arbitrary *name* (the same name at every occurrence): the Spec
# then does not depend on how the function's locals are called


def _template_ast(text: str, stmt: bool):
    import re as _re

    src = _re.sub(r"\$([A-Za-z_][A-Za-z0-9_]*)", r"MV_\1_", text)
    tree = ast.parse(src, mode="exec" if stmt else "eval")
    return tree.body[0] if stmt else tree.body


def _tcompare(t, n, binds) -> bool:
    if isinstance(t, ast.Name) and t.id.startswith("MV_") and t.id.endswith("_"):
        if not isinstance(n, ast.Name):
            return False
        key = t.id[3:-1]
        if key in binds:
            return binds[key] == n.id
        binds[key] = n.id
        return True
    if type(t) is not type(n):
        return False
    for f in t._fields:
        if f in ("ctx", "type_comment", "kind"):
            continue
        a, b = getattr(t, f, None), getattr(n, f, None)
        if isinstance(a, list):
            if not isinstance(b, list) or len(a) != len(b):
                return False
            for x, y in zip(a, b):
                if isinstance(x, ast.AST):
                    if not isinstance(y, ast.AST) or not _tcompare(x, y, binds):
                        return False
                elif x != y:
                    return False
        elif isinstance(a, ast.AST):
            if not isinstance(b, ast.AST) or not _tcompare(a, b, binds):
                return False
        elif a != b:
            return False
    return True


def template_match(text: str, node):
    """{metavariable: actual name} when `node` (an expression, or a statement) is the template `text`
    up to the names the metavariables stand for, else None. A text without `$` matches by its
    `ast.unparse` text."""
    if "$" not in text:
        try:
            return {} if ast.unparse(node) == text else None
        except Exception:  # noqa: BLE001
            return None
    try:
        t = _template_ast(text, isinstance(node, ast.stmt))
    except SyntaxError:
        return None
    binds = {}
    return binds if _tcompare(t, node, binds) else None


def template_subst(text: str, binds: dict) -> str:
    import re as _re

    return _re.sub(r"\$([A-Za-z_][A-Za-z0-9_]*)", lambda m: binds.get(m.group(1), m.group(0)), text)


class Translator:
    def __init__(self, spec: Spec, repo=None):
        self.spec = spec
        ABSTRACT_TYPES.update(spec.type_params)
        self.repo = repo or REPO
        self.path = os.path.join(self.repo, "src", "werkzeug", spec.module)
        self.src = open(self.path).read()
        self.lines = self.src.split("\n")
        self.result_ty = parse_ty(spec.result)
        self.raises = spec.raises
        self.aux = []  # text of auxiliary definitions (loops), in order
        self.nloops = 0
        self._handlers = None  # except clauses of the enclosing `try`
        self.njoin = 0
        self.loop_memo = {}
        self.size = 0
        self.tmp = 0
        self.where = f"{spec.module}:{spec.qualname}"

    # ---- diagnostics ----------------------------------------------------

    def bad(self, node, why):
        ln = getattr(node, "lineno", "?")
        try:
            txt = ast.unparse(node)
        except Exception:  # noqa: BLE001
            txt = "<?>"
        raise Untranslatable(f"{self.where}: line {ln}: {why}: `{txt[:160]}`")

    def srcline(self, node):
        """source text of a simple statement, or of the header line(s) of a compound one"""
        ln = getattr(node, "lineno", None)
        if ln is None:
            return ""
        end = ln
        if isinstance(node, (ast.If, ast.While)):
            end = getattr(node.test, "end_lineno", ln)
            # the line that carries the closing `:` of the header
            while end < len(self.lines) and not self.lines[end - 1].rstrip().endswith(":") and end < node.body[0].lineno - 1:
                end += 1
        elif isinstance(node, ast.For):
            end = getattr(node.iter, "end_lineno", ln)
        elif isinstance(node, (ast.Try, ast.ExceptHandler)):
            end = ln
        else:
            end = getattr(node, "end_lineno", ln) or ln
        return " ".join(x.strip() for x in self.lines[ln - 1 : end])

    # ---- locating the function ------------------------------------------

    def find_def(self):
        tree = ast.parse(self.src)
        parts = self.spec.qualname.split(".")
        body = tree.body
        for cls in parts[:-1]:
            hits = [n for n in body if isinstance(n, ast.ClassDef) and n.name == cls]
            if len(hits) != 1:
                raise Untranslatable(f"{self.where}: expected exactly one class {cls}, found {len(hits)}")
            body = hits[0].body
        def is_overload(fn):
            return any(dotted(d) in ("overload", "t.overload", "typing.overload") for d in fn.decorator_list)

        # `@overload` stubs only declare types; the one undecorated definition is the function
        hits = [n for n in body if isinstance(n, ast.FunctionDef) and n.name == parts[-1] and not is_overload(n)]
        if len(hits) != 1:
            raise Untranslatable(f"{self.where}: expected exactly one definition, found {len(hits)}")
        return hits[0], len(parts) > 1

    # ---- entry ----------------------------------------------------------

    def translate(self) -> str:
        fn, is_method = self.find_def()
        spec = self.spec

        class _Casts(ast.NodeTransformer):
            """`typing.cast(T, x)` is `x` at run time (unless a pattern of the spec maps the call)"""

            def visit_Call(self_, node):
                self_.generic_visit(node)
                if dotted(node.func) in ("t.cast", "typing.cast", "cast") and len(node.args) == 2 and not node.keywords:
                    if not any(m_(node) is not None for m_, _ in spec.patterns):
                        return node.args[1]
                return node

        fn = _Casts().visit(fn)
        # keys of the form "#k" (in `locals`, `maybe_unbound`, `in_ops`; `#k` inside `stop_at`): the k-th
        # local in order of first assignment (the Spec then does not depend on how the local is called)
        a_ = fn.args
        pnames = {x.arg for x in a_.posonlyargs + a_.args + a_.kwonlyargs} | ({a_.vararg.arg} if a_.vararg else set()) | ({a_.kwarg.arg} if a_.kwarg else set())
        stores = sorted(
            (x for st_ in fn.body for x in ast.walk(st_) if isinstance(x, ast.Name) and isinstance(x.ctx, ast.Store) and x.id not in pnames),
            key=lambda x: (x.lineno, x.col_offset),
        )
        order_ = []
        for x in stores:
            if x.id not in order_:
                order_.append(x.id)
        self.local_order = order_
        self.returned_names = {x.value.id for st_ in fn.body for x in ast.walk(st_) if isinstance(x, ast.Return) and isinstance(x.value, ast.Name)}

        # "<init>#k" (init one of `[]`, `{}`, `None`): the k-th local, in that order, whose first
        # assignment has exactly this value (typing an empty collection / a None start value without
        # depending on the name or on unrelated locals)
        first_val = {}
        for x in sorted((x for st_ in fn.body for x in ast.walk(st_) if isinstance(x, (ast.Assign, ast.AnnAssign))), key=lambda x: (x.lineno, x.col_offset)):
            tg_ = x.targets[0] if isinstance(x, ast.Assign) and len(x.targets) == 1 else (x.target if isinstance(x, ast.AnnAssign) else None)
            if isinstance(tg_, ast.Name) and x.value is not None and tg_.id not in pnames:
                first_val.setdefault(tg_.id, []).append(ast.unparse(x.value))

        def _by_init(key):
            # (any assignment of the local with this value counts, not only the first one in the text:
            # exchanging the branches of an `if` must not matter; order = first such assignment)
            init_, k_ = key.rsplit("#", 1)
            names_ = []
            for x in sorted((x for st_ in fn.body for x in ast.walk(st_) if isinstance(x, (ast.Assign, ast.AnnAssign)) and x.value is not None), key=lambda x: (x.lineno, x.col_offset)):
                tg2_ = x.targets[0] if isinstance(x, ast.Assign) and len(x.targets) == 1 else (x.target if isinstance(x, ast.AnnAssign) else None)
                if isinstance(tg2_, ast.Name) and tg2_.id not in pnames and tg2_.id not in names_ and ast.unparse(x.value) == init_:
                    names_.append(tg2_.id)
            if int(k_) - 1 >= len(names_):
                raise Untranslatable(f"{self.where}: the spec refers to local {key}, the function has {len(names_)} locals starting as {init_}")
            return names_[int(k_) - 1]

        def _by_value(text):
            """"~<text>": the local that is (somewhere) assigned exactly this expression"""
            names_ = []
            for x in (x for st_ in fn.body for x in ast.walk(st_) if isinstance(x, (ast.Assign, ast.AnnAssign)) and x.value is not None):
                tg_ = x.targets[0] if isinstance(x, ast.Assign) and len(x.targets) == 1 else (x.target if isinstance(x, ast.AnnAssign) else None)
                if isinstance(tg_, ast.Name) and template_match(text, x.value) is not None and tg_.id not in names_:
                    names_.append(tg_.id)
            if len(names_) != 1:
                raise Untranslatable(f"{self.where}: the spec refers to the local assigned `{text}`: {len(names_)} such locals")
            return names_[0]

        def _resolve(d):
            out = {}
            for k_, v_ in d.items():
                if k_.startswith("~"):
                    out[_by_value(k_[1:])] = v_
                elif "#" in k_ and not k_.startswith("#"):
                    out[_by_init(k_)] = v_
                elif k_.startswith("#"):
                    i_ = int(k_[1:]) - 1
                    if i_ >= len(order_):
                        raise Untranslatable(f"{self.where}: the spec refers to local {k_}, the function has {len(order_)} locals")
                    out[order_[i_]] = v_
                else:
                    out[k_] = v_
            return out

        if any("#" in k_ or k_.startswith("~") for d_ in (spec.locals, spec.maybe_unbound, spec.in_ops) for k_ in d_) or (spec.stop_at and "#" in spec.stop_at[1]):
            import dataclasses as _dc
            import re as _re

            stop_ = spec.stop_at
            if stop_ and "#" in stop_[1]:
                stop_ = (stop_[0], _re.sub(r"#(\d+)", lambda m: order_[int(m.group(1)) - 1] if int(m.group(1)) <= len(order_) else m.group(0), stop_[1]))
            spec = _dc.replace(spec, locals=_resolve(spec.locals), maybe_unbound=_resolve(spec.maybe_unbound), in_ops=_resolve(spec.in_ops), stop_at=stop_)
            self.spec = spec
        if fn.decorator_list and not all(isinstance(d, ast.Name) and d.id in ("staticmethod", *spec.decorators) for d in fn.decorator_list):
            self.bad(fn, "decorated function")
        a = fn.args
        if a.vararg is not None and not any(p == "*" + a.vararg.arg for p, _ in spec.params):
            self.bad(fn, "*args not covered by the signature spec")
        if a.kwonlyargs and any(d is not None for d in a.kw_defaults):
            self.bad(fn, "keyword-only parameters with defaults")
        if a.kwarg is not None and spec.static.get(a.kwarg.arg) is not False:
            # `**kwargs` is only accepted when the spec restricts the function to calls without
            # keyword arguments (static = {"kwargs": False}: `if kwargs:` is then decided)
            self.bad(fn, "**kwargs (not restricted to the empty case by the signature spec)")
        pynames = [x.arg for x in a.posonlyargs] + [x.arg for x in a.args]
        if is_method and any(isinstance(d, ast.Name) and d.id == "staticmethod" for d in fn.decorator_list):
            is_method = False  # a static method has no receiver
        if is_method:
            if not pynames or pynames[0] != "self":
                self.bad(fn, "method without self")
            pynames = pynames[1:]
        if a.vararg is not None:
            pynames.append("*" + a.vararg.arg)
        # keyword-only parameters (without defaults) are ordinary parameters of the translation
        pynames += [x.arg for x in a.kwonlyargs]
        # ("self", ty): the object itself is a value (e.g. a list subclass iterated with `for x in self`)
        declared = [p for p, _ in spec.params if not p.startswith("self.") and p != "self"]
        if declared != pynames:
            raise Untranslatable(f"{self.where}: parameters are {pynames}, the signature spec declares {declared}")
        env = {}
        binders = []
        if spec.type_params:
            binders.append("{" + " ".join(spec.type_params) + " : Type}")
        self.implicit = binders[0] + " " if binders else ""
        self.has_while = any(isinstance(x, ast.While) for x in ast.walk(fn)) or spec.needs_fuel
        if self.has_while:
            # a `while` loop is translated with an explicit bound on its iterations; running out of it
            # is a marker error, so an equality theorem has to show that the bound given suffices
            binders.append("(fuel : Nat)")
        for nm, ty in spec.opaque:
            binders.append(f"({nm} : {ty})")
        for p, ty in spec.params:
            t = parse_ty(ty)
            key = p[1:] if p.startswith("*") else p
            ln = lean_name(key.replace("self.", "self_"))
            env[key] = Var(ln, t)
            binders.append(f"({ln} : {lean_ty(t)})")
        self.opaque_args = "".join(" " + nm for nm, _ in spec.opaque)
        rty = lean_ty(self.result_ty)
        if spec.state:
            for key_ in self.state_keys():
                if key_ not in env:
                    raise Untranslatable(f"{self.where}: state {key_!r} is not declared in params")
            st_ty = " × ".join(lean_ty(env[key_].ty, len(spec.state) == 1) for key_ in self.state_keys())
            if spec.raises:
                rty = f"({st_ty}) × Except String {_par(rty)}"
            else:
                rty = st_ty if self.result_ty == NONE else f"({st_ty}) × {_par(rty)}"
        elif spec.raises:
            rty = f"Except String ({rty})" if " " in rty else f"Except String {rty}"
        self.ret_lean_ty = rty
        fn = self.generator_as_list(fn)
        unb_lines = []
        for nm_, ty_ in spec.maybe_unbound.items():
            t_ = Ty("Unb", (parse_ty(ty_),))
            env[nm_] = Var(lean_name(nm_), t_)
            unb_lines += [f"-- ({nm_}: not bound yet)", f"let {lean_name(nm_)} : {lean_ty(t_)} := none"]
        for nm_, (term_, ty_) in spec.init_locals.items():
            # a model-only local (written by declared effects), with its initial value
            t_ = parse_ty(ty_)
            env[nm_] = Var(lean_name(nm_), t_)
            unb_lines += [f"-- ({nm_}: a local of the model, written by the declared effects)", f"let {lean_name(nm_)} : {lean_ty(t_)} := {term_}"]
        body = unb_lines + self.block(fn.body, env, None, self.fall_off_end(fn))
        doc = spec.doc or f"`{spec.qualname}` of src/werkzeug/{spec.module}, translated by tools/py2lean.py"
        out = []
        out += self.aux
        out.append(f"/-- {doc} -/")
        out.append(f"def {spec.name} {' '.join(binders)} : {rty} :=")
        out += ["  " + ln for ln in body]
        return "\n".join(out) + "\n"

    def generator_as_list(self, fn):
        """a generator function as the list of everything it yields (for a consumer that reads it to
        the end; an exception raised after some items were yielded is raised before any item is
        seen): `yield e` becomes `yielded_.append(e)`, the function returns `yielded_`"""
        ys = [x for st_ in fn.body for x in ast.walk(st_) if isinstance(x, (ast.Yield, ast.YieldFrom))]
        if not ys:
            return fn
        if self.result_ty.kind != "List":
            self.bad(fn, "a generator function needs a List result type in its spec")

        class T(ast.NodeTransformer):
            def visit_FunctionDef(self_, node):  # noqa: N805
                return node  # nested functions keep their own yields (refused there)

            def visit_Expr(self_, node):  # noqa: N805
                if isinstance(node.value, ast.Yield) and node.value.value is not None:
                    call = ast.Expr(value=ast.Call(func=ast.Attribute(value=ast.Name(id="yielded_", ctx=ast.Load()), attr="append", ctx=ast.Load()), args=[node.value.value], keywords=[]))
                    ast.copy_location(call, node)
                    ast.fix_missing_locations(call)
                    call._py2lean_comment = self.srcline(node) + "   [the generator as the list of its items]"
                    return call
                return node

            def visit_Return(self_, node):  # noqa: N805
                if node.value is not None and not (isinstance(node.value, ast.Constant) and node.value.value is None):
                    self.bad(node, "a generator that returns a value")
                r = ast.Return(value=ast.Name(id="yielded_", ctx=ast.Load()))
                ast.copy_location(r, node)
                ast.fix_missing_locations(r)
                return r

        import copy as _c

        fn2 = _c.copy(fn)
        body = [T().visit(_copy(st_)) for st_ in fn.body]
        for st_ in body:
            for x in ast.walk(st_):
                if isinstance(x, (ast.Yield, ast.YieldFrom)):
                    self.bad(x, "yield in a position other than a statement of its own (or `yield from`)")
        init = ast.Assign(targets=[ast.Name(id="yielded_", ctx=ast.Store())], value=ast.List(elts=[], ctx=ast.Load()))
        fin = ast.Return(value=ast.Name(id="yielded_", ctx=ast.Load()))
        for x in (init, fin):
            ast.copy_location(x, fn)
            ast.fix_missing_locations(x)
        init._py2lean_comment = "(generator: the items it yields, in order)"
        fin._py2lean_comment = "(end of the generator)"
        self.spec.locals.setdefault("yielded_", self.spec.result)
        fn2.body = [init] + body + [fin]
        return fn2

    def fall_off_end(self, fn):
        def k(env, loop):
            if self.spec.fields:
                # a constructor: the object = the tuple of its stored attributes
                items = []
                for f in self.spec.fields:
                    if "self." + f not in env:
                        self.bad(fn, f"attribute {f!r} is not stored on every path through the constructor")
                    v = env["self." + f]
                    items.append(E(v.lean, v.ty, None, True))
                if len(items) == 1:
                    return self.emit_return(items[0], fn, env, loop)
                e = E("(" + ", ".join(x.lean for x in items) + ")", Tup(*[x.ty for x in items]), None, True)
                e.items = items
                return self.emit_return(e, fn, env, loop)
            # falling off the end of the function returns None
            return self.emit_return(E("none", NONE, None, True), fn, env, loop)

        return k

    # ---- results --------------------------------------------------------

    def state_keys(self):
        """env keys of the state the method hands back: attributes `self.f`, or plain parameters that
        it mutates in place (e.g. the caller's buffer)"""
        declared = {p for p, _ in self.spec.params}
        return [("self." + f) if ("self." + f) in declared else f for f in self.spec.state]

    def state_tuple_of(self, env, node, keys=None):
        keys = self.state_keys() if keys is None else keys
        items = []
        for key in keys:
            if key not in env:
                self.bad(node, f"state attribute {key} is not defined here")
            items.append(env[key].lean)
        return items[0] if len(items) == 1 else "(" + ", ".join(items) + ")"

    def wrap_value(self, lean_val: str, loop, env=None, node=None) -> list:
        s = lean_val
        if self.spec.state and not getattr(self, "nested_fn", False):
            st = self.state_tuple_of(env, node)
            unit = self.result_ty == NONE
            if self.raises:
                s = f"({st}, .ok {'()' if unit else (s if _is_atomic_text(s) else '(' + s + ')')})"
            else:
                s = st if unit else f"({st}, {s})"
        elif self.raises:
            s = f".ok ({s})" if not _is_atomic_text(s) else f".ok {s}"
        return [self.loop_wrap(s, loop)]

    def loop_wrap(self, s: str, loop) -> str:
        """a value of the function's result type as the result of the body of `loop` (and of every
        loop around it): `.ret` once per level"""
        while loop is not None:
            s = f".ret ({s})" if not _is_atomic_text(s) else f".ret {s}"
            loop = loop.parent
        return s

    def wrap_error(self, cls_lean: str, node, loop, env=None) -> list:
        """cls_lean: a Lean string term (literal or variable)"""
        if not self.raises:
            self.bad(node, "the function is declared pure (raises=False) but can raise here")
        s = f".error {cls_lean}"
        if self.spec.state and not getattr(self, "nested_fn", False):
            s = f"({self.state_tuple_of(env, node)}, .error {cls_lean})"
        return [self.loop_wrap(s, loop)]

    def emit_return(self, e: E, node, env, loop):
        if self.result_ty == NONE and self.spec.state:
            if e.ty != NONE:
                self.bad(node, "a method declared to return None returns a value")
            return self.wrap_value("()", loop, env, node)
        if self.result_ty == NONE and e.ty == NONE:
            return self.wrap_value("()", loop, env, node)
        c = self.coerce(e, self.result_ty, node)
        return self.wrap_value(c.lean, loop, env, node)

    # ---- coercions ------------------------------------------------------

    def coerce(self, e: E, ty: Ty, node) -> E:
        if e.ty == ty:
            if ty == NONE and e.lean == "none":
                return E("()", NONE, None, True)  # a literal None where the Lean side takes a Unit
            return e
        if ty.kind == "Rec" and e.ty.kind == "Tup" and [t for _, t in RECORDS[ty.args[0]]] == list(e.ty.args):
            return E(e.lean, ty, None, e.atomic)  # the tuple of the attributes is the object
        if ty.kind == "Abs" and e.ty == INT and getattr(e, "intlit", None) is not None:
            key = (ty.args[0], e.intlit)
            if key not in self.spec.abs_lits:
                self.bad(node, f"the spec gives no meaning to the literal {e.intlit} in the abstract type {ty.args[0]}")
            term = self.spec.abs_lits[key]
            return E(term, ty, None, _is_atomic_text(term))
        if ty.kind == "Unb":
            if e.ty.kind == "Unb":
                self.bad(node, "internal: unbound-typed value")
            c = self.coerce(e, ty.args[0], node)
            return E(f"some {P(c)}", ty)
        if ty.kind == "Opt":
            inner = ty.args[0]
            if e.ty == NONE:
                return E("none", ty, None, True)
            if e.ty.kind == "Opt":
                self.bad(node, f"type mismatch: {e.ty} where {ty} is expected")
            c = self.coerce(e, inner, node)
            return E(f"some {P(c)}", ty)
        if e.ty.kind == "Opt" and e.ty.args[0] == ty and e.var is not None:
            raise NeedUnwrap(e.var, node)
        if e.ty == NONE and e.var is not None:
            raise NoneUsed(e.var, node)
        if ty.kind == "Tup" and e.ty.kind == "Tup" and len(ty.args) == len(e.ty.args) and hasattr(e, "items"):
            items = [self.coerce(x, t, node) for x, t in zip(e.items, ty.args)]
            return E("(" + ", ".join(x.lean for x in items) + ")", ty, None, True)
        if ty.kind == "List" and e.ty.kind == "List" and e.lean == "[]":
            return E("[]", ty, None, True)
        if ty.kind == "List" and e.ty.kind == "Tup" and hasattr(e, "items") and all(x.ty == ty.args[0] for x in e.items):
            # a tuple display handed to something that only iterates it (`sep.join((a, b))`)
            return E("[" + ", ".join(x.lean for x in e.items) + "]", ty, None, True)
        if ty.kind == "Dict" and e.ty.kind == "Dict" and e.lean == "[]":
            return E("[]", ty, None, True)
        if ty.kind == "Dict" and e.ty.kind == "Dict" and ty.args[0] == e.ty.args[0] and ty.args[1] == Opt(e.ty.args[1]):
            return E(f"{P(e)}.map fun kv_ => (kv_.1, some kv_.2)", ty)  # values that are never None
        if ty.kind in ("Dict", "List", "Set") and e.ty.kind == "Tup0":
            return E("[]", ty, None, True)  # `cls(())`-style empty initialiser
        self.bad(node, f"type mismatch: {e.ty} where {ty} is expected")

    def plain_recv(self, e: E, node) -> E:
        """the receiver of an attribute access / method call must be plain: on None Python raises
        AttributeError (not TypeError)"""
        try:
            return self.plain(e, node)
        except (NeedUnwrap, NoneUsed) as u:
            u.cls = "AttributeError"
            raise

    def plain(self, e: E, node) -> E:
        """e must be a plain (non-Option, non-None) value"""
        if e.ty.kind == "Opt":
            if e.var is not None:
                raise NeedUnwrap(e.var, node)
            self.bad(node, "an Optional value is used as a plain value")
        if e.ty == NONE:
            if e.var is not None:
                raise NoneUsed(e.var, node)
            self.bad(node, "None is used as a plain value")
        return e

    # ---- truthiness -----------------------------------------------------

    def truthy(self, e: E, node) -> E:
        if e.ty == BOOL:
            return e
        if e.ty == NONE:
            return FALSE
        if e.ty in (STR, BYTES) or e.ty.kind in ("List", "Dict", "Set"):
            return self.negate(E(f"{P(e)}.isEmpty", BOOL, None, True))
        if e.ty.kind == "Rec":
            fn = self.spec.methods.get(("Rec:" + e.ty.args[0], "__bool__"))
            if fn is None:
                return TRUE  # a class without __bool__ / __len__: always true
            args = [rec_proj(P(e), e.ty.args[0], f)[0] for f in fn.recv_fields]
            return E(f"{fn.lean} " + " ".join(args), BOOL)
        if e.ty.kind == "Abs" and e.ty.args[0] in self.spec.truthy_types:
            return TRUE  # objects without __bool__ / __len__ (e.g. datetime) are always true
        if e.ty == INT:
            return self.negate(E(f"{P(e)} == 0", BOOL))
        if e.ty == OBJ:
            return TRUE
        if e.ty.kind == "Tup":
            return TRUE  # a tuple with at least two items is never empty
        if e.ty.kind == "Opt":
            if e.var is not None:
                raise NeedUnwrap(e.var, node)  # statement level splits first; reaching here is unguarded
            # an Optional value that is not a variable (nothing to narrow): None is false, anything
            # else has the truth value of its content
            inner = self.truthy(E("v_", e.ty.args[0], None, True), node)
            if inner.const is True:
                return E(f"{P(e)}.isSome", BOOL)
            if inner.const is False:
                return FALSE
            return E(f"Option.any (fun v_ => {inner.lean}) {P(e)}", BOOL)
        self.bad(node, f"truthiness of a value of type {e.ty}")

    # ---- expression translation ----------------------------------------

    def expr(self, n, env) -> E:
        self.size += 1
        if self.size > getattr(self, "size_soft", 10**9):
            raise PlainTooBig()
        if self.size > 60000:
            raise Untranslatable(f"{self.where}: translation grows too large (case splits / duplicated continuations)")
        src = None
        if self.spec.static:
            try:
                src = ast.unparse(n)
            except Exception:  # noqa: BLE001
                src = None
            if src in self.spec.static:
                return bconst(bool(self.spec.static[src]))
        if self.spec.literals:
            try:
                src2 = ast.unparse(n)
            except Exception:  # noqa: BLE001
                src2 = None
            if src2 in self.spec.literals:
                term, ty = self.spec.literals[src2]
                return E(term, parse_ty(ty), None, _is_atomic_text(term))
        if not isinstance(n, ast.Call):
            for matcher, fn in self.spec.patterns:
                args = matcher(n)
                if args is not None:
                    if fn.raises:
                        self.bad(n, "a raising pattern on a non-call expression")
                    return self.apply(fn, args, n, env)
        if isinstance(n, ast.Constant):
            v = n.value
            if v is None:
                return E("none", NONE, None, True)
            if isinstance(v, bool):
                return bconst(v)
            if isinstance(v, int):
                e = E(str(v), INT, None, True) if v >= 0 else E(f"({v})", INT, None, True)
                e.intlit = v
                return e
            if isinstance(v, str):
                e = E(lean_str_lit(v), STR, None, True)
                e.lit = v
                return e
            if isinstance(v, bytes):
                e = E(lean_bytes_lit(v), BYTES, None, True)
                e.lit = v
                return e
            self.bad(n, "unsupported literal")
        if isinstance(n, ast.Name):
            if n.id in env:
                v = env[n.id]
                if v.ty.kind == "Unb":
                    raise NeedUnwrap(n.id, n)  # possibly unbound: the enclosing statement splits
                return E(v.lean, v.ty, None, True, n.id)
            if n.id in self.spec.consts:
                term, ty = self.spec.consts[n.id]
                return E(term, parse_ty(ty), None, _is_atomic_text(term))
            self.bad(n, f"unknown name {n.id!r} (not a parameter, not assigned on every path, not a declared constant)")
        if isinstance(n, ast.Attribute):
            d = dotted(n)
            if d is not None and d in env:
                v = env[d]
                return E(v.lean, v.ty, None, True, d)
            if d is not None and d in self.spec.consts:
                term, ty = self.spec.consts[d]
                return E(term, parse_ty(ty), None, _is_atomic_text(term))
            base = self.plain_recv(self.expr(n.value, env), n.value)
            if base.ty.kind == "Rec":
                pr = rec_proj(P(base), base.ty.args[0], n.attr)
                if pr is None:
                    self.bad(n, f"the record {base.ty.args[0]} has no attribute {n.attr!r}")
                return E(pr[0], pr[1], None, True)
            self.bad(n, "unsupported attribute access")
        if isinstance(n, ast.JoinedStr):
            parts = []
            for v in n.values:
                if isinstance(v, ast.Constant) and isinstance(v.value, str):
                    if v.value:
                        parts.append(lean_str_lit(v.value))
                elif isinstance(v, ast.FormattedValue) and v.conversion == -1 and v.format_spec is None:
                    # {expr} without conversion / format spec: str(expr); only str and int values
                    x = self.plain(self.expr(v.value, env), v.value)
                    if x.ty == STR:
                        parts.append(P(x) if len(n.values) > 1 else x.lean)
                    elif x.ty == INT:
                        parts.append(f"Pre.strOfInt {P(x)}")
                    elif x.ty.kind == "Abs" and x.ty.args[0] in self.spec.abs_str:
                        parts.append(f"{self.spec.abs_str[x.ty.args[0]]} {P(x)}")
                    else:
                        self.bad(n, f"f-string field of type {x.ty} (only str and int)")
                else:
                    self.bad(n, "f-string field with a conversion or a format spec")
            if not parts:
                return E("[]", STR, None, True)
            return E(" ++ ".join(parts), STR, None, len(parts) == 1)
        if isinstance(n, ast.Tuple):
            items = [self.expr(x, env) for x in n.elts]
            if len(items) == 1:
                # `(x,)`: only ever used as an iterable here - the one-element list
                x = self.plain(items[0], n)
                return E(f"[{x.lean}]", Lst(x.ty), None, True)
            if len(items) < 2:
                return E("()", Ty("Tup0"), None, True)  # `()`: only as an empty initialiser
            e = E("(" + ", ".join(x.lean for x in items) + ")", Tup(*[x.ty for x in items]), None, True)
            e.items = items
            return e
        if isinstance(n, ast.List):
            items = [self.expr(x, env) for x in n.elts]
            if not items:
                e = E("[]", Lst(NONE), None, True)
                return e
            t = items[0].ty
            items = [self.coerce(x, t, n) for x in items]
            return E("[" + ", ".join(x.lean for x in items) + "]", Lst(t), None, True)
        if isinstance(n, ast.UnaryOp):
            if isinstance(n.op, ast.Not):
                b = self.cond(n.operand, env)
                return self.negate(b)
            if isinstance(n.op, ast.USub):
                x = self.plain(self.expr(n.operand, env), n.operand)
                if x.ty != INT:
                    self.bad(n, "unary minus on a non-int")
                e = E(f"-{P(x)}", INT)
                if getattr(x, "intlit", None) is not None:
                    e = E(f"({-x.intlit})", INT, None, True)
                    e.intlit = -x.intlit
                return e
            self.bad(n, "unsupported unary operator")
        if isinstance(n, ast.BoolOp):
            return self.boolop(n, env)
        if isinstance(n, ast.Compare):
            return self.compare(n, env)
        if isinstance(n, ast.BinOp):
            return self.binop(n, env)
        if isinstance(n, ast.IfExp):
            c = self.cond(n.test, env)
            if c.const is True:
                return self.expr(n.body, env)
            if c.const is False:
                return self.expr(n.orelse, env)
            a, b = self.expr(n.body, env), self.expr(n.orelse, env)
            ty = self.join_ty(a.ty, b.ty, n)
            a, b = self.coerce(a, ty, n), self.coerce(b, ty, n)
            return E(f"if {c.lean} then {a.lean} else {b.lean}", ty)
        if isinstance(n, ast.Subscript):
            return self.subscript(n, env)
        if isinstance(n, ast.Call):
            return self.call(n, env)
        if isinstance(n, ast.ListComp):
            return self.listcomp(n, env)
        if isinstance(n, ast.GeneratorExp):
            # a generator expression handed to a consumer that reads it once to the end (join, list,
            # a constructor): its items in order, i.e. the list comprehension (elements are pure here:
            # raising calls inside a comprehension are refused)
            lc = ast.ListComp(elt=n.elt, generators=n.generators)
            ast.copy_location(lc, n)
            ast.fix_missing_locations(lc)
            return self.listcomp(lc, env)
        if isinstance(n, ast.Dict):
            if n.keys:
                # a dict display with distinct constant keys; the entries whose key the spec lists in
                # `dict_skip_keys` (values outside the subset: objects, tuples, ...) are left out - the
                # translated dict is the rest, in display order
                if any(k_ is None for k_ in n.keys):
                    self.bad(n, "dict display with ** unpacking")
                if not all(isinstance(k_, ast.Constant) and isinstance(k_.value, str) for k_ in n.keys):
                    self.bad(n, "dict display with keys that are not text literals")
                ks = [k_.value for k_ in n.keys]
                if len(set(ks)) != len(ks):
                    self.bad(n, "dict display with a repeated key")
                items, vty = [], None
                for k_, v_ in zip(n.keys, n.values):
                    if k_.value in self.spec.dict_skip_keys:
                        continue
                    ke = self.expr(k_, env)
                    ve = self.plain(self.expr(v_, env), v_)
                    if vty is None:
                        vty = ve.ty
                    elif ve.ty != vty:
                        self.bad(v_, f"dict display with values of different types ({vty}, {ve.ty}): list the key in dict_skip_keys")
                    items.append(f"({ke.lean}, {ve.lean})")
                if vty is None:
                    return E("[]", Ty("Dict", (NONE, NONE)), None, True)
                return E("[" + ", ".join(items) + "]", Dct(STR, vty), None, True)
            return E("[]", Ty("Dict", (NONE, NONE)), None, True)
        self.bad(n, "unsupported expression")

    def target_names(self, t):
        if isinstance(t, ast.Name):
            return [t.id]
        if isinstance(t, ast.Tuple):
            out = []
            for x in t.elts:
                out += self.target_names(x)
            return out
        self.bad(t, "target that is not a name or a (nested) tuple of names")

    def destructure(self, t, lean: str, ty: Ty, node):
        """bind the (nested) tuple target `t` to the value `lean : ty` -> [(python name, lean name, Ty, lean term)]"""
        if isinstance(t, ast.Name):
            return [(t.id, lean_name(t.id), ty, lean)]
        if not isinstance(t, ast.Tuple) or ty.kind != "Tup" or len(ty.args) != len(t.elts):
            self.bad(node, f"unpacking a {ty} into `{ast.unparse(t)}`")
        out, m = [], len(t.elts)
        for i, x in enumerate(t.elts):
            proj = ".2" * i + (".1" if i < m - 1 else "")
            out += self.destructure(x, f"{lean}{proj}", ty.args[i], node)
        return out

    def listcomp(self, n, env) -> E:
        """`[elt for tgt in xs if c1 if c2]` (one `for`; no walrus - see stmt for that form) as a
        `filter` followed by a `map`"""
        if len(n.generators) != 1 or n.generators[0].is_async:
            self.bad(n, "comprehension with several `for` clauses")
        g = n.generators[0]
        for x in ast.walk(n):
            if isinstance(x, ast.NamedExpr):
                self.bad(n, "assignment expression inside a comprehension that is not the whole right-hand side of an assignment")
        it = self.plain(self.expr(g.iter, env), g.iter)
        if it.ty.kind not in ("List", "Set"):
            # (a set is iterated in the order of its model list: insertion order; for a real
            # `set` / `frozenset` the order is arbitrary - statements about it hold for every order
            # only if the consumer does not depend on it)
            self.bad(n, f"comprehension over a {it.ty}")
        elt_ty = it.ty.args[0]
        self.tmp += 1
        x = f"x{self.tmp}_" if not isinstance(g.target, ast.Name) else lean_name(g.target.id)
        env2 = dict(env)
        lets = ""
        for py, ln, ty, term in self.destructure(g.target, x, elt_ty, n):
            env2[py] = Var(ln, ty)
            drop_facts(env2, py)
            if term != ln:
                lets += f"let {ln} : {lean_ty(ty)} := {term}; "
        cur = P(it)
        for c in g.ifs:
            cond = self.cond(c, env2)
            cur = f"({cur}.filter fun {x} => {lets}{cond.lean})"
        elt = self.plain(self.expr(n.elt, env2), n.elt) if not isinstance(n.elt, ast.Tuple) else self.expr(n.elt, env2)
        if elt.var is not None and isinstance(g.target, ast.Name) and elt.var == g.target.id:
            return E(cur, Lst(elt_ty), None, True)
        return E(f"{cur}.map fun {x} => {lets}{elt.lean}", Lst(elt.ty))

    def join_ty(self, a: Ty, b: Ty, node) -> Ty:
        if a == b:
            return a
        if a == NONE and b.kind != "Opt":
            return Opt(b)
        if b == NONE and a.kind != "Opt":
            return Opt(a)
        if a == NONE:
            return b
        if b == NONE:
            return a
        if a.kind == "Opt" and a.args[0] == b:
            return a
        if b.kind == "Opt" and b.args[0] == a:
            return b
        self.bad(node, f"branches have different types {a} / {b}")

    def negate(self, b: E) -> E:
        if b.const is not None:
            return bconst(not b.const)
        inner = getattr(b, "neg_of", None)
        if inner is not None:
            return inner
        r = E(f"!{P(b)}", BOOL)
        r.neg_of = b
        return r

    def cond(self, n, env) -> E:
        """translate `n` in a boolean context (if-test, operand of not / and / or)"""
        known = lookup_fact(env, n)
        if known is not None:
            return bconst(known)
        if isinstance(n, ast.BoolOp):
            return self.boolop(n, env, True)
        if isinstance(n, ast.UnaryOp) and isinstance(n.op, ast.Not):
            return self.negate(self.cond(n.operand, env))
        return self.truthy(self.expr(n, env), n)

    def boolop(self, n, env, bool_ctx=False) -> E:
        """`and` / `or` in boolean meaning only (value semantics `a or b` of non-bools is outside
        the subset: every operand must be a Bool after Python's truthiness conversion and the
        context must use the result as a truth value - checked by the callers through the type)"""
        is_or = isinstance(n.op, ast.Or)
        acc = []
        for v in n.values:
            if bool_ctx:
                b = self.cond(v, env)
            else:
                x = self.expr(v, env)
                if x.ty != BOOL:
                    if is_or and v is n.values[0]:
                        return self.value_or(n, env)
                    # `a and b` where a is not a bool returns a itself: only allowed in a boolean context
                    self.bad(n, "`and` / `or` over non-bool operands outside a boolean context")
                b = x
            if b.const is not None:
                if b.const == is_or:
                    # `x or True` / `x and False`: Python stops here; the operands before are pure
                    return bconst(is_or)
                continue  # neutral element
            acc.append(b)
        if not acc:
            return bconst(not is_or)
        if len(acc) == 1:
            return acc[0]
        op = " || " if is_or else " && "
        return E(op.join(P(x) for x in acc), BOOL)

    def value_or(self, n, env) -> E:
        """`a or b or c` as a value, all operands of one plain type: the first true one, else the last"""
        xs = [self.expr(v, env) for v in n.values]
        # (the declared type of operands narrowed to None: `d or ()` is an empty `d`-like collection)
        was_ = [env[x.var].was.args[0] for x in xs[:-1] if x.ty == NONE and x.var in env and getattr(env[x.var], "was", None) is not None and env[x.var].was.kind == "Opt"]
        xs = [x for x in xs[:-1] if x.ty != NONE] + xs[-1:]  # a None operand is false: skipped
        tys = [x.ty for x in xs if x.ty.kind != "Tup0"] + was_
        if tys and xs[-1].ty.kind == "Tup0":
            xs[-1] = self.coerce(xs[-1], tys[0], n)  # `xs or ()`: the empty collection
            if len(xs) == 1 and xs[0].lean == "[]":
                xs[0] = E(f"([] : {lean_ty(tys[0])})", tys[0], None, True)  # (alone: the type is not implied by another operand)
        xs = [self.plain(x, n) for x in xs]
        if len(xs) == 1:
            return xs[0]
        ty = xs[0].ty
        if any(x.ty != ty for x in xs) or not (ty in (STR, BYTES, INT) or ty.kind in ("List", "Dict", "Set")):
            self.bad(n, "`or` as a value over operands that are not all of one str / bytes / int / list type")
        cur = xs[-1]
        for x in reversed(xs[:-1]):
            t = self.truthy(x, n)
            cur = E(f"if {t.lean} then {x.lean} else {cur.lean}", ty)
        return cur

    def compare(self, n, env) -> E:
        if self.spec.canon_find and len(n.ops) == 1 and isinstance(n.left, ast.Call) and isinstance(n.left.func, ast.Attribute) and n.left.func.attr == "find" and len(n.left.args) == 1 and not n.left.keywords:
            r_ = n.comparators[0]
            v_ = r_.value if isinstance(r_, ast.Constant) else (-r_.operand.value if isinstance(r_, ast.UnaryOp) and isinstance(r_.op, ast.USub) and isinstance(r_.operand, ast.Constant) else None)
            key_ = (type(n.ops[0]).__name__, v_)
            pos_ = {("GtE", 0): True, ("NotEq", -1): True, ("Gt", -1): True, ("Eq", -1): False, ("Lt", 0): False}.get(key_)
            if pos_ is not None:
                # `s.find(x) >= 0` is `x in s` (and `== -1` is `x not in s`): one spelling
                new = ast.Compare(left=n.left.args[0], ops=[ast.In() if pos_ else ast.NotIn()], comparators=[n.left.func.value])
                ast.copy_location(new, n)
                ast.fix_missing_locations(new)
                return self.compare(new, env)
        operands = [n.left] + list(n.comparators)
        vals = [None] * len(operands)

        def val(i):
            if vals[i] is None:
                vals[i] = self.expr(operands[i], env)
            return vals[i]

        acc = []
        for i, op in enumerate(n.ops):
            c = self.compare1(op, operands[i], operands[i + 1], val, i, env, n)
            if c.const is False:
                return FALSE
            if c.const is True:
                continue
            acc.append(c)
        if not acc:
            return TRUE
        if len(acc) == 1:
            return acc[0]
        return E(" && ".join(P(x) for x in acc), BOOL)

    def compare1(self, op, ln, rn, val, i, env, node) -> E:
        if isinstance(op, (ast.Is, ast.IsNot)) and isinstance(rn, ast.Constant) and isinstance(rn.value, bool):
            # `x is True` / `x is False`: identity with the bool singletons - for a bool-typed value
            # the value itself, for a value of any other plain type never
            a = self.plain(val(i), ln)
            pos = isinstance(op, ast.Is)
            if a.ty == BOOL:
                known = lookup_fact(env, ln)
                if known is not None:
                    a = bconst(known)
                r = a if rn.value else self.negate(a)
                return r if pos else self.negate(r)
            if a.ty in (STR, BYTES, INT) or a.ty.kind in ("List", "Tup", "Dict", "Set", "Rec"):
                return bconst(not pos)
            self.bad(node, f"`is {rn.value}` on a value of type {a.ty}")
        if isinstance(op, (ast.Is, ast.IsNot)):
            if not (isinstance(rn, ast.Constant) and rn.value is None):
                self.bad(node, "`is` with anything but None")
            a = val(i)
            pos = isinstance(op, ast.Is)
            if a.ty == NONE:
                return bconst(pos)
            if a.ty.kind == "Opt":
                return E(f"{P(a)}.isNone" if pos else f"{P(a)}.isSome", BOOL)
            return bconst(not pos)
        if isinstance(op, (ast.In, ast.NotIn)):
            neg = isinstance(op, ast.NotIn)
            if dotted(rn) is not None and dotted(rn) in self.spec.in_ops:
                fn_ = self.spec.in_ops[dotted(rn)]
                if fn_.raises:
                    self.bad(node, "`in` on an object whose __contains__ can raise")
                # (a two-parameter entry takes the container itself first: no Lean name in the Spec)
                r = self.apply(fn_, [rn, ln] if len(fn_.params) == 2 else [ln], node, env)
                return self.negate(r) if neg else r
            a = val(i)
            if isinstance(rn, (ast.Tuple, ast.Set, ast.List)):
                if a.ty == NONE:
                    # `None in {"a", "b"}` is False (no item of the literal is None: they are plain)
                    for item in rn.elts:
                        self.plain(self.expr(item, env), item)
                    return bconst(neg)
                opt_left = a.ty.kind == "Opt"
                if not opt_left:
                    a = self.plain(a, ln)
                alts, items = [], []
                for item in rn.elts:
                    x = self.plain(self.expr(item, env), item)
                    if x.ty != (a.ty.args[0] if opt_left else a.ty):
                        self.bad(node, f"`in` over a literal of {x.ty} for a {a.ty}")
                    if opt_left:
                        # an Optional value against plain items: None equals none of them
                        alts.append(f"{P(a)} == some {P(x)}")
                        items.append(f"some {P(x)}")
                        continue
                    alts.append(f"{P(a)} == {P(x)}")
                    items.append(x.lean)
                if not alts:
                    r = FALSE
                elif a.atomic:
                    r = E(" || ".join(alts), BOOL, None, False)
                else:
                    r = E(f"[{', '.join(items)}].contains {P(a)}", BOOL)
            else:
                b = self.plain(val(i + 1), rn)
                a = self.plain(a, ln)
                if a.ty == b.ty and a.ty in (STR, BYTES):
                    r = E(f"Pre.contains {P(b)} {P(a)}", BOOL)
                elif b.ty.kind in ("List", "Set") and b.ty.args[0] == a.ty:
                    r = E(f"{P(b)}.contains {P(a)}", BOOL)
                elif b.ty.kind in ("List", "Set") and b.ty.args[0] == Opt(a.ty):
                    # a plain value against a collection that may also hold None
                    r = E(f"{P(b)}.contains (some {P(a)})", BOOL)
                elif b.ty.kind == "Dict" and b.ty.args[0] == a.ty:
                    r = E(f"Pre.dictHas {P(b)} {P(a)}", BOOL)
                else:
                    self.bad(node, f"`in` between {a.ty} and {b.ty}")
            if neg:
                return self.negate(r)
            return r
        a, b = val(i), val(i + 1)
        if isinstance(op, (ast.Eq, ast.NotEq)):
            neg = isinstance(op, ast.NotEq)
            r = self.equals(a, b, node)
            if neg:
                return self.negate(r)
            return r
        sym = {ast.Lt: "<", ast.LtE: "≤", ast.Gt: ">", ast.GtE: "≥"}.get(type(op))
        if sym is None:
            self.bad(node, "unsupported comparison operator")
        a, b = self.plain(a, ln), self.plain(b, rn)
        abs_ty = a.ty if a.ty.kind == "Abs" else (b.ty if b.ty.kind == "Abs" else None)
        if abs_ty is not None:
            a, b = self.coerce(a, abs_ty, node), self.coerce(b, abs_ty, node)
            le = self.spec.orders.get(abs_ty.args[0])
            if le is None:
                self.bad(node, f"the spec declares no order for the abstract type {abs_ty.args[0]}")
            if sym == "≤":
                return E(f"{le} {P(a)} {P(b)}", BOOL)
            if sym == "≥":
                return E(f"{le} {P(b)} {P(a)}", BOOL)
            if sym == "<":
                return self.negate(E(f"{le} {P(b)} {P(a)}", BOOL))
            return self.negate(E(f"{le} {P(a)} {P(b)}", BOOL))
        if a.ty != INT or b.ty != INT:
            self.bad(node, f"ordering comparison between {a.ty} and {b.ty} (only ints are supported)")
        return E(f"decide ({a.lean} {sym} {b.lean})", BOOL)

    def equals(self, a: E, b: E, node) -> E:
        if a.ty == NONE and b.ty == NONE:
            return TRUE
        if a.ty == NONE or b.ty == NONE:
            o = b if a.ty == NONE else a
            if o.ty.kind == "Opt":
                return E(f"{P(o)}.isNone", BOOL)
            return FALSE
        if a.ty.kind == "Abs" or b.ty.kind == "Abs":
            # equality of an abstract ordered type: `a <= b and b <= a` (the order is total on the
            # values that occur - the assumption recorded at Spec.orders)
            abs_ty = a.ty if a.ty.kind == "Abs" else b.ty
            a, b = self.coerce(a, abs_ty, node), self.coerce(b, abs_ty, node)
            if abs_ty.args[0] in self.spec.eq_fns:
                # `==` of this abstract type is a parameter of the translation (e.g. Python's `1 == 1.0`)
                return E(f"{self.spec.eq_fns[abs_ty.args[0]]} {P(a)} {P(b)}", BOOL)
            if abs_ty.args[0] in self.spec.eq_types:
                # an enumeration (a Lean inductive with decidable equality): `==` is the identity of members
                return E(f"{P(a)} == {P(b)}", BOOL)
            le = self.spec.orders.get(abs_ty.args[0])
            if le is None:
                self.bad(node, f"the spec declares no order for the abstract type {abs_ty.args[0]}")
            return E(f"{le} {P(a)} {P(b)} && {le} {P(b)} {P(a)}", BOOL)
        if a.ty == b.ty:
            if a.ty.kind in ("Int", "Bool", "Str", "Bytes", "Opt", "List", "Tup"):
                if a.ty == BOOL and a.const is not None and b.const is not None:
                    return bconst(a.const == b.const)
                if self.spec.canon_empty and a.ty.kind in ("Str", "Bytes", "List") and "[]" in (a.lean, b.lean) and a.lean != b.lean:
                    # `x == ""` is the same test as `not x` for a text / bytes / list: one spelling
                    o = b if a.lean == "[]" else a
                    return E(f"{P(o)}.isEmpty", BOOL)
                return E(f"{P(a)} == {P(b)}", BOOL)
        if a.ty.kind == "Opt" and a.ty.args[0] == b.ty:
            return E(f"{P(a)} == some {P(b)}", BOOL)
        if b.ty.kind == "Opt" and b.ty.args[0] == a.ty:
            return E(f"some {P(a)} == {P(b)}", BOOL)
        self.bad(node, f"== between {a.ty} and {b.ty}")

    def binop(self, n, env) -> E:
        if isinstance(n.op, ast.Mod) and isinstance(n.left, ast.Constant) and isinstance(n.left.value, bytes):
            # printf-style formatting of a bytes literal with exactly one `%s` and no other `%`, by a
            # single bytes value (not a tuple): the literal with the value spliced in
            lit = n.left.value
            if lit.count(b"%") != 1 or lit.count(b"%s") != 1:
                self.bad(n, "bytes % formatting: only a literal with exactly one %s (and no other %)")
            b = self.plain(self.expr(n.right, env), n.right)
            if b.ty != BYTES:
                self.bad(n, f"bytes % formatting with a {b.ty}")
            pre, post = lit.split(b"%s")
            parts = ([lean_bytes_lit(pre)] if pre else []) + [P(b)] + ([lean_bytes_lit(post)] if post else [])
            return E(" ++ ".join(parts), BYTES)
        a = self.plain(self.expr(n.left, env), n.left)
        b = self.plain(self.expr(n.right, env), n.right)
        if isinstance(n.op, (ast.Add, ast.Sub)) and {a.ty, b.ty} == {INT, BOOL}:
            # a bool used as a number: True is 1, False is 0
            if a.ty == BOOL:
                a = E(f"(if {a.lean} then 1 else 0)", INT, None, True)
            else:
                b = E(f"(if {b.lean} then 1 else 0)", INT, None, True)
        if a.ty == INT and b.ty == INT:
            if isinstance(n.op, ast.Add):
                return E(f"{P(a)} + {P(b)}", INT)
            if isinstance(n.op, ast.Sub):
                return E(f"{P(a)} - {P(b)}", INT)
            if isinstance(n.op, ast.Mult):
                return E(f"{P(a)} * {P(b)}", INT)
            if isinstance(n.op, (ast.FloorDiv, ast.Mod)):
                # Python raises ZeroDivisionError for a zero divisor: only literal non-zero divisors
                if not (isinstance(n.right, ast.Constant) and isinstance(n.right.value, int) and n.right.value != 0):
                    self.bad(n, "// and % only with a non-zero literal divisor")
                f = "Int.fdiv" if isinstance(n.op, ast.FloorDiv) else "Int.fmod"
                return E(f"{f} {P(a)} {P(b)}", INT)
        if a.ty == b.ty and (a.ty in (STR, BYTES) or a.ty.kind == "List") and isinstance(n.op, ast.Add):
            return E(f"{P(a)} ++ {P(b)}", a.ty)
        self.bad(n, f"unsupported binary operation on {a.ty} and {b.ty}")

    def subscript(self, n, env) -> E:
        if isinstance(n.value, ast.Name) and isinstance(n.slice, ast.Constant) and type(n.slice.value) is int:
            key = f"{n.value.id}[{n.slice.value}]"
            if key in env:  # a tuple component narrowed by a None-test
                v = env[key]
                return E(v.lean, v.ty, None, True, key)
        base = self.expr(n.value, env)
        sl = n.slice
        if isinstance(sl, ast.Slice):
            base = self.plain(base, n.value)
            if sl.step is not None:
                self.bad(n, "slice with a step")
            if not (base.ty in (STR, BYTES) or base.ty.kind == "List"):
                self.bad(n, f"slice of a {base.ty}")

            def bound(b):
                if b is None:
                    return "none"
                x = self.plain(self.expr(b, env), b)
                if x.ty != INT:
                    self.bad(n, "slice bound that is not an int")
                return f"(some {P(x)})"

            return E(f"Pre.slice {P(base)} {bound(sl.lower)} {bound(sl.upper)}", base.ty)
        if base.ty.kind == "Tup":
            if not (isinstance(sl, ast.Constant) and isinstance(sl.value, int) and 0 <= sl.value < len(base.ty.args)):
                self.bad(n, "tuple subscript that is not a constant index in range")
            k, m = sl.value, len(base.ty.args)
            proj = ".2" * k + (".1" if k < m - 1 else "")
            return E(f"{P(base)}{proj}", base.ty.args[k], None, True)
        base = self.plain(base, n.value)
        if base.ty.kind == "List" or base.ty in (STR, BYTES):
            # indexing can raise IndexError: a raising primitive (bound at statement level)
            self.bad(n, "indexing (may raise IndexError) is only supported as the whole right-hand side `x = xs[i]` in a raises=True function")
        self.bad(n, f"subscript of a {base.ty}")

    # ---- calls ----------------------------------------------------------

    def resolve_call(self, n, env):
        """-> (Fn, [arg nodes]) for calls mapped to a Lean function, or None for builtins
        handled inline"""
        for matcher, fn in self.spec.patterns:
            args = matcher(n)
            if args is not None:
                return fn, args
        if isinstance(n.func, ast.Attribute) and n.func.attr in ("startswith", "endswith") and len(n.args) == 1 and isinstance(n.args[0], ast.Tuple):
            return None  # expanded by `call`
        if n.keywords:
            self.bad(n, "keyword arguments")
        f = n.func
        d = dotted(f)
        if isinstance(f, ast.Name) and f.id in self.__dict__.get("local_fns", {}) and f.id not in env:
            return self.local_fns[f.id], list(n.args)
        if isinstance(f, ast.Name) and f.id in env and env[f.id].ty.kind == "Abs" and env[f.id].ty.args[0] in self.spec.callables and not n.keywords:
            return self.spec.callables[env[f.id].ty.args[0]], [f] + list(n.args)
        if isinstance(f, ast.Name) and f.id in env:
            self.bad(n, "call of a local variable")
        if isinstance(f, ast.Name) and f.id in ("len", "min", "max", "any", "all", "isinstance", "bool", "str"):
            return None
        if isinstance(f, ast.Name) and f.id in ("tuple", "list") and len(n.args) == 1 and not n.keywords and f.id not in self.spec.calls:
            # `tuple(xs)` / `list(xs)` of a list / generator expression: the items as a (new) list
            return Fn("id", [None], None, result_of=lambda ts: ts[0] if ts[0].kind == "List" else (Lst(ts[0].args[0]) if ts[0].kind == "Set" else None)), list(n.args)
        if isinstance(f, ast.Name) and f.id == "iter" and len(n.args) == 1:
            # an iterator = the list of items not yet consumed (see Var.iter_of)
            return Fn("Pre.iterOf", [None], None, result_of=lambda ts: ts[0] if ts[0].kind == "List" else None), list(n.args)
        if isinstance(f, ast.Name) and f.id == "enumerate" and len(n.args) == 1:
            return Fn("Pre.enumerate", [None], None, result_of=lambda ts: Lst(Tup(INT, ts[0].args[0])) if ts[0].kind == "List" else None), list(n.args)
        if isinstance(f, ast.Name) and f.id == "zip" and len(n.args) == 2:
            return Fn("List.zip", [None, None], None, result_of=lambda ts: Lst(Tup(ts[0].args[0], ts[1].args[0])) if ts[0].kind == "List" and ts[1].kind == "List" else None), list(n.args)
        if isinstance(f, ast.Name) and f.id == "next" and len(n.args) == 1 and isinstance(n.args[0], ast.GeneratorExp):
            # next(<generator expression>): the first item, or StopIteration
            g = n.args[0]
            lc = ast.ListComp(elt=g.elt, generators=g.generators)
            ast.copy_location(lc, g)
            ast.fix_missing_locations(lc)
            return Fn("Pre.nextOf", [None], None, raises=("StopIteration",), result_of=lambda ts: ts[0].args[0] if ts[0].kind == "List" else None), [lc]
        args = list(n.args)
        if any(isinstance(a, ast.Starred) for a in args):
            # f(*xs): only as the single argument, mapped to a dedicated table entry "f(*)"
            if len(args) != 1 or d is None:
                self.bad(n, "starred argument mixed with other arguments")
            d = d + "(*)"
            args = [args[0].value]
        if d is not None and d in self.spec.calls and "." in d:
            # an explicitly declared method of `self` / of a module wins over the receiver's type
            return self.spec.calls[d], args
        if d is not None:
            root = d.split(".")[0]
            known_value = root in env or any(d.startswith(c + ".") for c in list(env) + list(self.spec.consts))
            if not known_value:
                if d in self.spec.calls:
                    return self.spec.calls[d], args
                if d in FUNCS:
                    return FUNCS[d], args
                self.bad(n, f"call of {d!r} is not in py2lean's tables")
        if isinstance(f, ast.Attribute) and f.attr == "pop" and len(n.args) == 1 and not n.keywords and self.target_key(f.value, env) is not None and env[self.target_key(f.value, env)].ty.kind == "Dict":
            # `d.pop(k)`: the value, KeyError when absent; the dict loses the key (an effect on `d`)
            key_ = self.target_key(f.value, env)
            dty = env[key_].ty
            return Fn("Pre.dictPop", [dty.args[0]], dty.args[1], raises=("KeyError",), effect_key=key_), list(n.args)
        if isinstance(f, ast.Attribute):
            recv = self.plain_recv(self.expr(f.value, env), f.value)
            if recv.ty.kind == "Rec":
                fn = self.spec.methods.get(("Rec:" + recv.ty.args[0], f.attr))
                if fn is None:
                    self.bad(n, f"method {f.attr!r} of the record {recv.ty.args[0]} is not declared in the spec")
                proj = []
                for fld in fn.recv_fields:
                    a_ = ast.Attribute(value=f.value, attr=fld, ctx=ast.Load())
                    ast.copy_location(a_, f)
                    proj.append(a_)
                return fn, proj + list(n.args)
            key = (recv.ty.kind, f.attr)
            if key not in METHODS or (recv.ty.kind, f"{f.attr}/{len(n.args)}") in METHODS:
                key = (recv.ty.kind, f"{f.attr}/{len(n.args)}")  # arity-dependent methods
            if (recv.ty.kind, f.attr) in self.spec.methods:
                return self.spec.methods[(recv.ty.kind, f.attr)], [f.value] + list(n.args)
            if key in METHODS:
                return METHODS[key], [f.value] + list(n.args)
            self.bad(n, f"method {f.attr!r} of a {recv.ty} is not in py2lean's METHODS table")
        self.bad(n, "unsupported call")

    def call(self, n, env) -> E:
        f = n.func
        if isinstance(f, ast.Attribute) and f.attr in ("startswith", "endswith") and len(n.args) == 1 and not n.keywords and isinstance(n.args[0], ast.Tuple) and n.args[0].elts:
            # s.startswith((a, b)) = s.startswith(a) or s.startswith(b)   (the receiver is pure)
            alts = [ast.Call(func=f, args=[x], keywords=[]) for x in n.args[0].elts]
            new = alts[0] if len(alts) == 1 else ast.BoolOp(op=ast.Or(), values=alts)
            ast.copy_location(new, n)
            ast.fix_missing_locations(new)
            return self.expr(new, env)
        res = self.resolve_call(n, env)
        if res is None:
            return self.builtin(n, env)
        fn, args = res
        if fn.raises:
            # raising calls are bound to temporaries by `bind_raising` before the expression is
            # translated; reaching one here means it sits where that is not supported
            self.bad(n, "a call that can raise is only supported inside an assignment, a return or the test of an if")
        return self.apply(fn, args, n, env)

    def source_defaults(self, module, qualname):
        """default values (AST nodes, None = no default) of the parameters of a function of the
        current source, `self` excluded"""
        key = (module, qualname)
        cache = self.__dict__.setdefault("_defaults_cache", {})
        if key not in cache:
            tr = Translator(Spec(module=module, qualname=qualname, name="_", params=[], result="Unit"), self.repo)
            fn, is_method = tr.find_def()
            a = fn.args
            names = [x.arg for x in a.posonlyargs] + [x.arg for x in a.args]
            dfl = [None] * (len(names) - len(a.defaults)) + list(a.defaults)
            if is_method:
                names, dfl = names[1:], dfl[1:]
            cache[key] = dfl
        return cache[key]

    def apply(self, fn: Fn, args, n, env) -> E:
        if fn.defaults_from is not None and len(args) < len(fn.params):
            dfl = self.source_defaults(*fn.defaults_from)
            if len(dfl) != len(fn.params):
                self.bad(n, f"{fn.lean}: the source function has {len(dfl)} parameters, the table entry {len(fn.params)}")
            args = list(args)
            for d in dfl[len(args):]:
                if not isinstance(d, ast.Constant):
                    self.bad(n, f"{fn.lean}: a missing argument has no constant default in the source")
                args.append(d)
        params = list(fn.params)
        if fn.recv_fields and len(args) == len(fn.recv_fields) + len(params):
            params = [None] * len(fn.recv_fields) + params  # the receiver's attributes come first
        if len(args) != len(params):
            self.bad(n, f"{fn.lean} expects {len(params)} arguments, the call has {len(args)}")
        for i in fn.nonempty_lit:
            a = args[i]
            if not (isinstance(a, ast.Constant) and isinstance(a.value, (str, bytes)) and len(a.value) > 0):
                self.bad(n, f"argument {i} of {fn.lean} must be a non-empty literal (Python raises ValueError for an empty one)")
        out, tys = [], []
        for a, t in zip(args, params):
            x = self.expr(a, env)
            x = self.plain(x, n) if t is None else self.coerce(x, t, n)
            tys.append(x.ty)
            out.append(P(x))
        extra = "".join(" " + x for x in fn.extra)
        rty = fn.result_of(tys) if fn.result_of is not None else fn.result
        if rty is None:
            self.bad(n, f"{fn.lean} is not defined for arguments of types {[str(t) for t in tys]}")
        out += list(fn.suffix)
        return E(f"{fn.lean}{extra} " + " ".join(out) if out else f"{fn.lean}{extra}", rty)

    def builtin(self, n, env) -> E:
        name = n.func.id
        if name == "len":
            if len(n.args) != 1:
                self.bad(n, "len arity")
            x = self.plain(self.expr(n.args[0], env), n.args[0])
            if not (x.ty in (STR, BYTES) or x.ty.kind in ("List", "Dict", "Set")):
                self.bad(n, f"len of a {x.ty}")
            return E(f"Int.ofNat {P(x)}.length", INT)
        if name in ("min", "max"):
            if len(n.args) != 2:
                self.bad(n, f"{name} with other than two arguments")
            a = self.plain(self.expr(n.args[0], env), n.args[0])
            b = self.plain(self.expr(n.args[1], env), n.args[1])
            if a.ty != INT or b.ty != INT:
                self.bad(n, f"{name} of non-ints")
            return E(f"{name} {P(a)} {P(b)}", INT)
        if name in ("any", "all"):
            if len(n.args) != 1 or not isinstance(n.args[0], ast.GeneratorExp):
                self.bad(n, f"{name} of anything but a generator expression")
            g = n.args[0]
            if len(g.generators) != 1 or g.generators[0].ifs or g.generators[0].is_async or not isinstance(g.generators[0].target, ast.Name):
                self.bad(n, "generator expression with conditions / several loops / tuple targets")
            it = self.plain(self.expr(g.generators[0].iter, env), g.generators[0].iter)
            if it.ty.kind != "List":
                self.bad(n, f"{name} over a {it.ty}")
            v = g.generators[0].target.id
            env2 = dict(env)
            env2[v] = Var(lean_name(v), it.ty.args[0])
            body = self.cond(g.elt, env2)
            return E(f"{P(it)}.{name} fun {lean_name(v)} => {body.lean}", BOOL)
        if name == "isinstance":
            if len(n.args) != 2 or not isinstance(n.args[1], ast.Name) or not isinstance(n.args[0], ast.Name):
                self.bad(n, "isinstance of anything but (name, class name)")
            x = self.expr(n.args[0], env)
            cls = n.args[1].id
            kinds = {"str": "Str", "bytes": "Bytes", "int": "Int", "list": "List", "tuple": "Tup", "bool": "Bool", "dict": "Dict"}
            if cls not in kinds or x.ty.kind in ("Opt", "None"):
                self.bad(n, "isinstance that the declared type does not decide")
            if cls == "int" and x.ty.kind == "Bool":
                return TRUE
            return bconst(x.ty.kind == kinds[cls])
        if name == "bool":
            if len(n.args) != 1:
                self.bad(n, "bool arity")
            return self.cond(n.args[0], env)
        if name == "str":
            if len(n.args) != 1:
                self.bad(n, "str arity")
            x = self.plain(self.expr(n.args[0], env), n.args[0])
            if x.ty == INT:
                return E(f"Pre.strOfInt {P(x)}", STR)
            if x.ty != STR:
                self.bad(n, "str() of something that is neither str nor int (formatting is outside the subset)")
            return x
        self.bad(n, f"builtin {name} is outside the subset")

    # ---- raising calls inside a statement --------------------------------

    def canon_locals(self, names):
        """loop state that is not object state, in the order in which the function first assigns the
        locals (not in the order the loop body happens to touch them)"""
        if not self.spec.canon_loop_order:
            return names
        lo = getattr(self, "local_order", [])
        return sorted(names, key=lambda nm: (lo.index(nm) if nm in lo else len(lo), names.index(nm)))

    def effects_for(self, node):
        """the declared effect of this statement / expression statement's call: [(key, text)] or None.
        Keys are source texts, possibly with metavariables (`$x`): the texts of the effect then use
        the same metavariables"""
        if not self.spec.effects:
            return None
        try:
            src = ast.unparse(node)
        except Exception:  # noqa: BLE001
            return None
        if src in self.spec.effects:
            return list(self.spec.effects[src])
        for key_, items in self.spec.effects.items():
            if "$" in key_:
                b = template_match(key_, node)
                if b is not None:
                    return [(template_subst(k2, b), template_subst(t2, b)) for k2, t2 in items]
        return None

    def static_value(self, n):
        """the truth value the signature spec assigns to this exact source text, or None"""
        if not self.spec.static or not isinstance(n, ast.expr):
            return None
        try:
            src = ast.unparse(n)
        except Exception:  # noqa: BLE001
            return None
        if src in self.spec.static:
            return bool(self.spec.static[src])
        for key_, v_ in self.spec.static.items():
            if "$" in key_ and template_match(key_, n) is not None:
                return bool(v_)
        return None

    def raising_calls(self, expr_node, env):
        """raising calls inside an expression, with a flag telling whether the call sits under a
        short-circuiting construct (then evaluation order cannot be kept by binding it first)"""
        found = []

        def walk(x, lazy):
            if not isinstance(x, ast.Call) and isinstance(x, ast.expr):
                for matcher, fn_ in self.spec.patterns:
                    args_ = matcher(x)
                    if args_ is not None:  # an expression-level pattern hides its inner calls
                        for a in args_:
                            if isinstance(a, ast.AST):
                                walk(a, lazy)
                        if fn_.raises:
                            found.append((x, (fn_, args_), lazy))
                        return
            if isinstance(x, ast.ListComp):
                # the comprehension is translated as a whole (filter / map): raising calls inside
                # it are refused there
                walk(x.generators[0].iter, lazy)
                return
            if isinstance(x, ast.Call) and isinstance(x.func, ast.Attribute) and not any(m_(x) is not None for m_, _ in self.spec.patterns):
                # a raising call inside the receiver of a method call is evaluated (and bound) first;
                # the method call itself is resolved once the receiver is a bound temporary
                n0_ = len(found)
                walk(x.func.value, lazy)
                if len(found) > n0_:
                    return
            if isinstance(x, ast.Call):
                try:
                    res = self.resolve_call(x, env)
                except (NeedUnwrap, NoneUsed):
                    if lazy:
                        # under a short-circuiting operator the receiver may be guarded by an operand
                        # before it (`x is not None and x.m()`): decided when the expression is translated
                        return
                    raise
                if res is not None:
                    # descend into the arguments the call was resolved to (a pattern such as
                    # `X.encode(..).decode(..)` hides its inner calls); arguments are evaluated
                    # before the call itself, so they come first in the result
                    for a in res[1]:
                        if isinstance(a, ast.AST):
                            walk(a, lazy)
                    if res[0].raises or res[0].effect_key:
                        found.append((x, res, lazy))
                    return
            if isinstance(x, ast.Subscript) and not isinstance(x.slice, ast.Slice):
                # indexing of list / str: IndexError
                try:
                    b = self.expr(x.value, env)
                except (NeedUnwrap, NoneUsed):
                    raise
                except Untranslatable:
                    b = None  # e.g. an index operation inside: found by the walk of the children below
                if b is not None and b.ty.kind == "Dict":
                    walk(x.value, lazy)
                    walk(x.slice, lazy)
                    found.append((x, None, lazy))
                    return
                if b is not None and (b.ty.kind == "List" or b.ty in (STR, BYTES)):
                    walk(x.value, lazy)
                    walk(x.slice, lazy)
                    found.append((x, None, lazy))
                    return
            if self.static_value(x) is not None:
                return
            if isinstance(x, ast.BoolOp):
                for i, v in enumerate(x.values):
                    sv = self.static_value(v)
                    if sv is not None:
                        if sv == isinstance(x.op, ast.Or):
                            return  # Python never evaluates the operands after this one
                        continue
                    walk(v, lazy or i > 0)
                return
            if isinstance(x, ast.IfExp):
                walk(x.test, lazy)
                walk(x.body, True)
                walk(x.orelse, True)
                return
            if isinstance(x, ast.Compare) and len(x.ops) > 1:
                walk(x.left, lazy)
                walk(x.comparators[0], lazy)
                for v in x.comparators[1:]:
                    walk(v, True)
                return
            if isinstance(x, ast.GeneratorExp):
                for sub in ast.walk(x):
                    if isinstance(sub, ast.Call) and sub is not x:
                        pass
                return
            if isinstance(x, ast.Dict) and self.spec.dict_skip_keys:
                # the entries the spec leaves out of a dict display are not looked at
                for k_, v_ in zip(x.keys, x.values):
                    if isinstance(k_, ast.Constant) and k_.value in self.spec.dict_skip_keys:
                        continue
                    if k_ is not None:
                        walk(k_, lazy)
                    walk(v_, lazy)
                return
            for c in ast.iter_child_nodes(x):
                walk(c, lazy)

        walk(expr_node, False)
        return found

    # ---- statements -----------------------------------------------------

    def comment(self, node, text=None):
        t = text if text is not None else getattr(node, "_py2lean_comment", None) or getattr(node, "_py2lean_swapped", None) or self.srcline(node)
        return [f"-- {t}"] if t else []

    def block(self, stmts, env, loop, k):
        """translate `stmts` then continue with k(env, loop); returns Lean lines (an expression)"""
        if not stmts:
            return k(env, loop)
        s, rest = stmts[0], stmts[1:]
        if self.spec.stop_at is not None and not getattr(s, "_py2lean_stop", False):
            try:
                src_ = ast.unparse(s)
            except Exception:  # noqa: BLE001
                src_ = None
            b_ = template_match(self.spec.stop_at[0], s) if src_ is not None else None
            if b_ is not None:
                r_ = ast.Return(value=ast.parse(template_subst(self.spec.stop_at[1], b_), mode="eval").body)
                ast.copy_location(r_, s)
                ast.fix_missing_locations(r_)
                r_._py2lean_stop = True
                r_._py2lean_comment = f"{self.srcline(s)}   [the translation stops here and answers {template_subst(self.spec.stop_at[1], b_)}]"
                return self.stmt(r_, env, loop, lambda e_, l_: self.bad(s, "internal: statements after the stop"))
        if isinstance(s, (ast.For, ast.While)):
            s._py2lean_rest = rest

        def k2(env2, loop2):
            return self.block(rest, env2, loop2, k)

        return self.stmt(s, env, loop, k2)

    def with_splits(self, node, test_nodes, env, loop, body_fn, bool_ctx=True):
        """case-split on the Option-typed names that occur in None-test / truthiness position in
        `test_nodes`, then call body_fn(env)"""
        names = []
        for t in test_nodes:
            for nm in none_tested_names(t, bool_ctx):
                if nm in names:
                    continue
                if nm in env and env[nm].ty.kind == "Opt":
                    names.append(nm)
                elif nm not in env and "." in nm and "[" not in nm:
                    # attribute of a local record: narrowed through a pseudo-variable `x.attr`
                    base, attr = nm.rsplit(".", 1)
                    if base in env and env[base].ty.kind == "Rec":
                        pr = rec_proj(env[base].lean, env[base].ty.args[0], attr)
                        if pr is not None and pr[1].kind == "Opt":
                            names.append(nm)
                elif nm not in env and nm.endswith("]") and "[" in nm:
                    # component k of a local tuple: narrowed through a pseudo-variable `x[k]`
                    base, k = nm[:-1].split("[")
                    if base in env and env[base].ty.kind == "Tup" and k.isdigit() and int(k) < len(env[base].ty.args) and env[base].ty.args[int(k)].kind == "Opt":
                        names.append(nm)
        if not names:
            return body_fn(env)
        nm = names[0]
        if nm not in env and "[" not in nm:
            base, attr = nm.rsplit(".", 1)
            pr = rec_proj(env[base].lean, env[base].ty.args[0], attr)
            env = dict(env)
            env[nm] = Var(f"{env[base].lean}_{attr}", pr[1])
            scrut = pr[0]
        elif nm not in env:
            base, k = nm[:-1].split("[")
            k, m = int(k), len(env[base].ty.args)
            proj = ".2" * k + (".1" if k < m - 1 else "")
            env = dict(env)
            env[nm] = Var(f"{env[base].lean}_{k}", env[base].ty.args[k])
            scrut = f"{env[base].lean}{proj}"
        else:
            scrut = env[nm].lean
        v = env[nm]
        env_none = dict(env)
        env_none[nm] = Var(v.lean, NONE, was=v.ty)
        env_some = dict(env)
        env_some[nm] = Var(v.lean, v.ty.args[0])
        a = self.with_splits(node, test_nodes, env_none, loop, body_fn, bool_ctx)
        b = self.with_splits(node, test_nodes, env_some, loop, body_fn, bool_ctx)
        return [f"match {scrut} with", "| none =>"] + ind(a) + [f"| some {v.lean} =>"] + ind(b)

    def guarded(self, node, env, loop, fn):
        """run fn(env) -> lines; an unguarded use of an Option variable becomes a TypeError arm"""
        try:
            return fn(env)
        except NeedUnwrap as u:
            if not self.raises:
                self.bad(u.node, f"{u.name!r} may be None here (possible TypeError) and the function is declared pure")
            v = env[u.name]
            env2 = dict(env)
            env2[u.name] = Var(v.lean, v.ty.args[0])
            inner = self.guarded(node, env2, loop, fn)
            err_cls = '"UnboundLocalError"' if v.ty.kind == "Unb" else f'"{getattr(u, "cls", "TypeError")}"'
            return [f"match {v.lean} with", "| none =>"] + ind(self.wrap_error(err_cls, node, loop, env)) + [f"| some {v.lean} =>"] + ind(inner)
        except NoneUsed as u:
            if not self.raises:
                self.bad(u.node, f"{u.name!r} is None here (TypeError) and the function is declared pure")
            return self.wrap_error(f'"{getattr(u, "cls", "TypeError")}"', node, loop, env)

    def stmt(self, s, env, loop, k):
        if isinstance(s, ast.Expr) and isinstance(s.value, ast.Constant) and isinstance(s.value.value, str):
            return k(env, loop)  # docstring
        if isinstance(s, ast.Pass):
            return k(env, loop)
        if isinstance(s, ast.FunctionDef):
            return self.stmt_nested_def(s, env, loop, k)
        if isinstance(s, (ast.Import, ast.ImportFrom)):
            # a local import only binds names (import side effects are outside the model)
            return self.comment(s) + k(env, loop)
        if isinstance(s, ast.AnnAssign) and s.value is not None:
            # `x: T = e` is `x = e` (annotations have no run-time meaning here)
            a_ = ast.Assign(targets=[s.target], value=s.value)
            ast.copy_location(a_, s)
            a_._py2lean_comment = getattr(s, "_py2lean_comment", None) or self.srcline(s)
            if isinstance(s.target, ast.Name):
                a_._py2lean_rest = getattr(s, "_py2lean_rest", None)
            return self.stmt(a_, env, loop, k)
        # --- `return self.m(args)` / `x = self.m(args)` for a translated stateful method
        if isinstance(s, (ast.Return, ast.Assign)) and isinstance(s.value, ast.Call):
            try:
                res0 = self.resolve_call(s.value, env)
            except (Untranslatable, NeedUnwrap, NoneUsed):
                res0 = None
            if res0 is not None and res0[0].state:
                if isinstance(s, ast.Return):
                    return self.comment(s) + self.stateful_call(s, s.value, res0, env, loop, None, lambda e, env2: self.emit_return(e, s, env2, loop))
                if len(s.targets) == 1:
                    tup_ = isinstance(s.targets[0], ast.Tuple) and all(isinstance(x, ast.Name) for x in s.targets[0].elts)
                    tgt_ = s.targets[0] if isinstance(s.targets[0], ast.Name) or tup_ else self.target_key(s.targets[0], env)
                    if tgt_ is None:
                        self.bad(s, "assignment target that is not a local name / state attribute")
                    return self.comment(s) + self.stateful_call(s, s.value, res0, env, loop, None, lambda e, env2: self.bind(tgt_, e, s, env2, loop, k))
        # --- effects of abstract collaborators (spec.effects)
        if isinstance(s, (ast.Expr, ast.Assign, ast.Delete)) and self.spec.effects and not (isinstance(s, ast.Assign) and isinstance(s.targets[0], ast.Name) and s.targets[0].id.startswith("<key>")):
            # (an assignment to an attribute / item of a collaborator can be declared an effect too)
            eff_ = self.effects_for(s.value if isinstance(s, ast.Expr) else s)
            if eff_ is not None:
                stmts = []
                for key, text in eff_:
                    a = ast.Assign(targets=[ast.Name(id="<key>" + key, ctx=ast.Store())], value=ast.parse(text, mode="eval").body)
                    ast.copy_location(a, s)
                    ast.fix_missing_locations(a)
                    a._py2lean_comment = f"{self.srcline(s)}   [modelled effect: {key} = {text}]"
                    stmts.append(a)
                if not stmts:
                    return self.comment(s, f"{self.srcline(s)}   [no effect in the model]") + k(env, loop)
                return self.block(stmts, env, loop, k)
        if isinstance(s, ast.Assign) and len(s.targets) == 1 and isinstance(s.targets[0], ast.Name) and s.targets[0].id.startswith("<key>"):
            key = s.targets[0].id[5:]
            return self.comment(s) + self.stmt_value(s, s.value, env, loop, lambda e, env2: self.bind(key, self.coerce(e, env2[key].ty, s) if key in env2 else e, s, env2, loop, k), handlers=None)
        # --- calls of other translated stateful methods as statements: `self.m(args)`
        if isinstance(s, ast.Expr) and isinstance(s.value, ast.Call):
            try:
                res = self.resolve_call(s.value, env)
            except Untranslatable:
                res = None
            if res is not None and res[0].state:
                return self.comment(s) + self.stateful_call(s, s.value, res, env, loop, None, lambda e, env2: k(env2, loop))
        # --- mutation of a local / state container
        mt = self.mutation(s, env)
        if mt is not None:
            return self.comment(s) + self.stmt_mutation(s, mt, env, loop, k)
        if isinstance(s, ast.Assign) and len(s.targets) == 1 and isinstance(s.targets[0], ast.Attribute) and self.target_key(s.targets[0], env) is not None and not self.spec.fields:
            key = self.target_key(s.targets[0], env)
            return self.comment(s) + self.stmt_value(s, s.value, env, loop, lambda e, env2: self.bind(key, self.coerce(e, env2[key].ty, s), s, env2, loop, k), handlers=None)
        if isinstance(s, ast.Return):
            return self.comment(s) + self.stmt_value(s, s.value if s.value is not None else ast.Constant(value=None), env, loop, lambda e, env2: self.emit_return(e, s, env2, loop), handlers=None)
        if isinstance(s, ast.Assign) and len(s.targets) == 1 and isinstance(s.targets[0], ast.Attribute) and dotted(s.targets[0]) is not None and dotted(s.targets[0]).startswith("self."):
            d = dotted(s.targets[0])
            if d[5:] not in self.spec.fields:
                self.bad(s, "store to an attribute of self that the spec does not list in `fields`")

            def use_field(e, env2):
                if e.ty == NONE:
                    self.bad(s, "attribute stored as a bare None (declare the parameter Optional)")
                env3 = dict(env2)
                ln = lean_name("self_" + d[5:])
                env3[d] = Var(ln, e.ty)
                drop_facts(env3, d)
                return [f"let {ln} : {lean_ty(e.ty)} := {e.lean}"] + k(env3, loop)

            return self.comment(s) + self.stmt_value(s, s.value, env, loop, use_field, handlers=None)
        if isinstance(s, ast.Assign) and len(s.targets) == 1 and isinstance(s.value, ast.ListComp) and any(isinstance(x, ast.NamedExpr) for x in ast.walk(s.value)):
            return self.comment(s) + self.stmt_filter_walrus(s, env, loop, k)
        if isinstance(s, ast.Assign) and len(s.targets) > 1 and isinstance(s.value, (ast.Name, ast.Constant)) and not all(isinstance(t_, ast.Name) for t_ in s.targets):
            # `a[i] = b[j] = v` with `v` a variable / constant: the targets are assigned left to right
            stmts = []
            for t_ in s.targets:
                nx = ast.Assign(targets=[t_], value=s.value)
                ast.copy_location(nx, s)
                ast.fix_missing_locations(nx)
                nx._py2lean_comment = f"{self.srcline(s)}   [chained assignment: {ast.unparse(t_)} = {ast.unparse(s.value)}]"
                stmts.append(nx)
            return self.block(stmts, env, loop, k)
        if (
            isinstance(s, ast.Assign) and len(s.targets) == 1 and isinstance(s.targets[0], ast.Tuple)
            and any(not isinstance(x, ast.Name) for x in s.targets[0].elts)
            and all(isinstance(x, (ast.Name, ast.Subscript, ast.Attribute)) for x in s.targets[0].elts)
        ):
            # `a[i], b[j] = e`: `e` is unpacked into temporaries, then the targets are assigned left to right
            self.tmp += 1
            names = [f"u{self.tmp}_{i}_" for i in range(len(s.targets[0].elts))]
            first = ast.Assign(targets=[ast.Tuple(elts=[ast.Name(id=nm, ctx=ast.Store()) for nm in names], ctx=ast.Store())], value=s.value)
            ast.copy_location(first, s)
            ast.fix_missing_locations(first)
            stmts = [first]
            for nm, t_ in zip(names, s.targets[0].elts):
                nx = ast.Assign(targets=[t_], value=ast.Name(id=nm, ctx=ast.Load()))
                ast.copy_location(nx, s)
                ast.fix_missing_locations(nx)
                nx._py2lean_comment = f"  (unpacked: {ast.unparse(t_)} = {nm})"
                stmts.append(nx)
            return self.block(stmts, env, loop, k)
        if isinstance(s, ast.Assign) and len(s.targets) > 1 and all(isinstance(t_, ast.Name) for t_ in s.targets):
            # `a = b = e`: `e` is evaluated once and assigned to `a`, then to `b`
            first = ast.Assign(targets=[s.targets[0]], value=s.value)
            ast.copy_location(first, s)
            stmts = [first]
            for t_ in s.targets[1:]:
                nx = ast.Assign(targets=[t_], value=ast.Name(id=s.targets[0].id, ctx=ast.Load()))
                ast.copy_location(nx, s)
                ast.fix_missing_locations(nx)
                nx._py2lean_comment = f"  (chained assignment: {t_.id} = {s.targets[0].id})"
                stmts.append(nx)
            return self.block(stmts, env, loop, k)
        if isinstance(s, ast.Assign):
            if len(s.targets) != 1:
                self.bad(s, "chained assignment")
            v = s.value
            if (
                isinstance(s.targets[0], ast.Tuple)
                and len(s.targets[0].elts) == 2
                and isinstance(v, ast.Call)
                and isinstance(v.func, ast.Attribute)
                and v.func.attr in ("split", "rsplit")
                and not v.keywords
                and len(v.args) == 2
                and isinstance(v.args[1], ast.Constant)
                and v.args[1].value == 1
                and type(v.args[1].value) is int
            ):
                # `a, b = X.split(sep, 1)`: exactly two parts, or ValueError (not enough values to unpack)
                call = ast.Call(func=ast.Name(id="<split-once>" if v.func.attr == "split" else "<rsplit-once>", ctx=ast.Load()), args=[v.func.value, v.args[0]], keywords=[])
                if v.func.attr == "rsplit" and isinstance(v.args[0], ast.Constant) and v.args[0].value is None:
                    self.bad(s, "rsplit(None, 1)")
                if isinstance(v.args[0], ast.Constant) and v.args[0].value is None:
                    # `a, b = X.split(None, 1)`: the first word and the rest (left-stripped), or ValueError
                    call = ast.Call(func=ast.Name(id="<splitws-once>", ctx=ast.Load()), args=[v.func.value], keywords=[])
                ast.copy_location(call, v)
                ast.fix_missing_locations(call)
                return self.comment(s) + self.stmt_value(s, call, env, loop, lambda e, env2: self.bind(s.targets[0], e, s, env2, loop, k), handlers=None)
            return self.comment(s) + self.stmt_value(s, s.value, env, loop, lambda e, env2: self.bind(s.targets[0], e, s, env2, loop, k), handlers=None)
        if isinstance(s, ast.AnnAssign) and s.value is None and isinstance(s.target, ast.Name):
            # a bare annotation `x: T` binds nothing (the annotation of a local is never evaluated)
            return self.comment(s) + k(env, loop)
        if isinstance(s, ast.AnnAssign):
            if s.value is None or not isinstance(s.target, ast.Name):
                self.bad(s, "annotation without value")
            return self.comment(s) + self.stmt_value(s, s.value, env, loop, lambda e, env2: self.bind(s.target, e, s, env2, loop, k), handlers=None)
        if isinstance(s, ast.AugAssign):
            key_ = self.target_key(s.target, env)
            if key_ is None:
                self.bad(s, "augmented assignment to something that is not a local name / state attribute")
            import copy as _copy_mod

            left = _copy_mod.deepcopy(s.target)
            for x in ast.walk(left):
                if hasattr(x, "ctx"):
                    x.ctx = ast.Load()
            value = ast.BinOp(left=left, op=s.op, right=s.value)
            ast.copy_location(value, s)
            ast.fix_missing_locations(value)
            return self.comment(s) + self.stmt_value(s, value, env, loop, lambda e, env2: self.bind(key_, e, s, env2, loop, k), handlers=None)
        if isinstance(s, ast.Expr) and isinstance(s.value, ast.Call) and isinstance(s.value.func, ast.Attribute) and s.value.func.attr == "append" and isinstance(s.value.func.value, ast.Name) and len(s.value.args) == 1 and not s.value.keywords:
            tgt = s.value.func.value
            if tgt.id not in env or env[tgt.id].ty.kind != "List":
                self.bad(s, "append on something that is not a local list")
            elt_ty = env[tgt.id].ty.args[0]
            lst_ty = env[tgt.id].ty

            def use_append(e, env2):
                item = self.coerce(e, elt_ty, s)
                v = env2[tgt.id]
                return self.bind(tgt, E(f"{v.lean} ++ [{item.lean}]", lst_ty), s, env2, loop, k)

            return self.comment(s) + self.stmt_value(s, s.value.args[0], env, loop, use_append, handlers=None)
        if isinstance(s, ast.If) and any(isinstance(x, ast.NamedExpr) for x in ast.walk(s.test)):
            # `if (v := e) <rest of the test>:` = `v = e; if v <rest of the test>:` when the assignment
            # expression is the first thing the test evaluates
            walrus = [x for x in ast.walk(s.test) if isinstance(x, ast.NamedExpr)]
            w = walrus[0]
            first = s.test
            while first is not w:
                if isinstance(first, ast.BoolOp):
                    first = first.values[0]
                elif isinstance(first, ast.Compare):
                    first = first.left
                elif isinstance(first, ast.UnaryOp):
                    first = first.operand
                else:
                    self.bad(s, "an assignment expression that is not the first thing the test evaluates")
            if len(walrus) != 1 or not isinstance(w.target, ast.Name):
                self.bad(s, "more than one assignment expression in a test")
            assign = ast.Assign(targets=[ast.Name(id=w.target.id, ctx=ast.Store())], value=w.value)
            test2 = _Subst(w, ast.Name(id=w.target.id, ctx=ast.Load())).visit(_copy(s.test))
            if2 = ast.If(test=test2, body=s.body, orelse=s.orelse)
            for x in (assign, if2):
                ast.copy_location(x, s)
                ast.fix_missing_locations(x)
            assign._py2lean_comment = f"{self.srcline(s)}   [the assignment expression first: {w.target.id} = {ast.unparse(w.value)}]"
            if2._py2lean_comment = f"  … if {ast.unparse(test2)}:"
            return self.block([assign, if2], env, loop, k)
        if (
            isinstance(s, ast.If) and self.spec.canon_not_if and isinstance(s.test, ast.UnaryOp) and isinstance(s.test.op, ast.Not)
            and s.orelse and not (len(s.orelse) == 1 and isinstance(s.orelse[0], ast.If) and s.orelse[0].col_offset == s.col_offset)
            and not getattr(s, "_py2lean_canon", False)
        ):
            # `if not c: A else: B` is `if c: B else: A`: one spelling (the positive test first)
            s2 = ast.If(test=s.test.operand, body=s.orelse, orelse=s.body)
            ast.copy_location(s2, s)
            s2._py2lean_canon = True
            s2._py2lean_rest = getattr(s, "_py2lean_rest", None)
            s2._py2lean_swapped = f"{self.srcline(s)}   [branches exchanged: the test without `not` first]"
            return self.stmt(s2, env, loop, k)
        if isinstance(s, ast.If):
            if (loop is None or getattr(loop, "join_ty", None)) and not getattr(s, "_py2lean_comment", None):
                return self.stmt_if_joined(s, env, loop, k)
            return self.stmt_if(s, env, loop, k)
        if isinstance(s, ast.Raise):
            if s.exc is None or (s.cause is not None and not isinstance(s.cause, ast.Name) and not (isinstance(s.cause, ast.Constant) and s.cause.value is None)):
                self.bad(s, "bare raise / raise with a cause that is not a bound exception name or None")
            e = s.exc
            f_ = e.func if isinstance(e, ast.Call) else e
            # the class by its (last) name: `ValueError`, `exceptions.BadRequestKeyError(key)`
            cls = f_.id if isinstance(f_, ast.Name) else (f_.attr if isinstance(f_, ast.Attribute) and dotted(f_) is not None else None)
            if cls is None or cls not in EXC_PARENT:
                self.bad(s, "raise of something that is not a known exception class")
            if self._handlers is not None:
                for classes_, body_fn in self._handlers:
                    if any(exc_is(cls, h_) for h_ in classes_):
                        # raised inside the `try` whose except clause catches it: control goes to
                        # that handler (constructor arguments are not modelled: they are pure here)
                        return self.comment(s) + ["--   (caught by the enclosing except clause)"] + body_fn(env)
            return self.comment(s) + self.wrap_error(f'"{cls}"', s, loop, env)
        if isinstance(s, ast.With):
            if len(s.items) != 1 or s.items[0].optional_vars is not None or ast.unparse(s.items[0].context_expr) not in self.spec.with_noop:
                self.bad(s, "with statement (only context managers the spec declares to be no-ops in the sequential model)")
            return self.comment(s, self.lines[s.lineno - 1].strip() + "   [context manager without effect in the sequential model]") + self.block(s.body, env, loop, k)
        if isinstance(s, ast.Assert):
            # `assert c, msg` = `if not c: raise AssertionError(msg)` (the message is not modelled;
            # running under `python -O` is outside the model)
            r = ast.Raise(exc=ast.Name(id="AssertionError", ctx=ast.Load()), cause=None)
            n_ = ast.If(test=ast.UnaryOp(op=ast.Not(), operand=s.test), body=[r], orelse=[])
            for x in (r, n_):
                ast.copy_location(x, s)
            ast.fix_missing_locations(n_)
            n_._py2lean_comment = self.srcline(s)
            r._py2lean_comment = "  (assertion failed) raise AssertionError"
            return self.stmt_if(n_, env, loop, k)
        if isinstance(s, ast.Try):
            return self.stmt_try(s, env, loop, k)
        if isinstance(s, ast.For):
            return self.stmt_for(s, env, loop, k)
        if isinstance(s, ast.While):
            return self.stmt_while(s, env, loop, k)
        if isinstance(s, ast.Expr) and isinstance(s.value, ast.Call):
            # a call as a statement: evaluated for what it can raise / its effect on a collaborator,
            # the value is dropped
            try:
                res_ = self.resolve_call(s.value, env)
            except (Untranslatable, NeedUnwrap, NoneUsed):
                res_ = None
            if res_ is not None and (res_[0].raises or res_[0].effect_key):
                return self.comment(s) + self.stmt_value(s, s.value, env, loop, lambda e, env2: k(env2, loop), handlers=None)
        if isinstance(s, ast.Continue):
            if loop is None:
                self.bad(s, "continue outside a loop")
            return self.comment(s) + self.loop_next(loop, env, s)
        if isinstance(s, ast.Break):
            if loop is None:
                self.bad(s, "break outside a loop")
            return self.comment(s) + self.loop_fall(loop, env, s)
        self.bad(s, "unsupported statement")

    # value-producing statements (return / assignment), with raising calls and None-splits

    def bind_raising(self, s, value, env, loop, handlers, cont, first=True):
        """bind the raising calls of expression `value` to temporaries, in evaluation order, each by
        `match <call> with | .error … | .ok v => …`, then continue with cont(value', env')"""
        if handlers is None:
            handlers = self._handlers
        rc = self.raising_calls(value, env)
        if not rc:
            return cont(value, env)
        node, res, lazy = rc[0]
        if res is not None and res[0].effect_key and not res[0].raises:
            if lazy:
                self.bad(s, "a call with an effect on a collaborator under a short-circuiting operator")
            fn, args = res
            key_ = fn.effect_key
            if key_ not in env:
                self.bad(s, f"collaborator state {key_} is not defined")
            ce = self.apply(fn, args, node, env)
            call_lean = ce.lean.replace(fn.lean, f"{fn.lean} {env[key_].lean}", 1)
            self.tmp += 1
            r = f"r{self.tmp}_"
            tmp = f"v{self.tmp}_"
            stv = env[key_]
            env3 = dict(env)
            env3[key_] = Var(stv.lean, stv.ty)
            drop_facts(env3, key_)
            keyn = f"<tmp:{id(node)}>"
            env3[keyn] = Var(tmp, ce.ty)
            value2 = _Subst(node, ast.Name(id=keyn, ctx=ast.Load())).visit(_copy(value))
            ast.fix_missing_locations(value2)
            lines = [f"let {r} := {call_lean}", f"let {tmp} : {lean_ty(ce.ty)} := {r}.1", f"let {stv.lean} : {lean_ty(stv.ty)} := {r}.2"]
            return lines + self.bind_raising(s, value2, env3, loop, handlers, cont, first=False)
        if lazy:
            self.bad(s, "a raising call under a short-circuiting operator (only supported in the test of an `if`, where it is rewritten to nested ifs)")
        if res is not None and res[0].effect_key and res[0].raises:
            # a raising call with an effect on a local container (`d.pop(k)`): `.ok (value, new container)`
            fn, args = res
            key_ = fn.effect_key
            ce = self.apply(fn, args, node, env)
            call_lean = ce.lean.replace(fn.lean, f"{fn.lean} {env[key_].lean}", 1)
            self.tmp += 1
            tmp = f"v{self.tmp}_"
            stv = env[key_]
            env3 = dict(env)
            keyn = f"<tmp:{id(node)}>"
            env3[keyn] = Var(f"{tmp}.1", ce.ty)
            env3[key_] = Var(stv.lean, stv.ty)
            drop_facts(env3, key_)
            value2 = _Subst(node, ast.Name(id=keyn, ctx=ast.Load())).visit(_copy(value))
            ast.fix_missing_locations(value2)
            if fn.error_keeps_state:
                # `(Except String result, new state)`: the state is rebound first, for both arms
                r_ = f"r{self.tmp}_"
                env3[keyn] = Var(tmp, ce.ty)
                env_err = dict(env)
                env_err[key_] = Var(stv.lean, stv.ty)
                drop_facts(env_err, key_)
                ok_lines = self.bind_raising(s, value2, env3, loop, handlers, cont, first=False)
                err_lines = self.error_arm(fn.raises, handlers, s, env_err, loop)
                return [f"let {r_} := {call_lean}", f"let {stv.lean} : {lean_ty(stv.ty)} := {r_}.2", f"match {r_}.1 with"] + err_lines + [f"| .ok {tmp} =>"] + ind(ok_lines)
            ok_lines = [f"let {stv.lean} : {lean_ty(stv.ty)} := {tmp}.2"] + self.bind_raising(s, value2, env3, loop, handlers, cont, first=False)
            err_lines = self.error_arm(fn.raises, handlers, s, env, loop)
            return [f"match {call_lean} with"] + err_lines + [f"| .ok {tmp} =>"] + ind(ok_lines)
        if res is not None and res[0].partial_model and handlers is not None:
            self.bad(s, f"{res[0].lean} is a partial model (marker error outside its domain) and must not be called inside try")
        self.tmp += 1
        tmp = f"v{self.tmp}_"
        if res is None:
            # indexing xs[i]
            b = self.plain(self.expr(node.value, env), node.value)
            ix = self.plain(self.expr(node.slice, env), node.slice)
            if b.ty.kind == "Dict":
                if ix.ty != b.ty.args[0]:
                    self.bad(node, f"dict key of type {ix.ty} for a {b.ty}")
                call_lean, rty = f"Pre.dictGetItem {P(b)} {P(ix)}", b.ty.args[1]
            elif ix.ty != INT:
                self.bad(node, "index that is not an int")
            elif b.ty.kind == "List":
                call_lean, rty = f"Pre.getItem {P(b)} {P(ix)}", b.ty.args[0]
            else:
                call_lean, rty = f"Pre.getItemStr {P(b)} {P(ix)}", b.ty
            raises = ("KeyError",) if b.ty.kind == "Dict" else ("IndexError",)
        else:
            fn, args = res
            ce = self.apply(fn, args, node, env)
            call_lean, rty = ce.lean, ce.ty
            raises = fn.raises
        env3 = dict(env)
        key = f"<tmp:{id(node)}>"
        env3[key] = Var(tmp, rty)
        value2 = _Subst(node, ast.Name(id=key, ctx=ast.Load())).visit(_copy(value))
        ast.fix_missing_locations(value2)
        ok_lines = self.bind_raising(s, value2, env3, loop, handlers, cont, first=False)
        err_lines = self.error_arm(raises, handlers, s, env, loop)
        return [f"match {call_lean} with"] + err_lines + [f"| .ok {tmp} =>"] + ind(ok_lines)

    def stmt_value(self, s, value, env, loop, use, handlers):
        """translate expression `value`, then `use(E, env) -> lines`. `handlers` = the except
        clauses of an enclosing try (list of (classes, body lines fn)) or None."""

        def body(env1):
            def inner(env2):
                return self.bind_raising(s, value, env2, loop, handlers, lambda v, e: use(self.expr_top(v, e), e))

            return self.guarded(s, env1, loop, inner)

        return self.with_splits(s, [value], env, loop, body, bool_ctx=False)

    def expr_top(self, value, env):
        return self.expr(value, env)

    def error_arm(self, raises, handlers, s, env, loop):
        """the `| .error …` arm(s) for a raising call"""
        if handlers is None:
            if not self.raises:
                self.bad(s, f"a call that can raise {raises} outside try in a function declared pure")
            return ["| .error e_ =>"] + ind(self.wrap_error("e_", s, loop, env))
        # which handler catches which class (first match wins)
        caught_by = {}
        for cls in raises:
            for i, (classes, _) in enumerate(handlers):
                if any(exc_is(cls, h) for h in classes):
                    caught_by[cls] = i
                    break
        if all(c in caught_by for c in raises) and len(set(caught_by.values())) == 1:
            i = next(iter(caught_by.values()))
            return ["| .error _ =>"] + ind(handlers[i][1](env))
        if not caught_by:
            # none of the declared classes is caught by these clauses: the exception leaves the `try`
            if not self.raises:
                self.bad(s, f"a call that can raise {raises} (not caught by the except clauses) in a function declared pure")
            return ["| .error e_ =>"] + ind(self.wrap_error("e_", s, loop, env))
        self.bad(s, f"the except clauses do not uniformly cover the declared exception classes {raises} of the call (partial handling is outside the subset)")

    def bind(self, target, e: E, s, env, loop, k):
        if isinstance(target, str) or isinstance(target, ast.Name):
            nm = target if isinstance(target, str) else target.id
            ln = lean_name(nm.replace("self.", "self_"))
            if nm in self.spec.locals and not (e.ty.kind in ("List", "Dict") and e.ty.args[0] == NONE):
                e = self.coerce(e, parse_ty(self.spec.locals[nm]), s)
            ty = e.ty
            if ty.kind == "Dict" and ty.args[0] == NONE:
                if nm in self.spec.locals:
                    ty = parse_ty(self.spec.locals[nm])
                    e = self.coerce(e, ty, s)
                elif nm in env and env[nm].ty.kind == "Dict":
                    ty = env[nm].ty
                    e = self.coerce(e, ty, s)
                else:
                    self.bad(s, "empty dict literal of unknown key / value types (declare it in the spec via `locals`)")
            if ty.kind == "List" and ty.args[0] == NONE:
                if nm in self.spec.locals:
                    ty = parse_ty(self.spec.locals[nm])
                    e = self.coerce(e, ty, s)
                elif nm in env and env[nm].ty.kind == "List":
                    ty = env[nm].ty
                    e = self.coerce(e, ty, s)
                elif self.result_ty.kind == "List" and nm in getattr(self, "returned_names", ()):
                    # the local is what the function returns (`rv = []; ...; return rv`): the result type
                    ty = self.result_ty
                    e = self.coerce(e, ty, s)
                else:
                    self.bad(s, "empty list literal of unknown element type (declare it in the spec via `locals`)")
            if nm in env and env[nm].ty != ty:
                old = env[nm].ty
                # keep a declared Optional type only when the new value is None / plain of the same base
                if not (old.kind in ("Opt", "None") or ty.kind in ("Opt", "None") or old == ty or nm in self.spec.retype or "*" in self.spec.retype):
                    self.bad(s, f"{nm!r} changes its type from {old} to {ty} (declare it in the spec's `retype` if that is intended)")
            env2 = {k: v for k, v in env.items() if not (k.startswith(nm + "[") or (k.startswith(nm + ".") and env.get(nm) is not None and env[nm].ty.kind == "Rec"))}
            env2[nm] = Var(ln, ty)
            if isinstance(s, ast.Assign) and isinstance(s.value, ast.Call) and isinstance(s.value.func, ast.Name) and s.value.func.id == "iter" and len(s.value.args) == 1:
                src_key = self.target_key(s.value.args[0], env)
                if src_key is None:
                    self.bad(s, "iter() of something that is not a local / state container")
                env2[nm] = Var(ln, ty, iter_of=src_key)
            drop_facts(env2, nm)
            if ty == NONE:
                # the variable is None from here on: no Lean binding needed
                return k(env2, loop)
            if e.var == nm and e.lean == ln:
                return k(env2, loop)
            return [f"let {ln} : {lean_ty(ty)} := {e.lean}"] + k(env2, loop)
        if isinstance(target, ast.Tuple) and all(isinstance(x, ast.Name) for x in target.elts) and e.ty.kind == "List" and len(target.elts) in (2, 3):
            # `a, b = <list>`: exactly that many items, or ValueError (too many / not enough values to unpack)
            n_ = len(target.elts)
            self.tmp += 1
            tmp = f"v{self.tmp}_"
            tup = E(tmp, Tup(*([e.ty.args[0]] * n_)), None, True)
            ok_lines = self.bind(target, tup, s, env, loop, k)
            handlers = self._handlers
            if handlers is None:
                if not self.raises:
                    self.bad(s, "unpacking a list into names can raise ValueError in a function declared pure")
                err = ["| .error e_ =>"] + ind(self.wrap_error("e_", s, loop, env))
            else:
                err = self.error_arm(("ValueError",), handlers, s, env, loop)
            return [f"match Pre.unpack{n_} {P(e)} with"] + err + [f"| .ok {tmp} =>"] + ind(ok_lines)
        if isinstance(target, ast.Tuple) and all(isinstance(x, ast.Name) for x in target.elts):
            if e.ty.kind != "Tup" or len(e.ty.args) != len(target.elts):
                self.bad(s, f"unpacking a {e.ty} into {len(target.elts)} names")
            self.tmp += 1
            tmp = f"t{self.tmp}_"
            lines = [f"let {tmp} := {e.lean}"]
            env2 = dict(env)
            m = len(target.elts)
            for i, x in enumerate(target.elts):
                proj = ".2" * i + (".1" if i < m - 1 else "")
                ln = lean_name(x.id)
                lines.append(f"let {ln} : {lean_ty(e.ty.args[i])} := {tmp}{proj}")
                env2[x.id] = Var(ln, e.ty.args[i])
                drop_facts(env2, x.id)
            return lines + k(env2, loop)
        self.bad(s, "assignment target that is not a local name or a tuple of names")

    # ---- mutation of containers ------------------------------------------

    def target_key(self, node, env):
        """env key of a mutable target: a local name or a state attribute `self.F`"""
        d = dotted(node)
        if d is not None and d in env:
            return d
        return None

    def mutation(self, s, env):
        """classify a statement as a container mutation -> (kind, key, [arg nodes]) or None"""
        if isinstance(s, ast.Expr) and isinstance(s.value, ast.Call) and isinstance(s.value.func, ast.Attribute) and not s.value.keywords:
            key = self.target_key(s.value.func.value, env)
            if key is not None and (env[key].ty.kind, s.value.func.attr) in MUTATORS and not isinstance(s.value.func.value, ast.Name):
                return ("method:" + s.value.func.attr, key, list(s.value.args))
            if key is not None and isinstance(s.value.func.value, ast.Name) and (env[key].ty.kind, s.value.func.attr) in MUTATORS and s.value.func.attr != "append":
                return ("method:" + s.value.func.attr, key, list(s.value.args))
        if isinstance(s, ast.Assign) and len(s.targets) == 1 and isinstance(s.targets[0], ast.Subscript):
            t = s.targets[0]
            key = self.target_key(t.value, env)
            if key is not None and env[key].ty.kind == "Bytes" and isinstance(t.slice, ast.Slice) and t.slice.step is None:
                # a bytearray: slice assignment only
                none = ast.Constant(value=None)
                return ("setslice", key, [t.slice.lower or none, t.slice.upper or none, s.value])
            if key is not None and env[key].ty.kind == "Dict" and not isinstance(t.slice, ast.Slice):
                return ("dictset", key, [t.slice, s.value])
            if key is not None and env[key].ty.kind == "List":
                if isinstance(t.slice, ast.Slice):
                    if t.slice.step is not None:
                        self.bad(s, "slice assignment with a step")
                    none = ast.Constant(value=None)
                    return ("setslice", key, [t.slice.lower or none, t.slice.upper or none, s.value])
                return ("setitem", key, [t.slice, s.value])
        if isinstance(s, ast.Delete) and len(s.targets) == 1 and isinstance(s.targets[0], ast.Subscript) and isinstance(s.targets[0].slice, ast.Slice) and s.targets[0].slice.step is None:
            # `del xs[lo:hi]` is `xs[lo:hi] = <empty>` (a list, or a bytearray)
            t = s.targets[0]
            key = self.target_key(t.value, env)
            if key is not None and env[key].ty.kind in ("Bytes", "List"):
                none = ast.Constant(value=None)
                empty = ast.Constant(value=b"") if env[key].ty.kind == "Bytes" else ast.List(elts=[], ctx=ast.Load())
                ast.copy_location(empty, s)
                ast.copy_location(none, s)
                return ("setslice", key, [t.slice.lower or none, t.slice.upper or none, empty])
        if isinstance(s, ast.Delete) and len(s.targets) == 1 and isinstance(s.targets[0], ast.Subscript) and not isinstance(s.targets[0].slice, ast.Slice):
            t = s.targets[0]
            key = self.target_key(t.value, env)
            if key is not None and env[key].ty.kind == "List":
                return ("delitem", key, [t.slice])
        return None

    def stmt_mutation(self, s, mt, env, loop, k):
        kind, key, args = mt
        ty = env[key].ty
        elt = ty.args[0] if ty.args else None
        if kind.startswith("method:"):
            lean_fn, ptys, raises = MUTATORS[(ty.kind, kind[7:])]
            ptys = [elt if t == "elt" else t for t in ptys]
        elif kind == "dictset":
            lean_fn, ptys, raises = "Pre.dictSet", [ty.args[0], ty.args[1]], ()
        elif kind == "setitem":
            lean_fn, ptys, raises = "Pre.setItem", [INT, elt], ("IndexError",)
        elif kind == "delitem":
            lean_fn, ptys, raises = "Pre.delItem", [INT], ("IndexError",)
        else:
            lean_fn, ptys, raises = "Pre.setSlice", [Opt(INT), Opt(INT), ty], ()
        if len(args) != len(ptys):
            self.bad(s, f"{kind} with {len(args)} arguments")
        value = args[0] if len(args) == 1 else (ast.Tuple(elts=args, ctx=ast.Load()) if args else ast.Constant(value=None))
        if len(args) > 1:
            ast.copy_location(value, s)
            ast.fix_missing_locations(value)

        def use(e, env2):
            # a comprehension over an iterator uses it up (its value was computed just before)
            used_up = set()
            for a_ in args:
                for x in ast.walk(a_):
                    if isinstance(x, (ast.ListComp, ast.GeneratorExp)) and isinstance(x.generators[0].iter, ast.Name):
                        used_up.add(x.generators[0].iter.id)
            if used_up:
                env2 = dict(env2)
                for nm in used_up:
                    if nm in env2 and env2[nm].iter_of:
                        v_ = env2[nm]
                        env2[nm] = Var("([] : " + lean_ty(v_.ty) + ")", v_.ty, iter_of=v_.iter_of, exhausted=True)
            # an iterator over this container that is still in use would see the change
            for nm, v in env2.items():
                if not nm.startswith("<") and getattr(v, "iter_of", None) == key and not getattr(v, "exhausted", False):
                    ok = kind == "setitem" and isinstance(args[0], ast.Name) and args[0].id == getattr(v, "index_name", None)
                    if not ok:
                        self.bad(s, f"{key} is changed while the iterator {nm!r} over it is still live (only `{key}[<enumerate index of the running loop>] = v` is supported)")
            if loop is not None and getattr(loop, "iter_key", None) == key:
                # the loop iterates this container: after changing it the loop must be left
                env2 = dict(env2)
                env2["<dirty>"] = Var("", NONE)
            items = [e] if len(args) == 1 else (list(e.items) if args else [])
            cur = env2[key]
            parts = [cur.lean] + [P(self.coerce(x, t, s)) for x, t in zip(items, ptys)]
            call = lean_fn + " " + " ".join(parts)
            if not raises:
                return self.bind(key, E(call, ty), s, env2, loop, k)
            self.tmp += 1
            tmp = f"v{self.tmp}_"
            err = ["| .error e_ =>"] + ind(self.wrap_error("e_", s, loop, env2))
            handlers = self._handlers
            if handlers is not None:
                err = self.error_arm(raises, handlers, s, env2, loop)
            return [f"match {call} with"] + err + [f"| .ok {tmp} =>"] + ind(self.bind(key, E(tmp, ty, None, True), s, env2, loop, k))

        if not args:
            return use(None, env)
        return self.stmt_value(s, value, env, loop, use, handlers=None)

    def stateful_call(self, s, call, res, env, loop, handlers, cont):
        """`self.m(args)` for a translated stateful method: pass the state, rebind it from the result"""
        fn, args = res
        ce = self.apply(fn, args, call, env)
        keys = list(fn.state)
        st_in = " ".join(env[key].lean for key in keys)
        call_lean = ce.lean.replace(fn.lean, f"{fn.lean} {st_in}", 1) if not fn.extra else None
        if call_lean is None:
            self.bad(s, "stateful callee with extra arguments")
        self.tmp += 1
        r = f"r{self.tmp}_"
        env2 = dict(env)
        lines = [f"let {r} := {call_lean}"]
        m = len(keys)
        st = f"{r}" if (not fn.raises and fn.result == NONE) else f"{r}.1"
        for i, key in enumerate(keys):
            proj = "" if m == 1 else (".2" * i + (".1" if i < m - 1 else ""))
            ln = lean_name(key.replace("self.", "self_"))
            lines.append(f"let {ln} : {lean_ty(env[key].ty)} := {st}{proj}")
            env2[key] = Var(ln, env[key].ty)
            drop_facts(env2, key)
        val = E("()", NONE, None, True) if fn.result == NONE else None
        if not fn.raises:
            if val is None:
                val = E(f"{r}.2", fn.result, None, True)
            return lines + cont(val, env2)
        self.tmp += 1
        tmp = f"v{self.tmp}_"
        if handlers is None:
            handlers = self._handlers
        if handlers is None:
            err = ["| .error e_ =>"] + ind(self.wrap_error("e_", s, loop, env2))
        else:
            err = self.error_arm(fn.raises, handlers, s, env2, loop)
        ok_val = val if val is not None else E(tmp, fn.result, None, True)
        return lines + [f"match {r}.2 with"] + err + [f"| .ok {tmp} =>"] + ind(cont(ok_val, env2))

    def stmt_filter_walrus(self, s, env, loop, k):
        """`ys = [x for x in xs if <cond with one `(v := e)` evaluated first>]`: the condition
        becomes a local Boolean function whose body is `v = e; return <cond>` (same meaning: the
        assignment expression is the first thing the condition evaluates), then `xs.filter`"""
        comp = s.value
        if len(comp.generators) != 1 or len(comp.generators[0].ifs) != 1 or not isinstance(comp.generators[0].target, ast.Name):
            self.bad(s, "comprehension with an assignment expression that is not `[x for x in xs if cond]`")
        g = comp.generators[0]
        if not (isinstance(comp.elt, ast.Name) and comp.elt.id == g.target.id):
            self.bad(s, "comprehension with an assignment expression whose element is not the loop variable")
        cond = g.ifs[0]
        walrus = [x for x in ast.walk(cond) if isinstance(x, ast.NamedExpr)]
        if len(walrus) != 1:
            self.bad(s, "more than one assignment expression in a comprehension condition")
        w = walrus[0]
        first = cond
        while True:  # the sub-expression Python evaluates first
            if first is w:
                break
            if isinstance(first, ast.BoolOp):
                first = first.values[0]
            elif isinstance(first, ast.Compare):
                first = first.left
            elif isinstance(first, ast.UnaryOp):
                first = first.operand
            else:
                self.bad(s, "the assignment expression is not the first thing the condition evaluates")
        it = self.plain(self.expr(g.iter, env), g.iter)
        if it.ty.kind != "List":
            self.bad(s, f"comprehension over a {it.ty}")
        assign = ast.Assign(targets=[ast.Name(id=w.target.id, ctx=ast.Store())], value=w.value)
        cond2 = _Subst(w, ast.Name(id=w.target.id, ctx=ast.Load())).visit(_copy(cond))
        ret = ast.Return(value=cond2)
        for x in (assign, ret):
            ast.copy_location(x, s)
            ast.fix_missing_locations(x)
        assign._py2lean_comment = f"(condition) {w.target.id} := {ast.unparse(w.value)}"
        ret._py2lean_comment = f"(condition) {ast.unparse(cond2)}"
        saved = (self.result_ty, self.ret_lean_ty, self.raises)
        self.result_ty, self.ret_lean_ty, self.raises = BOOL, "Bool", False
        try:
            x = lean_name(g.target.id)
            env2 = dict(env)
            env2[g.target.id] = Var(x, it.ty.args[0])
            drop_facts(env2, g.target.id)
            body = self.block([assign, ret], env2, None, lambda e, l: self.bad(s, "condition without value"))
        finally:
            self.result_ty, self.ret_lean_ty, self.raises = saved
        self.tmp += 1
        fn = f"p{self.tmp}_"
        lines = [f"let {fn} ({x} : {lean_ty(it.ty.args[0])}) : Bool :="] + ind(body)
        tgt = s.targets[0]
        return lines + self.bind(tgt, E(f"{P(it)}.filter {fn}", it.ty), s, env, loop, k)

    def stmt_nested_def(self, s, env, loop, k):
        """`def f(a, b): ...` inside the function: a local Lean function (pure: its body may not
        raise to the outside and may not assign enclosing variables - it gets its own scope)"""
        if s.name not in self.spec.nested:
            self.bad(s, "nested function that the spec does not declare in `nested`")
        params, rty_text = self.spec.nested[s.name]
        a = s.args
        if a.vararg or a.kwarg or a.kwonlyargs or a.defaults or s.decorator_list:
            self.bad(s, "nested function with defaults / *args / decorators")
        names = [x.arg for x in a.posonlyargs] + [x.arg for x in a.args]
        if names != [p for p, _ in params]:
            self.bad(s, f"nested function {s.name}: parameters are {names}, the spec declares {[p for p, _ in params]}")
        for st_ in s.body:
            for x in ast.walk(st_):
                if isinstance(x, (ast.Nonlocal, ast.Global, ast.While, ast.For, ast.Yield, ast.YieldFrom)):
                    self.bad(x, "nonlocal / loops / yield inside a nested function")
        rty = parse_ty(rty_text)
        saved = (self.result_ty, self.ret_lean_ty, self.raises, self._handlers, getattr(self, "nested_fn", False))
        self.result_ty, self.ret_lean_ty, self.raises, self._handlers, self.nested_fn = rty, lean_ty(rty), False, None, True
        try:
            env2 = {key: v for key, v in env.items()}
            binders = ""
            for pnm, pty in params:
                t_ = parse_ty(pty)
                env2[pnm] = Var(lean_name(pnm), t_)
                drop_facts(env2, pnm)
                binders += f" ({lean_name(pnm)} : {lean_ty(t_)})"
            body = self.block(s.body, env2, None, lambda e_, l_: self.emit_return(E("none", NONE, None, True), s, e_, None))
        finally:
            self.result_ty, self.ret_lean_ty, self.raises, self._handlers, self.nested_fn = saved
        ln = lean_name(s.name)
        self.__dict__.setdefault("local_fns", {})[s.name] = Fn(ln, [parse_ty(t) for _, t in params], rty)
        return [f"-- def {s.name}({', '.join(names)}):   [a local function]", f"let {ln}{binders} : {lean_ty(rty)} :="] + ind(body) + k(env, loop)

    def snapshot(self):
        return (self.tmp, self.nloops, list(self.aux), dict(self.loop_memo), self.njoin)

    def restore(self, snap):
        self.tmp, self.nloops, aux, memo, self.njoin = snap
        self.aux = list(aux)
        self.loop_memo = dict(memo)

    def modified_names(self, stmts, env):
        """the names / state keys the statements may change: assignment targets, and the state a
        stateful callee, a collaborator call or a declared effect hands back"""
        assigned = assigned_names(stmts)
        for st_ in stmts:
            for x in ast.walk(st_):
                if isinstance(x, ast.Call):
                    try:
                        r_ = self.resolve_call(x, env)
                    except Exception:  # noqa: BLE001
                        r_ = None
                    if r_ is not None:
                        for key_ in list(r_[0].state or ()) + ([r_[0].effect_key] if r_[0].effect_key else []):
                            if key_ not in assigned:
                                assigned.append(key_)
                if isinstance(x, ast.Expr):
                    for key_, _ in self.effects_for(x.value) or []:
                        if key_ not in assigned:
                            assigned.append(key_)
                if isinstance(x, (ast.Assign, ast.Delete)) and self.spec.effects:
                    # an assignment / del statement declared an effect (`self.headers["X"] = v`, `self.status_code = n`)
                    for key_, _ in self.effects_for(x) or []:
                        if key_ not in assigned:
                            assigned.append(key_)
        return assigned

    def stmt_if_joined(self, s, env, loop, k):
        """an `if` statement outside loops: when the statements that follow it are reached from
        several branches and are long, they become one local function (`let k1_ (vars…) := …`)
        whose parameters are the variables the branches assign; otherwise (or when the branches
        arrive with different variable types) each branch gets its own copy, as everywhere else"""
        snap = self.snapshot()
        calls = []

        def k_count(env2, loop2):
            lines = k(env2, loop2)
            calls.append(len(lines))
            return lines

        # one copy of the following statements per branch - unless the translation has grown large
        # already (then they are shared through a local function right away)
        plain = None
        depth = getattr(self, "plain_depth", 0)
        try:
            self.size_soft = 20000
            self.plain_depth = depth + 1
            if self.size <= 20000:
                plain = self.stmt_if(s, env, loop, k_count)
        except PlainTooBig:
            if depth > 0:
                raise  # the enclosing attempt is too large as well: it falls back first
            plain = None
        finally:
            self.plain_depth = depth
            if depth == 0:
                self.size_soft = 10**9
        if plain is not None and (len(calls) < 2 or max(calls) < JOIN_MIN_LINES):
            return plain
        after_plain = self.snapshot()
        self.restore(snap)
        self.njoin += 1
        jname = f"k{self.njoin}_"
        names = self.modified_names([s], env)
        if self.spec.canon_join_order:
            # a canonical order of the parameters of the shared continuation: the attributes of the
            # object in the order the spec lists them, then the locals by name (so that exchanging
            # branches / reordering independent statements does not permute them)
            order_ = {key_: i for i, key_ in enumerate(self.state_keys())}
            names = sorted([nm for nm in names if nm in order_], key=lambda nm: order_[nm]) + sorted(nm for nm in names if nm not in order_)
        jp = {"sig": None}
        joined = None
        arrivals = []

        def kj(env2, loop2):
            params = [(nm, env2[nm]) for nm in names if nm in env2]
            sig = [(nm, v.ty) for nm, v in params]
            if joined is not None and [nm for nm, _ in sig] == [nm for nm, _ in joined]:
                if any(t == NONE for _, t in joined):
                    raise JoinMismatch()
                jp["sig"] = joined
                args = [P(self.coerce(E(v.lean, v.ty, None, True), t_, s)) if v.ty != NONE else "none" for (nm, v), (_, t_) in zip(params, joined)]
                return [jname + "".join(" " + a_ for a_ in args)]
            if any(t == NONE for _, t in sig):
                raise JoinMismatch()
            if jp["sig"] is None:
                jp["sig"] = sig
            elif jp["sig"] != sig:
                raise JoinMismatch()
            return [jname + "".join(" " + v.lean for _, v in params)]

        try:
            body = self.stmt_if(s, env, loop, kj)
            if jp["sig"] is None:
                return body
            env_j = {key: v for key, v in env.items() if not any(key.startswith(nm + "[") for nm, _ in jp["sig"])}
            for nm, ty in jp["sig"]:
                env_j[nm] = Var(lean_name(nm), ty)
                drop_facts(env_j, nm)
            tail = k(env_j, loop)
        except JoinMismatch:
            if plain is not None:
                self.restore(after_plain)
                return plain
            # too large to copy, and the branches arrive with different variable types: where they
            # differ only by None-ness (`str` on one path, None on another) the shared function takes
            # the Optional type
            return self.stmt_if_joined_widened(s, env, loop, k, snap, names)
        binders = "".join(f" ({lean_name(nm)} : {lean_ty(ty)})" for nm, ty in jp["sig"])
        jty = self.ret_lean_ty if loop is None else loop.join_ty
        head = [f"-- [the statements after the following `if`, shared by its branches: {jname}]", f"let {jname}{binders} : {jty} :="]
        return head + ind(tail) + body

    def stmt_if_joined_widened(self, s, env, loop, k, snap, names):
        self.restore(snap)
        self.njoin += 1
        jname = f"k{self.njoin}_"
        arrivals = []

        def k_collect(env2, loop2):
            arrivals.append([(nm, env2[nm].ty) for nm in names if nm in env2])
            return ["<shared>"]

        snap_a = self.snapshot()
        self.stmt_if(s, env, loop, k_collect)
        self.restore(snap_a)
        if not arrivals:
            self.bad(s, "internal: no path reaches the statements after this `if`")
        # a variable that only some paths define cannot be read by the shared statements
        common = [nm for nm, _ in arrivals[0] if all(nm in dict(a_) for a_ in arrivals)]
        joined = []
        for nm in common:
            t_ = dict(arrivals[0])[nm]
            for a_ in arrivals[1:]:
                t_ = self.join_ty(t_, dict(a_)[nm], s)
            if t_ == NONE:
                continue  # None on every path: stays known-None, no parameter needed
            joined.append((nm, t_))
        jnames = [nm for nm, _ in joined]

        def kj(env2, loop2):
            params = [(nm, env2[nm]) for nm in jnames]
            args = [P(self.coerce(E(v.lean, v.ty, None, True), t_, s)) if v.ty != NONE else "none" for (nm, v), (_, t_) in zip(params, joined)]
            return [jname + "".join(" " + a_ for a_ in args)]

        body = self.stmt_if(s, env, loop, kj)
        env_j = {key: v for key, v in env.items() if not any(key.startswith(nm + "[") for nm, _ in joined)}
        for nm in names:
            if nm in env_j and nm not in common:
                del env_j[nm]
        for nm in common:
            if nm not in jnames:
                env_j[nm] = Var(lean_name(nm), NONE)
        for nm, ty in joined:
            env_j[nm] = Var(lean_name(nm), ty)
            drop_facts(env_j, nm)
        tail = k(env_j, loop)
        binders = "".join(f" ({lean_name(nm)} : {lean_ty(ty)})" for nm, ty in joined)
        jty = self.ret_lean_ty if loop is None else loop.join_ty
        head = [f"-- [the statements after the following `if`, shared by its branches: {jname}]", f"let {jname}{binders} : {jty} :="]
        return head + ind(tail) + body

    def simple_if(self, s, env):
        """`if c: v1 = e1; v2 = e2` (no else; only re-assignments of defined plain variables
        that keep their type; nothing that needs a case split, an unwrap or can raise) ->
        [(name, E)] and the condition, else None"""
        if s.orelse or not s.body:
            return None

        def splits(x):
            return [nm for nm in none_tested_names(x) if nm in env and env[nm].ty.kind in ("Opt", "None")]

        if splits(s.test):
            return None
        try:
            if self.raising_calls(s.test, env):
                return None
            c = self.cond(s.test, env)
            if c.const is not None:
                return None
            env2 = dict(env)
            out = []
            for st in s.body:
                if isinstance(st, ast.AugAssign) and isinstance(st.target, ast.Name):
                    value = ast.BinOp(left=ast.Name(id=st.target.id, ctx=ast.Load()), op=st.op, right=st.value)
                    ast.copy_location(value, st)
                    ast.fix_missing_locations(value)
                    tgt = st.target.id
                elif isinstance(st, ast.Assign) and len(st.targets) == 1 and isinstance(st.targets[0], ast.Name):
                    value, tgt = st.value, st.targets[0].id
                else:
                    return None
                if tgt not in env2 or env2[tgt].ty.kind in ("Opt", "None"):
                    return None
                if splits(value) or self.raising_calls(value, env2):
                    return None
                e = self.expr(value, env2)
                if e.ty != env2[tgt].ty:
                    return None
                out.append((st, tgt, e))
                # later statements of the branch see the new value under the same name: the
                # emitted `let` shadows it, so env2 is unchanged
            return c, out
        except (NeedUnwrap, NoneUsed, Untranslatable):
            # not the simple shape after all: the general translation (case splits, bound raising
            # calls) decides - and reports whatever is really outside the subset
            return None

    def stmt_if(self, s, env, loop, k):
        simple = self.simple_if(s, env)
        if simple is not None:
            c, assigns = simple
            lines = self.comment(s)
            cname = c.lean
            if len(assigns) > 1 or any(tgt in free_names([s.test]) for _, tgt, _ in assigns[:-1]):
                self.tmp += 1
                cname = f"c{self.tmp}_"
                lines.append(f"let {cname} : Bool := {c.lean}")
            for st, tgt, e in assigns:
                v = env[tgt]
                lines += ["  " + x for x in self.comment(st)]
                lines.append(f"let {v.lean} : {lean_ty(v.ty)} := if {cname} then {e.lean} else {v.lean}")
            return lines + k(env, loop)

        def body(env1):
            def inner(env2):
                rc = self.raising_calls(s.test, env2)
                if any(lazy for _, _, lazy in rc):
                    return self.stmt(self.desugar_if(s), env2, loop, k)
                if rc:
                    return self.bind_raising(s, s.test, env2, loop, None, lambda v, e: self.if_core(s, v, e, loop, k))
                return self.if_core(s, s.test, env2, loop, k)

            return self.guarded(s, env1, loop, inner)

        return self.comment(s) + self.with_splits(s, [s.test], env, loop, body)

    def desugar_if(self, s):
        """`if A and B: S else: T` -> `if A: (if B: S else: T) else: T` (and the dual for `or`), a
        chained comparison first becomes a conjunction: Python's evaluation order made explicit so
        that a raising operand that Python evaluates only conditionally is bound only there"""
        t = s.test
        if isinstance(t, ast.Compare) and len(t.ops) > 1:
            operands = [t.left] + list(t.comparators)
            parts = [ast.Compare(left=operands[i], ops=[t.ops[i]], comparators=[operands[i + 1]]) for i in range(len(t.ops))]
            new_test = ast.BoolOp(op=ast.And(), values=parts)
            n = ast.If(test=new_test, body=s.body, orelse=s.orelse)
        elif isinstance(t, ast.BoolOp) and len(t.values) >= 2:
            first = t.values[0]
            rest = t.values[1] if len(t.values) == 2 else ast.BoolOp(op=t.op, values=t.values[1:])
            if isinstance(t.op, ast.And):
                inner = ast.If(test=rest, body=s.body, orelse=s.orelse)
                n = ast.If(test=first, body=[inner], orelse=s.orelse)
            else:
                inner = ast.If(test=rest, body=s.body, orelse=s.orelse)
                n = ast.If(test=first, body=s.body, orelse=[inner])
            ast.copy_location(inner, s)
            inner._py2lean_comment = "  … " + ("and " if isinstance(t.op, ast.And) else "or ") + ast.unparse(rest)
        else:
            self.bad(s, "a raising call under a short-circuiting construct that is not a top-level and / or / chained comparison of an if-test")
        ast.copy_location(n, s)
        ast.fix_missing_locations(n)
        n._py2lean_comment = "  (evaluation order made explicit) if " + ast.unparse(n.test) + ":"
        return n

    def if_core(self, s, test, env, loop, k):
        def body(env1):
            def inner(env2):
                c = self.cond(test, env2)
                if c.const is True:
                    return ["--   (test decided here: true)"] + self.block(s.body, env2, loop, k)
                if c.const is False:
                    return ["--   (test decided here: false)"] + self.block(s.orelse, env2, loop, k)
                # inside the branches the test is known (until a variable it reads is re-assigned):
                # a later syntactically equal test is decided, as Python's flow guarantees
                a = self.block(s.body, self.bool_identity_facts(add_fact(env2, test, True), test, True), loop, k)
                b = self.block(s.orelse, self.bool_identity_facts(add_fact(env2, test, False), test, False), loop, k)
                return [f"if {c.lean} then"] + ind(a) + ["else"] + ind(b)

            return self.guarded(s, env1, loop, inner)

        return body(env)

    def bool_identity_facts(self, env, test, value: bool):
        """for a bool-typed name `b`: `b is True` / `b is False` being true or false tells the truth
        value of `b` itself (also inside a true conjunction / a false disjunction)"""
        if isinstance(test, ast.BoolOp) and value == isinstance(test.op, ast.And):
            for v in test.values:
                env = self.bool_identity_facts(env, v, value)
            return env
        if isinstance(test, ast.UnaryOp) and isinstance(test.op, ast.Not):
            return self.bool_identity_facts(env, test.operand, not value)
        if isinstance(test, ast.Compare) and len(test.ops) == 1 and isinstance(test.ops[0], (ast.Is, ast.IsNot)) and isinstance(test.left, ast.Name):
            c = test.comparators[0]
            if isinstance(c, ast.Constant) and isinstance(c.value, bool) and test.left.id in env and env[test.left.id].ty == BOOL:
                holds = value if isinstance(test.ops[0], ast.Is) else not value  # `b is c` holds?
                return add_fact(env, test.left, c.value if holds else not c.value)
        return env

    def stmt_try(self, s, env, loop, k):
        """`try: <statements> except <classes> [as e]: <handler>`: every raising call of the body is
        bound with the except clauses as its error arm; the bound name may only be used as the cause
        of a `raise ... from e` (which is ignored: only the class of an exception is modelled)"""
        if s.orelse or s.finalbody:
            self.bad(s, "try with else / finally")
        saved = self._handlers

        def outside(fn):
            def g(env2, loop2=None):
                cur = self._handlers
                self._handlers = saved
                try:
                    return fn(env2)
                finally:
                    self._handlers = cur

            return g

        handlers = []
        for h in s.handlers:
            if h.type is None:
                self.bad(h, "except clause catching everything")
            if h.name is not None:
                for x in ast.walk(ast.Module(body=h.body, type_ignores=[])):
                    if isinstance(x, ast.Name) and x.id == h.name:
                        parent_ok = any(isinstance(r_, ast.Raise) and r_.cause is x for r_ in ast.walk(ast.Module(body=h.body, type_ignores=[])))
                        # ... or inside a call that a pattern of the spec maps as a whole (the
                        # pattern says what the exception object stands for there)
                        for c_ in ast.walk(ast.Module(body=h.body, type_ignores=[])):
                            if isinstance(c_, ast.Call) and any(x is y for y in ast.walk(c_)) and any(m_(c_) is not None for m_, _ in self.spec.patterns):
                                parent_ok = True
                        # ... or inside the arguments of the exception a `raise` constructs (only the class
                        # of a raised exception is modelled, its arguments are never evaluated)
                        for r_ in ast.walk(ast.Module(body=h.body, type_ignores=[])):
                            if isinstance(r_, ast.Raise) and isinstance(r_.exc, ast.Call) and any(x is y for a_ in r_.exc.args for y in ast.walk(a_)):
                                parent_ok = True
                        if not parent_ok:
                            self.bad(h, "the bound exception is used other than as the cause of `raise ... from`")
            if isinstance(h.type, ast.Name):
                classes = [h.type.id]
            elif isinstance(h.type, ast.Tuple) and all(isinstance(x, ast.Name) for x in h.type.elts):
                classes = [x.id for x in h.type.elts]
            else:
                self.bad(h, "except clause with a non-name class")
            for c in classes:
                if c not in EXC_PARENT:
                    self.bad(h, f"exception class {c!r} is not in py2lean's hierarchy table")
            handlers.append((classes, outside(lambda env2, h=h: self.comment(h) + self.block(h.body, env2, loop, k))))
        self._handlers = handlers
        try:
            return self.comment(s, "try:") + self.block(s.body, env, loop, lambda env2, loop2: outside(lambda e: k(e, loop2))(env2))
        finally:
            self._handlers = saved

    # ---- loops ----------------------------------------------------------

    def loop_next(self, lc: LoopCtx, env, node):
        if "<dirty>" in env:
            self.bad(node, "the loop goes on iterating a container after changing it (only `change; break / return` is supported)")
        args = []
        for nm, ty in zip(lc.state, lc.state_tys):
            if nm not in env:
                self.bad(node, f"loop state {nm!r} is not defined here")
            v = env[nm]
            args.append(P(self.coerce(E(v.lean, v.ty, None, True, nm), ty, node)))
        return [f"{lc.fname}{lc.head} {getattr(lc, 'iter_arg', 'rest_')}" + "".join(" " + a for a in args)]

    def loop_fall(self, lc: LoopCtx, env, node):
        """`break`"""
        if not lc.has_break:
            return [".fall " + self.state_tuple(lc, env, node)]
        items = []
        for nm, ty in zip(lc.state, lc.state_tys):
            v = env[nm]
            items.append(self.coerce(E(v.lean, v.ty, None, True, nm), ty, node).lean)
        tys = []
        for nm in lc.exports:
            if nm not in env:
                self.bad(node, f"{nm!r} is read after the loop but not defined at this `break`")
            items.append(env[nm].lean)
            tys.append(env[nm].ty)
        if lc.export_tys is None:
            lc.export_tys = tys
        elif lc.export_tys != tys:
            self.bad(node, "the variables read after the loop have different types at different `break`s")
        if lc.rest_expr is not None:
            items.append(lc.rest_expr)
        if not items:
            return [".brk ()"]
        return [".brk " + (items[0] if len(items) == 1 and _is_atomic_text(items[0]) else "(" + ", ".join(items) + ")")]

    def state_tuple(self, lc, env, node):
        if not lc.state:
            return "()"
        items = []
        for nm, ty in zip(lc.state, lc.state_tys):
            v = env[nm]
            items.append(self.coerce(E(v.lean, v.ty, None, True, nm), ty, node).lean)
        return "(" + ", ".join(items) + ")" if len(items) > 1 else (items[0] if _is_atomic_text(items[0]) else f"({items[0]})")

    def stmt_while(self, s, env, loop, k):
        """`while cond: body` as a recursion on the explicit `fuel`: one unit per iteration; with no
        fuel left the function answers the marker error "py2lean: out of fuel". A loop whose `break`
        hands variables first assigned in the body to the statements after it (or that has an `else`
        clause) answers `Pre.LoopB`: `.brk` = left by `break`, `.fall` = the test became false."""
        if loop is not None and getattr(loop, "iter_arg", None) != "fuel_":
            self.bad(s, "a while loop nested in a for loop")
        outer_ty = loop.result_ty if loop is not None else self.ret_lean_ty
        if not self.raises:
            self.bad(s, "a while loop needs a function declared raises=True (running out of fuel is an error value)")
        has_break = own_breaks(s.body)

        def body(env1):
            assigned = self.modified_names(s.body, env1)
            state = [nm for nm in assigned if nm in env1]
            order = {key_: i for i, key_ in enumerate(self.state_keys())}
            state = sorted([nm for nm in state if nm in order], key=lambda nm: order[nm]) + self.canon_locals([nm for nm in state if nm not in order])
            for nm in state:
                if env1[nm].ty.kind in ("None", "Opt"):
                    self.bad(s, f"loop state {nm!r} is None / Optional before the loop")
            state_tys = [env1[nm].ty for nm in state]
            used = free_names(s.body) | free_names([s.test])
            if self.spec.state:
                used = used | set(self.state_keys())
            if self.spec.capture_self:
                # patterns / table entries may mention attributes of `self` the Python text does not
                used = used | {nm for nm in env1 if nm.startswith("self.")}
            captured = [nm for nm in env1 if not nm.startswith("<") and nm in used and nm not in state and env1[nm].ty != NONE]
            after_names = names_read_before_written(getattr(s, "_py2lean_rest", []) or [])
            exports = [nm for nm in assigned if nm not in env1 and nm in after_names and "." not in nm] if has_break else []
            # `.brk` is only needed when it differs from `.fall`: variables handed over, or an else clause
            use_brk = has_break and bool(exports or s.orelse)
            fname = f"{self.spec.name}.loop{self.nloops + 1}"
            self.nloops += 1  # (reserved now: a loop nested in the body takes the next number)
            head = self.opaque_args + "".join(" " + env1[nm].lean for nm in captured)
            st_ty = "Unit" if not state else " × ".join(lean_ty(t, False) for t in state_tys)

            def translate_body(export_tys):
                lc = LoopCtx(fname, head, state, state_tys)
                lc.iter_arg = "fuel_"
                lc.iter_key = None
                lc.parent = loop
                lc.has_break = use_brk
                lc.exports = exports
                lc.export_tys = export_tys
                if use_brk:
                    brk_items = [lean_ty(t, False) for t in state_tys + (export_tys or [])]
                    brk_ty = "Unit" if not brk_items else " × ".join(brk_items)
                    lc.result_ty = f"Pre.LoopB {_par(outer_ty)} {_par(st_ty)} {_par(brk_ty)}"
                else:
                    lc.result_ty = f"Pre.Loop {_par(outer_ty)} {_par(st_ty)}"
                # inside a while loop the statements after an `if` may be shared by a local function
                lc.join_ty = lc.result_ty
                env_b = {nm: env1[nm] for nm in captured}
                for nm, ty in zip(state, state_tys):
                    env_b[nm] = Var(env1[nm].lean, ty)
                if self.raising_calls(s.test, env_b):
                    self.bad(s, "a raising / effectful call in the test of a while loop")
                c = self.cond(s.test, env_b)
                body_lines = self.block(s.body, env_b, lc, lambda env2, loop2: self.loop_next(lc, env2, s))
                return lc, env_b, c, body_lines

            if use_brk and exports:
                # the types of the variables handed over by `break` are only known after the body was
                # translated: a first pass finds them, the second one uses them in the result type
                snap = self.snapshot()
                lc0, _, _, _ = translate_body(None)
                export_tys = lc0.export_tys
                if export_tys is None:
                    self.bad(s, "internal: break not reached")
                self.restore(snap)
                self.nloops += 1
                lc, env_b, c, body_lines = translate_body(list(export_tys))
            else:
                lc, env_b, c, body_lines = translate_body([] if use_brk else None)
            binders = (" " + self.implicit.strip() if self.implicit else "") + "".join(f" ({nm} : {ty})" for nm, ty in self.spec.opaque)
            binders += "".join(f" ({env1[nm].lean} : {lean_ty(env1[nm].ty)})" for nm in captured)
            sig = " → ".join(["Nat"] + [lean_ty(t, True) for t in state_tys] + [lc.result_ty])
            st_pats = "".join(", " + env1[nm].lean for nm in state)
            nested_note = "" if loop is None else f" (nested in `{loop.fname}`: `.ret x` hands `x`, a result of that loop's body, on to it; fuel = what the enclosing loop has left)"
            what = "`.fall st` = the loop test became false (or `break`) with loop state `st`"
            if use_brk:
                what = "`.fall st` = the loop test became false with loop state `st`, `.brk (st…, variables read after the loop…)` = the loop was left by `break`"
            aux = [f"/-- the `{self.srcline(s)}` loop of `{self.spec.qualname}`{nested_note}, one unit of fuel per iteration: `.ret r` = the function returned `r` inside the loop (or ran out of fuel: a marker error), {what} -/", f"def {fname}{binders} : {sig}"]
            aux.append(f"  | 0{st_pats} => " + self.wrap_error('"py2lean: out of fuel"', s, lc, env_b)[0])
            aux.append(f"  | fuel_ + 1{st_pats} =>")
            aux += ["    " + ln for ln in self.comment(s) + [f"if {c.lean} then"] + ind(body_lines) + ["else", "  .fall " + self.state_tuple(lc, env_b, s)]]
            self.aux.append("\n".join(aux) + "\n")
            init = "".join(" " + P(E(env1[nm].lean, env1[nm].ty, None, True)) for nm in state)
            env_after = dict(env1)
            for nm in state:
                drop_facts(env_after, nm)
            if not state:
                fall_pat = "()"
            elif len(state) == 1:
                fall_pat = env1[state[0]].lean
            else:
                fall_pat = "(" + ", ".join(env1[nm].lean for nm in state) + ")"
            fuel_arg = "fuel" if loop is None else "fuel_"
            call = f"{fname}{head} {fuel_arg}{init}"
            after_fall = (self.comment(s, "else:  (of the while loop: not after `break`)") + self.block(s.orelse, env_after, loop, k)) if s.orelse else k(env_after, loop)
            if not use_brk:
                return [f"match {call} with", "| .ret r_ => r_", f"| .fall {fall_pat} =>"] + ind(after_fall)
            env_brk = dict(env_after)
            pats = [env1[nm].lean for nm in state]
            for nm, ty in zip(lc.exports, lc.export_tys):
                env_brk[nm] = Var(lean_name(nm), ty)
                pats.append(lean_name(nm))
            brk_pat = "()" if not pats else (pats[0] if len(pats) == 1 else "(" + ", ".join(pats) + ")")
            after_brk = k(env_brk, loop)
            return [f"match {call} with", "| .ret r_ => r_", f"| .fall {fall_pat} =>"] + ind(after_fall) + [f"| .brk {brk_pat} =>"] + ind(after_brk)

        return self.comment(s) + self.guarded(s, env, loop, body)

    def stmt_for_unrolled(self, s, env, loop, k):
        """`for x in (a, b, ...):` over a tuple / list *literal*: the body is repeated once per item
        (`x = a; body; x = b; body`); a tuple target `for k, v in ((k1, v1), ...)` is assigned
        component-wise; `continue` ends the current copy of the body (the statements after an `if`
        that contains it move into its branches); `break` is not supported in such a body"""
        if s.orelse:
            self.bad(s, "unrolled for with else")
        for x in ast.walk(ast.Module(body=s.body, type_ignores=[])):
            if isinstance(x, ast.Break):
                self.bad(x, "break in a loop over a literal tuple")
        targets = [s.target] if isinstance(s.target, ast.Name) else (list(s.target.elts) if isinstance(s.target, ast.Tuple) and all(isinstance(t_, ast.Name) for t_ in s.target.elts) else None)
        if targets is None:
            self.bad(s, "unrolled for with a nested tuple target")

        def has_continue(st_):
            return any(isinstance(x, ast.Continue) for x in ast.walk(st_))

        def seq(stmts):
            """the statements of one iteration with `continue` eliminated"""
            if not stmts:
                return []
            st_, rest = stmts[0], stmts[1:]
            if isinstance(st_, ast.Continue):
                return []
            if isinstance(st_, ast.If) and has_continue(st_):
                n_ = ast.If(test=st_.test, body=seq(list(st_.body) + rest) or [ast.Pass()], orelse=seq(list(st_.orelse) + rest))
                ast.copy_location(n_, st_)
                ast.fix_missing_locations(n_)
                return [n_]
            if has_continue(st_):
                self.bad(st_, "continue inside a compound statement other than if, in a loop over a literal tuple")
            return [st_] + seq(rest)

        stmts = []
        for item in s.iter.elts:
            if isinstance(s.target, ast.Name):
                pairs = [(s.target, item)]
            else:
                if not (isinstance(item, ast.Tuple) and len(item.elts) == len(targets)):
                    self.bad(s, "a tuple target needs literal tuples of the same length as items")
                pairs = list(zip(targets, item.elts))
            for t_, v_ in pairs:
                a = ast.Assign(targets=[ast.Name(id=t_.id, ctx=ast.Store())], value=v_)
                ast.copy_location(a, s)
                ast.fix_missing_locations(a)
                a._py2lean_comment = f"{self.srcline(s)}   [unrolled: {t_.id} = {ast.unparse(v_)}]"
                stmts.append(a)
            stmts += seq([_copy(b_) for b_ in s.body])
        return self.block(stmts, env, loop, k)

    def stmt_for(self, s, env, loop, k):
        if isinstance(s.iter, (ast.Tuple, ast.List)):
            return self.stmt_for_unrolled(s, env, loop, k)
        if loop is not None:
            # a `for` loop directly inside the body of another `for` loop (no `break` of its own, not
            # under a `while`): its auxiliary definition answers `.ret x` with `x` a result of the
            # enclosing loop's body (so a `return` inside is `.ret (.ret r)`), like a nested `while`
            if getattr(loop, "iter_arg", None) == "fuel_" or any(isinstance(x, ast.Break) for st_ in s.body for x in ast.walk(st_)) or loop.has_break:
                self.bad(s, "nested loops")
        outer_ty = loop.result_ty if loop is not None and loop.result_ty is not None else self.ret_lean_ty
        if loop is not None and loop.result_ty is None:
            self.bad(s, "nested loops")
        if not getattr(s, "_py2lean_iter_bound", False):
            # raising calls in the iterable are evaluated once, before the loop

            def with_iter(v, e):
                s2 = ast.For(target=s.target, iter=v, body=s.body, orelse=s.orelse)
                ast.copy_location(s2, s)
                s2._py2lean_rest = getattr(s, "_py2lean_rest", [])
                s2._py2lean_iter_bound = True
                s2._py2lean_comment = "  (the loop, over the value bound above)"
                return self.stmt_for(s2, e, loop, k)

            def try_bind(env1):
                if self.raising_calls(s.iter, env1):
                    return self.comment(s) + self.bind_raising(s, s.iter, env1, loop, None, with_iter)
                return None

            try:
                bound = try_bind(env)
            except (NeedUnwrap, NoneUsed):
                bound = None
            if bound is not None:
                return bound
        has_break = any(isinstance(x, ast.Break) for st_ in s.body for x in ast.walk(st_))
        if s.orelse and not has_break:
            # without `break` the else clause simply runs after the loop
            s2 = ast.For(target=s.target, iter=s.iter, body=s.body, orelse=[])
            ast.copy_location(s2, s)
            s2._py2lean_rest = list(s.orelse) + list(getattr(s, "_py2lean_rest", []))
            return self.stmt_for(s2, env, loop, lambda e, l: self.block(s.orelse, e, l, k))

        def body(env1):
            it = self.plain(self.expr(s.iter, env1), s.iter)
            if it.ty.kind != "List":
                self.bad(s, f"for over a {it.ty} (only lists)")
            elt = it.ty.args[0]
            # a loop over an iterator variable (directly or through enumerate) consumes it
            iter_var, via_enum = None, False
            if isinstance(s.iter, ast.Name) and s.iter.id in env1 and env1[s.iter.id].iter_of:
                iter_var = s.iter.id
            elif isinstance(s.iter, ast.Call) and isinstance(s.iter.func, ast.Name) and s.iter.func.id == "enumerate" and len(s.iter.args) == 1 and isinstance(s.iter.args[0], ast.Name) and s.iter.args[0].id in env1 and env1[s.iter.args[0].id].iter_of:
                iter_var, via_enum = s.iter.args[0].id, True
            assigned = assigned_names(s.body)
            for st_ in s.body:
                for x in ast.walk(st_):
                    if isinstance(x, ast.Expr):
                        for key_, _ in self.effects_for(x.value) or []:
                            if key_ not in assigned:
                                assigned.append(key_)
                    if isinstance(x, (ast.Assign, ast.Delete)) and self.spec.effects:
                        for key_, _ in self.effects_for(x) or []:
                            if key_ not in assigned:
                                assigned.append(key_)
                    if isinstance(x, ast.Call):
                        try:
                            r_ = self.resolve_call(x, env1)
                        except Exception:  # noqa: BLE001
                            r_ = None
                        if r_ is not None and r_[0].state:
                            for key_ in r_[0].state:
                                if key_ not in assigned:
                                    assigned.append(key_)
            targets = self.target_names(s.target)
            state = [nm for nm in assigned if nm in env1 and nm not in targets and nm != iter_var]
            # attributes of the object first, in the order the spec lists them (so that swapping two
            # independent statements of the body does not permute the loop's arguments)
            order = {key_: i for i, key_ in enumerate(self.state_keys())}
            state = sorted([nm for nm in state if nm in order], key=lambda nm: order[nm]) + self.canon_locals([nm for nm in state if nm not in order])
            for nm in state:
                if env1[nm].ty == NONE:
                    self.bad(s, f"loop state {nm!r} is None before the loop: its type inside the loop is unknown")
            state_tys = [env1[nm].ty for nm in state]
            used = free_names(s.body)
            if self.spec.state:
                # a return / raise inside the loop hands back the whole object state
                used = used | set(self.state_keys())
            captured = [nm for nm in env1 if not nm.startswith("<") and nm in used and nm not in state and nm not in targets and env1[nm].ty != NONE and nm != iter_var]
            fname = f"{self.spec.name}.loop{self.nloops + 1}"
            self.nloops += 1  # (reserved now: a loop nested in the body takes the next number; released when this loop turns out to be a duplicate)
            reserved = self.nloops
            fuel_head = " fuel" if self.spec.needs_fuel else ""  # callees inside the body take the function's fuel
            head = fuel_head + self.opaque_args + "".join(" " + env1[nm].lean for nm in captured)
            lc = LoopCtx(fname, head, state, state_tys)
            lc.has_break = has_break
            lc.parent = loop
            st_ty0 = "Unit" if not state else " × ".join(lean_ty(t, False) for t in state_tys)
            if not has_break:
                lc.result_ty = f"Pre.Loop {_par(outer_ty)} {_par(st_ty0)}"
            if not has_break and self.spec.join_in_loops:
                # the statements after an `if` inside the body may be shared by a local function
                lc.join_ty = f"Pre.Loop {_par(outer_ty)} {_par(st_ty0)}"
            it_src = s.iter.args[0] if isinstance(s.iter, ast.Call) and isinstance(s.iter.func, ast.Name) and s.iter.func.id == "enumerate" and len(s.iter.args) == 1 else s.iter
            lc.iter_key = self.target_key(it_src, env1)
            if has_break:
                after_names = free_names(getattr(s, "_py2lean_rest", []))
                lc.exports = [nm for nm in targets + [x for x in assigned if x not in env1] if nm in after_names and nm not in state]
                if iter_var is not None:
                    lc.rest_expr = "(rest_.map fun p_ => p_.2)" if via_enum else "rest_"
            # --- auxiliary definition
            env_b = {nm: env1[nm] for nm in captured}
            for nm, ty in zip(state, state_tys):
                env_b[nm] = Var(env1[nm].lean, ty)
            if iter_var is not None:
                # inside the body the iterator is live; `xs[idx] = v` for the running index is allowed
                idx_name = s.target.elts[0].id if via_enum and isinstance(s.target, ast.Tuple) and isinstance(s.target.elts[0], ast.Name) else None
                v_ = env1[iter_var]
                env_b[iter_var] = Var(v_.lean, v_.ty, iter_of=v_.iter_of, exhausted=False, index_name=idx_name)
            pat_x = "x_"
            lines_bind = []
            if isinstance(s.target, ast.Name):
                pat_x = lean_name(s.target.id)
                env_b[s.target.id] = Var(pat_x, elt)
            else:
                for py, ln_, ty_, term in self.destructure(s.target, "x_", elt, s):
                    lines_bind.append(f"let {ln_} : {lean_ty(ty_)} := {term}")
                    env_b[py] = Var(ln_, ty_)
            # known-None variables stay known inside the body
            for nm, v in env1.items():
                if not nm.startswith("<") and v.ty == NONE and nm not in env_b:
                    env_b[nm] = v

            def k_body(env2, loop2):
                return self.loop_next(lc, env2, s)

            if iter_var is not None and iter_var in used:
                self.bad(s, f"the iterator {iter_var!r} is used inside the loop that consumes it")
            body_lines = self.block(s.body, env_b, lc, k_body)
            st_ty = "Unit" if not state else " × ".join(lean_ty(t, False) for t in state_tys)
            binders = (" " + self.implicit.strip() if self.implicit else "") + (" (fuel : Nat)" if self.spec.needs_fuel else "") + "".join(f" ({nm} : {ty})" for nm, ty in self.spec.opaque)
            binders += "".join(f" ({env1[nm].lean} : {lean_ty(env1[nm].ty)})" for nm in captured)
            if has_break:
                if lc.export_tys is None:
                    lc.export_tys = []
                    if lc.exports:
                        self.bad(s, "internal: break not reached")
                brk_items = [lean_ty(t, False) for t in state_tys + lc.export_tys] + ([f"(List {lean_ty(it.ty.args[0].args[1] if via_enum else elt, False)})"] if lc.rest_expr is not None else [])
                brk_ty = "Unit" if not brk_items else " × ".join(brk_items)
                res_ty = f"Pre.LoopB {_par(self.ret_lean_ty)} {_par(st_ty)} {_par(brk_ty)}"
            else:
                res_ty = f"Pre.Loop {_par(outer_ty)} {_par(st_ty)}"
            sig = " → ".join([f"List {lean_ty(elt, False)}"] + [lean_ty(t, True) for t in state_tys] + [res_ty])
            st_pats = "".join(", " + env1[nm].lean for nm in state)
            what = "`.ret r` = the function returned `r` inside the loop, `.fall st` = the loop ran to its end with loop state `st`"
            if has_break:
                what += ", `.brk (st…, vars read after the loop…, items not consumed)` = the loop was left by `break`"
            aux = [f"/-- the `{self.srcline(s)}` loop of `{self.spec.qualname}`: {what} -/", f"def {fname}{binders} : {sig}"]
            aux.append(f"  | []{st_pats} => .fall {self.state_tuple(lc, env_b, s)}")
            aux.append(f"  | {pat_x} :: rest_{st_pats} =>")
            aux += ["    " + ln for ln in lines_bind + body_lines]
            text = "\n".join(aux) + "\n"
            # the same loop reached on several paths (duplicated continuations) is emitted once
            # (temporaries are numbered per function: two copies that differ only in those numbers
            # are the same definition)
            import re as _re

            key = (id(s), _re.sub(r"\b([vrtcpx])\d+_", r"\1N_", text.replace(fname, "<loop>")))
            if key in self.loop_memo:
                old = self.loop_memo[key]
                lc.fname = old
                fname = old
                if self.nloops == reserved:
                    self.nloops -= 1
            else:
                self.loop_memo[key] = fname
                self.aux.append(text)
            # --- use
            init = "".join(" " + P(E(env1[nm].lean, env1[nm].ty, None, True)) for nm in state)
            call = f"{fname}{head} {P(it)}{init}"
            env_after = dict(env1)
            # the loop changed its state variables: facts about them no longer hold; the loop
            # target(s) keep the last item in Python - reading them after the loop is refused
            # (after a `break` the ones that are read are handed over explicitly)
            for nm in state:
                drop_facts(env_after, nm)
            for nm in targets:
                env_after.pop(nm, None)
                drop_facts(env_after, nm)
            if not state:
                fall_pat = "()"
            elif len(state) == 1:
                fall_pat = env1[state[0]].lean
            else:
                fall_pat = "(" + ", ".join(env1[nm].lean for nm in state) + ")"
            env_fall = dict(env_after)
            if iter_var is not None:
                v_ = env1[iter_var]
                env_fall[iter_var] = Var("([] : " + lean_ty(v_.ty) + ")", v_.ty, iter_of=v_.iter_of, exhausted=True)
            if not has_break:
                after = k(env_fall, loop)
                return [f"match {call} with", "| .ret r_ => r_", f"| .fall {fall_pat} =>"] + ind(after)
            # the else clause runs only when the loop was not left by `break`
            after_fall = self.comment(s, "else:  (of the for loop)") + self.block(s.orelse, env_fall, None, k) if s.orelse else k(env_fall, None)
            env_brk = dict(env_after)
            pats = [env1[nm].lean for nm in state]
            for nm, ty in zip(lc.exports, lc.export_tys):
                env_brk[nm] = Var(lean_name(nm), ty)
                pats.append(lean_name(nm))
            if lc.rest_expr is not None:
                v_ = env1[iter_var]
                env_brk[iter_var] = Var(v_.lean, v_.ty, iter_of=v_.iter_of, exhausted=False)
                pats.append(v_.lean)
            brk_pat = "()" if not pats else (pats[0] if len(pats) == 1 else "(" + ", ".join(pats) + ")")
            after_brk = k(env_brk, None)
            return [f"match {call} with", "| .ret r_ => r_", f"| .fall {fall_pat} =>"] + ind(after_fall) + [f"| .brk {brk_pat} =>"] + ind(after_brk)

        return self.comment(s) + self.guarded(s, env, loop, body)


# --------------------------------------------------------------------------
# AST helpers


def ind(lines, n=2):
    return [" " * n + ln for ln in lines]


def _is_atomic_text(s: str) -> bool:
    if not s:
        return False
    if s[0] == "(" and s[-1] == ")":
        depth = 0
        for i, ch in enumerate(s):
            depth += ch == "("
            depth -= ch == ")"
            if depth == 0 and i < len(s) - 1:
                return False
        return True
    if s[0] == "[" and s[-1] == "]":
        depth = 0
        for i, ch in enumerate(s):
            depth += ch == "["
            depth -= ch == "]"
            if depth == 0 and i < len(s) - 1:
                return False
        return True
    return all(ch.isalnum() or ch in "_.'" for ch in s)


def _par(t: str) -> str:
    return t if _is_atomic_text(t) else f"({t})"


def dotted(n):
    if isinstance(n, ast.Name):
        return n.id
    if isinstance(n, ast.Attribute):
        b = dotted(n.value)
        return None if b is None else b + "." + n.attr
    return None


def none_tested_names(test, bool_ctx=True):
    """names (incl. dotted self.attr) that occur in `is None` / `is not None` / truthiness position"""
    out = []

    def name_of(x):
        if isinstance(x, ast.Subscript) and isinstance(x.value, ast.Name) and isinstance(x.slice, ast.Constant) and type(x.slice.value) is int:
            return f"{x.value.id}[{x.slice.value}]"  # a component of a local tuple
        d = dotted(x)
        return d

    def boolpos(x):
        if isinstance(x, ast.BoolOp):
            for v in x.values:
                boolpos(v)
        elif isinstance(x, ast.UnaryOp) and isinstance(x.op, ast.Not):
            boolpos(x.operand)
        elif isinstance(x, (ast.Name, ast.Attribute, ast.Subscript)) and name_of(x) is not None:
            out.append(name_of(x))
        elif isinstance(x, ast.Compare):
            cmp_(x)
        elif isinstance(x, ast.IfExp):
            boolpos(x.test)
            anypos(x.body)
            anypos(x.orelse)
        else:
            anypos(x)

    def cmp_(x):
        operands = [x.left] + list(x.comparators)
        for i, op in enumerate(x.ops):
            if isinstance(op, (ast.Is, ast.IsNot)) and isinstance(operands[i + 1], ast.Constant) and operands[i + 1].value is None:
                d = name_of(operands[i])
                if d is not None:
                    out.append(d)
        for o in operands:
            anypos(o)

    def anypos(x):
        # look for nested boolean contexts inside arbitrary expressions
        if isinstance(x, ast.BoolOp):
            boolpos(x)
        elif isinstance(x, ast.UnaryOp) and isinstance(x.op, ast.Not):
            boolpos(x.operand)
        elif isinstance(x, ast.Compare):
            cmp_(x)
        elif isinstance(x, ast.IfExp):
            boolpos(x.test)
            anypos(x.body)
            anypos(x.orelse)
        else:
            for c in ast.iter_child_nodes(x):
                if isinstance(c, ast.expr):
                    anypos(c)

    if bool_ctx:
        boolpos(test)  # the test of an if: the whole expression is in boolean position
    else:
        anypos(test)  # a value: only the boolean contexts inside it
    return out


FACTS = "<facts>"


def _norm_test(n):
    """(key, polarity): `not X`, `a not in b`, `a != b`, `a is not b` are the negations of X,
    `a in b`, `a == b`, `a is b`"""
    pol = True
    while True:
        if isinstance(n, ast.UnaryOp) and isinstance(n.op, ast.Not):
            n, pol = n.operand, not pol
            continue
        if isinstance(n, ast.Compare) and len(n.ops) == 1:
            flip = {ast.NotIn: ast.In, ast.NotEq: ast.Eq, ast.IsNot: ast.Is}.get(type(n.ops[0]))
            if flip is not None:
                n = ast.Compare(left=n.left, ops=[flip()], comparators=n.comparators)
                pol = not pol
        break
    return ast.dump(n), pol, n


def add_fact(env, test, value: bool):
    if isinstance(test, ast.BoolOp) and value == isinstance(test.op, ast.And):
        # a true conjunction makes every conjunct true, a false disjunction every disjunct false
        for v in test.values:
            env = add_fact(env, v, value)
    key, pol, n = _norm_test(test)
    names = {x.id for x in ast.walk(n) if isinstance(x, ast.Name)}
    names |= {d for d in (dotted(x) for x in ast.walk(n) if isinstance(x, ast.Attribute)) if d}
    env2 = dict(env)
    facts = dict(env.get(FACTS, {}))
    facts[key] = (value == pol, names)
    env2[FACTS] = facts
    return env2


def lookup_fact(env, test):
    facts = env.get(FACTS)
    if not facts:
        return None
    key, pol, _ = _norm_test(test)
    if key in facts:
        v = facts[key][0]
        return v if pol else not v
    return None


def drop_facts(env, name):
    facts = env.get(FACTS)
    if facts:
        env[FACTS] = {k: v for k, v in facts.items() if name not in v[1]}


def names_read_before_written(stmts) -> set:
    """plain names whose value on entry may be read by these statements: every name that is loaded
    somewhere, except those that a statement at the top level of the sequence assigns
    unconditionally (plain assignment target / `for` target) before any statement loads them"""
    out, killed = set(), set()
    for st in stmts:
        loads = set()
        if isinstance(st, ast.Assign):
            loads = {x.id for x in ast.walk(st.value) if isinstance(x, ast.Name)}
            for t_ in st.targets:
                loads |= {x.id for x in ast.walk(t_) if isinstance(x, ast.Name) and isinstance(x.ctx, ast.Load)}
            stores = {x.id for t_ in st.targets for x in ast.walk(t_) if isinstance(x, ast.Name) and isinstance(x.ctx, ast.Store)}
        elif isinstance(st, ast.For):
            loads = {x.id for x in ast.walk(st.iter) if isinstance(x, ast.Name)}
            stores = {x.id for x in ast.walk(st.target) if isinstance(x, ast.Name)}
            inner = {x.id for b in st.body + st.orelse for x in ast.walk(b) if isinstance(x, ast.Name) and isinstance(x.ctx, ast.Load)}
            loads |= inner - stores
        else:
            loads = {x.id for x in ast.walk(st) if isinstance(x, ast.Name) and isinstance(x.ctx, ast.Load)}
            stores = set()
        out |= loads - killed
        killed |= stores
    return out


def own_breaks(stmts) -> bool:
    """does a `break` of this loop (not of a loop nested in it) occur in its body?"""
    def walk(x):
        if isinstance(x, ast.Break):
            return True
        if isinstance(x, (ast.For, ast.While, ast.FunctionDef)):
            # a nested loop's own breaks do not count, but its else clause belongs to this level
            return any(walk(y) for y in getattr(x, "orelse", []))
        return any(walk(c) for c in ast.iter_child_nodes(x))

    return any(walk(st) for st in stmts)


def assigned_names(stmts):
    out = []

    def add(n):
        if n not in out:
            out.append(n)

    for st in stmts:
        for x in ast.walk(st):
            if isinstance(x, ast.Name) and isinstance(x.ctx, ast.Store):
                add(x.id)
            elif isinstance(x, ast.AugAssign) and isinstance(x.target, ast.Name):
                add(x.target.id)
            elif isinstance(x, ast.Call) and isinstance(x.func, ast.Attribute) and x.func.attr in ("append", "add", "remove", "discard", "clear", "pop", "extend") and dotted(x.func.value) is not None:
                add(dotted(x.func.value))
            elif isinstance(x, (ast.Subscript, ast.Attribute)) and isinstance(x.ctx, (ast.Store, ast.Del)):
                d = dotted(x.value) if isinstance(x, ast.Subscript) else dotted(x)
                if d is not None:
                    add(d)
    return out


def free_names(nodes):
    out = set()
    for st in nodes:
        for x in ast.walk(st):
            if isinstance(x, ast.Name):
                out.add(x.id)
            elif isinstance(x, ast.Attribute):
                d = dotted(x)
                if d is not None:
                    out.add(d)
    return out


_MARK = "_py2lean_orig"


def _copy(node):
    """deep copy that remembers the identity of the original nodes"""
    import copy

    memo = {}
    new = copy.deepcopy(node, memo)
    for old_id, cp in list(memo.items()):
        if isinstance(cp, ast.AST):
            setattr(cp, _MARK, old_id)
    return new


class _Subst(ast.NodeTransformer):
    def __init__(self, target, repl):
        self.tid, self.repl = id(target), repl

    def generic_visit(self, node):
        if getattr(node, _MARK, None) == self.tid:
            return ast.copy_location(self.repl, node)
        return super().generic_visit(node)

    def visit(self, node):
        if getattr(node, _MARK, None) == self.tid:
            return ast.copy_location(self.repl, node)
        return super().visit(node)


# --------------------------------------------------------------------------


def translate(spec: Spec, repo=None) -> str:
    return Translator(spec, repo).translate()


def chain_matcher(*methods):
    """matcher for `X.m1(lit...).m2(lit...)`: methods = [(name, (literal args...)), ...] -> [X]"""

    def m(n):
        cur = n
        for name, lits in reversed(methods):
            if not (isinstance(cur, ast.Call) and isinstance(cur.func, ast.Attribute) and cur.func.attr == name and not cur.keywords):
                return None
            if len(cur.args) != len(lits) or not all(isinstance(a, ast.Constant) and a.value == v for a, v in zip(cur.args, lits)):
                return None
            cur = cur.func.value
        return [cur]

    return m
