#!/usr/bin/env python3
"""print the prompt given to an independent seeding sub-agent for one property (and create its worktree)"""
import json, subprocess, sys
pid, n = sys.argv[1], (sys.argv[2] if len(sys.argv) > 2 else "a")
p = [json.loads(l) for l in open('/verif/properties.jsonl') if json.loads(l)['id'] == pid][0]
wt = f"/tmp/seed-{pid}-{n}"
subprocess.run(["git", "-C", "/repo", "worktree", "add", "-q", "--detach", wt, "HEAD"], check=True)
rec = {k: p[k] for k in ('id', 'title', 'statement', 'quantifier', 'why_tests_cant', 'anchors')}
print(f"""You are testing how well a (hidden) verification setup detects subtle regressions in the Python library werkzeug (pallets/werkzeug, a pure-Python WSGI library). You have your own scratch git worktree of the repository at {wt} (work ONLY there; never touch /repo or /verif; do not look at /verif). Run python as `cd {wt} && PYTHONPATH={wt}/src /venv/bin/python ...` (this makes `import werkzeug` use your worktree; check with `python -c "import werkzeug; print(werkzeug.__file__)"`). The test suite runs with `cd {wt} && PYTHONPATH={wt}/src /venv/bin/python -m pytest -q -p no:cacheprovider -x -n 8` (947 tests, ~15 s).

Here is a semantic property the library is supposed to satisfy (JSON record):

{json.dumps(rec, indent=1)}

Your job: produce TWO different, realistic changes to werkzeug's source (under src/werkzeug/) each of which BREAKS this property while the code still imports/compiles and the ENTIRE existing test suite still passes unchanged. Each change should look like a plausible refactor, optimisation or "bug fix" a developer might commit — small (1–15 lines), no new files, no obviously malicious code, no test edits. Prefer changes that need something specific to manifest — an unusual input, a particular chunking/interleaving/schedule, a multi-step sequence of operations, a boundary value, or two cooperating edits that each look fine alone — rather than ones ordinary use would expose at once. The two changes should affect different mechanisms/code sites related to the property.

For each change deliver, in {wt}/out/<1|2>/:
  * patch.diff — `git diff` of the change against HEAD (apply-able with `git apply` at the repo root);
  * demo.py — a small standalone program (uses only werkzeug + stdlib; reads no files outside itself) that exits 0 and prints PASS on the unmodified tree and exits 1 printing FAIL with the concrete failing input/history on the changed tree; it must demonstrate a violation of THIS property (state which clause);
  * note.md — 5–10 lines: what the change is, which clause of the property it breaks, what it needs in order to manifest, and the exact commands you ran (full test suite result line included).
Verify yourself, for each change: (a) on a clean tree demo.py prints PASS; (b) with the patch applied the full test suite still passes (all 947, paste the summary line) and demo.py prints FAIL. Make change 1, save its outputs, `git checkout -- src` to return to a clean tree, then do change 2. Leave the worktree clean (only the out/ directory added) when you finish.

Final message: for each change the one-paragraph content of note.md. Do not include anything else.""")
