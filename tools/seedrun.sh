#!/bin/bash
# usage: tools/seedrun.sh <prop> <dir with patch.diff demo.py> [--no-suite]
# Confirms an independently produced breaking change in a scratch worktree (outside /repo and /verif):
# demo passes on the clean tree, the patch applies, the full suite still passes, the demo fails,
# and then runs ./check <prop> against the changed tree (WZ_REPO) and reports its verdict.
set -u
prop=$1; dir=$(readlink -f $2); nosuite=${3:-}
wt=/var/tmp/seedrun/$prop-$$
mkdir -p /var/tmp/seedrun
git -C /repo worktree add -q --detach $wt HEAD || exit 2
trap 'git -C /repo worktree remove --force $wt' EXIT
cd $wt
echo "== demo on clean tree"; PYTHONPATH=$wt/src /venv/bin/python $dir/demo.py > /dev/null 2>&1; echo "demo_clean_rc=$?"
git apply $dir/patch.diff || { echo "patch does not apply"; exit 2; }
if [ "$nosuite" != "--no-suite" ]; then
  echo "== full suite on changed tree"; PYTHONPATH=$wt/src /venv/bin/python -m pytest -q -p no:cacheprovider -n 8 2>&1 | tail -1
fi
echo "== demo on changed tree"; PYTHONPATH=$wt/src /venv/bin/python $dir/demo.py 2>&1 | tail -3; echo "demo_changed_rc=${PIPESTATUS[0]}"
# run the check from a private copy of /verif (own lean/.lake) so that generated tables built from
# the changed tree never leak into the build directory the other work uses
sv=/var/tmp/seedverif-$prop
mkdir -p $sv
exec 9> $sv.lock; flock 9   # one seed run per property at a time
if [ "${SEED_FROM_HEAD:-0}" = 1 ]; then
  # coordinator mode: test the committed state of /verif (builders may be mid-edit in the working tree)
  exp=/var/tmp/seedexport-$prop; rm -rf $exp; mkdir -p $exp
  git -C /verif archive HEAD | tar -x -C $exp
  if [ ! -d $sv/lean/.lake ]; then mkdir -p $sv/lean; flock /verif/lean/.lake.lock cp -a /verif/lean/.lake $sv/lean/; fi
  rsync -a --delete --exclude lean/.lake --exclude replays --exclude seeded $exp/ $sv/
  rm -rf $exp
else
  flock /verif/lean/.lake.lock rsync -a --delete --exclude .git --exclude replays --exclude seeded /verif/ $sv/
fi
cd $sv
echo "== ./check $prop (quick) on changed tree"; WZ_REPO=$wt ./check $prop --tier quick > $sv/last_check.log 2>&1
rc=$?
grep -E "^VIOLATION" $sv/last_check.log | head -3
grep -E "BROKEN|violation in|disagreement|no longer|status=" $sv/last_check.log | head -12
echo "check_rc=$rc"
