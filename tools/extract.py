#!/venv/bin/python
"""Translator entry point: /repo's current source -> lean/WzVerif/Gen/*.lean (see extract_lib.py)."""
import importlib
import os
import sys

HERE = os.path.dirname(os.path.abspath(__file__))
sys.path.insert(0, HERE)
import extract_lib  # noqa: E402
from extract_lib import GENERATORS  # noqa: E402

IMPORT_ERRORS = []
for fn in sorted(os.listdir(os.path.join(HERE, "gen"))):
    if fn.endswith(".py") and not fn.startswith("_"):
        try:
            importlib.import_module("gen." + fn[:-3])
        except Exception as e:  # a broken generator module must not take the others down
            IMPORT_ERRORS.append(f"{fn}: {type(e).__name__}: {e}")


def main(argv):
    names = argv or list(GENERATORS)
    changed = []
    for e in IMPORT_ERRORS:
        print("extract: generator module failed to import:", e)
    if IMPORT_ERRORS and not argv:
        sys.exit(1)
    for n in names:
        if n not in GENERATORS:
            print("extract: unknown generator", n)
            sys.exit(1)
        if GENERATORS[n]():
            changed.append(n)
    print("extract: regenerated", ",".join(changed) if changed else "nothing (up to date)")


if __name__ == "__main__":
    main(sys.argv[1:])
