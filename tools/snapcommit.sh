#!/bin/bash
# usage: tools/snapcommit.sh "<commit message>" [seed]
# Coordinator tool for rounds in which several builders edit /verif at once: take a snapshot of the
# working tree, validate it as a whole (extract + full lake build + all claimed checks, quick tier),
# and commit exactly the validated snapshot (evidence/ excluded: evidence is only ever committed from
# runs in /verif itself). Leaves /verif's working tree untouched.
set -u
msg=$1; seed=${2:-0}
snap=/var/tmp/snap
mkdir -p $snap
flock /verif/lean/.lake.lock rsync -a --delete --exclude .git --exclude replays --exclude evidence /verif/ $snap/
cd $snap || exit 2
mkdir -p evidence replays
/venv/bin/python tools/extract.py > $snap.extract.log 2>&1 || { echo "snapcommit: extract failed"; tail -5 $snap.extract.log; exit 1; }
(cd lean && lake build > $snap.build.log 2>&1) || { echo "snapcommit: full lake build failed"; grep -E "^error|error:" $snap.build.log | head -20; exit 1; }
fail=0
for p in $(cat tools/claimed.txt); do
  (VERIF_SEED=$seed ./check $p --tier quick > $snap.$p.log 2>&1; echo "$p rc=$?" > $snap.$p.rc) &
done
wait
for p in $(cat tools/claimed.txt); do
  rc=$(cat $snap.$p.rc)
  case "$rc" in *rc=0) ;; *) echo "snapcommit: $rc"; grep -E "VIOLATION|BROKEN|violation in|disagreement|infrastructure|Traceback" $snap.$p.log | head -5; fail=1;; esac
done
[ $fail = 0 ] || { echo "snapcommit: not committed"; exit 1; }
/venv/bin/python tools/manifest.py > /dev/null || exit 1
export GIT_DIR=/verif/.git GIT_WORK_TREE=$snap GIT_INDEX_FILE=$snap.index
rm -f $GIT_INDEX_FILE
git read-tree HEAD
git add -A -- . ':!evidence'
git commit -q -m "$msg" && echo "snapcommit: committed $(git rev-parse --short HEAD)"
unset GIT_DIR GIT_WORK_TREE GIT_INDEX_FILE
git -C /verif reset -q
# the regenerated MANIFEST.json belongs to the validated state
cp $snap/MANIFEST.json /verif/MANIFEST.json
