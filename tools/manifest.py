#!/venv/bin/python
"""Regenerate MANIFEST.json from the harness modules (harness/cNN.py: CHECK + MANIFEST)."""
import importlib
import json
import os
import sys

HERE = os.path.dirname(os.path.dirname(os.path.abspath(__file__)))
sys.path.insert(0, HERE)
ids = [json.loads(l)["id"] for l in open(os.path.join(HERE, "properties.jsonl"))]
# properties whose check the coordinator has validated on the unchanged tree (seeds 0..4)
claimed = set(open(os.path.join(HERE, "tools", "claimed.txt")).read().split())
checks, na = [], []
for pid in ids:
    if pid not in claimed:
        na.append({"property_id": pid, "reason": "check under construction, not yet validated on the unchanged tree (DESIGN.md section 4 plans a Lean model + proof for it; nothing makes the technique inapplicable)"})
        continue
    try:
        mod = importlib.import_module("harness." + pid.lower())
        m = mod.MANIFEST
    except (ModuleNotFoundError, AttributeError):
        na.append({"property_id": pid, "reason": "check not built yet (construction in progress; DESIGN.md section 4 plans a Lean model + proof for it)"})
        continue
    if m.get("not_applicable"):
        na.append({"property_id": pid, "reason": m["not_applicable"]})
        continue
    checks.append({
        "property_id": pid,
        "quick_cmd": f"./check {pid} --tier quick",
        "thorough_cmd": f"./check {pid} --tier thorough",
        "evidence_file": f"/verif/evidence/{pid}.json",
        "replay_cmd_template": f"./check {pid} --replay {{path}}",
        "engine": "wzverif",
        "level_claimed": {"category": "proof", "text": m["level_text"], "design_ref": m.get("design_ref", "DESIGN.md section 4")},
        "level_note": m["level_note"],
        "technique": m["technique"],
    })
man = {
    "version": 1,
    "setup_cmd": "cd /verif && tools/setup.sh",
    "hooks": {
        "guard": "WERKZEUG_VERIF",
        "enable": "no source hooks: checks observe werkzeug through its public API, instrumented stream objects and spy callbacks supplied by the harness",
        "baseline_off_cmd": "cd /repo && /venv/bin/python -m pytest -ra -q -p no:cacheprovider --timeout=900 --continue-on-collection-errors",
        "source_commits": [],
        "add_only": True,
    },
    "engines": [{"name": "wzverif", "path": "/verif/check", "serves_properties": [c["property_id"] for c in checks],
                 "kind_free_text": "Lean 4 proofs over generated + hand-written models (lean/), tied to /repo by tools/extract.py and the correspondence harness (vlib/, harness/)"}],
    "checks": checks,
    "notes": "See DESIGN.md. Fix commits in /repo are listed in known_findings.txt (fixed: lines).",
    "not_applicable": na,
}
json.dump(man, open(os.path.join(HERE, "MANIFEST.json"), "w"), indent=1)
print(f"MANIFEST.json: {len(checks)} checks, {len(na)} not claimed")
