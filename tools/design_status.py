#!/usr/bin/env python3
"""Regenerate the machine-written part of DESIGN.md section 8 from evidence/*.json, seeded/*/meta.json
and known_findings.txt (between the markers <!-- STATUS:BEGIN --> and <!-- STATUS:END -->)."""
import json, os, re
os.chdir('/verif')
ids = [json.loads(l)['id'] for l in open('properties.jsonl')]
out = []
out.append('| prop | theorems (all audited: axioms ⊆ propext, Classical.choice, Quot.sound) | correspondence / oracle cases per quick run | known findings | seeded changes |')
out.append('|---|---|---|---|---|')
known = {}
for l in open('known_findings.txt'):
    m = re.match(r'known: property=(\S+) key=(\S+)', l)
    if m: known.setdefault(m.group(1), []).append(m.group(2))
seeds = {}
for d in sorted(os.listdir('seeded')):
    mp = os.path.join('seeded', d, 'meta.json')
    if os.path.exists(mp):
        m = json.load(open(mp)); seeds.setdefault(m['property'], []).append(f"{d}: {m.get('check_verdict','?')}")
for pid in ids:
    ep = f'evidence/{pid}.json'
    if not os.path.exists(ep):
        out.append(f'| {pid} | (no evidence yet) | | | |'); continue
    e = json.load(open(ep)); c = e['coverage']
    full = c.get('theorems', [])
    groups = {}
    for t in full:
        parts = t.split('.')
        groups.setdefault(parts[-2] if len(parts) > 1 else '?', []).append(parts[-1])
    # names of the property theorems proper (Props/Cxx.lean); for the translated-definition modules
    # (CxxT*, C03L) only the count - their names are in the evidence file
    cell = []
    for g, names in groups.items():
        if g == pid:
            cell.append(f"{len(names)}: " + ', '.join(f'`{t}`' for t in names))
        else:
            cell.append(f"+ {len(names)} in `Props/{g}`")
    th = full
    st = '; '.join(f"{k}: {v.get('evaluations',0)}" for k, v in c.get('streams', {}).items())
    sv = seeds.get(pid, [])
    caught = sum(1 for x in sv if x.endswith('CAUGHT'))
    sd = f"{caught} of {len(sv)} caught" + ('' if caught == len(sv) else ' (' + '; '.join(x for x in sv if not x.endswith('CAUGHT')) + ')')
    out.append(f"| {pid} | {len(th)} obligations — " + ' '.join(cell) + f" | {st} | {', '.join(known.get(pid, [])) or '—'} | {sd} |")
txt = '\n'.join(out)
s = open('DESIGN.md').read()
if '<!-- STATUS:BEGIN -->' in s:
    s = re.sub(r'<!-- STATUS:BEGIN -->.*<!-- STATUS:END -->', lambda m: '<!-- STATUS:BEGIN -->\n' + txt + '\n<!-- STATUS:END -->', s, flags=re.S)
    open('DESIGN.md', 'w').write(s)
print(txt[:3000])
