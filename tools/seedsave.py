#!/usr/bin/env python3
"""seedsave.py <prop> <n> <srcdir> <needs> <caught_by> : store a confirmed seeded change under /verif/seeded/<prop>-<n>/"""
import json, os, shutil, sys
prop, n, src, needs, caught = sys.argv[1:6]
d = f"/verif/seeded/{prop}-{n}"
os.makedirs(d, exist_ok=True)
for f in ("patch.diff", "demo.py", "note.md"):
    if os.path.exists(os.path.join(src, f)):
        shutil.copy(os.path.join(src, f), os.path.join(d, f))
meta = {
    "property": prop,
    "breaks": open(os.path.join(src, "note.md")).read()[:1500] if os.path.exists(os.path.join(src, "note.md")) else "",
    "needs_to_manifest": needs,
    "confirmed": "tools/seedrun.sh %s %s: demo passes on the clean tree; patch applies; full suite 947 passed on the changed tree; demo fails on the changed tree" % (prop, d),
    "check_verdict": caught,
    "ran": [f"tools/seedrun.sh {prop} seeded/{prop}-{n}", f"git -C /repo apply seeded/{prop}-{n}/patch.diff && ./check {prop}; git -C /repo checkout -- ."],
}
json.dump(meta, open(os.path.join(d, "meta.json"), "w"), indent=1)
print("saved", d)
